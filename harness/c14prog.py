"""C14 (c) — program level: the real `FormatInfer.analyze` on generated @fp.fpy programs with pinned
contexts / argument formats; a tracing subclass of the bytecode compiler records the run-time value
of every expression; each value must be a member (Spec reading, harness/c14.py) of the format
inferred for that expression, and the function result of `fn_fmt.ret_fmt`.  Plus `elim_round`
end-to-end: a rounding the transformation deletes must not change any result.
"""
from __future__ import annotations
import ast as pyast, importlib.util, itertools, os, shutil, signal, sys, tempfile, traceback
from fractions import Fraction
import fpy2 as fp
from fpy2.number import Float, RealFloat
from fpy2.analysis import FormatInfer
from fpy2.analysis.format_infer import AbstractFormat, FunctionFormat, SetFormat, TupleFormat, ListFormat
from fpy2.analysis.format_infer.analysis import NegZero, Special
from fpy2.interpret.byte import BytecodeCompiler
from fpy2.interpret.value import to_value, from_value
from fpy2.number.context.format import Format
from fpy2.number.context.real import RealFormat
from fpy2.number.context.ieee754 import IEEEFormat
from fpy2.number.context.fixed import FixedFormat
from fpy2.number.context.mp_fixed import MPFixedFormat
from fpy2.number.context.mpb_fixed import MPBFixedFormat
from fpy2.number.context.mp_float import MPFloatFormat
from fpy2.number.context.mps_float import MPSFloatFormat
from fpy2.number.context.mpb_float import MPBFloatFormat

# ---------------------------------------------------------------------------
# Spec reading of a concrete Format: (prec, exp, pos, neg, flags) as in c14.py, 'real', or None

def _rfd(x: RealFloat): return ('fin', bool(x.s), int(x.exp), int(x.c))

def fmt_desc(fmt):
    """what set of values a concrete format object describes, from its published parameters"""
    if isinstance(fmt, RealFormat): return 'real'
    if isinstance(fmt, IEEEFormat):
        es, nbits = fmt.es, fmt.nbits
        p = nbits - es; emax = (1 << (es - 1)) - 1; emin = 1 - emax
        mx = ('fin', False, emax - p + 1, (1 << p) - 1)
        return (p, emin - p + 1, mx, ('fin', True, mx[2], mx[3]), (True, True, True, True))
    if isinstance(fmt, MPFloatFormat):
        return (fmt.pmax, None, '+oo', '-oo', (fmt.enable_inf, fmt.enable_inf, fmt.enable_nan, True))
    if isinstance(fmt, MPSFloatFormat):
        return (fmt.pmax, fmt.emin - fmt.pmax + 1, '+oo', '-oo', (fmt.enable_inf, fmt.enable_inf, fmt.enable_nan, True))
    if isinstance(fmt, MPBFloatFormat):
        return (fmt.pmax, fmt.emin - fmt.pmax + 1, _rfd(fmt.pos_maxval), _rfd(fmt.neg_maxval),
                (fmt.enable_inf, fmt.enable_inf, fmt.enable_nan, True))
    if isinstance(fmt, FixedFormat):
        lo = -(1 << (fmt.nbits - 1)) if fmt.signed else 0
        hi = (1 << (fmt.nbits - 1)) - 1 if fmt.signed else (1 << fmt.nbits) - 1
        return (None, fmt.scale, ('fin', False, fmt.scale, hi), ('fin', lo < 0, fmt.scale, abs(lo)), (False, False, False, False))
    if isinstance(fmt, MPBFixedFormat):
        return (None, fmt.nmin + 1, _rfd(fmt.pos_maxval), _rfd(fmt.neg_maxval),
                (fmt.enable_inf, fmt.enable_inf, fmt.enable_nan, fmt.enable_neg_zero))
    if isinstance(fmt, MPFixedFormat):
        return (None, fmt.nmin + 1, '+oo', '-oo', (fmt.enable_inf, fmt.enable_inf, fmt.enable_nan, fmt.enable_neg_zero))
    return None

def to_v(C, x):
    """run-time scalar -> Spec value (c14.py encoding), or None if not a number"""
    if isinstance(x, bool): return None
    if isinstance(x, Float): return C.v_of_float(x)
    if isinstance(x, RealFloat):
        if x.c == 0: return ('z', bool(x.s))
        q = Fraction(x.c) * Fraction(2) ** x.exp
        return -q if x.s else q
    if isinstance(x, int): return ('z', False) if x == 0 else Fraction(x)
    if isinstance(x, Fraction): return ('z', False) if x == 0 else x
    if isinstance(x, float): return C.v_of_float(Float.from_float(x))
    return None

def dyadic(q: Fraction): return q.denominator & (q.denominator - 1) == 0

_SET_CACHE: dict = {}
_SITE_CACHE: dict = {}
_DESC_CACHE: dict = {}

def bound_member(C, fb, val, rep):
    """is the run-time value `val` described by the inferred FormatBound `fb`?  None = not judged"""
    if fb is None: return None
    if isinstance(fb, TupleFormat):
        if not isinstance(val, (tuple, list)) or len(val) != len(fb.elts): return None
        rs = [bound_member(C, f, v, rep) for f, v in zip(fb.elts, val)]
        return None if all(r is None for r in rs) else all(r is not False for r in rs)
    if isinstance(fb, ListFormat):
        if not isinstance(val, (tuple, list)): return None
        rs = [bound_member(C, fb.elt, v, rep) for v in val]
        return None if all(r is None for r in rs) else all(r is not False for r in rs)
    v = to_v(C, val)
    if v is None: return None
    if isinstance(fb, SetFormat):
        key = id(fb)
        members = _SET_CACHE.get(key)
        if members is None or members[0] is not fb:
            ms = set()
            for m in fb.values:
                if isinstance(m, NegZero): ms.add(('z', True))
                elif isinstance(m, Special): ms.add({Special.POS_INF: 'pinf', Special.NEG_INF: 'ninf', Special.NAN: 'nan'}[m])
                elif isinstance(m, Fraction): ms.add(('z', False) if m == 0 else m)
            members = (fb, ms)
            _SET_CACHE[key] = members
        return v in members[1]
    if isinstance(fb, Format):
        ent = _DESC_CACHE.get(id(fb))
        if ent is None or ent[0] is not fb:
            ent = (fb, fmt_desc(fb)); _DESC_CACHE[id(fb)] = ent
        d = ent[1]
        if d == 'real': return True
        if d is None:
            rep.count('prog:format-read-by-representable_in')
            try: return bool(fb.representable_in(C.v_float(v)))
            except Exception: return None   # noqa
        if isinstance(v, Fraction) and not dyadic(v): return False
        return C.spec_member(d, v)
    return None

# ---------------------------------------------------------------------------
# tracing compiler

class TracingCompiler(BytecodeCompiler):
    """wraps every compiled expression `e` into `__c14_trace(k, e)`; the sink gets (Expr, value)"""
    def __init__(self, func, env, sink):
        super().__init__(func, env)
        self._exprs = []
        self._sink = sink
    def _visit_expr(self, e, ctx):
        node = super()._visit_expr(e, ctx)
        if not isinstance(node, pyast.expr): return node
        k = len(self._exprs); self._exprs.append(e)
        call = pyast.Call(func=pyast.Name(id='__c14_trace', ctx=pyast.Load()), args=[pyast.Constant(value=k), node], keywords=[])
        pyast.copy_location(call, node)
        pyast.fix_missing_locations(call)
        return call
    def compile(self):
        exprs, sink = self._exprs, self._sink
        def snap(v):      # lists are mutable (indexed stores): record the value as it is NOW
            if isinstance(v, list): return [snap(x) for x in v]
            if isinstance(v, tuple): return tuple(snap(x) for x in v)
            return v
        def trace(k, v):
            sink(exprs[k], snap(v))
            return v
        self.foreign_vals['__c14_trace'] = trace
        return super().compile()

class RunTimeout(Exception):
    pass

RUN_TIMEOUT = 0.5      # seconds per traced run; a program that exceeds it three times is not run further

def _alarm(signum, frame):
    raise RunTimeout()

def run_traced(func, args, ctx, sink, cache={}):
    key = id(func.ast)
    if key not in cache:
        box = []
        cache[key] = (TracingCompiler(func.ast, func.env, lambda e, v: box[0](e, v)).compile(), box, func)
    fn, box, _ = cache[key]
    box[:] = [sink]
    old = signal.signal(signal.SIGALRM, _alarm)
    signal.setitimer(signal.ITIMER_REAL, RUN_TIMEOUT)
    try:
        res = fn(*tuple(to_value(a) for a in args), __ctx__=ctx)
    finally:
        signal.setitimer(signal.ITIMER_REAL, 0)
        signal.signal(signal.SIGALRM, old)
    return from_value(res)

# ---------------------------------------------------------------------------
# generated programs

CTX_SRC = {
    'R': 'fp.REAL', 'I': 'fp.INTEGER', 'S8': 'fp.SINT8', 'U8': 'fp.UINT8', 'S4': 'fp.FixedContext(True, 0, 4)',
    'FX': 'fp.FixedContext(True, -2, 6)', 'E4': 'fp.IEEEContext(2, 4)', 'E6': 'fp.IEEEContext(3, 6)', 'H': 'fp.FP16', 'F': 'fp.FP32',
    'M1': 'fp.MPFloatContext(1)', 'M2': 'fp.MPFloatContext(2)', 'M3': 'fp.MPFloatContext(3)', 'M11': 'fp.MPFloatContext(11)',
    'MS': 'fp.MPSFloatContext(3, -2)', 'MB': 'MPBFloatContext(5, -4, RealFloat.from_int(31))',
    'MB3': 'MPBFloatContext(3, -4, RealFloat.from_int(112))', 'MBF': 'MPBFixedContext(-1, RealFloat.from_int(9), fp.RM.RNE, fp.OV.SATURATE)',
}

HEADER = '''import fpy2 as fp
from fpy2.number import RealFloat
from fpy2.number.context.mpb_float import MPBFloatContext
from fpy2.number.context.mpb_fixed import MPBFixedContext
''' + ''.join(f'{k} = {v}\n' for k, v in CTX_SRC.items()) + '''
@fp.fpy
def h_sq(a: fp.Real):
    with E6:
        r = a * a
    return r

@fp.fpy
def h_min(a: fp.Real, b: fp.Real):
    with fp.REAL:
        if a < b:
            r = a
        else:
            r = b
    return r

@fp.fpy
def h_scale(a: fp.Real):
    with fp.REAL:
        r = a * 4 + 1
    return r

@fp.fpy
def h_dbl(a: fp.Real):
    r = a + a
    return r
'''

# (kind, number of arguments, body with {C1} {C2} placeholders)
TEMPLATES = [
    ('real-chain', 2, '''    with fp.REAL:
        a = x + y
        b = a * x
        c = -b
        d = abs(c)
        e = d - y
    return e
'''),
    ('real-neg-abs-mul', 1, '''    with fp.REAL:
        a = -x
        b = abs(x)
        c = a * b
    return c
'''),
    ('real-neg', 1, '''    with fp.REAL:
        a = -x
    return a
'''),
    ('real-abs', 1, '''    with fp.REAL:
        a = abs(x)
    return a
'''),
    ('real-mul', 2, '''    with fp.REAL:
        a = x * y
    return a
'''),
    ('ctx-ops', 2, '''    with {C1}:
        a = -x
        b = x + y
        c = abs(y)
        d = b * c
    return d
'''),
    ('ctx-neg', 1, '''    with {C1}:
        a = -x
    return a
'''),
    ('round-chain', 1, '''    with {C1}:
        a = fp.round(x)
    with {C2}:
        b = fp.round(a)
        c = a + b
    return c
'''),
    ('branch-join', 2, '''    if x < y:
        with {C1}:
            t = fp.round(x)
    else:
        with {C2}:
            t = fp.round(y)
    with fp.REAL:
        u = t + t
    return u
'''),
    ('branch-refine', 1, '''    with fp.REAL:
        if x < 4:
            t = x
        else:
            t = 4
        if t > -2:
            u = t * t
        else:
            u = -t
    return u
'''),
    ('ifexpr', 2, '''    with {C1}:
        t = (x if x > y else y)
        u = t * x
    return u
'''),
    ('for-known-real', 1, '''    with fp.REAL:
        acc = x
        for i in range(3):
            acc = acc + x
    return acc
'''),
    ('for-known-mul', 1, '''    with fp.REAL:
        acc = 1
        s = 0
        for i in range(4):
            acc = acc * x
            s = s + acc
    return s
'''),
    ('for-ctx', 2, '''    with {C1}:
        acc = y
        for i in range(4):
            acc = acc * x + y
    return acc
'''),
    ('while-widen', 1, '''    with fp.REAL:
        acc = x
        n = 0
        while n < 12:
            acc = acc + x
            n = n + 1
    return acc
'''),
    ('calls', 2, '''    with fp.REAL:
        u = h_sq(x)
        v = h_sq(y)
        w = h_min(u, x) + h_min(y, v)
        z = h_scale(x) - h_scale(w)
    return z
'''),
    ('calls-ctx', 2, '''    with {C1}:
        u = h_dbl(x)
        v = h_dbl(y)
        w = h_dbl(u) + v
    with fp.REAL:
        z = h_dbl(w) + h_scale(u)
    return z
'''),
    ('lists', 2, '''    with fp.REAL:
        xs = [x, y, x * y]
        t = xs[1]
        s = sum(xs)
        ys = [q + 1 for q in xs]
        acc = 0
        for q in ys:
            acc = acc + q
        m = max(x, y) + min(x, y)
        zs = [x for i in range(3)]
        zs[1] = y
        e = zs[2] + zs[1]
    return acc + m + e + t + s
'''),
    ('lists-ctx', 2, '''    with {C1}:
        xs = [x + y, x * y, y]
        ys = [q * x for q in xs]
        s = sum(ys)
        acc = x
        for q in xs:
            acc = acc + q
        t = ys[0]
    with fp.REAL:
        z = s + acc + t
    return z
'''),
    ('set-arith', 1, '''    with fp.REAL:
        k = 3
        b = k * 0.5 - 2
        c = b * x
        d = (k if x > 1 else -k)
        e = d * b + c
        g = abs(d) - k
    with {C1}:
        h = e * 0.1
    return h + g
'''),
    ('one-sided-overflow', 1, '''    with {C1}:
        a = -x
        b = fp.round(x)
        c = x + x
    with fp.REAL:
        d = a + b + c
    return d
'''),
    ('select', 2, '''    with fp.REAL:
        m = min(x, y)
        n = max(x, y)
        c = min(max(x, -3), 8)
        d = max(min(y, x, 4), -8)
    return m + n + c + d
'''),
    ('while-ctx', 2, '''    acc = x
    n = 0
    while n < 5 and acc < y:
        with {C1}:
            acc = acc + acc + 1
        with fp.REAL:
            n = n + 1
    return acc
'''),
]

ARG_CTXS = ['S8', 'U8', 'S4', 'I', 'FX', 'E4', 'E6', 'MS', 'MB', 'M2', 'M3', 'H', 'F']
ONE_SIDED = [('U8', 'S8'), ('S8', 'U8'), ('U8', 'MBF'), ('S4', 'U8'), ('MB', 'MBF'), ('I', 'S8'), ('S4', 'S8'), ('FX', 'S4')]   # (argument, scope)
OP_CTXS = ['E4', 'E6', 'MS', 'MB', 'MB3', 'M1', 'M2', 'M3', 'M11', 'S8', 'S4', 'FX', 'I', 'H', 'F', 'MBF']

def arg_values(C, R, ctx, cap):
    """values representable in the argument format: zeros, specials, window candidates, extremes"""
    fmt = ctx.format()
    d = fmt_desc(fmt)
    vals = []
    cands = [('z', False), ('z', True), 'pinf', 'ninf', 'nan'] + C._CAND
    if isinstance(d, tuple):
        for b in (d[2], d[3]):
            if isinstance(b, tuple) and b[3] != 0:
                q = Fraction(b[3]) * Fraction(2) ** b[2]
                cands.append(-q if b[1] else q)
    if ctx is fp.FP32:
        cands += [Fraction(8388609, 8388608), Fraction(-16777215, 8388608), Fraction(3, 1 << 149)]
    for v in cands:
        try:
            if not fmt.representable_in(C.v_float(v)): continue
        except Exception:   # noqa
            continue
        if isinstance(d, tuple) and not C.spec_member(d, v):
            continue   # the code's own membership disagrees with the Spec reading: not an admissible input
        vals.append(v)
    sp = [v for v in vals if not isinstance(v, Fraction)]
    fr = [v for v in vals if isinstance(v, Fraction)]
    if len(fr) > cap:
        fr.sort()
        keep = [fr[0], fr[1], fr[-1], fr[-2]] + [q for q in fr if abs(q) <= 2][:6]
        rest = [q for q in fr if q not in keep]
        R.shuffle(rest)
        fr = keep + rest[: cap - len(keep)]
    return sp + fr

def _af_desc_of(C, fb):
    """abstract descriptor of an inferred scalar bound through the REAL from_format, or None"""
    try:
        if isinstance(fb, Format): return C.af_desc(AbstractFormat.from_format(fb))
    except Exception:   # noqa
        pass
    return None

def _le_via_f10(C, da, db):
    """the real `a <= b` is True and went through the skipped precision test"""
    if da is None or db is None or not C.f10_path(da, db): return False
    try: return bool(C.af_obj(da) <= C.af_obj(db))
    except Exception: return False   # noqa

def classify(C, kind, e, d, v, info, du=None):
    """(finding id, shape) for the FIRST value of a run missed by an inferred format; the shape names the class
    of the value and the operation at the site.  F10 only when the site's format was obtained from an
    `a <= b` answered True through the `other.exp = -inf` path: a Round/Cast whose argument format is
    `<=` the scope's, an if-expression / branch join whose one side is `<=` the other."""
    op = 'return' if isinstance(e, str) else type(e).__name__
    fb0 = None if isinstance(e, str) else info.by_expr.get(e)
    if isinstance(v, tuple):
        # F29 exactly: the site is a negation / product whose exact abstract result (AbstractFormat.__neg__ /
        # __mul__ on the operand formats) has no negative zero
        try:
            if op in ('Neg', 'Mul'):
                import operator
                from fpy2.analysis.format_infer import exact_binop, exact_unop
                ex = exact_unop(info.by_expr.get(e.arg), operator.neg) if op == 'Neg' else \
                    exact_binop(info.by_expr.get(e.first), info.by_expr.get(e.second), operator.mul)
                if isinstance(ex, AbstractFormat) and not ex.has_neg_zero:
                    return 'F29', 'prog-negative-zero-from-exact-neg-or-mul'
        except Exception:   # noqa
            pass
        if op == 'Sum' and type(e.arg).__name__ == 'ListExpr' and len(e.arg.elts) == 1:
            return 'C14-sum1', 'prog-sum-of-one-element-is-not-rounded'
        if op == 'Var' and isinstance(fb0, SetFormat) and fb0.values == frozenset({Fraction(0)}) and du is not None:
            try:
                from fpy2.analysis.reaching_defs import AssignDef, PhiDef
                dd = du.find_def_from_use(e)
                if not isinstance(dd, (AssignDef, PhiDef)) or getattr(dd, 'site', None) is info.func:
                    # C14-capnegzero exactly: a captured Python float -0.0 is bound as Fraction(0)
                    return 'C14-capnegzero', 'prog-captured-python-negative-zero'
            except Exception:   # noqa
                pass
        return None, f'prog-negative-zero-missed-at-{op}'
    fb0 = None if isinstance(e, str) else info.by_expr.get(e)
    if isinstance(fb0, SetFormat) and fb0.values and all(isinstance(m, NegZero) or m == 0 for m in fb0.values) and v in ('pinf', 'ninf', 'nan'):
        # C14-zeroonly exactly: `_materialize_in_scope` reports a zero-bounded format as the set of its zeros and drops has_nan / has_inf
        return 'C14-zeroonly', 'prog-zero-only-set-drops-specials'
    if v in ('pinf', 'ninf', 'nan'): return None, f'prog-special-missed-at-{op}'
    try:
        if op == 'Sum' and type(e.arg).__name__ == 'ListExpr' and len(e.arg.elts) == 1:
            # C14-sum1 exactly: the sum of a one-element list is that element, unrounded, but is given the scope's format
            return 'C14-sum1', 'prog-sum-of-one-element-is-not-rounded'
        if op in ('Min', 'Max'):
            # C14-select exactly: `exact_select` tightens with the bound of an operand that may be the far infinity
            from fpy2.analysis.format_infer.analysis import _to_abstract
            ops_af = []
            for a in e.args:
                try: ops_af.append(C.af_desc(_to_abstract(info.by_expr.get(a))))
                except Exception: ops_af.append(None)   # noqa
            if all(o is not None for o in ops_af) and any(o[4][0 if op == 'Min' else 1] for o in ops_af):
                joined_ok = any(C.spec_member(o, v) for o in ops_af)
                if joined_ok: return 'C14-select', 'prog-select-bound-from-operand-that-may-be-inf'
        if op in ('Round', 'Cast'):
            scope = info.ctx_use.find_scope_from_use(e).ctx
            if _le_via_f10(C, _af_desc_of(C, info.by_expr.get(e.arg)), _af_desc_of(C, scope.format())):
                return 'F10', 'prog-le-skips-precision-when-exp-unbounded'
        if op == 'IfExpr':
            d1, d2 = _af_desc_of(C, info.by_expr.get(e.ift)), _af_desc_of(C, info.by_expr.get(e.iff))
            if _le_via_f10(C, d1, d2) or _le_via_f10(C, d2, d1):
                return 'F10', 'prog-le-skips-precision-when-exp-unbounded'
        if op in ('Add', 'Sub', 'Mul', 'Neg', 'Abs'):
            # `_bound_if_fits(e, exact)`: identity claimed when `exact <= scope`
            import operator
            from fpy2.analysis.format_infer import exact_binop, exact_unop
            if op in ('Neg', 'Abs'):
                ex = exact_unop(info.by_expr.get(e.arg), operator.neg if op == 'Neg' else abs)
            else:
                ex = exact_binop(info.by_expr.get(e.first), info.by_expr.get(e.second),
                                 {'Add': operator.add, 'Sub': operator.sub, 'Mul': operator.mul}[op])
            scope = info.ctx_use.find_scope_from_use(e).ctx
            if isinstance(ex, AbstractFormat) and scope is not fp.REAL and \
                    _le_via_f10(C, C.af_desc(ex), _af_desc_of(C, scope.format())):
                return 'F10', 'prog-le-skips-precision-when-exp-unbounded'
        if op == 'Var' and du is not None:
            from fpy2.analysis.reaching_defs import PhiDef
            dd = du.find_def_from_use(e)
            if isinstance(dd, PhiDef):
                d1 = _af_desc_of(C, info.by_def.get(du.defs[dd.lhs])); d2 = _af_desc_of(C, info.by_def.get(du.defs[dd.rhs]))
                if _le_via_f10(C, d1, d2) or _le_via_f10(C, d2, d1):
                    return 'F10', 'prog-le-skips-precision-when-exp-unbounded'
    except Exception:   # noqa
        pass
    if kind == 'branch-join' and op in ('Var', 'return') and isinstance(d, tuple) and d[0] is not None and d[1] is None \
            and isinstance(v, Fraction) and dyadic(v) and not C.spec_writable(d[0], d[1], v):
        # phi of two roundings whose join was answered by `<=`: the inferred format is the MPFloat-shaped side
        return 'F10', 'prog-le-skips-precision-when-exp-unbounded'
    return None, f'prog-finite-missed-at-{op}'

def check_function(rep, C, name, kind, f, an_ctx, arg_fmts, run_ctx, combos, meta, on_run=None):
    """analyse `f` with the pinned context / argument formats, run it traced on every input combination and check
    every observed value (every expression, the result) against the format inferred for it.
    Returns (analysed 0/1, runs, value checks).  `on_run(combo, obs)` sees the raw observations of each run."""
    try:
        info = FormatInfer.analyze(f.ast, fn_fmt=FunctionFormat(an_ctx, arg_fmts, None))
    except Exception as e:   # noqa
        rep.count('prog:analysis-raises:' + type(e).__name__); return 0, 0, 0
    rep.count('prog:kind:' + kind)
    try:
        from fpy2.analysis import DefineUse
        du = DefineUse.analyze(f.ast)
    except Exception:   # noqa
        du = None
    nrun = nchk = 0
    reported = set()
    import c14cov
    c14cov.pause()      # the runs below execute none of the measured files
    try:
        return _check_runs(rep, C, name, kind, f, info, du, run_ctx, combos, meta, on_run)
    finally:
        c14cov.resume()

def _check_runs(rep, C, name, kind, f, info, du, run_ctx, combos, meta, on_run):
    nrun = nchk = 0
    ntimeout = 0
    reported = set()
    for combo in combos:
        obs = []
        try:
            res = run_traced(f, [[C.v_float(u) for u in v] if isinstance(v, list) else C.v_float(v) for v in combo], run_ctx, lambda e, v: obs.append((e, v)))
        except Exception as e:   # noqa
            rep.count('prog:run-raises:' + type(e).__name__)
            if isinstance(e, RunTimeout):
                ntimeout += 1
                if ntimeout >= 3: break
            continue
        nrun += 1
        if on_run is not None: on_run(combo, obs)
        obs.append(('ret', res))
        for (e, val) in obs:
            fb = info.fn_fmt.ret_fmt if isinstance(e, str) else info.by_expr.get(e)
            ok = bound_member(C, fb, val, rep)
            if ok is None: continue
            nchk += 1
            site = _SITE_CACHE.get(id(e))
            if site is None:
                site = 'return value' if isinstance(e, str) else e.format() if hasattr(e, 'format') else str(e)
                _SITE_CACHE[id(e)] = site
            rep.distinct.add((name, site, (val.s, val.exp, val.c, val.isinf, val.isnan) if isinstance(val, Float) else repr(val)))
            if ok is False:
                v = to_v(C, val)
                d = fmt_desc(fb) if isinstance(fb, Format) else None
                fid, shape = classify(C, kind, e, d, v, info, du)
                key = (site, shape)
                if key in reported: break
                reported.add(key)
                C.viol(rep, shape, 'a run-time value is not a member of the inferred format',
                       {'stage': 'program', 'kind': kind, 'contexts': meta,
                        'source': f.ast.format(), 'inputs': [[C.v_str(u) for u in v] if isinstance(v, list) else C.v_str(v) for v in combo], 'site': site, 'value': C.v_str(v) if v is not None else repr(val),
                        'inferred': repr(fb), 'shape': shape, 'finding': fid})
                break     # later misses of the same run are consequences of this one
    return 1, nrun, nchk

def load_generated(rep, tmp, modname, text):
    """write a generated module under the temp dir and import it (registered, so inspect.getsource works)"""
    path = os.path.join(tmp, modname + '.py')
    with open(path, 'w') as f: f.write(text)
    spec = importlib.util.spec_from_file_location(modname, path)
    mod = importlib.util.module_from_spec(spec)
    sys.modules[modname] = mod
    try:
        spec.loader.exec_module(mod)
    except Exception:
        rep.broke('harness', f'C14.programs.import.{modname}', traceback.format_exc()); return None
    return mod

def stage_programs(rep, R, tier, C):
    tmp = tempfile.mkdtemp(prefix='c14prog_', dir='/var/tmp')
    try:
        _stage_programs(rep, R, tier, C, tmp)
    finally:
        shutil.rmtree(tmp, ignore_errors=True)

def _stage_programs(rep, R, tier, C, tmp):
    nprog = 90 if tier == 'quick' else 600
    progs = []
    # every template at least twice, then random
    order = [t for t in TEMPLATES for _ in range(len(ONE_SIDED) if t[0] == 'one-sided-overflow' else 2)]
    n_one_sided = 0
    n_select = 0
    while len(order) < nprog: order.append(R.choice(TEMPLATES))
    src = [HEADER]
    for i, (kind, nargs, body) in enumerate(order[:nprog]):
        c1, c2 = R.choice(OP_CTXS), R.choice(OP_CTXS)
        if kind in ('branch-join', 'round-chain') and R.random() < 0.5:
            c2 = R.choice(['M1', 'M2', 'M3', 'M11'])
        if kind in ('for-ctx', 'while-ctx'):
            c1 = R.choice([c for c in OP_CTXS if not c.startswith('M') or c in ('MS', 'MB', 'MB3', 'MBF')])
        acs = [R.choice(ARG_CTXS) for _ in range(nargs)]
        if kind.startswith('real-') and R.random() < 0.6: acs = [R.choice(['S8', 'U8', 'S4', 'I', 'FX'])] + acs[1:]
        if kind.startswith('for-known'): acs = [R.choice(['S8', 'U8', 'S4', 'FX', 'E4', 'E6', 'MB', 'H'])]   # bounded: the iteration count shows in the bounds
        if kind == 'one-sided-overflow':
            # the operand range leaves the scope's range on ONE side only (wrapping / saturating scopes); every pair once, then random
            a0, c1 = ONE_SIDED[n_one_sided % len(ONE_SIDED)] if n_one_sided < len(ONE_SIDED) else R.choice(ONE_SIDED)
            n_one_sided += 1
            acs = [a0]
        if kind == 'select':      # an operand with a small finite bound that may also be an infinity; the first two fixed, then random
            n_select += 1
            if n_select <= 2: acs = [('S8', 'E4'), ('U8', 'E6')][n_select - 1]
            elif R.random() < 0.7: acs = [R.choice(['S8', 'I', 'H', 'U8']), R.choice(['E4', 'E6', 'MB'])]
            acs = list(acs)
        outer = 'R' if kind.startswith('while') or kind == 'one-sided-overflow' else R.choice(['R', c1])
        name = f'p{i}'
        params = ', '.join(f'{v}: fp.Real' for v in ['x', 'y'][:nargs])
        src.append(f'\n@fp.fpy\ndef {name}({params}):\n' + body.format(C1=c1, C2=c2))
        progs.append((name, kind, nargs, c1, c2, acs, outer))
    # elim_round targets
    elim = []
    for j, (a, c1, c2) in enumerate([('F', 'F', 'M11'), ('H', 'H', 'M3'), ('E6', 'E6', 'M2'), ('F', 'F', 'H'), ('H', 'F', 'F'), ('S8', 'S8', 'M3'), ('E4', 'E6', 'MS')]):
        name = f'e{j}'
        src.append(f'\n@fp.fpy(ctx={c1})\ndef {name}(x: fp.Real):\n    y = fp.round(x)\n    with {c2}:\n        z = fp.round(y)\n    return z\n')
        elim.append((name, a, c1, c2))
    path = os.path.join(tmp, 'c14gen.py')
    with open(path, 'w') as f: f.write(''.join(src))
    spec = importlib.util.spec_from_file_location('c14gen', path)
    mod = importlib.util.module_from_spec(spec)
    sys.modules['c14gen'] = mod      # inspect.getsource needs the module to be registered
    try:
        spec.loader.exec_module(mod)
    except Exception:
        rep.broke('harness', 'C14.programs.import', traceback.format_exc()); return
    ctxs = {k: getattr(mod, k) for k in CTX_SRC}
    nobs = nrun = nchk = 0
    for (name, kind, nargs, c1, c2, acs, outer) in progs:
        f = getattr(mod, name)
        cs = {'C1': c1, 'C2': c2, 'args': acs, 'outer': outer}
        cap = 7 if nargs == 2 else 16
        vlists = [arg_values(C, R, ctxs[a], cap) for a in acs]
        combos = list(itertools.product(*vlists))
        R.shuffle(combos)
        a, b, c = check_function(rep, C, name, kind, f, ctxs[outer], tuple(ctxs[a].format() for a in acs), ctxs[outer],
                                 combos[: (40 if tier == 'quick' else 150)],
                                 {k: (CTX_SRC[x] if isinstance(x, str) else [CTX_SRC[y] for y in x]) for k, x in cs.items()})
        nobs += a; nrun += b; nchk += c
    # --- elim_round end-to-end
    from fpy2.strategies import elim_round
    for (name, a, c1, c2) in elim:
        f = getattr(mod, name)
        try:
            g = elim_round(f)
        except Exception as e:   # noqa
            rep.count('prog:elim_round-raises:' + type(e).__name__); continue
        changed = g.ast.format() != f.ast.format()
        rep.count('prog:elim_round:' + ('rewrote' if changed else 'unchanged'))
        for v in arg_values(C, R, ctxs[a], 40):
            try:
                r0 = C.v_of_float(f(C.v_float(v))); r1 = C.v_of_float(g(C.v_float(v)))
            except Exception as e:   # noqa
                rep.count('prog:elim-run-raises:' + type(e).__name__); continue
            nchk += 1
            rep.distinct.add((name, 'elim', str(v)))
            if r0 != r1:
                dt = fmt_desc(ctxs[c2].format())
                f10 = isinstance(dt, tuple) and dt[1] is None and dt[0] is not None and isinstance(v, Fraction)
                shape = 'elim_round-deletes-effective-rounding' + ('-exp-unbounded-target' if f10 else '')
                C.viol(rep, shape, 'elim_round changed the result of the function',
                       {'stage': 'program', 'kind': 'elim_round', 'source': f.ast.format(), 'transformed': g.ast.format(), 'input': C.v_str(v),
                        'original_result': C.v_str(r0), 'transformed_result': C.v_str(r1), 'shape': shape, 'finding': 'F10' if f10 else None})
                break
    rep.cov['evaluations'] += nchk
    rep.cov['programs_analysed'] = nobs
    rep.cov['program_runs'] = nrun
    rep.cov['program_value_checks'] = nchk
    rep.cov['program_rule'] = ('23 templates (min/max selections, operands leaving the scope range on one side only, calls of FPy functions with call-site formats, lists / comprehensions / sum / indexed stores, literal set arithmetic, straight-line exact arithmetic under REAL, operations under a rounding context, chained rounds, '
                               'branch join with different contexts, branch refinement by comparisons, if-expressions, for loops with known count, '
                               'while loops reaching the widening limit) x random contexts from 18 small contexts x argument formats from 13; inputs = '
                               'zeros, specials, window values and extremes representable in the argument format; every expression traced; + 7 elim_round pairs')
