"""C12 corpus — systematic programs for the variable-bundling passes the FPCore back end runs
(`IfBundling`, `WhileBundling`, `ForBundling`, fpy2/transform/*_bundling.py).

Deterministic (no PRNG): every run of the check sees every shape.  For each construct the corpus varies
 * how many variables it re-defines (`mutated`, 0..3) and — for `if/else` — introduces in both branches (0..3);
 * the ORDER of their names: `sorted` (mutated p q r before introduced s t u, defined in that order),
   `reverse` (mutated z y x defined in that order — reverse of the string order — introduced c b a, all of which
   sort BEFORE every mutated name), `interleaved` (mutated d b f / introduced e a c; some re-defined in one
   branch only);
 * the VALUES: every variable gets its own constants (distinct primes), so exchanging any two of them, or a
   stale copy, changes the result;
 * the USE after the construct: every variable is returned, plus a weighted sum (weights distinct);
   `use='some'` returns only every other one (the others are dead after the construct);
 * NESTING of bundled constructs (hand-written, at the end).

`bundle_programs()` -> [(name, source, [args…])]; parameters are `i0 i1`, arguments make both directions of every
condition happen.
"""
from __future__ import annotations
import itertools

PRIMES = [2, 3, 5, 7, 11, 13, 17, 19, 23, 29, 31, 37, 41, 43, 47, 53, 59, 61, 67, 71, 73, 79, 83, 89, 97, 101, 103, 107, 109, 113]
NAMES = {
    'sorted':      (['p', 'q', 'r'], ['s', 't', 'u'], 'zk'),
    'reverse':     (['z', 'y', 'x'], ['c', 'b', 'a'], 'ak'),
    'interleaved': (['d', 'b', 'f'], ['e', 'a', 'c'], 'e'),
}
ARGS = [(3.0, 5.0), (5.0, 3.0), (0.1, 0.3), (-2.25, -7.5)]

class _K:
    """distinct constants"""
    def __init__(self): self.it = itertools.cycle(PRIMES)
    def __call__(self): return f'fp.round({next(self.it)})'

def _tail(vs, use, pad, k):
    """weighted sum + return of the variables"""
    keep = vs if use == 'all' else vs[::2]
    if not keep: return [f'{pad}return i0 * {k()} - i1']
    terms = ' + '.join(f'{k()} * {v}' for v in keep)
    return [f'{pad}w_ = {terms}', f'{pad}return ({", ".join(keep)}, w_)']

def if_else(m, n, order, use='all'):
    muts, intros, _ = NAMES[order]; muts, intros = muts[:m], intros[:n]
    k = _K(); P = '        '
    L = ['@fp.fpy', f'def bi_{m}{n}_{order}_{use}(i0: fp.Real, i1: fp.Real):', '    with fp.FP64:']
    for x in muts: L.append(f'{P}{x} = i0 * {k()} + {k()}')
    then, els = [], []
    for j, x in enumerate(muts):
        only = None if order != 'interleaved' or j == 0 else ('then' if j == 1 else 'else')
        if only in (None, 'then'): then.append(f'{P}    {x} = {x} * {k()} + i1')
        if only in (None, 'else'): els.insert(0, f'{P}    {x} = {x} - {k()} * i1')
    for y in intros:
        then.append(f'{P}    {y} = i0 * {k()} - {k()}')
        els.insert(0, f'{P}    {y} = i1 * {k()} + {k()}')
    if not then: then = [f'{P}    l_ = i0']
    if not els: els = [f'{P}    l_ = i1']
    L += [f'{P}if i0 < i1:'] + then + [f'{P}else:'] + els
    L += _tail(muts + intros, use, P, k)
    return L[1].split('def ')[1].split('(')[0], '\n'.join(L) + '\n'

def if_one(m, order, use='all'):
    muts = NAMES[order][0][:m]; k = _K(); P = '        '
    L = ['@fp.fpy', f'def b1_{m}_{order}_{use}(i0: fp.Real, i1: fp.Real):', '    with fp.FP64:']
    for x in muts: L.append(f'{P}{x} = i0 * {k()} + {k()}')
    body = [f'{P}    {x} = {x} * {k()} + i1' for x in muts] or [f'{P}    l_ = i0']
    L += [f'{P}if i0 < i1:'] + body + _tail(muts, use, P, k)
    return L[1].split('def ')[1].split('(')[0], '\n'.join(L) + '\n'

def while_loop(m, order, use='all'):
    muts, _, kx = NAMES[order]; muts = muts[:m]; k = _K(); P = '        '
    L = ['@fp.fpy', f'def bw_{m}_{order}_{use}(i0: fp.Real, i1: fp.Real):', '    with fp.FP64:']
    for x in muts: L.append(f'{P}{x} = i0 * {k()} + {k()}')
    L.append(f'{P}{kx} = fp.round(0)')
    body = [f'{P}    {x} = {x} * {k()} + {kx} - i1' for x in muts]
    L += [f'{P}while {kx} < fp.round(3):'] + body + [f'{P}    {kx} = {kx} + fp.round(1)'] + _tail(muts + [kx], use, P, k)
    return L[1].split('def ')[1].split('(')[0], '\n'.join(L) + '\n'

def for_loop(m, order, use='all'):
    muts = NAMES[order][0][:m]; k = _K(); P = '        '
    L = ['@fp.fpy', f'def bf_{m}_{order}_{use}(i0: fp.Real, i1: fp.Real):', '    with fp.FP64:']
    for x in muts: L.append(f'{P}{x} = i0 * {k()} + {k()}')
    body = [f'{P}    {x} = {x} * {k()} + ix - i1' for x in muts] or [f'{P}    l_ = ix']
    L += [f'{P}for ix in range(fp.round(3)):'] + body + _tail(muts, use, P, k)
    return L[1].split('def ')[1].split('(')[0], '\n'.join(L) + '\n'

NESTED = [
'''@fp.fpy
def bn_if_in_while(i0: fp.Real, i1: fp.Real):
    with fp.FP64:
        z = i0 * fp.round(2)
        b = i1 * fp.round(3)
        k = fp.round(0)
        while k < fp.round(3):
            if z < b:
                z = z * fp.round(5) + k
                a = b - fp.round(7)
            else:
                a = z + fp.round(11)
                b = b * fp.round(13) - k
            z = z + a * fp.round(17)
            k = k + fp.round(1)
        return (z, b, k, fp.round(19) * z + fp.round(23) * b)
''',
'''@fp.fpy
def bn_while_in_if(i0: fp.Real, i1: fp.Real):
    with fp.FP64:
        z = i0 * fp.round(2)
        b = i1 * fp.round(3)
        if i0 < i1:
            k = fp.round(0)
            while k < fp.round(2):
                z = z * fp.round(5) + b
                b = b - fp.round(7)
                k = k + fp.round(1)
            a = z - b
        else:
            j = fp.round(0)
            while j < fp.round(3):
                b = b * fp.round(11) + z
                j = j + fp.round(1)
            a = b - z * fp.round(13)
        return (z, b, a, fp.round(17) * z + fp.round(19) * b + fp.round(23) * a)
''',
'''@fp.fpy
def bn_for_in_for(i0: fp.Real, i1: fp.Real):
    with fp.FP64:
        z = i0
        m = i1
        b = i0 * fp.round(3)
        for ix in range(fp.round(3)):
            m = m + z * fp.round(5)
            for jx in range(fp.round(2)):
                z = z * fp.round(2) + jx - ix
                b = b - z + fp.round(7) * ix
            m = m - b
        return (z, m, b, fp.round(11) * z + fp.round(13) * m + fp.round(17) * b)
''',
'''@fp.fpy
def bn_if1_in_for_in_while(i0: fp.Real, i1: fp.Real):
    with fp.FP64:
        z = i0
        b = i1
        k = fp.round(0)
        while k < fp.round(2):
            for ix in range(fp.round(3)):
                if z < b + ix:
                    z = z * fp.round(3) + ix
                    b = b - fp.round(5)
            k = k + fp.round(1)
            b = b + z * fp.round(7)
        return (z, b, k, fp.round(11) * z - fp.round(13) * b)
''',
'''@fp.fpy
def bn_if_in_if(i0: fp.Real, i1: fp.Real):
    with fp.FP64:
        z = i0 * fp.round(2)
        d = i1 * fp.round(3)
        if i0 < i1:
            if z < d:
                z = z + fp.round(5)
                a = d * fp.round(7)
            else:
                a = z * fp.round(11)
                d = d - fp.round(13)
            c = a - z
        else:
            if d < z:
                d = d * fp.round(17)
                a = z - fp.round(19)
            else:
                a = d + fp.round(23)
                z = z * fp.round(29)
            c = a + d
        return (z, d, a, c, fp.round(31) * z + fp.round(37) * d + fp.round(41) * a + fp.round(43) * c)
''',
'''@fp.fpy
def bn_with_in_branch_in_loop(i0: fp.Real, i1: fp.Real):
    with fp.FP64:
        z = i0
        b = i1
        for ix in range(fp.round(3)):
            if z < b:
                with fp.IEEEContext(8, 32, fp.RM.RTZ):
                    z = z / fp.round(3) + ix
                b = b / fp.round(7)
            else:
                b = b / fp.round(3)
                with fp.FP32:
                    z = z / fp.round(7) - ix
        return (z, b, fp.round(11) * z + fp.round(13) * b)
''',
'''@fp.fpy
def bn_tuple_swap_in_while(i0: fp.Real, i1: fp.Real):
    with fp.FP64:
        z = i0
        a = i1
        k = fp.round(0)
        while k < fp.round(3):
            z, a = a + fp.round(2), z * fp.round(3)
            k = k + fp.round(1)
        return (z, a, k)
''',
]

# ------------------------------------------------------------------ what a non-final `with` block hands on
# `_visit_context` passes out of the annotation only the variables the block (re)defines AND the continuation
# mentions (`_mentioned_vars`): one program per syntactic position the only later use can be in.
USES = {
 'assign':      ['acc = {k} * fp.round(7)'],
 'if-cond':     ['if {k} < i1:', '    acc = fp.round(5)', 'else:', '    acc = fp.round(7)'],
 'if-then':     ['if i0 < i1:', '    acc = {k} * fp.round(5)', 'else:', '    acc = i1'],
 'if-else':     ['if i0 < i1:', '    acc = i1', 'else:', '    acc = {k} * fp.round(5)'],
 'if1-cond':    ['if {k} < i1:', '    acc = fp.round(5)'],
 'if1-body':    ['if i0 < i1:', '    acc = {k} * fp.round(5)'],
 'while-cond':  ['j = fp.round(0)', 'while j < fp.round(3) and {k} < fp.round(100):', '    acc = acc + j', '    j = j + fp.round(1)'],
 'while-body':  ['j = fp.round(0)', 'while j < fp.round(3):', '    acc = acc + {k} * j', '    j = j + fp.round(1)'],
 'for-body':    ['for ix in range(fp.round(3)):', '    acc = acc + {k} * ix'],
 'for-list':    ['for ex in [{k}, i1]:', '    acc = acc + ex'],
 'for-for':     ['for ix in range(fp.round(2)):', '    for jx in range(fp.round(2)):', '        acc = acc + {k} + jx'],
 'if-in-while': ['j = fp.round(0)', 'while j < fp.round(3):', '    if j < fp.round(1):', '        acc = acc + {k}', '    else:', '        acc = acc - j',
                 '    j = j + fp.round(1)'],
 'if1-in-for':  ['for ix in range(fp.round(3)):', '    if ix < fp.round(2):', '        acc = acc + {k}'],
 'tuple':       ['pa, pb = ({k}, i1)', 'acc = pa - pb'],
 'nested-with': ['with fp.FP32:', '    acc = {k} / fp.round(7)'],
 'with-in-for': ['for ix in range(fp.round(2)):', '    with fp.FP32:', '        acc = acc + {k} / fp.round(7)'],
 'list-index':  ['ls = [{k}, i1]', 'acc = ls[0] - ls[1]'],
 'cond-expr':   ['acc = ({k} if i0 < i1 else i1)'],
 'minmax':      ['acc = max({k}, i1) + min({k}, i0)'],
 'fma-sqrt':    ['acc = fp.fma({k}, i1, fp.sqrt(abs({k})))'],
}

def with_pass(pos, kind):
    """kind: 'redef' (k exists before the block), 'intro' (the block introduces it), 'second' (the block defines two
    variables, the later use mentions only the second)"""
    P = '        '
    nm = f'bp_{pos.replace("-", "_")}_{kind}'
    L = ['@fp.fpy', f'def {nm}(i0: fp.Real, i1: fp.Real):', '    with fp.FP64:']
    if kind == 'redef': L.append(f'{P}k = i0 + fp.round(1)')
    L.append(f'{P}with fp.IEEEContext(8, 32, fp.RM.RTZ):')
    if kind == 'second': L.append(f'{P}    h = i1 / fp.round(7)')
    L.append(f'{P}    k = {"k" if kind == "redef" else "i0"} / fp.round(3)')
    L.append(f'{P}acc = fp.round(0)')
    L += [P + ln.format(k='k') for ln in USES[pos]]
    L.append(f'{P}return acc')
    return nm, '\n'.join(L) + '\n'

# ------------------------------------------------------------------ pinned shapes of recorded defects (known_findings.json)
# every run reproduces them, so they are reported as KNOWN-FINDING independently of the seed; harness/c12.py tags a violation
# by the SHAPE of the source (`shape_findings`), not by these names
KNOWN = [
('t_loop_target_shadow', '''@fp.fpy
def t_loop_target_shadow(i0: fp.Real, i1: fp.Real):
    with fp.FP64:
        i = i0
        s = i0
        for i in range(fp.round(3)):
            s = s + i
        return s + i
''', [(10.0, 0.0), (3.0, 5.0)]),
('t_range_negative', '''@fp.fpy
def t_range_negative(i0: fp.Real, i1: fp.Real):
    with fp.FP64:
        s = i0
        for i in range(i1):
            s = s + i
        return s
''', [(1.0, -2.0), (1.0, 3.0)]),
('t_range2_negative', '''@fp.fpy
def t_range2_negative(i0: fp.Real, i1: fp.Real):
    with fp.FP64:
        s = i0
        for i in range(i0, i1):
            s = s + i
        return s
''', [(4.0, 1.0), (1.0, 4.0)]),
('t_while_cond_ifexpr', '''@fp.fpy
def t_while_cond_ifexpr(i0: fp.Real, i1: fp.Real):
    with fp.FP64:
        k = fp.round(0)
        s = i0
        while (k if k < fp.round(2) else k + fp.round(1)) < fp.round(3):
            s = s + i1
            k = k + fp.round(1)
        return s
''', [(1.0, 2.0)]),
]

def bundle_programs(thorough: bool = False):
    out = []
    orders = ['sorted', 'reverse', 'interleaved']
    for m in range(4):
        for n in range(4):
            for oi, order in enumerate(orders):
                use = 'all' if thorough or (m + n + oi) % 3 else 'some'
                out.append(if_else(m, n, order, use))
                if thorough and m + n > 1: out.append(if_else(m, n, order, 'some'))
    for m in range(4):
        for oi, order in enumerate(orders):
            use = 'all' if (m + oi) % 3 else 'some'
            out.append(if_one(m, order, use)); out.append(while_loop(m, order, use)); out.append(for_loop(m, order, use))
            if thorough:
                other = 'some' if use == 'all' else 'all'
                out.append(if_one(m, order, other)); out.append(while_loop(m, order, other)); out.append(for_loop(m, order, other))
    for src in NESTED:
        out.append((src.split('def ')[1].split('(')[0], src))
    for pi, pos in enumerate(USES):
        kinds = ['redef', 'intro', 'second'] if thorough else [['redef', 'intro'], ['intro', 'second'], ['second', 'redef']][pi % 3]
        for kind in kinds: out.append(with_pass(pos, kind))
    return [(name, src, list(ARGS)) for name, src in out] + [(n, s_, list(a)) for n, s_, a in KNOWN]
