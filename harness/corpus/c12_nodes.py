"""C12 corpus — EVERY expression node kind of the FPCore back end as the direct operand of `fp.round` / `fp.cast`, and
bare, under a context NARROWER or WIDER than the one its operands were computed in; and hand-written cores for every
arm of the reader.  Deterministic.  (harness/c12.py measures with coverage.py which arms of the translators a run
executes; this corpus exists so that every arm runs with inputs that make its result observable.)

Shapes (W = binary64, N = binary32 / binary16):
  narrow   operands computed under W, the node evaluated under N:   r = fp.round(<node>)   and   u = <node>
  nested   the same with N nested inside W and the result used again under W
  wider    operands computed under N, node evaluated under W (rounding must be the identity)
An arithmetic node is rounded by the context it is evaluated in, so `round` of it is the identity; a SELECTING node
(list max / min, indexing, tuple projection, conditional expression, variable) is not — only the explicit `round`
rounds it: dropping that cast changes the result here.
`node_programs()` -> [(name, source, [args…], prefer_unsafe_int_cast)]
"""
from __future__ import annotations

UNARY = ['abs', 'fp.fabs', 'fp.sqrt', 'fp.cbrt', 'fp.ceil', 'fp.floor', 'fp.nearbyint', 'fp.roundint', 'fp.trunc', 'fp.acos', 'fp.asin', 'fp.atan',
         'fp.cos', 'fp.sin', 'fp.tan', 'fp.acosh', 'fp.asinh', 'fp.atanh', 'fp.cosh', 'fp.sinh', 'fp.tanh', 'fp.exp', 'fp.exp2', 'fp.expm1',
         'fp.log', 'fp.log10', 'fp.log1p', 'fp.log2', 'fp.erf', 'fp.erfc', 'fp.lgamma', 'fp.tgamma', '-']
PREDS = ['fp.isfinite', 'fp.isinf', 'fp.isnan', 'fp.isnormal', 'fp.signbit']
BINARY_FN = ['fp.copysign', 'fp.fdim', 'fp.fmod', 'fp.remainder', 'fp.hypot', 'fp.atan2', 'fp.pow']
BINARY_OP = ['+', '-', '*', '/', '**']
NULLARY = ['fp.const_pi', 'fp.const_e', 'fp.const_log2e', 'fp.const_log10e', 'fp.const_ln2', 'fp.const_pi_2', 'fp.const_pi_4', 'fp.const_1_pi',
           'fp.const_2_pi', 'fp.const_2_sqrt_pi', 'fp.const_sqrt2', 'fp.const_sqrt1_2', 'fp.nan', 'fp.inf']

def nodes():
    """(tag, expression over w0 w1 (reals), xs ys (lists of 3), t (pair), tt (nested pair); needs)"""
    out = []
    for i, f in enumerate(UNARY):
        tag = 'neg' if f == '-' else f.replace('fp.', '')
        arg = 'w0 + fp.round(1)' if f == 'fp.acosh' else 'w0'
        out.append((f'un_{tag}', f'(-({arg}))' if f == '-' else f'{f}({arg})'))
    for f in BINARY_FN: out.append((f'bin_{f[3:]}', f'{f}(w0, w1)'))
    for o, nm in zip(BINARY_OP, ['add', 'sub', 'mul', 'div', 'powop']): out.append((f'bin_{nm}', f'(w0 {o} w1)'))
    out.append(('ter_fma', 'fp.fma(w0, w1, w0)'))
    for f in NULLARY: out.append((f'nul_{f[3:]}', f'{f}()'))
    for f in PREDS: out.append((f'pred_{f[3:]}', f'(w0 if {f}(w1 - w0) else w1)'))
    out += [
        ('var', 'w0'),
        ('nary_min2', 'min(w0, w1)'), ('nary_max3', 'max(w0, w1, w0 * w1)'), ('nary_fmin', 'fp.fmin(w0, w1)'), ('nary_fmax', 'fp.fmax(w0, w1)'),
        ('list_amax', 'max(xs)'), ('list_amin', 'min(xs)'), ('list_sum', 'sum(xs)'), ('list_len', 'len(xs)'), ('list_ref', 'xs[1]'),
        ('list_ref2', 'xss[1][0]'), ('list_slice_sum', 'sum(xs[1:3])'), ('list_slice_lo', 'max(xs[:2])'), ('list_slice_hi', 'min(xs[1:])'),
        ('list_size', 'fp.size(xs, 0) * w0'), ('list_dim', 'fp.dim(xss) * w0'),
        ('list_comp', 'sum([x * w1 for x in xs])'), ('list_comp2', 'sum([x * y for x in xs for y in ys])'),
        ('list_comp3', 'sum([x * y - z for x in xs for y in ys[:2] for z in xs])'), ('list_comp_under', 'sum([w1 for _ in xs])'), ('list_comp_tuple2', 'sum([a * y - b for a, b in zip(xs, ys) for y in ys])'),
        ('list_enumerate', 'sum([x * i for i, x in enumerate(xs)])'), ('list_zip', 'sum([x * y for x, y in zip(xs, ys)])'),
        ('list_zip3', 'sum([x * y - z for x, y, z in zip(xs, ys, xs)])'),
        ('list_any', '(w0 if any([x < w1 for x in xs]) else w1)'), ('list_all', '(w0 if all([x < w1 + fp.round(1) for x in xs]) else w1)'),
        ('list_lit_max', 'max([w0, w1, w0 * w1])'),
        ('list_slice_copy', 'sum(xs[:])'),
        ('tuple_fst', 'fp.fst(t)'), ('tuple_snd', 'fp.snd(t)'), ('tuple_fst_snd', 'fp.fst(fp.snd(tt))'), ('tuple_snd_snd', 'fp.snd(fp.snd(tt))'),
        ('ifexpr', '(w0 if w0 < w1 else w1)'), ('ifexpr_nested', '(w0 if w0 < w1 else (w1 if w1 < i0 else i0))'),
        ('cmp_chain_same', '(w0 if i0 < w0 < i1 else w1)'), ('cmp_chain_mixed', '(w0 if w1 < w0 <= i0 else w1)'),
        ('cmp_chain3', '(w0 if w1 <= w0 <= i0 < i1 else w1)'), ('cmp_eq', '(w0 if w0 == w1 else w1)'), ('cmp_ne', '(w0 if w0 != w1 else w1)'),
        ('cmp_ge_gt', '(w0 if w0 >= w1 > i1 else w1)'), ('cmp_ne_chain', '(w0 if w1 != w0 != w1 else w1)'), ('cmp_eq_chain', '(w0 if w0 == w0 == w1 else w1)'),
        ('bool_and_or', '(w0 if (w0 < w1 and w1 < i0) or not (w0 < i1) else w1)'), ('bool_lit', '(w0 if True else w1)'),
        ('lit_decnum', '0.1'), ('lit_int_wide', '16777217'), ('lit_int_2049', '2049'), ('lit_rational', 'fp.rational(1, 3)'),
        ('lit_hexfloat', "fp.hexfloat('0x1.000002p0')"), ('lit_digits', 'fp.digits(16777217, 0, 2)'), ('lit_digits10', 'fp.digits(3, -1, 10)'),
        ('lit_negzero', '-0.0'),
        ('round_round', 'fp.round(w0) * w1'), ('cast', 'fp.cast(fp.round(w0))'),
    ]
    return out

PRE = {
    'W': ['w0 = i0 / fp.round(3)', 'w1 = i1 / fp.round(7)', 'xs = [w0, w1, w0 * w1]', 'ys = [w1, w0 - w1, w0]', 'xss = [xs, ys]',
          't = (w0, w1)', 'tt = (w1, (w0, w1 * w0))', 't3 = (w0, w1, w0 * w1)'],
}
WIDE, NARROW, TINY = 'fp.FP64', 'fp.FP32', 'fp.IEEEContext(6, 20, fp.RM.RNE)'

def _pre(expr):
    """only the definitions the expression needs"""
    import re
    has = lambda nm: re.search(r'\b' + nm + r'\b', expr) is not None
    need = PRE['W'][:2]
    if has('xss'): return PRE['W'][:5]
    if has('xs'): need = need + [PRE['W'][2]]
    if has('ys'): need = need + [PRE['W'][3]]
    if has('t'): need = need + [PRE['W'][5]]
    if has('tt'): need = need + [PRE['W'][6]]
    if has('t3'): need = need + [PRE['W'][7]]
    return need

def program(tag, expr, shape, how):
    """how: 'round' (r = fp.round(<node>)), 'bare' (r = <node>)"""
    name = f'n_{tag}_{shape}_{how}'
    P = '        '
    node = f'fp.round({expr})' if how == 'round' else expr
    L = ['@fp.fpy', f'def {name}(i0: fp.Real, i1: fp.Real):']
    if shape == 'narrow':
        L += [f'    with {WIDE}:'] + [P + ln for ln in _pre(expr)] + [f'    with {NARROW}:', f'{P}r = {node}', '    return r']
    elif shape == 'nested':
        L += [f'    with {WIDE}:'] + [P + ln for ln in _pre(expr)] + [f'{P}with {TINY}:', f'{P}    r = {node}', f'{P}q = r * w0 + w1', f'{P}return (r, q)']
    else:   # wider
        L += [f'    with {NARROW}:'] + [P + ln for ln in _pre(expr)] + [f'    with {WIDE}:', f'{P}r = {node}', f'{P}q = r / fp.round(3)', '    return (r, q)']
    return name, '\n'.join(L) + '\n'

EXTRA = [
# statements the generator never writes
('n_indexed_assign', '''@fp.fpy
def n_indexed_assign(i0: fp.Real, i1: fp.Real):
    with fp.FP64:
        xs = [i0 / fp.round(3), i1, i0 * i1]
        xs[1] = i1 / fp.round(7)
        xss = [[i0, i1], [i1, i0]]
        xss[1][0] = i0 / fp.round(3)
    with fp.FP32:
        r = fp.round(xs[1]) + fp.round(xss[1][0])
    return (r, sum(xs))
''', False),
('n_empty_fill', '''@fp.fpy
def n_empty_fill(i0: fp.Real, i1: fp.Real):
    with fp.FP64:
        xs = fp.empty(3)
        for i in range(3):
            xs[i] = i0 / fp.round(3) + i
    with fp.FP32:
        r = fp.round(max(xs))
    return (r, sum(xs))
''', True),
('n_assert_pass', '''@fp.fpy
def n_assert_pass(i0: fp.Real, i1: fp.Real):
    with fp.FP64:
        w0 = i0 / fp.round(3)
        assert w0 == w0
        if w0 < i1:
            pass
        else:
            w0 = i1
    with fp.FP32:
        r = fp.round(w0)
    return r
''', False),
('n_for_list_tuple_target', '''@fp.fpy
def n_for_list_tuple_target(i0: fp.Real, i1: fp.Real):
    with fp.FP64:
        ps = [(i0 / fp.round(3), i1), (i1 / fp.round(7), i0)]
        s = fp.round(0)
        m = fp.round(0)
        for a, b in ps:
            s = s + a * b
            m = m + a
    with fp.FP32:
        r = fp.round(s) + fp.round(m)
    return (r, s)
''', False),
('n_for_enumerate_target', '''@fp.fpy
def n_for_enumerate_target(i0: fp.Real, i1: fp.Real):
    with fp.FP64:
        xs = [i0 / fp.round(3), i1 / fp.round(7), i0]
        s = fp.round(0)
        for i, x in enumerate(xs):
            s = s + x * i
    with fp.FP32:
        r = fp.round(s)
    return (r, s)
''', True),
('n_tuple_nested_binding', '''@fp.fpy
def n_tuple_nested_binding(i0: fp.Real, i1: fp.Real):
    with fp.FP64:
        a, (b, c) = (i0 / fp.round(3), (i1 / fp.round(7), i0 * i1))
    with fp.FP32:
        r = fp.round(a) + fp.round(b) * fp.round(c)
    return (r, a, b, c)
''', False),
('n_declared_ctx_literals', '''@fp.fpy(ctx=fp.IEEEContext(5, 16, fp.RM.RNE))
def n_declared_ctx_literals(i0: fp.Real, i1: fp.Real):
    x = i0 + fp.round(2049)
    y = i1 * fp.round(0.1)
    return (x, y, x - y)
''', False),
('n_raw_int_fp16', '''@fp.fpy
def n_raw_int_fp16(i0: fp.Real, i1: fp.Real):
    with fp.IEEEContext(5, 16, fp.RM.RNE):
        x = i0 + 2049
        y = i1 * 3 - 2051
    return (x, y)
''', True),
('n_raw_int_fp32', '''@fp.fpy
def n_raw_int_fp32(i0: fp.Real, i1: fp.Real):
    with fp.FP32:
        x = i0 + 16777217
        y = (i1 + 33554435) - 33554432
    return (x, y)
''', True),
('n_raw_rational', '''@fp.fpy
def n_raw_rational(i0: fp.Real, i1: fp.Real):
    with fp.IEEEContext(5, 16, fp.RM.RNE):
        x = i0 + fp.rational(6, 3)
    return x
''', True),
('n_raw_digits', '''@fp.fpy
def n_raw_digits(i0: fp.Real, i1: fp.Real):
    with fp.IEEEContext(5, 16, fp.RM.RNE):
        x = i0 + fp.digits(2049, 0, 2)
    return x
''', True),
('n_raw_hexfloat', '''@fp.fpy
def n_raw_hexfloat(i0: fp.Real, i1: fp.Real):
    with fp.IEEEContext(5, 16, fp.RM.RNE):
        x = i0 + fp.hexfloat('0x1p11')
    return x
''', True),
('n_raw_decimal', '''@fp.fpy
def n_raw_decimal(i0: fp.Real, i1: fp.Real):
    with fp.IEEEContext(5, 16, fp.RM.RNE):
        x = i0 + 2049.0
    return x
''', True),
('n_empty2d', '''@fp.fpy
def n_empty2d(i0: fp.Real, i1: fp.Real):
    with fp.FP64:
        m = fp.empty(2, 3)
        for i in range(2):
            for j in range(3):
                m[i][j] = i0 / fp.round(3) + i * j
    with fp.FP32:
        r = fp.round(m[1][2]) + fp.round(sum(m[0]))
    return r
''', True),
('n_while_no_mutation', '''@fp.fpy
def n_while_no_mutation(i0: fp.Real, i1: fp.Real):
    with fp.FP64:
        w0 = i0 / fp.round(3)
        while w0 < w0:
            l_ = w0
    with fp.FP32:
        r = fp.round(w0)
    return r
''', False),
('n_for_underscore_two', '''@fp.fpy
def n_for_underscore_two(i0: fp.Real, i1: fp.Real):
    with fp.FP64:
        z = i0 / fp.round(3)
        a = i1 / fp.round(7)
        for _ in range(fp.round(3)):
            z = z * fp.round(2) + a
            a = a - z
    with fp.FP32:
        r = fp.round(z) - fp.round(a)
    return (r, z, a)
''', False),
('n_loop_comp_setitem', '''@fp.fpy
def n_loop_comp_setitem(i0: fp.Real, i1: fp.Real):
    with fp.FP64:
        xs = [i0 / fp.round(3), i1 / fp.round(7), i0]
        s = fp.round(0)
        k = fp.round(0)
        while k < fp.round(2):
            ys = [x * s + k for x in xs]
            xs[1] = sum(ys)
            s = s + xs[1]
            k = k + fp.round(1)
    with fp.FP32:
        r = fp.round(s) + fp.round(xs[1])
    return (r, s)
''', True),
('n_for_comp_setitem', '''@fp.fpy
def n_for_comp_setitem(i0: fp.Real, i1: fp.Real):
    with fp.FP64:
        xs = [i0 / fp.round(3), i1 / fp.round(7), i0]
        s = fp.round(0)
        for i in range(fp.round(3)):
            ys = [x * s + i for x in xs]
            xs[i] = sum(ys)
            s = s + xs[i]
        if s < i1:
            zs = [x + s for x in xs]
            xs[0] = sum(zs)
            s = s * fp.round(3)
    with fp.FP32:
        r = fp.round(s) + fp.round(xs[0])
    return (r, s)
''', True),
('n_for_list_small_format', '''@fp.fpy
def n_for_list_small_format(i0: fp.Real, i1: fp.Real):
    with fp.IEEEContext(4, 8, fp.RM.RNE):
        xs = [i0, i1, i0, i1, i0, i1, i0, i1, i0, i1, i0, i1, i0, i1, i0, i1, i0, i1, i0]
        s = fp.round(0)
        for x in xs:
            s = s + x
    return s
''', False),
('n_list_arg', '''@fp.fpy
def n_list_arg(i0: fp.Real, i1: fp.Real):
    with fp.FP64:
        xs = [i0 / fp.round(3), i1 / fp.round(7), i0 * i1]
        n = len(xs)
    with fp.FP32:
        r = fp.round(max(xs)) - fp.round(min(xs)) + n
    return r
''', False),
]

ARGS = [(0.3, 0.7), (0.9, 0.2), (-0.6, 0.45), (6.0, 7.0)]
ARGS_QUICK = [(0.3, 0.7), (-0.6, 0.45), (6.0, 7.0)]

# programs with a list parameter (harness/c12.py gives the annotation the size 3): (name, source, [args…])
LIST_ARG_PROGRAMS = [
('n_listparam', '''@fp.fpy
def n_listparam(i0: fp.Real, i1: fp.Real, xs: list[fp.Real]):
    with fp.FP32:
        r = fp.round(max(xs)) * i0 + fp.round(xs[2]) * i1 + len(xs)
    return (r, sum(xs))
''', [(0.3, 0.7, [0.1, 1.0 / 3, 2.0 / 3]), (0.9, 0.2, [1e10, 0.1, -7.5])]),
]

# programs the compiler must REFUSE (one per error arm): (name, source, prefer unsafe_int_cast)
REJECTS = [
('x_named_context', '''@fp.fpy
def x_named_context(i0: fp.Real, i1: fp.Real):
    with fp.FP32 as c:
        r = i0 + i1
    return r
''', False),
('x_two_returns', '''@fp.fpy
def x_two_returns(i0: fp.Real, i1: fp.Real):
    with fp.FP32:
        if i0 < i1:
            return i0
        return i1
''', False),
('x_unrounded_decimal', '''@fp.fpy
def x_unrounded_decimal(i0: fp.Real, i1: fp.Real):
    with fp.FP32:
        r = i0 + 0.5
    return r
''', True),
('x_unrounded_rational', '''@fp.fpy
def x_unrounded_rational(i0: fp.Real, i1: fp.Real):
    with fp.FP32:
        r = i0 + fp.rational(1, 3)
    return r
''', True),
('x_unrounded_hexfloat', '''@fp.fpy
def x_unrounded_hexfloat(i0: fp.Real, i1: fp.Real):
    with fp.FP32:
        r = i0 + fp.hexfloat('0x1.8p0')
    return r
''', True),
('x_unrounded_digits', '''@fp.fpy
def x_unrounded_digits(i0: fp.Real, i1: fp.Real):
    with fp.FP32:
        r = i0 + fp.digits(3, -1, 2)
    return r
''', True),
('x_context_expression', '''@fp.fpy
def x_context_expression(i0: fp.Real, i1: fp.Real):
    with fp.FP32:
        n = fp.round(32)
    with fp.IEEEContext(8, n, fp.RM.RNE):
        r = i0 + i1
    return r
''', False),
('x_unrounded_int_default', '''@fp.fpy
def x_unrounded_int_default(i0: fp.Real, i1: fp.Real):
    with fp.FP32:
        r = i0 + 2
    return r
''', False),
('x_round_at', '''@fp.fpy
def x_round_at(i0: fp.Real, i1: fp.Real):
    with fp.FP32:
        r = fp.round_at(i0, -3)
    return r
''', False),
('x_logb', '''@fp.fpy
def x_logb(i0: fp.Real, i1: fp.Real):
    with fp.FP32:
        r = fp.logb(i0)
    return r
''', False),
('x_mod', '''@fp.fpy
def x_mod(i0: fp.Real, i1: fp.Real):
    with fp.FP32:
        r = i0 % i1
    return r
''', False),
('x_compare_tuples', '''@fp.fpy
def x_compare_tuples(i0: fp.Real, i1: fp.Real):
    with fp.FP32:
        t = (i0, i1)
        u = (i1, i0)
        r = i0 if t == u else i1
    return r
''', False),
('x_unsized_list_arg', '''@fp.fpy
def x_unsized_list_arg(i0: fp.Real, ys: list[fp.Real]):
    with fp.FP32:
        r = i0 + ys[0]
    return r
''', False),
('x_tuple_arg', '''@fp.fpy
def x_tuple_arg(i0: fp.Real, t: tuple[fp.Real, fp.Real]):
    with fp.FP32:
        r = i0 + fp.fst(t)
    return r
''', False),
('x_call', '''@fp.fpy
def x_call(i0: fp.Real, i1: fp.Real):
    with fp.FP32:
        r = x_mod(i0, i1) + i0
    return r
''', False),
('x_call_kwargs', '''@fp.fpy
def x_call_kwargs(i0: fp.Real, i1: fp.Real):
    with fp.FP32:
        r = x_mod(i0, i1=i1) + i0
    return r
''', False),
]

def node_programs(thorough: bool = False):
    out = []
    ns = nodes()
    for k, (tag, expr) in enumerate(ns):
        raw = tag in ('lit_int_wide', 'lit_int_2049', 'lit_decnum', 'lit_rational', 'lit_hexfloat', 'lit_digits', 'lit_digits10', 'lit_negzero', 'list_len', 'list_size', 'list_dim')
        combos = [('narrow', 'round'), ('narrow', 'bare'), ('nested', 'round'), ('nested', 'bare'), ('wider', 'round'), ('wider', 'bare')]
        if not thorough:
            combos = [('narrow', 'round'), [('nested', 'round'), ('wider', 'round'), ('narrow', 'bare')][k % 3]]
        for shape, how in combos:
            if how == 'bare' and tag.startswith('lit_'): continue      # a bare literal is an unrounded constant: not a program
            name, src = program(tag, expr, shape, how)
            out.append((name, src, list(ARGS if thorough else ARGS_QUICK), raw))
    for name, src, raw in EXTRA: out.append((name, src, list(ARGS if thorough else ARGS_QUICK), raw))
    return out

# ------------------------------------------------------------------ hand-written cores: every arm of the reader
READER_CORES = [
 # annotations: each property alone, nested, around literals / integers / operators
 '(FPCore (a b) (! :precision binary16 (+ a b)))',
 '(FPCore (a b) (! :round toNegative (/ a b)))',
 '(FPCore (a b) :precision binary16 (+ a (! :precision integer 2049)))',
 '(FPCore (a b) :precision binary32 (+ a (! :precision integer 16777217)))',
 '(FPCore (a b) :precision binary16 (+ a (! :precision binary64 2049)))',
 '(FPCore (a b) :precision binary16 (* b (! :precision binary32 0.1)))',
 '(FPCore (a b) :precision binary16 (+ a 2049))',
 '(FPCore (a b) (! :precision binary32 (+ a (! :precision binary64 (/ b 3)))))',
 '(FPCore (a b) (! :precision (float 5 16) (! :round toPositive (/ a b))))',
 '(FPCore (a b) :precision (float 6 20) :round toZero (- (/ a 3) b))',
 '(FPCore (a b) :precision binary32 (cast (! :precision binary64 (/ a b))))',
 '(FPCore (a b) (! :precision binary32 (cast (! :precision binary64 (/ a 3)))))',
 # literal spellings
 '(FPCore (a b) (+ a 1/3))', '(FPCore (a b) (* b #x1.8p1))' if False else '(FPCore (a b) (* b 0x1.8p+1))', '(FPCore (a b) (- a (digits 3 -1 10)))',
 '(FPCore (a b) (+ a 1e-3))', '(FPCore (a b) :precision binary32 (+ a 16777217/1))', '(FPCore (a b) (+ a -0.0))',
 # constants
 '(FPCore (a b) (* a PI))', '(FPCore (a b) (+ (* a E) (* b LN2)))', '(FPCore (a b) (if TRUE a b))', '(FPCore (a b) (if FALSE a NAN))',
 '(FPCore (a b) (fmin a INFINITY))', '(FPCore (a b) (+ (* a LOG2E) (+ LOG10E (+ PI_2 (+ PI_4 (+ M_1_PI (+ M_2_PI (+ M_2_SQRTPI (+ SQRT2 SQRT1_2)))))))))',
 # operators
 '(FPCore (a b) (- a))', '(FPCore (a b) (fabs (- a b)))', '(FPCore (a b) (sqrt (fabs a)))', '(FPCore (a b) (cbrt a))',
 '(FPCore (a b) (+ (ceil a) (+ (floor b) (+ (nearbyint a) (+ (round b) (trunc a))))))',
 '(FPCore (a b) (+ (sin a) (+ (cos b) (+ (tan a) (+ (atan b) (+ (asin (/ a 4)) (acos (/ b 4))))))))',
 '(FPCore (a b) (+ (sinh a) (+ (cosh b) (+ (tanh a) (+ (asinh b) (+ (acosh (+ 2 (fabs a))) (atanh (/ b 4))))))))',
 '(FPCore (a b) (+ (exp a) (+ (exp2 b) (+ (expm1 a) (+ (log (fabs b)) (+ (log10 (fabs a)) (+ (log1p (fabs b)) (log2 (fabs a)))))))))',
 '(FPCore (a b) (+ (erf a) (+ (erfc b) (+ (lgamma (fabs a)) (tgamma (fabs b))))))',
 '(FPCore (a b) (+ (copysign a b) (+ (fdim a b) (+ (fmod a b) (+ (remainder a b) (+ (hypot a b) (+ (atan2 a b) (pow (fabs a) b))))))))',
 '(FPCore (a b) (fma a b a))', '(FPCore (a b) (+ (fmax a b) (fmin a b)))',
 '(FPCore (a b) (if (isfinite a) (if (isinf b) 1 (if (isnan a) 2 (if (isnormal b) 3 (if (signbit a) 4 5)))) 6))',
 '(FPCore (a b) (if (and (< a b) (not (== a 1)) (or (> a 0) (<= b 0) (>= a b))) a b))',
 '(FPCore (a b) (if (< a b 3) a b))', '(FPCore (a b) (if (!= a b 3) a b))', '(FPCore (a b) (if (== a b) a (if (<= a b 3) b 3)))',
 '(FPCore (a b) (if (>= a b 0) a (if (> a b) b 0)))',
 '(FPCore (a b) (if (!= a b a) 1 2))', '(FPCore (a b) (if (!= a b) 1 2))', '(FPCore (a b) (if (== a a b) 1 2))',
 # binding forms
 '(FPCore (a b) (let ([x (/ a 3)] [y (/ b 3)]) (let* ([x y] [y x]) (- x y))))',
 '(FPCore (a b) (while* (< i 3) ([i 0 (+ i 1)] [s a (+ s (* b i))]) s))',
 '(FPCore (a b) (while (< i 3) ([i 0 (+ i 1)] [s a (+ s (* b i))] [t b (- t s)]) (- s t)))',
 '(FPCore (a b) (for* ([i 3]) ([s a (+ s i)] [t b (* t s)]) (- s t)))',
 '(FPCore (a b) (for ([i 3]) ([s a (+ s i)] [t b (* t s)]) (- s t)))',
 '(FPCore (a b) (for ([i 2] [j 3]) ([s a (+ s (* i j))]) (* s b)))',
 '(FPCore (a b) (for* ([i 2] [j 3]) ([s a (+ s (* i j))] [t s (+ t s)]) (* t b)))',
 '(FPCore (a b) (ref (tensor ([i 3] [j 2]) (+ (* a i) (* b j))) 2 1))',
 '(FPCore (a b) (ref (tensor* ([i 3]) ([s a (+ s b)]) s) 2))',
 '(FPCore (a b) (ref (tensor* ([i 2] [j 2]) ([s a (+ s b)] [t 0 (+ t s)]) (- t i)) 1 1))',
 '(FPCore (a b) (let ([xs (array a b (+ a b))]) (+ (ref xs 2) (+ (size xs 0) (dim xs)))))',
 '(FPCore (a b) (let ([xs (array (array a b) (array b a))]) (+ (ref xs 1 0) (* (size xs 1) (dim xs)))))',
 '(FPCore (a b) (! :precision binary32 (let ([xs (array (/ a 3) b)]) (! :precision binary64 (+ (ref xs 0) (ref xs 1))))))',
 '(FPCore (a b) (while (! :precision binary32 (< (/ i 3) 1)) ([i 0 (+ i 1)] [s a (! :round toZero (/ s b))]) s))',
 '(FPCore (a b) (if (let ([x (- a b)]) (< x 0)) (let ([y (/ a 3)]) y) (! :precision binary32 (/ b 3))))',
 # function metadata
 '(FPCore named (a b) :name "n" :pre (< a b) (- b a))', '(FPCore (a b) :spec (+ a b) :description "d" (+ b a))',
]
# cores the reader cannot give a runnable function for (unknown precision / rounding mode / operator): reading or calling must RAISE
READER_REFUSALS = [
 '(FPCore (a b) (! :precision posit16 (+ a b)))', '(FPCore (a b) (! :round stochastic (+ a b)))', '(FPCore (a b) (- (foo a b) a))',
 '(FPCore (a b) :precision (posit 2 16) (+ a b))', '(FPCore (a b) (+ a MAXFLOAT))',
]
LIST_CORES = [      # (core, number of elements of the tensor argument)
 ('(FPCore ((xs 3) b) (+ (ref xs 0) (* b (ref xs 2))))', 3),
 ('(FPCore ((xs n) b) (for ([i n]) ([s b (+ s (ref xs i))]) s))', 3),
 ('(FPCore ((xs n) b) (+ (size xs 0) (* b (dim xs))))', 3),
]
