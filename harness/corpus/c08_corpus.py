"""hand-written programs exercising loop restructuring (C08)"""
import fpy2 as fp

@fp.fpy
def total(xs: list[fp.Real]):
    acc = 0
    for x in xs:
        acc = acc + x
    return acc

@fp.fpy
def early_return(xs: list[fp.Real], lim: fp.Real):
    acc = 0
    for x in xs:
        if x > lim:
            return acc
        acc = acc + x
    return -acc

@fp.fpy
def mutate_iterated(xs: list[fp.Real]):
    acc = 0
    for x in xs:
        if len(xs) > 1:
            xs[1] = x + 1
        acc = acc + x
    return (acc, xs)

@fp.fpy
def nested(xs: list[fp.Real], ys: list[fp.Real]):
    acc = 0
    for x in xs:
        for y in ys:
            acc = acc + x * y
        acc = acc / 2
    return acc

@fp.fpy
def countdown(x: fp.Real):
    n = 0
    while x > 1:
        x = x / 2
        n = n + 1
    return (x, n)

@fp.fpy
def while_early(x: fp.Real):
    while x > 1:
        if x > 100:
            return 0 - x
        x = x / 2
    return x

@fp.fpy
def zip_dot(xs: list[fp.Real], ys: list[fp.Real]):
    acc = 0
    for x, y in zip(xs, ys):
        acc = acc + x * y
    return acc

@fp.fpy
def enum_sum(xs: list[fp.Real]):
    acc = 0
    for i, x in enumerate(xs):
        acc = acc + i * x
    return acc

@fp.fpy
def any_pos(xs: list[fp.Real]):
    return (any([x > 0 for x in xs]), all([x > 0 for x in xs]))

@fp.fpy
def reassign_outer(xs: list[fp.Real], a: fp.Real):
    t = a
    n = 0
    for x in xs:
        t = t * x
        n = n + 1
        a = t
    return (t, n, a)

@fp.fpy
def loop_var_after(xs: list[fp.Real]):
    x = 0
    for x in xs:
        pass
    return x

@fp.fpy
def with_in_loop(xs: list[fp.Real]):
    acc = 0
    for x in xs:
        with fp.IEEEContext(5, 16, fp.RM.RNE):
            acc = acc + x / 3
    return acc

ALL = [total, early_return, mutate_iterated, nested, countdown, while_early, zip_dot, enum_sum, any_pos, reassign_outer,
       loop_var_after, with_in_loop]

@fp.fpy
def fuse_while(xs: list[fp.Real]):
    i = 0
    while any([x > i for x in xs]):
        with fp.REAL:
            i = i + 1
    return i

@fp.fpy
def fuse_clobber(xs: list[fp.Real]):
    x = 100
    b = any([x > 0 for x in xs])
    return (b, x)

@fp.fpy
def zip_alias(xs: list[fp.Real]):
    acc = 0
    for a, b in zip(xs, xs):
        if len(xs) > 1:
            xs[1] = 50
        acc = acc + a + b
    return acc

@fp.fpy
def enum_alias(xs: list[fp.Real]):
    acc = 0
    for i, a in enumerate(xs):
        if len(xs) > 2:
            xs[2] = 7
        acc = acc + a * i
    return acc

ALL += [fuse_while, fuse_clobber, zip_alias, enum_alias]

# ---------------------------------------------------------------------------------------------------------
# shapes added with the xgen upgrade

@fp.fpy
def chunked(xs: list[fp.Real], k: fp.Real):
    acc = k
    w = 1
    for x in xs:
        acc = acc * 2 + x * w
        w = w + 1
        k = k + 1
    return (acc, k)

@fp.fpy
def lowprec_weighted(xs: list[fp.Real]):
    with fp.FP8P3:
        s = 0
        w = 1
        for x in xs:
            with fp.REAL:
                s = s + x * w
                w = w + 1
    return s

@fp.fpy
def lowprec_call_ctx(xs: list[fp.Real], ys: list[fp.Real]):
    s = 0
    w = 1
    for x, y in zip(xs, ys):
        with fp.INTEGER:
            s = s + w * 3
            w = w + 1
        s = s + x * y
    return s

@fp.fpy
def enum_deep_shadow(xs: list[fp.Real], ns: list[tuple[tuple[fp.Real, fp.Real], fp.Real]]):
    return [len([1 for ((i, _), _) in ns]) + sum([x for (_, x), i in ns]) + i * x for i, x in enumerate(xs)]

@fp.fpy
def named_like_temps(t: list[fp.Real], n: fp.Real):
    i = n
    m = 0
    for j in t:
        m = m * 2 + j + i
        i = i + 1
    return (m, i, n)

@fp.fpy
def bound_moves(xs: list[fp.Real]):
    n = len(xs)
    acc = 0
    for i in range(n):
        acc = acc * 3 + xs[i]
        n = n - 1
    return (acc, n)

@fp.fpy
def any_shadow_after(xs: list[fp.Real], x: fp.Real):
    b = all([x >= 0 for x in xs]) or any([x > 100 for x in xs])
    return (b, x)

ALL += [chunked, lowprec_weighted, lowprec_call_ctx, enum_deep_shadow, named_like_temps, bound_moves, any_shadow_after]
META = {'chunked': {'kinds': ['L', 'I'], 'factors': ['k', 'k + 1'], 'assigned': ['k', 'acc', 'w', 'x'], 'loops': ['len(xs)'], 'quadratic': False},
        'lowprec_weighted': {'loops': ['len(xs)'], 'assigned': [], 'quadratic': False}, 'lowprec_call_ctx': {'quadratic': False, 'ctxs': [None, 'fp.FP8P4', 'fp.BF16']},
        'enum_deep_shadow': {'kinds': ['L', 'N']}, 'named_like_temps': {'kinds': ['L', 'R'], 'quadratic': False}, 'total': {'loops': ['len(xs)'], 'assigned': [], 'quadratic': False},
        'with_in_loop': {'quadratic': False}, 'enum_sum': {'quadratic': False}, 'zip_dot': {'quadratic': False}}
