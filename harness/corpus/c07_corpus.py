"""hand-written programs exercising simplify (C07): copies past redefinition, alias folding, folds under contexts"""
import fpy2 as fp

@fp.fpy
def copy_then_redefine(y: fp.Real):
    x = y
    y = y + 1
    return x

@fp.fpy
def copy_in_loop(y: fp.Real, xs: list[fp.Real]):
    x = y
    for e in xs:
        y = y + e
    return x + y

@fp.fpy
def alias_fold(a: fp.Real):
    xs = [1, 2]
    ys = xs
    ys[0] = 5
    return xs[0] + a

@fp.fpy
def fold_under_ctx(a: fp.Real):
    with fp.IEEEContext(5, 16, fp.RM.RTZ):
        t = 1 / 3
    with fp.MPFloatContext(3, fp.RM.RNE):
        u = 1 / 3
    v = 1 / 3
    return (t, u, v, a)

@fp.fpy
def dead_with_effect(xs: list[fp.Real], a: fp.Real):
    t = a * 2
    if len(xs) > 0:
        xs[0] = a
    u = xs
    return (len(xs), xs)

@fp.fpy
def branch_redefine(a: fp.Real, b: fp.Real):
    x = a
    if a < b:
        a = b
    else:
        x = b
    y = x
    return (x, y, a)

@fp.fpy
def copy_chain(a: fp.Real):
    b = a
    c = b
    a = c + 1
    b = a
    return (a, b, c)

@fp.fpy
def fold_signed_zero(a: fp.Real):
    z = 0 * -1
    w = -z
    return (z, w, a * 0)

@fp.fpy
def fold_cond(a: fp.Real):
    if 1 < 2:
        r = a + 1
    else:
        r = a - 1
    while False:
        r = r + 1
    return r

@fp.fpy
def loop_copy(xs: list[fp.Real]):
    acc = 0
    prev = 0
    for e in xs:
        prev = acc
        acc = acc + e
    return (prev, acc)

ALL = [copy_then_redefine, copy_in_loop, alias_fold, fold_under_ctx, dead_with_effect, branch_redefine, copy_chain,
       fold_signed_zero, fold_cond, loop_copy]

@fp.fpy
def phi_arg_live(a0: fp.Real, a1: fp.Real, a2: list[fp.Real]):
    a0 = ((len([a1]) * 0.3) - 7)
    (v105, v106) = ((a0 if any([(255 == 7) for c107 in a2]) else abs(a1)), a0)
    a1 = (100 - (len(a2) - len(a2)))
    with fp.MPFixedContext(0, fp.RM.RNE):
        if (1.5 >= v105):
            a1 = (v105 + 255)
        else:
            a0 = ((-(v106 + a0)) + (len(a2) + (0.3 - v105)))
        v108 = fp.fma(v105, ((a0 * a1) if (not (0.001 <= a1)) else (v105 / v105)), (a1 - (v106 + 0.3)))
    return ((max(1e3, 1) + fp.fma(v105, v106, 255)), ((a1 <= 10) and (a1 != v105)), a2, [3, a1, v106])

ALL.append(phi_arg_live)

@fp.fpy
def _zero_all(xs: list[fp.Real]):
    for i in range(len(xs)):
        xs[i] = 0
    return 0

@fp.fpy
def impure_call(xs: list[fp.Real]):
    _zero_all(xs)
    return xs

@fp.fpy
def loop_var_leak(n: fp.Real):
    x = 10.0
    for x in range(3):
        pass
    return x

@fp.fpy
def signed_zero_meet(c: fp.Real):
    if c > 0:
        x = 0.0
    else:
        x = -0.0
    return x

@fp.fpy
def const_list_through_callee(a: fp.Real):
    xs = [1.0, 2.0]
    t = _zero_all(xs)
    with fp.IEEEContext(5, 16, fp.RM.RNE):
        r = xs[0] + a
    return r

@fp.fpy
def const_list_through_alias_in_with(a: fp.Real):
    xs = [1.0, 2.0]
    ys = xs
    ys[0] = a
    with fp.IEEEContext(5, 16, fp.RM.RNE):
        r = xs[0]
    return r

ALL += [impure_call, loop_var_leak, signed_zero_meet, const_list_through_callee, const_list_through_alias_in_with]

# ---------------------------------------------------------------------------------------------------------
# shapes added with the xgen upgrade: binders that re-use copied names, non-static contexts, merges of merges

@fp.fpy
def shadow_tuple_target(a: fp.Real, b: fp.Real, xs: list[fp.Real]):
    t = a
    u = b
    acc = 0.0
    for b, a in enumerate(xs):
        acc = acc * 2 + t * a + u * b
    return (acc, t, u, a, b)

@fp.fpy
def shadow_in_nested_comp(a: fp.Real, xs: list[fp.Real]):
    t = a
    zs = [sum([t * a + y for a in xs]) for y in xs]
    return (zs, a)

@fp.fpy
def dyn_ctx_consts(c: fp.Context, p: fp.Real, x: fp.Real):
    with fp.FP16:
        u = 1 / 3
        with c:
            v = 1 / 3 + 0.1
            with fp.MPFloatContext(p, fp.RM.RTZ):
                w = 2 / 3
        z = 1 / 3
    return (u, v, w, z, x * v)

@fp.fpy(ctx=fp.BF16)
def pinned_outer_dyn_inner(c: fp.Context, x: fp.Real):
    a = 0.1 + 0.2
    with c:
        b = 0.1 + 0.2
        s = -0.0 + 0
    return (a, b, s, x + b)

@fp.fpy
def merge_chain_pairs(a: fp.Real, b: fp.Real, f: bool, g: bool):
    lo = a
    hi = b
    n = 0
    if f:
        (lo, (hi, n)) = (hi, (lo, n + 1))
    if g:
        n = n + 2
        if a < b:
            hi = 0
    return (lo, hi, n)

@fp.fpy
def running_extreme(xs: list[fp.Real]):
    m = 0.0
    at = -1
    i = 0
    cnt = 0
    for x in xs:
        if abs(x) >= m:
            (m, at) = (abs(x), i)
            cnt = cnt + 1
        with fp.INTEGER:
            i = i + 1
    return (m, at, cnt)

@fp.fpy
def while_swap(n: fp.Real):
    a = 0
    b = 1
    k = 0
    while k < n and k < 20:
        if k > 2:
            a, b = b, a + b
        else:
            (a, _) = (b, a)
        with fp.INTEGER:
            k = k + 1
    return (a, b)

@fp.fpy
def ctx_value_reused(c: fp.Context, x: fp.Real):
    with c as inner:
        a = x / 3
    with fp.FP64:
        with inner:
            b = 1 / 3
        d = 1 / 3
    return (a, b, d)

ALL += [shadow_tuple_target, shadow_in_nested_comp, dyn_ctx_consts, pinned_outer_dyn_inner, merge_chain_pairs, running_extreme, while_swap, ctx_value_reused]
META = {'dyn_ctx_consts': {'kinds': ['C', 'Q', 'R']}, 'pinned_outer_dyn_inner': {'kinds': ['C', 'R']}, 'merge_chain_pairs': {'kinds': ['R', 'R', 'B', 'B']},
        'while_swap': {'kinds': ['I']}, 'ctx_value_reused': {'kinds': ['C', 'R']}}
