"""hand-written caller/callee programs exercising inlining, specialisation, closing, hoisting (C09)"""
import fpy2 as fp

@fp.fpy
def sq(x: fp.Real):
    return x * x

@fp.fpy(ctx=fp.IEEEContext(5, 16, fp.RM.RTZ))
def third16(x: fp.Real):
    t = x / 3
    return t

@fp.fpy
def bump(xs: list[fp.Real], a: fp.Real):
    if len(xs) > 0:
        xs[0] = xs[0] + a
    t = a * 2
    return t

@fp.fpy
def clash(x: fp.Real):
    t = x + 1
    y = t * 2
    return y

@fp.fpy
def hyp(x: fp.Real, y: fp.Real):
    return sq(x) + sq(y)

@fp.fpy
def ctx_caller(x: fp.Real):
    with fp.MPFloatContext(3, fp.RM.RNE):
        a = sq(x) + third16(x)
    b = third16(x) + sq(x)
    return (a, b)

@fp.fpy
def mutating_caller(xs: list[fp.Real], a: fp.Real):
    t = bump(xs, a)
    u = bump(xs, t)
    return (t, u, xs)

@fp.fpy
def name_clash_caller(x: fp.Real):
    t = 10
    y = clash(x) + t
    return (y, t)

@fp.fpy
def call_in_loop(xs: list[fp.Real]):
    acc = 0
    for x in xs:
        acc = acc + sq(x)
    return acc

@fp.fpy
def arg_order(xs: list[fp.Real]):
    a = bump(xs, 1) + bump(xs, 2)
    return (a, xs)

@fp.fpy
def nested_with_caller(x: fp.Real):
    with fp.IEEEContext(8, 32, fp.RM.RNE):
        with fp.MPFloatContext(2, fp.RM.RAZ):
            a = sq(x)
        b = sq(x)
    return (a, b)

@fp.fpy
def hoistable(xs: list[fp.Real]):
    acc = 0
    for x in xs:
        with fp.IEEEContext(5, 16, fp.RM.RNE):
            acc = acc + x
    return acc

@fp.fpy
def chain(x: fp.Real):
    return hyp(x, sq(x))

@fp.fpy
def call_in_comprehension(xs: list[fp.Real], ys: list[fp.Real]):
    l = [bump(xs, 1) for c in ys]
    return (l, xs)

@fp.fpy
def call_in_ifexpr(xs: list[fp.Real], a: fp.Real):
    t = bump(xs, 1) if a > 0 else a
    return (t, xs)

@fp.fpy
def setfirst(xs: list[fp.Real]):
    xs[0] = 5
    return 1

@fp.fpy
def order_caller(xs: list[fp.Real]):
    return xs[0] + setfirst(xs)

ALL = [order_caller, call_in_comprehension, call_in_ifexpr, hyp, ctx_caller, mutating_caller, name_clash_caller, call_in_loop, arg_order, nested_with_caller, hoistable, chain]

# ---------------------------------------------------------------------------------------------------------
# shapes added with the xgen upgrade

SCALE = 2.5
NEGZ_FREE = 0.0
TABLE = [1.0, 0.5, 0.25]

@fp.fpy(ctx=fp.MPFloatContext(3, fp.RM.RTZ))
def coarse(x: fp.Real, y: fp.Real):
    t = x / 3
    with fp.FP32:
        u = t + y / 7
        return u * SCALE

@fp.fpy
def shares_names(t: fp.Real, t0: fp.Real):
    i = t + t0
    n = 0
    for i in range(3):
        n = n * 2 + i + t
    (t, t0) = (t0, n)
    return t - t0 + i

@fp.fpy
def drain(xs: list[fp.Real]):
    if len(xs) > 0:
        xs[0] = xs[0] - 1
    return (xs[0] if len(xs) > 0 else -1)

@fp.fpy
def uses_helpers(t: fp.Real, xs: list[fp.Real], c: fp.Context):
    i = coarse(t, 1) + shares_names(t, 2)
    with c:
        t0 = coarse(i, t) + i
        with fp.MPFloatContext(4, fp.RM.RAZ):
            n = shares_names(t0, coarse(t, t)) / 3
    acc = 0
    for t3 in TABLE:
        acc = acc * 2 + shares_names(t3, acc)
    return (i, t0, n, acc, SCALE)

@fp.fpy
def call_in_lazy_places(xs: list[fp.Real], a: fp.Real):
    k = 0
    while drain(xs) > 0 and k < 5:
        with fp.INTEGER:
            k = k + 1
    b = a > 0 and drain(xs) > -5
    c = (drain(xs) if a > 1 else a)
    zs = [drain(xs) + y for y in xs]
    return (k, b, c, zs, xs)

@fp.fpy
def ctx_in_loop(xs: list[fp.Real], p: fp.Real):
    ctx = 0.5
    acc = 0
    for x in xs:
        with fp.IEEEContext(5, 16, fp.RM.RTP):
            acc = acc + x / 3
        with fp.MPFloatContext(p + 2):
            acc = acc * ctx + 1 / 3
    return (acc, ctx)

ALL += [uses_helpers, call_in_lazy_places, ctx_in_loop]
META = {'uses_helpers': {'kinds': ['R', 'L', 'C']}, 'ctx_in_loop': {'kinds': ['L', 'Q'], 'quadratic': False}}
