"""hand-written caller/callee programs exercising inlining, specialisation, closing, hoisting (C09)"""
import fpy2 as fp

@fp.fpy
def sq(x: fp.Real):
    return x * x

@fp.fpy(ctx=fp.IEEEContext(5, 16, fp.RM.RTZ))
def third16(x: fp.Real):
    t = x / 3
    return t

@fp.fpy
def bump(xs: list[fp.Real], a: fp.Real):
    if len(xs) > 0:
        xs[0] = xs[0] + a
    t = a * 2
    return t

@fp.fpy
def clash(x: fp.Real):
    t = x + 1
    y = t * 2
    return y

@fp.fpy
def hyp(x: fp.Real, y: fp.Real):
    return sq(x) + sq(y)

@fp.fpy
def ctx_caller(x: fp.Real):
    with fp.MPFloatContext(3, fp.RM.RNE):
        a = sq(x) + third16(x)
    b = third16(x) + sq(x)
    return (a, b)

@fp.fpy
def mutating_caller(xs: list[fp.Real], a: fp.Real):
    t = bump(xs, a)
    u = bump(xs, t)
    return (t, u, xs)

@fp.fpy
def name_clash_caller(x: fp.Real):
    t = 10
    y = clash(x) + t
    return (y, t)

@fp.fpy
def call_in_loop(xs: list[fp.Real]):
    acc = 0
    for x in xs:
        acc = acc + sq(x)
    return acc

@fp.fpy
def arg_order(xs: list[fp.Real]):
    a = bump(xs, 1) + bump(xs, 2)
    return (a, xs)

@fp.fpy
def nested_with_caller(x: fp.Real):
    with fp.IEEEContext(8, 32, fp.RM.RNE):
        with fp.MPFloatContext(2, fp.RM.RAZ):
            a = sq(x)
        b = sq(x)
    return (a, b)

@fp.fpy
def hoistable(xs: list[fp.Real]):
    acc = 0
    for x in xs:
        with fp.IEEEContext(5, 16, fp.RM.RNE):
            acc = acc + x
    return acc

@fp.fpy
def chain(x: fp.Real):
    return hyp(x, sq(x))

@fp.fpy
def call_in_comprehension(xs: list[fp.Real], ys: list[fp.Real]):
    l = [bump(xs, 1) for c in ys]
    return (l, xs)

@fp.fpy
def call_in_ifexpr(xs: list[fp.Real], a: fp.Real):
    t = bump(xs, 1) if a > 0 else a
    return (t, xs)

@fp.fpy
def setfirst(xs: list[fp.Real]):
    xs[0] = 5
    return 1

@fp.fpy
def order_caller(xs: list[fp.Real]):
    return xs[0] + setfirst(xs)

ALL = [order_caller, call_in_comprehension, call_in_ifexpr, hyp, ctx_caller, mutating_caller, name_clash_caller, call_in_loop, arg_order, nested_with_caller, hoistable, chain]
