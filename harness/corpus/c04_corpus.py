"""hand-written programs pinning documented evaluation rules at their edges (C04)

Every function of ALL is run on the real interpreter and — translated from THIS SOURCE TEXT by harness/c04front.py —
on the Lean evaluator.  KINDS gives the argument kinds the harness draws inputs for
(R real, N small number, B bool, L list, LL nested list, P pair, C context); INPUTS adds fixed argument tuples (source text).
"""
import fpy2 as fp
from fractions import Fraction

KINDS = {}
INPUTS = {}
ALL = []

def case(*kinds, inputs=None):
    def reg(fn):
        ALL.append(fn); KINDS[fn.name] = list(kinds)
        if inputs: INPUTS[fn.name] = inputs
        return fn
    return reg

# ------------------------------------------------------------------------------------------------ contexts

@case('R', 'N')
@fp.fpy
def dyn_ctx_positional(x: fp.Real, p: fp.Real):
    with fp.MPFloatContext(3, fp.RM.RNE):
        with fp.MPFloatContext(p + 1, fp.RM.RNE):
            y = x + 0.1
        z = x + 0.1
    return (y, z)

@case('R', 'N')
@fp.fpy
def dyn_ctx_keyword(x: fp.Real, p: fp.Real):
    with fp.MPFloatContext(3, fp.RM.RNE):
        with fp.MPFloatContext(pmax=p + 1):
            y = x / 3
        z = x / 3
    return (y, z)

@case('R', 'N')
@fp.fpy
def dyn_ctx_ieee(x: fp.Real, es: fp.Real):
    with fp.MPFloatContext(2, fp.RM.RTZ):
        with fp.IEEEContext(es + 2, 2 * es + 10, fp.RM.RNE):
            y = x * 1.1
    return y

@case('R', 'N')
@fp.fpy
def dyn_ctx_fixed(x: fp.Real, n: fp.Real):
    with fp.MPFloatContext(2, fp.RM.RTZ):
        with fp.MPFixedContext(0 - n - 1, fp.RM.RNE):
            y = x * 1.1
    return y

@case('R', 'N')
@fp.fpy
def dyn_ctx_all_keywords(x: fp.Real, n: fp.Real):
    # no positional argument at all: the constructor expression is still evaluated under the real context
    with fp.MPFloatContext(1, fp.RM.RTZ):
        with fp.MPSFloatContext(pmax=0.1 * 30 + n, emin=0 - n, rm=fp.RM.RAZ):
            y = x / 3
        with fp.FixedContext(signed=True, scale=0 - (1 / 3) * 9, nbits=n + 6, rm=fp.RM.RNA, overflow=fp.OV.SATURATE):
            z = x / 3
        w = x / 3
    return (y, z, w)

@case('R', 'R')
@fp.fpy
def ctx_sequential_and_nested(x: fp.Real, y: fp.Real):
    a = x * y
    with fp.IEEEContext(5, 16, fp.RM.RTZ):
        b = x * y
        with fp.MPFloatContext(2, fp.RM.RAZ):
            c = x * y
            with fp.REAL:
                d = x * y
            e = x * y
        f = x * y
    with fp.FixedContext(True, -3, 12, fp.RM.RNE, fp.OV.SATURATE):
        g = x * y
    h = x * y
    return (a, b, c, d, e, f, g, h)

@case('R', 'L')
@fp.fpy
def ctx_in_loops(x: fp.Real, xs: list[fp.Real]):
    acc = 0
    for e in xs:
        with fp.MPFloatContext(3, fp.RM.RTP):
            acc = acc + e * x
        acc = acc + e * x
    k = 0
    while k < 2:
        with fp.MPFloatContext(2, fp.RM.RTN):
            acc = acc + 0.1
        with fp.REAL:
            k = k + 1
    return acc

@fp.fpy(ctx=fp.MPFloatContext(3, fp.RM.RTZ))
def _declared3(x):
    return x / 3

@fp.fpy
def _inherits(x):
    return x / 3

@fp.fpy(ctx=fp.IEEEContext(4, 8, fp.RM.RTP))
def _declared_calls_inherits(x):
    a = _inherits(x)
    with fp.MPFloatContext(2, fp.RM.RTN):
        b = _inherits(x)
        c = _declared3(x)
    return (a, b, c, x / 3)

@case('R')
@fp.fpy
def callee_contexts(x: fp.Real):
    with fp.MPFloatContext(5, fp.RM.RAZ):
        a = _declared3(x)
        b = _inherits(x)
        c = _declared_calls_inherits(x)
        d = x / 3
    e = _inherits(x)
    return (a, b, c, d, e)

@fp.fpy
def _callee_with(x):
    with fp.MPFloatContext(2, fp.RM.RTZ):
        y = x / 3
    return (y, x / 3)

@case('R')
@fp.fpy
def callee_with_does_not_leak(x: fp.Real):
    with fp.MPFloatContext(6, fp.RM.RNE):
        a = _callee_with(x)
        b = x / 3
    return (a, b)

@case('R', 'B')
@fp.fpy
def ctx_as_value(x: fp.Real, b: bool):
    with fp.MPFloatContext(3, fp.RM.RNE) as c1:
        y = x / 3
    c2 = fp.IEEEContext(5, 16, fp.RM.RTZ)
    cs = (c1, c2)
    k, _ = cs
    with (c1 if b else c2) as c3:
        z = x / 3
        with c2:
            w = x / 3
    with k:
        v = x / 3
    with c3:
        u = x / 3
    return (y, z, w, v, u)

@fp.fpy
def _ctx_param_helper(x, c):
    with c:
        r = x * 1.1
    return r

@case('R', 'C')
@fp.fpy
def ctx_argument(x: fp.Real, c: fp.Context):
    with c:
        y = x / 3 + 0.1
    return (y, x / 3 + 0.1, _ctx_param_helper(x, c), _ctx_param_helper(x, fp.MPFloatContext(2, fp.RM.RAZ)))

GC_NARROW = fp.MPFloatContext(3, fp.RM.RTP)
GP = 4

@case('R')
@fp.fpy
def ctx_free_variable(x: fp.Real):
    with GC_NARROW:
        y = x / 3
    with fp.MPFloatContext(GP, fp.RM.RTZ):
        z = x / 3
    with fp.MPFloatContext(GP + 1, fp.RM.RTZ):
        w = x / 3
    return (y, z, w)

@case('R')
@fp.fpy
def ctx_all_families(x: fp.Real):
    with fp.IEEEContext(es=5, nbits=16, rm=fp.RM.RTZ):
        a = x * 0.1
    with fp.EFloatContext(4, 8, False, fp.EFloatNanKind.MAX_VAL, eoffset=1):
        b = x * 0.1
    with fp.MPBFloatContext(4, -5, 240, fp.RM.RNE, fp.OV.SATURATE):
        c = x * 1000
    with fp.FixedContext(True, -2, 8, overflow=fp.OV.SATURATE):
        d = x * 1000
    with fp.SMFixedContext(-1, 6, overflow=fp.OV.SATURATE):
        e = x * 3.3
    with fp.MPBFixedContext(-3, 100, fp.RM.RTN, fp.OV.SATURATE):
        f = x * 3.3
    with fp.MPSFloatContext(3, -2):
        g = x * 0.01
    with fp.MPFixedContext(-2, enable_nan=True, enable_inf=True):
        h = x / 0
    with fp.FP16:
        i = x * 0.1
    with fp.INTEGER:
        j = x * 3.3
    with fp.UINT8:
        k = x * 3.3
    return (a, b, c, d, e, f, g, h, i, j, k)

@case('R', 'N')
@fp.fpy
def ctx_constructor_errors(x: fp.Real, p: fp.Real):
    # argument conversion of a constructor: integer expected, finite dyadic expected, unknown values
    with fp.MPFloatContext(p):
        y = x * 0.1
    with fp.IEEEContext(p, 2 * p + 1):
        z = x * 0.1
    with fp.FixedContext(True, 0 - p, p):
        w = x * 0.1
    return (y, z, w)

class ScaledHalf(fp.IEEEContext):
    """a user context whose constructor takes a `float` and a `bool` besides integers (constructor-argument conversion)"""
    def __init__(self, es: int, nbits: int, bias: float = 0.0, toward_zero: bool = False):
        super().__init__(es, nbits, fp.RM.RTZ if toward_zero else (fp.RM.RNE if bias == 0.5 else fp.RM.RAZ))
        self.bias = bias

@case('R')
@fp.fpy
def ctx_user_class(x: fp.Real):
    with ScaledHalf(5, 16, 0.5):
        a = x / 3
    with ScaledHalf(5, 16, bias=0.25, toward_zero=True):
        b = x / 3
    with ScaledHalf(4, 8):
        c = x / 3
    return (a, b, c)

# ------------------------------------------------------------------------------------------------ lists, sharing, iteration

@case('L')
@fp.fpy
def inplace_scan_enumerate(xs: list[fp.Real]):
    for i, x in enumerate(xs):
        if i + 1 < len(xs):
            xs[i + 1] = xs[i + 1] + x
    return xs

@case('L')
@fp.fpy
def inplace_scan_zip(xs: list[fp.Real]):
    for a, b in zip(xs, xs[1:]):
        if len(xs) > 1:
            xs[1] = a + b
    return xs

@case('L')
@fp.fpy
def inplace_scan_plain(xs: list[fp.Real]):
    # a plain `for x in xs` walks the LIVE list (an index loop): writes ahead of the cursor are seen
    i = 0
    for x in xs:
        if i + 1 < len(xs):
            xs[i + 1] = xs[i + 1] + x
        with fp.REAL:
            i = i + 1
    return xs

@fp.fpy
def _bump_next(xs, i):
    if i + 1 < len(xs):
        xs[i + 1] = xs[i + 1] * 2
    return 0

@case('L')
@fp.fpy
def inplace_scan_comprehension(xs: list[fp.Real]):
    ys = [_bump_next(xs, i) + x for i, x in enumerate(xs)]
    zs = [_bump_next(xs, 0) + x for x in xs]
    return (xs, ys, zs)

@fp.fpy
def bump_rest(xs: list[fp.Real], i: fp.Real):
    if i + 1 < len(xs):
        xs[i + 1] = xs[i + 1] * 2
    return 0

@case('L')
@fp.fpy
def zip_mutating_callee(xs: list[fp.Real]):
    acc = 0
    for i, x in enumerate(xs):
        t = bump_rest(xs, i)
        acc = acc + x
    return (acc, xs)

@fp.fpy
def _identity_list(xs):
    return xs

@fp.fpy
def _fresh_copy(xs):
    return xs[:]

@case('L', 'R')
@fp.fpy
def aliasing(xs: list[fp.Real], v: fp.Real):
    ys = xs
    zs = xs[:]
    ws = _identity_list(xs)
    us = _fresh_copy(xs)
    t = (xs, 1)
    ts, _ = t
    box = [xs, zs]
    cs = [e for e in xs]
    if len(xs) > 0:
        ws[0] = v
        zs[0] = v + 1
        us[0] = v + 2
        ts[len(ts) - 1] = v + 3
        box[0][0] = box[0][0] + 4
        box[1][0] = box[1][0] + 5
        cs[0] = v + 6
    return (xs, ys, zs, ws, us, ts, box, cs)

@case('LL', 'R')
@fp.fpy
def nested_sharing(m: list[list[fp.Real]], v: fp.Real):
    outer = m[:]            # fresh outer cells, the SAME rows
    row = m[0]
    rows = [r for r in m]
    if len(m[0]) > 0:
        outer[0][0] = v
        rows[len(rows) - 1][0] = rows[len(rows) - 1][0] + 1
    outer[0] = [v, v]       # replaces a cell of the copy only
    return (m, outer, row, rows)

@case('LL', 'N', 'N', 'R')
@fp.fpy
def nested_index_assign(m: list[list[fp.Real]], i: fp.Real, j: fp.Real, v: fp.Real):
    m[i][j] = v
    return (m, m[i][j], m[i])

@case('L', 'N', 'N')
@fp.fpy
def slices(xs: list[fp.Real], a: fp.Real, b: fp.Real):
    return (xs[a:b], xs[a:], xs[:b], xs[:], xs[0:0], xs[len(xs):], xs[a:b][0:0])

@case('L', 'N')
@fp.fpy
def indexing(xs: list[fp.Real], i: fp.Real):
    return (xs[i], xs[i + 0.0], [xs, xs][0][i])

@case('N', 'N', 'N')
@fp.fpy
def ranges(a: fp.Real, b: fp.Real, c: fp.Real):
    r1 = range(a)
    r2 = range(a, b)
    r3 = range(a, b, c)
    return (r1, r2, r3, [i * 0.5 for i in range(b, a, 0 - 1)], len(range(a)), sum(range(b)))

@case('L', 'L')
@fp.fpy
def zips(xs: list[fp.Real], ys: list[fp.Real]):
    z0 = zip()
    z1 = zip(xs)
    z2 = zip(xs, xs)
    z3 = zip(xs, xs, [i for i in range(len(xs))])
    z4 = zip(xs, ys)        # strict: unequal lengths are an error
    return (z0, z1, z2, z3, z4, enumerate(ys), enumerate(zip(xs, xs)))

@case('L', 'L')
@fp.fpy
def comprehensions(xs: list[fp.Real], ys: list[fp.Real]):
    a = [x + y for x in xs for y in ys]
    b = [(i, j, x) for i, x in enumerate(xs) for j in range(i)]
    c = [[x * y for y in ys] for x in xs]
    d = [p + q + r for (p, q), r in zip(zip(xs, xs), xs)]
    e = [x for _ in ys for x in xs]
    return (a, b, c, d, e)

@case('R', 'L')
@fp.fpy
def comprehension_scopes(x: fp.Real, xs: list[fp.Real]):
    # a comprehension target is local to the comprehension; a `for` target is not
    ys = [x * 2 for x in xs]
    a = x
    for x in xs:
        ys[0] = ys[0] + x
    return (a, x, ys, [x for x in [x, x + 1]], x)

@case('L')
@fp.fpy
def reductions(xs: list[fp.Real]):
    with fp.MPFloatContext(3, fp.RM.RNE):
        s = sum(xs)
        t = sum([x for x in xs])
    return (s, t, len(xs), any([x > 1 for x in xs]), all([x > 1 for x in xs]), any([]), all([]), sum([]), sum([xs[0]]) if len(xs) > 0 else 0)

@case('L')
@fp.fpy
def minmax_list(xs: list[fp.Real]):
    return (min(xs), max(xs), fp.fmin(xs), fp.fmax(xs), min([x for x in xs]), max(xs[0:1]))

@case('R', 'R')
@fp.fpy
def minmax_zero_ties(v: fp.Real, a: fp.Real):
    with fp.FP64:
        z = a * 0.0
        r = (max(v, 0.0), min(0.0, v), max(v, z), min(z, v), max(0.0, v, z), min(v, -z, 0.0), min(-0.0, 0), max(-0.0, 0), min(0, -0.0), max(0, -0.0),
             min([0.0, -0.0]), max([-0.0, 0.0]), min([z, -z]), max([z, -z]), fp.fmin(-z, z), fp.fmax(-z, z))
    return r

@case('L')
@fp.fpy
def sum_unrounded_first(xs: list[fp.Real]):
    with fp.MPFloatContext(2, fp.RM.RNE):
        s = sum(xs)
    return s

@case('K')
@fp.fpy
def empty_and_size(n: fp.Real):
    xs = fp.empty(n)
    for i in range(n):
        xs[i] = i * 0.5
    g = fp.empty(2, 3)
    for i in range(2):
        for j in range(3):
            g[i][j] = i * 10 + j + n
    row = g[1]
    row[0] = -1
    c = fp.empty(2, 2, 2)
    for i in range(2):
        for j in range(2):
            for k in range(2):
                c[i][j][k] = i * 4 + j * 2 + k
    c[0][0] = c[1][1]           # rows can be re-pointed: now shared
    c[1][1][0] = n
    return (xs, row[2], len(g), len(g[0]), fp.size(xs, 0), g, c)

# ------------------------------------------------------------------------------------------------ evaluation order, short circuits

@fp.fpy
def _tick(xs):
    # returns the counter BEFORE the bump: evaluation order is observable
    v = xs[0]
    xs[0] = xs[0] + 1
    return v

@case('R')
@fp.fpy
def evaluation_order(x: fp.Real):
    c = [0]
    a = _tick(c) - _tick(c) * 2
    b = (_tick(c), _tick(c), [_tick(c), _tick(c)])
    d = fp.fma(_tick(c), _tick(c), _tick(c)) + fp.copysign(_tick(c), 0 - _tick(c))
    e = min(_tick(c), _tick(c), _tick(c)) + max(_tick(c), _tick(c))
    ys = [0, 0, 0, 0]
    ys[_tick(c) - 16] = _tick(c)             # the right-hand side is evaluated before the subscript
    zs = [10, 20, 30, 40, 50, 60, 70, 80, 90, 100, 110, 120, 130, 140, 150, 160, 170, 180, 190, 200, 210, 220, 230]
    f = zs[_tick(c):_tick(c)]
    g = _tick(c) if _tick(c) > 0 else _tick(c)
    h = [_tick(c) + i for i in [_tick(c), _tick(c)]]
    return (a, b, d, e, ys, f, g, h, c)

@case('R', 'R')
@fp.fpy
def short_circuits(x: fp.Real, y: fp.Real):
    c = [0]
    a = (x > y) and (_tick(c) > 100)
    b = (x > y) or (_tick(c) > 100)
    d = x < _tick(c) + y < _tick(c) + 5 < _tick(c)        # each operand at most once, none after a failed test
    e = x == _tick(c) != y == _tick(c)
    f = (x > 0 or _tick(c) > 0) and (y > 0 or _tick(c) > 0) and not (x > y and _tick(c) > 0)
    g = any([_tick(c) > 0 for _ in range(2)]) or _tick(c) > 0
    return (a, b, d, e, f, g, c)

@case('R', 'L')
@fp.fpy
def while_condition_effects(x: fp.Real, xs: list[fp.Real]):
    c = [0]
    n = 0
    while _tick(c) < 3 and n < 10:
        with fp.REAL:
            n = n + 1
    return (n, c)

# ------------------------------------------------------------------------------------------------ tuples, equality

@case('R', 'R')
@fp.fpy
def tuple_subscript(x: fp.Real, y: fp.Real):
    with fp.MPFloatContext(4, fp.RM.RTZ):
        t = (x + y, x * y)
        u = (t, x)
    return (t[0], t[1], u[0][1], u[1])

@case('R', 'R')
@fp.fpy
def tuple_patterns(x: fp.Real, y: fp.Real):
    a, b = x, y
    a, b = b, a
    (c, (d, _)), e = ((a, (b, x)), y)
    t = (x, (y, [x, y]))
    f, (g, hs) = t
    hs[0] = 0
    (i,) = (x,)
    return (a, b, c, d, e, f, g, hs, t, i, fp.fst((x, y)), fp.snd((x, y)), fp.fst(fp.snd(t)))

@case('R', 'R', 'L')
@fp.fpy
def structural_equality(x: fp.Real, y: fp.Real, xs: list[fp.Real]):
    t = (x, [y, x], (x > y,))
    return (t == t, t != t, xs == xs, xs == xs[:], [x] == [y], (x, y) == (y, x), (x,) != (x,), [] == [], [[x]] == [[x]], (x > y) == (y > x), [xs] == [xs, xs],
            x == y, x != y, x == x, 0.0 == -0.0, [0.0] == [-0.0], 0.5 == fp.rational(1, 2))

@case('R', 'L')
@fp.fpy
def equality_type_errors(x: fp.Real, xs: list[fp.Real]):
    a = (x, x) == [x, x]
    return a

@case('R', 'L')
@fp.fpy
def ordering_type_errors(x: fp.Real, xs: list[fp.Real]):
    return x < xs

# ------------------------------------------------------------------------------------------------ literals

@case()
@fp.fpy
def literal_spellings():
    return (1, 1.0, 1e0, 10e-1, 0x10, 0b11, 0o17, 1_000, 1_0.5_0, .5, 5., 1e3, 1E3, 2.5e-1, 1e22, 5e-324, 0.1, 0.30000000000000004,
            fp.hexfloat('0x1.8p1'), fp.hexfloat('-0x1.4p-3'), fp.hexfloat('0x0p0'), fp.hexfloat('-0x0p0'), fp.hexfloat('0xa.8p+4'), fp.hexfloat('0x.8p1'),
            fp.rational(1, 3), fp.rational(-7, 4), fp.rational(6, 4), fp.rational(0, 5), fp.rational(2, -3), fp.rational(-2, -3),
            fp.digits(3, -2, 10), fp.digits(5, 3, 2), fp.digits(-7, -3, 2), fp.digits(0, 4, 10), fp.digits(1, 2, 16), fp.digits(1, 0, 3),
            fp.nan(), fp.inf(), -fp.inf(), True, False)

@case()
@fp.fpy
def literal_signs():
    return (-0, -0.0, -(0), -(-0.0), - 1.5, -1, +2, -(1), 0.0, 00.50, -(-3), - +4, -2.0, -1e3, -(-(-0)), +(-0), -(+0.0), -0.5e1, -2.5e-1, -fp.rational(0, 4),
            -fp.rational(1, 2), -fp.digits(0, 1, 2), -fp.hexfloat('0x0p0'), -fp.hexfloat('-0x0p0'), -0x10, -(2 + 0), -255, -(255))

@case('R')
@fp.fpy
def literals_are_exact(x: fp.Real):
    with fp.MPFloatContext(2, fp.RM.RNE):
        a = 0.1
        b = -255
        c = (0.1, [255, -0.3])
        d = 0.1 + 0
        e = -0.3
        f = x
        g = fp.rational(1, 3)
        h = 255 if x > 0 else 0.7
    return (a, b, c, d, e, f, g, h)

# ------------------------------------------------------------------------------------------------ statements

@case('R', 'R')
@fp.fpy
def augmented_assignments(x: fp.Real, y: fp.Real):
    with fp.MPFloatContext(4, fp.RM.RNE):
        x += y
        x -= 1
        x *= y
        x /= 3
        x %= 5
        x **= 2
        z: fp.Real = x
        z += z
    return (x, z)

@case('R', 'L')
@fp.fpy
def statements_misc(x: fp.Real, xs: list[fp.Real]):
    """a docstring is not a statement"""
    pass
    x + 1
    _tick([x])
    print(x, xs, True)
    s = 'text'
    n = None
    print([s, x], (n, xs))
    if x > 0:
        pass
    elif x > -1:
        x = x + 1
    elif x > -2:
        x = x + 2
    else:
        pass
    return (x, xs, s, (n, [s]))

@case('R', 'L')
@fp.fpy
def assert_messages(x: fp.Real, xs: list[fp.Real]):
    c = [0]
    assert x < 1e20, "x must be small"
    assert x > -1e20, _tick(c)           # the message is evaluated only when the test fails
    assert _tick(c) < 1, xs[5]
    assert x != 3
    return (x, c)

@case('R', 'L')
@fp.fpy
def early_returns(x: fp.Real, xs: list[fp.Real]):
    with fp.MPFloatContext(2, fp.RM.RNE):
        for e in xs:
            with fp.MPFloatContext(5, fp.RM.RTZ):
                if e > x:
                    return e / 3
        k = 0
        while k < 3:
            if x > k:
                return x / 3
            with fp.REAL:
                k = k + 1
        y = x * 1.1
    return y * 1.1

@case('R')
@fp.fpy
def early_return_in_with(x: fp.Real):
    with fp.MPFloatContext(2, fp.RM.RNE):
        if x > 1:
            return x * 1.1
        y = x * 1.1
    z = y * 1.1
    return z

@case('R')
@fp.fpy
def neg_abs_narrow_range(a: fp.Real):
    with fp.IEEEContext(8, 16, fp.RM.RNE):
        b = a * 1
    with fp.IEEEContext(5, 16, fp.RM.RNE):
        c = -b
        d = abs(b)
    return (b, c, d)

# ------------------------------------------------------------------------------------------------ operators

@case('R', 'R')
@fp.fpy
def operator_table(x: fp.Real, y: fp.Real):
    with fp.MPFloatContext(5, fp.RM.RNE):
        r = (x + y, x - y, x * y, x / y, x % y, x ** 2, x ** -1, fp.add(x, y), fp.sub(x, y), fp.mul(x, y), fp.div(x, y), fp.pow(x, 3),
             fp.copysign(x, y), fp.fdim(x, y), fp.fmod(x, y), fp.remainder(x, y), fp.hypot(x, y), fp.fmin(x, y), fp.fmax(x, y), min(x, y), max(x, y),
             fp.fma(x, y, x), -x, +x, abs(x), fp.fabs(x), fp.sqrt(x), fp.cbrt(x), fp.ceil(x), fp.floor(x), fp.trunc(x), fp.roundint(x), fp.nearbyint(x),
             fp.round(x), fp.round_at(x, -1), fp.round_at(x, 1), fp.isnan(x), fp.isinf(x), fp.isfinite(x), fp.signbit(x),
             x < y, x <= y, x > y, x >= y, x == y, x != y, not (x < y), x < y and y < 1, x < y or y < 1, x if x < y else y)
    return r

@case('R')
@fp.fpy
def casts(x: fp.Real):
    with fp.IEEEContext(5, 16):
        a = fp.round(x)
        b = fp.cast(a)
        c = fp.round_exact(a)
        d = fp.cast(x)          # an error unless x is representable
    return (a, b, c, d)

# ------------------------------------------------------------------------------------------------ free variables, closures, primitives

G_FLOAT = 2.5
G_INT = 3
G_FRAC = Fraction(1, 3)
G_NEGZERO = -0.0
G_BOOL = True
G_LIST = [1.0, 2.0]
G_NESTED = (1.0, [2.0, [3.0]])
G_FLOATOBJ = fp.Float.from_float(0.1)
G_TEXT = 'opaque'

@fp.fpy
def _captured_nested_helper(v):
    _, (a, (bs,)) = (0, (0, ([0],)))
    head, rest = G_NESTED
    inner, deep = rest[0], rest[1]
    rest[0] = rest[0] + v          # the list inside a captured TUPLE is a fresh copy at every activation too
    deep[0] = deep[0] + v
    return (G_NESTED, rest)

@fp.fpy
def _captured_list_helper(v):
    G_LIST[0] = G_LIST[0] + v      # a captured list is a fresh copy at every activation
    return G_LIST

@case('R')
@fp.fpy
def free_variables(x: fp.Real):
    G_LIST[1] = x
    a = _captured_list_helper(x)
    b = _captured_list_helper(x)
    t = G_NESTED
    n1 = _captured_nested_helper(x)
    n2 = _captured_nested_helper(x)
    with fp.MPFloatContext(3, fp.RM.RNE):
        y = x * G_FLOAT + G_INT + G_FRAC + G_FLOATOBJ
    s = G_TEXT
    return (y, a, b, G_LIST, t, G_BOOL, G_NEGZERO, 1 / G_NEGZERO, n1, n2)

def _factory():
    K = 0.1
    KL = [5.0, 6.0]
    @fp.fpy
    def closure(x):
        KL[0] = KL[0] + x
        return (x * K, KL)
    return closure
closure = _factory()
case('R')(closure)

@fp.fpy_primitive
def prim_double(x: fp.Float, ctx: fp.Context) -> fp.Float:
    import fpy2.ops as ops
    return ops.mul(x, 2, ctx=ctx)

@fp.fpy
def prim_double_twin(x):
    return x * 2

@fp.fpy_primitive
def prim_python_numbers(x: fp.Float) -> tuple[float, int, list[float]]:
    return (3.25, 7, [0.5, 2])

@fp.fpy
def prim_python_numbers_twin(x):
    return (3.25, 7, [0.5, 2])

@fp.fpy_primitive
def prim_takes_list(xs: list[fp.Float], ctx: fp.Context) -> fp.Float:
    return ctx.round(len(xs))

@fp.fpy
def prim_takes_list_twin(xs):
    return fp.round(len(xs))

C04_TWINS = {'prim_double': 'prim_double_twin', 'prim_python_numbers': 'prim_python_numbers_twin', 'prim_takes_list': 'prim_takes_list_twin'}

@case('R', 'L')
@fp.fpy
def primitives(x: fp.Real, xs: list[fp.Real]):
    with fp.MPFloatContext(2, fp.RM.RNE):
        a = prim_double(fp.round(x))
        n = prim_takes_list(xs)
    b = prim_double(fp.round(x))
    c = prim_python_numbers(fp.round(x))
    _, _, l = c
    l[0] = x
    return (a, b, c, n, prim_python_numbers(fp.round(x)))

# ------------------------------------------------------------------------------------------------ typed arguments (annotations do not round)

@case('R', 'R', 'R', 'L', 'P', 'B')
@fp.fpy
def typed_arguments(a: float, b: int, c: fp.Real, d: list[float], e: tuple[float, int], f: bool) -> tuple[float, int]:
    with fp.MPFloatContext(3, fp.RM.RNE):
        g = a + 0
    return (a, b, c, d, e, f, g)

# ------------------------------------------------------------------------------------------------ one construct per function (an error in one form must not hide the next)

@case('L', 'N')
@fp.fpy
def slice_from(xs: list[fp.Real], a: fp.Real):
    return xs[a:]

@case('L', 'N')
@fp.fpy
def slice_to(xs: list[fp.Real], b: fp.Real):
    return xs[:b]

@case('L', 'N', 'N')
@fp.fpy
def slice_both(xs: list[fp.Real], a: fp.Real, b: fp.Real):
    return xs[a:b]

@case('L9', 'K')
@fp.fpy
def exact_indices(xs: list[fp.Real], n: fp.Real):
    # enumerate / range / len produce EXACT integers whatever the active context
    with fp.MPFloatContext(1, fp.RM.RNE):
        a = [i for i, _ in enumerate(xs)]
        b = [i for i in range(n + 7)]
        c = [i for i in range(10, 0, -3)]
        d = (len(xs), len(a))
        e = [xs[i] for i, _ in enumerate(xs)]
        s = 0
        for i, x in enumerate(xs):
            s = i
    with fp.FixedContext(False, 1, 3, fp.RM.RTZ, fp.OV.SATURATE):
        f = [j for j, _ in enumerate(xs)]
        g = [k for k in range(len(xs))]
    return (a, b, c, d, e, s, f, g)

@case('R', 'R')
@fp.fpy
def minmax_displays(x: fp.Real, y: fp.Real):
    return (min([x]), max([x]), min([x, y]), max([y, x]), min([x, y, x]), fp.fmin([x]), fp.fmax([y]), min(x, y), max(x, y))

@case('L')
@fp.fpy
def for_sees_writes_ahead(xs: list[fp.Real]):
    # a plain `for` walks the live list: an element rewritten before the cursor reaches it is seen with its new value
    seen = [0 for _ in xs]
    i = 0
    for x in xs:
        seen[i] = x
        if len(xs) > 0:
            xs[len(xs) - 1] = xs[len(xs) - 1] + 1
        with fp.REAL:
            i = i + 1
    ys = xs
    acc = 0
    for y in ys:
        if len(xs) > 1:
            xs[1] = 100
        acc = acc + y
    return (seen, xs, acc)

# ------------------------------------------------------------------------------------------------ index positions: literal vs variable vs expression

@case('L', 'LL', 'N', inputs=[['[1.5, 2.5, 3.5]', '[[1.0, 2.0], [3.0, 4.0]]', k] for k in ['0', '1', '2', '3', '4', '5', '8', '11', '24', '2.5', '-1', '-2', '3.0', '7']])
@fp.fpy
def index_positions(xs: list[fp.Real], m: list[list[fp.Real]], k: fp.Real):
    # FPy has no negative indices: a literal, a variable and an expression index behave alike, in reads AND writes
    n = 0 - 1
    if k == 0: r = xs[-1]
    elif k == 1: r = xs[n]
    elif k == 2: r = xs[0 - 1]
    elif k == 3:
        xs[-1] = 9
        r = xs
    elif k == 4:
        m[-1][1] = 9
        r = m
    elif k == 5:
        m[1][-1] = 9
        r = m
    elif k == 8: r = xs[:2][-1]
    elif k == 11: r = m[-1][0]
    elif k == 24: r = m[0][-2]
    elif k == 2.5: r = xs[len(xs)]
    elif k == -1: r = xs[-0]
    elif k == -2: r = (xs[len(xs) - 1], xs[2.0], xs[fp.rational(4, 2)], xs[1e0])
    elif k == 3.0: r = xs[1e22]
    else:
        xs[n] = 9
        r = xs
    return r

GI_BIG = 2 ** 64 - 1
GI_MOD = 2 ** 61 - 1
GL_BIG = [2 ** 53 + 1, -(3 ** 40), 1]
GT_BIG = (2 ** 70 + 1, [2 ** 64 - 1])

@case('R', 'L', 'P')
@fp.fpy
def exact_integers(x: fp.Real, xs: list[fp.Real], t: tuple[fp.Real, fp.Real]):
    # Python ints of any size are exact values: as arguments, as elements of list / tuple arguments, as captured globals
    a, b = t
    with fp.REAL:
        r = (x + 0, x * 2 - x - x, a - b, GI_BIG + 1, GI_BIG % GI_MOD, GL_BIG[0] - 1, GT_BIG)
    with fp.INTEGER:
        s = (x * 1, sum(xs), GI_BIG - GI_MOD)
    return (x, xs, t, r, s, GL_BIG, [e for e in xs])

# ------------------------------------------------------------------------------------------------ more statements / contexts

@case('R', 'L')
@fp.fpy
def effect_statements_run(x: fp.Real, xs: list[fp.Real]):
    # an expression statement is evaluated (and may fail) although its value is discarded
    with fp.FP32:
        fp.round(x)
        xs[2]
        fp.round_exact(x)
        y = x * x
    return y

@case('R', 'N')
@fp.fpy
def dyn_ctx_named(x: fp.Real, p: fp.Real):
    with fp.MPFloatContext(1, fp.RM.RTZ):
        with fp.MPFloatContext(0.1 * 30 + p, fp.RM.RNE) as c:
            y = x / 3
        with fp.IEEEContext(es=(1 / 3) * 9 + p, nbits=13 + 2 * p) as d:
            z = x / 3
        with c:
            w = x / 3
        with d:
            v = x / 3
    return (y, z, w, v)

@case('R', 'R')
@fp.fpy
def syntax_zoo_undecidable(x: fp.Real, y: fp.Real):
    # constructs the Lean model does not decide: the front ends are compared as text, the values by the dispatch oracle
    a = (fp.sin(x), fp.cos(x), fp.tan(x), fp.asin(x), fp.acos(x), fp.atan(x), fp.sinh(x), fp.cosh(x), fp.tanh(x), fp.asinh(x), fp.acosh(x), fp.atanh(x))
    b = (fp.exp(x), fp.exp2(x), fp.expm1(x), fp.log(x), fp.log2(x), fp.log10(x), fp.log1p(x), fp.erf(x), fp.erfc(x), fp.lgamma(x), fp.tgamma(x), fp.atan2(y, x))
    c = (fp.const_pi(), fp.const_e(), fp.const_log2e(), fp.const_log10e(), fp.const_ln2(), fp.const_pi_2(), fp.const_pi_4(), fp.const_1_pi(), fp.const_2_pi(),
         fp.const_2_sqrt_pi(), fp.const_sqrt2(), fp.const_sqrt1_2())
    d = (x ** 0.5, x ** y, fp.pow(x, 0.5), 2 ** x, x ** 1.5, x ** -0.5, fp.isnormal(x), fp.logb(x), fp.dim([x, y]), fp.size([[x], [y]], 1))
    return (a, b, c, d)

# ------------------------------------------------------------------------------------------------ boundary values, arities

@case('LB', 'B')
@fp.fpy
def bool_lists(bs: list[bool], b: bool):
    return (any(bs), all(bs), [not c for c in bs], bs == [b], b, (b, [b]), any([b]) and all([c or b for c in bs]))

@case('R', 'N', inputs=[['1.5', k] for k in ['0', '1', '2', '3']])
@fp.fpy
def call_arity_errors(x: fp.Real, k: fp.Real):
    if k == 0: r = _inherits(x, x)
    elif k == 1: r = _inherits()
    elif k == 2: r = _ctx_param_helper(x)
    else: r = _inherits(x)
    return r

@case('R', 'R', inputs=[['1.5'], ['1.5', '2.5', '3.5'], []])
@fp.fpy
def python_call_arity(x: fp.Real, y: fp.Real):
    return x + y

# ------------------------------------------------------------------------------------------------ ill-typed operands: the error KIND is part of the semantics

@case('R', 'L', 'N', inputs=[['1.5', '[1.5, 2.5, -3]', k] for k in ['0', '1', '2', '3', '4', '5', '8', '11', '24', '2.5', '-1', '-2', '3.0', '7']])
@fp.fpy
def type_errors(x: fp.Real, xs: list[fp.Real], k: fp.Real):
    # exactly one of these is selected by k; each must be refused with the documented kind
    b = x > 0
    if k == 0: r = xs[b]
    elif k == 1: r = x[0:1]
    elif k == 2: r = xs[b:]
    elif k == 3: r = xs[:b]
    elif k == 4: r = range(xs)
    elif k == 5: r = range(0, b)
    elif k == 7: r = range(b, 3)
    elif k == 8: r = range(0, 3, xs)
    elif k == 11: r = sum(x)
    elif k == 24: r = sum([b, b])
    elif k == 2.5: r = min(x)
    elif k == -1: r = max(b)
    elif k == -2: r = min(x, b)
    elif k == 3.0: r = max([x, b])
    else: r = 0
    return r

@case('R', 'L', 'N', inputs=[['1.5', '[1.5, 2.5, -3]', k] for k in ['0', '1', '2', '3', '4', '5', '8', '11', '24', '2.5', '-1', '-2', '3.0', '7']])
@fp.fpy
def type_errors2(x: fp.Real, xs: list[fp.Real], k: fp.Real):
    b = x > 0
    t = (x, x)
    if k == 0: r = len(x)
    elif k == 1: r = len(t)
    elif k == 2: r = any(x)
    elif k == 3: r = all([x, x])
    elif k == 4: r = enumerate(x)
    elif k == 5: r = x + xs
    elif k == 8: r = xs[xs]
    elif k == 11: r = xs < xs
    elif k == 24: r = b <= x
    elif k == 2.5: r = fp.fst((x, x, x))
    elif k == -1: r = fp.snd((x,))
    elif k == -2: r = fp.fma(x, xs, x)
    elif k == 3.0: r = fp.isnan(xs)
    else: r = 0
    return r

@case('R', 'N', inputs=[['1.5', k] for k in ['0', '1', '2', '3']])
@fp.fpy
def type_errors_context(x: fp.Real, k: fp.Real):
    b = x > 0
    if k == 0:
        with fp.MPFloatContext(b):
            r = x + 1
    elif k == 1:
        with x:
            r = x + 1
    elif k == 2:
        with fp.IEEEContext(5, b):
            r = x + 1
    else:
        r = 0
    return r

# ------------------------------------------------------------------------------------------------ known defects of the implementation (classified, see c04.classify)

@case('R')
@fp.fpy
def long_literals(x: fp.Real):
    # C04-F2: "numerical constants are interpreted as-is" — but the parser reads them through a Python float
    with fp.REAL:
        a = 1e23
        b = 0.1000000000000000055511151231257827
        c = 123456789012345678901234567890.5
        d = 1.00000000000000000001
    return (a, b, c, d, x)

@case('L')
@fp.fpy
def comprehension_in_assert_message(xs: list[fp.Real]):
    # C04-F3: the message is evaluated only when the test fails; the function cannot even be compiled
    assert len(xs) >= 0, [x for x in xs]
    return len(xs)

@case('L', 'R')
@fp.fpy
def chain_in_comprehension_iterable(xs: list[fp.Real], a: fp.Real):
    # C04-F4: the walrus that binds the middle operand of a chain is refused by Python inside a comprehension iterable
    return [x for x in (xs if 0 <= a < 100 else [])]
