"""hand-written programs pinning documented evaluation rules at their edges (C04)"""
import fpy2 as fp

@fp.fpy
def dyn_ctx_positional(x: fp.Real, p: fp.Real):
    with fp.MPFloatContext(3, fp.RM.RNE):
        with fp.MPFloatContext(p + 1, fp.RM.RNE):
            y = x + 0.1
        z = x + 0.1
    return (y, z)

@fp.fpy
def dyn_ctx_keyword(x: fp.Real, p: fp.Real):
    with fp.MPFloatContext(3, fp.RM.RNE):
        with fp.MPFloatContext(pmax=p + 1):
            y = x / 3
        z = x / 3
    return (y, z)

@fp.fpy
def dyn_ctx_ieee(x: fp.Real, es: fp.Real):
    with fp.MPFloatContext(2, fp.RM.RTZ):
        with fp.IEEEContext(es + 2, 2 * es + 10, fp.RM.RNE):
            y = x * 1.1
    return y

@fp.fpy
def dyn_ctx_fixed(x: fp.Real, n: fp.Real):
    with fp.MPFloatContext(2, fp.RM.RTZ):
        with fp.MPFixedContext(0 - n - 1, fp.RM.RNE):
            y = x * 1.1
    return y

@fp.fpy
def inplace_scan_enumerate(xs: list[fp.Real]):
    for i, x in enumerate(xs):
        if i + 1 < len(xs):
            xs[i + 1] = xs[i + 1] + x
    return xs

@fp.fpy
def inplace_scan_zip(xs: list[fp.Real]):
    for a, b in zip(xs, xs[1:]):
        if len(xs) > 1:
            xs[1] = a + b
    return xs

@fp.fpy
def bump_rest(xs: list[fp.Real], i: fp.Real):
    if i + 1 < len(xs):
        xs[i + 1] = xs[i + 1] * 2
    return 0

@fp.fpy
def zip_mutating_callee(xs: list[fp.Real]):
    acc = 0
    for i, x in enumerate(xs):
        t = bump_rest(xs, i)
        acc = acc + x
    return (acc, xs)

@fp.fpy
def neg_abs_narrow_range(a: fp.Real):
    with fp.IEEEContext(8, 16, fp.RM.RNE):
        b = a * 1
    with fp.IEEEContext(5, 16, fp.RM.RNE):
        c = -b
        d = abs(b)
    return (b, c, d)

@fp.fpy
def sum_unrounded_first(xs: list[fp.Real]):
    with fp.MPFloatContext(2, fp.RM.RNE):
        s = sum(xs)
    return s

@fp.fpy
def early_return_in_with(x: fp.Real):
    with fp.MPFloatContext(2, fp.RM.RNE):
        if x > 1:
            return x * 1.1
        y = x * 1.1
    z = y * 1.1
    return z

@fp.fpy
def tuple_subscript(x: fp.Real, y: fp.Real):
    with fp.MPFloatContext(4, fp.RM.RTZ):
        t = (x + y, x * y)
        u = (t, x)
    return (t[0], t[1], u[0][1], u[1])

@fp.fpy
def minmax_zero_ties(v: fp.Real, a: fp.Real):
    with fp.FP64:
        z = a * 0.0
        r = (max(v, 0.0), min(0.0, v), max(v, z), min(z, v), max(0.0, v, z), min(v, -z, 0.0))
    return r

ALL = [tuple_subscript, minmax_zero_ties, dyn_ctx_positional, dyn_ctx_keyword, dyn_ctx_ieee, dyn_ctx_fixed, inplace_scan_enumerate, inplace_scan_zip,
       zip_mutating_callee, neg_abs_narrow_range, sum_unrounded_first, early_return_in_with]
