"""
C13 corpus: hand-written programs exercising exactly the sharing routes the property lists
(binding, indexing into nested lists, slicing, construction, tuple packing/unpacking, iteration,
comprehension, zip/enumerate), value-class ladders, static sizes and foldable constants.
Inputs are generated from the annotations; every list argument is non-empty.
`ALL` lists the functions; `NO_ALIAS_CHECK` names those whose sharing goes through a call
(not a route of the property: counted, not judged).
"""
import fpy2 as fp

# ----------------------------------------------------------------- sharing routes

@fp.fpy
def t_bind(a: fp.Real, xs: list[fp.Real]):
    ys = xs
    ys[0] = a
    return (xs[0], ys)

@fp.fpy
def t_bind_const(a: fp.Real):
    xs = [1.0, 2.0]
    ys = xs
    ys[0] = a
    with fp.IEEEContext(5, 16, fp.RM.RNE):
        r = xs[0]
    return (r, xs)

@fp.fpy
def t_index_nested(a: fp.Real, xss: list[list[fp.Real]]):
    row = xss[0]
    row[0] = a
    other = xss[0]
    return (xss[0][0], other, row)

@fp.fpy
def t_slice(a: fp.Real, xss: list[list[fp.Real]]):
    ys = xss[0:1]
    r = ys[0]
    r[0] = a
    zs = xss[:]
    return (xss[0][0], zs, ys)

@fp.fpy
def t_slice_flat(a: fp.Real, xs: list[fp.Real]):
    ys = xs[:]
    ys[0] = a
    zs = xs[0:1]
    return (xs[0], ys, zs)

@fp.fpy
def t_construct(a: fp.Real, xs: list[fp.Real], ys: list[fp.Real]):
    rows = [xs, ys]
    r = rows[1]
    r[0] = a
    rows2 = [r, xs]
    return (ys[0], rows, rows2)

@fp.fpy
def t_construct_const(a: fp.Real):
    xs = [1.0, 2.0]
    ys = [3.0, 4.0]
    rows = [xs, ys]
    r = rows[1]
    r[0] = a
    with fp.IEEEContext(8, 32, fp.RM.RNE):
        q = ys[0] + 0
    return (q, ys)

@fp.fpy
def t_tuple(a: fp.Real, xs: list[fp.Real], ys: list[fp.Real]):
    t = (xs, ys)
    p, q = t
    p[0] = a
    (u, (v, w)) = (ys, (xs, p))
    return (xs[0], q, u, v, w)

@fp.fpy
def t_iterate(a: fp.Real, xss: list[list[fp.Real]]):
    last = xss[0]
    for row in xss:
        row[0] = a
        last = row
    return (xss[0][0], last)

@fp.fpy
def t_comprehension(a: fp.Real, xss: list[list[fp.Real]]):
    rs = [row for row in xss]
    r0 = rs[0]
    r0[0] = a
    ps = [(row, row) for row in xss]
    f, s = ps[0]
    return (xss[0][0], r0, f, s)

@fp.fpy
def t_enumerate(a: fp.Real, xss: list[list[fp.Real]]):
    keep = xss[0]
    for i, row in enumerate(xss):
        row[0] = a + i
        keep = row
    return (xss[0][0], keep)

@fp.fpy
def t_zip(a: fp.Real, xss: list[list[fp.Real]]):
    keep = xss[0]
    for r, s in zip(xss, xss):
        r[0] = a
        keep = s
    pairs = [p for p, q in zip(xss, xss)]
    return (xss[0][0], keep, pairs)

@fp.fpy
def t_ifexpr(a: fp.Real, xs: list[fp.Real], ys: list[fp.Real]):
    zs = xs if a > 0 else ys
    zs[0] = a
    return (xs[0], ys[0], zs)

@fp.fpy
def t_phi(a: fp.Real, xs: list[fp.Real], ys: list[fp.Real]):
    if a > 0:
        zs = xs
    else:
        zs = ys
    zs[0] = a
    ws = zs
    return (xs[0], ys[0], ws)

@fp.fpy
def t_loop_rebind(a: fp.Real, xs: list[fp.Real], ys: list[fp.Real]):
    cur = xs
    k = 0
    while k < 2:
        cur[0] = a + k
        cur = ys
        with fp.REAL:
            k = k + 1
    return (xs[0], ys[0], cur)

@fp.fpy
def t_store_row(a: fp.Real, xss: list[list[fp.Real]], ys: list[fp.Real]):
    xss[0] = ys
    r = xss[0]
    r[0] = a
    return (ys[0], xss)

@fp.fpy
def t_nested3(a: fp.Real, xss: list[list[fp.Real]]):
    cube = [xss, xss]
    plane = cube[1]
    row = plane[0]
    row[0] = a
    return (xss[0][0], cube)

@fp.fpy
def t_fst_snd(a: fp.Real, xs: list[fp.Real], ys: list[fp.Real]):
    t = (xs, ys)
    p, _ = t
    _, q = t
    p[0] = a
    return (xs[0], q)

@fp.fpy
def t_store_deep(a: fp.Real, xss: list[list[fp.Real]], ys: list[fp.Real]):
    cube = [xss, [ys, ys]]
    cube[0][1] = ys
    r = cube[0][1]
    r[0] = a
    s = xss[1]
    return (ys[0], s, cube)

@fp.fpy
def t_tuple_in_list(a: fp.Real, xs: list[fp.Real], ys: list[fp.Real]):
    ps = [(xs, ys), (ys, xs)]
    p, q = ps[1]
    p[0] = a
    for u, v in ps:
        v[0] = a + 1
    return (xs[0], ys[0], q)

@fp.fpy
def t_swap_loop(a: fp.Real, xs: list[fp.Real], ys: list[fp.Real]):
    p = xs
    q = ys
    k = 0
    while k < 3:
        t = p
        p = q
        q = t
        p[0] = a + k
        with fp.REAL:
            k = k + 1
    return (xs[0], ys[0], p, q)

@fp.fpy
def t_enum_pairs(a: fp.Real, xs: list[fp.Real], xss: list[list[fp.Real]]):
    ps = [p for p in enumerate(xss)]
    q = ps[0]
    zs = [z for z in zip(xs, xss)]
    i, row = q
    row[0] = a + i
    w = zs[0]
    return (ps, q, zs, w, xss[0][0])

@fp.fpy
def h_ident(xs: list[fp.Real]):
    return xs

@fp.fpy
def h_poke(xs: list[fp.Real]):
    xs[0] = 7.0
    return 0.0

@fp.fpy
def t_call_ident(a: fp.Real, xs: list[fp.Real]):
    ys = h_ident(xs)
    ys[0] = a
    return (xs[0], ys)

@fp.fpy
def t_call_poke(a: fp.Real):
    xs = [1.0, 2.0]
    t = h_poke(xs)
    with fp.IEEEContext(5, 16, fp.RM.RNE):
        r = xs[0]
    return (r, t)

# ----------------------------------------------------------------- value classes

@fp.fpy
def v_ladder(x: fp.Real):
    if fp.isnan(x):
        r = 0.0
    elif fp.isinf(x):
        r = 1.0
    elif x == 0:
        r = 2.0
    else:
        r = fp.logb(x)
    return r

@fp.fpy
def v_ladder_ctx(x: fp.Real, y: fp.Real):
    with fp.IEEEContext(5, 16, fp.RM.RNE):
        t = x * y
        if fp.isnan(t):
            r = x + y
        elif t != 0:
            r = t - t
        else:
            r = -t
    return (r, t)

@fp.fpy
def v_real_arith(x: fp.Real, y: fp.Real):
    with fp.REAL:
        z = 0.0
        o = 1.5
        a = x + z
        b = x * z
        c = o * o - o
        d = z * y + o
        e = abs(x) - x
        f = -(x * y)
    return (a, b, c, d, e, f)

@fp.fpy
def v_real_refined(x: fp.Real, y: fp.Real):
    with fp.REAL:
        if fp.isfinite(x) and y == 0:
            r = x * y
            s = x + y
        elif not (x != 2):
            r = x * x
            s = x - 2
        elif x < y < 10:
            r = x - y
            s = y * 0
        else:
            r = x
            s = y
    return (r, s)

@fp.fpy
def v_loop(x: fp.Real, n: fp.Real):
    with fp.REAL:
        acc = 0.0
        k = 0
        while k < 3:
            if acc == 0:
                acc = acc + x
            else:
                acc = acc * x
            k = k + 1
    return acc

@fp.fpy
def v_minmax(x: fp.Real, y: fp.Real):
    with fp.MPFixedContext(-3, fp.RM.RTN):
        a = min(x, y)
        b = max(x, 1.0, y)
        c = x if x > 0 else y
    with fp.REAL:
        d = min(0.0, 1.0)
        e = max(x, y) + 0
    return (a, b, c, d, e)

@fp.fpy
def v_fixed(x: fp.Real, y: fp.Real):
    with fp.FixedContext(True, -2, 8, fp.RM.RNE, fp.OV.SATURATE):
        a = x + y
        b = x * y
        c = fp.round(x)
        d = abs(y)
        n = len([x, y])
    return (a, b, c, d, n)

@fp.fpy
def v_ops(x: fp.Real, y: fp.Real):
    with fp.IEEEContext(4, 8, fp.RM.RNA):
        a = x / y
        b = fp.sqrt(abs(x))
        c = fp.fma(x, y, 1.0)
        d = fp.logb(y)
    with fp.REAL:
        e = fp.logb(x)
        f = -x
        g = abs(y)
    return (a, b, c, d, e, f, g)

@fp.fpy
def v_nested_refine(x: fp.Real, y: fp.Real):
    with fp.REAL:
        r = 0.0
        if not fp.isnan(x):
            if x != 0:
                if not fp.isinf(x):
                    r = x * x
                else:
                    r = x + x
            else:
                r = x * 3
        w = r
        if x == y:
            w = x - y
        if 0 == y or fp.isnan(y):
            w = y * 5
    return (r, w)

@fp.fpy
def v_while_refine(x: fp.Real):
    with fp.REAL:
        k = 0
        while x != 0 and k < 3:
            x = x - x
            k = k + 1
        r = x * 2
    return (r, k)

# ----------------------------------------------------------------- sizes

@fp.fpy
def s_sizes(xs: list[fp.Real], ys: list[fp.Real]):
    a = [1.0, 2.0, 3.0]
    b = [x + 1 for x in xs]
    c = [x + y for x, y in zip(xs, b)]
    d = a[0:2]
    e = xs[1:]
    f = [i for i in range(len(xs))]
    g = [0.0 for _ in range(4)]
    h = [(i, x) for i, x in enumerate(ys)]
    return (a, b, c, d, e, f, g, h, len(a), len(d))

@fp.fpy
def s_phi_sizes(c: fp.Real, xs: list[fp.Real]):
    if c > 0:
        a = [1.0, 2.0]
        b = xs
    else:
        a = [3.0, 4.0]
        b = [0.0 for _ in xs]
    k = 0
    acc = [0.0]
    while k < 2:
        acc = [x for x in a]
        with fp.REAL:
            k = k + 1
    return (a, b, acc)

@fp.fpy
def s_grow(c: fp.Real, xs: list[fp.Real]):
    cur = [0.0]
    k = 0
    while k < c and k < 2:
        cur = [x for x in xs]
        xs = xs[1:]
        with fp.REAL:
            k = k + 1
    return (cur, xs)

@fp.fpy
def s_nested(xss: list[list[fp.Real]]):
    a = [[1.0, 2.0], [3.0, 4.0]]
    b = [row for row in xss]
    c = [[x for x in row] for row in xss]
    d = [len(row) for row in xss]
    r0 = xss[0]
    e = [x + y for x, y in zip(r0, r0)]
    return (a, b, c, d, e)

@fp.fpy
def s_ragged(xss: list[list[fp.Real]]):
    r0 = xss[0]
    r1 = xss[1]
    n0 = len(r0)
    n1 = len(r1)
    return (n0, n1, r0, r1)

@fp.fpy
def s_assert(xs: list[fp.Real], ys: list[fp.Real]):
    assert len(xs) == len(ys)
    zs = [x + y for x, y in zip(xs, ys)]
    return zs

@fp.fpy
def s_early_return(c: fp.Real, xs: list[fp.Real], ys: list[fp.Real]):
    if c > 0:
        return (len(xs), len(ys), xs, ys)
    zs = [x + y for x, y in zip(xs, ys)]
    return (len(zs), 0, xs, zs)

@fp.fpy
def s_early_return_assert(c: fp.Real, xs: list[fp.Real]):
    if c > 0:
        return (xs, [1.0, 2.0])
    assert len(xs) == 2
    return (xs, [x for x in xs])

@fp.fpy
def s_alias_store(xs: list[fp.Real], ys: list[fp.Real]):
    m = [ys, ys]
    k = m
    k[1] = xs
    r = m[1]
    return (m, r, len(m[1]), k)

@fp.fpy
def s_alias_store_const(a: fp.Real):
    m = [[1.0, 2.0], [3.0, 4.0]]
    k = m
    k[0] = [a]
    return (m, k, m[0])

@fp.fpy
def s_row_alias_store(xs: list[fp.Real], ys: list[fp.Real]):
    m = [ys, ys]
    n = [m, m]
    q = n[0]
    q[1] = xs
    p = n[1]
    return (m, p, n)

@fp.fpy
def s_direct_store(xs: list[fp.Real], ys: list[fp.Real]):
    m = [ys, ys]
    m[1] = xs
    k = m
    return (m, k, m[1])

@fp.fpy
def s_loop_alias_store(xs: list[fp.Real], ys: list[fp.Real]):
    m = [ys, ys]
    k = m
    i = 0
    r = m[0]
    while i < 2:
        r = m[1]
        k[1] = xs
        with fp.REAL:
            i = i + 1
    return (m, r, k)

@fp.fpy
def h_store_row(m: list[list[fp.Real]], xs: list[fp.Real]):
    m[0] = xs
    return 0.0

@fp.fpy
def s_callee_store(xs: list[fp.Real], ys: list[fp.Real]):
    m = [ys, ys]
    t = h_store_row(m, xs)
    return (m, t, m[0])

# ----------------------------------------------------------------- constants

@fp.fpy
def c_signed_zero(c: bool):
    x = 0.0
    if c:
        x = -0.0
    return x

@fp.fpy
def c_signed_zero_loop(n: fp.Real):
    x = 0.0
    k = 0
    while k < n and k < 2:
        x = -0.0
        with fp.REAL:
            k = k + 1
    return x

@fp.fpy
def c_fold(c: bool, a: fp.Real):
    with fp.IEEEContext(5, 16, fp.RM.RNE):
        x = 1.0 + 2.0
        y = x * 0.1
        if c:
            z = y
        else:
            z = y
        t = (x, [y, z])
        k = 0
        while k < 2:
            z = z + 0
            k = k + 1
        w = fp.sqrt(2.0) if c else x
    return (x, y, z, t, w, a)

@fp.fpy(ctx=fp.IEEEContext(4, 8, fp.RM.RTZ))
def c_declared(a: fp.Real):
    x = 0.3 + 0.3
    xs = [x, 1.0]
    ys = xs
    k = 0
    while k < 1:
        ys[1] = a
        k = k + 1
    r = xs[1]
    return (x, r)


# ----------------------------------------------------------------- binder forms x name reuse x 0/1/2+ iterations
# (every target form of for / comprehension / with-as / assignment; the target re-uses a name bound before and the
#  name is read after; a static context around everything so that constants would be folded)

@fp.fpy
def b_for_plain_reuse(xs: list[fp.Real]):
    with fp.FP64:
        k = 100
        for k in xs:
            pass
        r = k + 1
    return (k, r)

@fp.fpy
def b_for_tuple_reuse(xs: list[fp.Real]):
    with fp.FP64:
        k = 100
        x = 7
        for k, x in enumerate(xs):
            pass
        r = k + x
    return (k, x, r)

@fp.fpy
def b_for_nested_tuple_reuse(xs: list[fp.Real]):
    with fp.FP64:
        i = 50
        a = 60
        b = 70
        for i, (a, b) in enumerate(zip(xs, xs)):
            b = b + 1
        r = (i + a) + b
    return (i, a, b, r)

@fp.fpy
def b_for_tuple_partial(xs: list[fp.Real]):
    with fp.FP64:
        k = 100
        acc = 0
        for k, _ in enumerate(xs):
            acc = acc + k
        r = k * 2
    return (k, acc, r)

@fp.fpy
def b_for_zip_reuse(xs: list[fp.Real], ys: list[fp.Real]):
    with fp.IEEEContext(5, 16, fp.RM.RNE):
        p = 1
        q = 2
        for p, q in zip(xs, xs):
            p = p + q
        r = p - q
    return (p, q, r)

@fp.fpy
def b_comp_reuse(xs: list[fp.Real]):
    with fp.FP64:
        k = 100
        a = 5
        ys = [k + 1 for k in xs]
        zs = [(i, a) for i, (a, k) in enumerate(zip(xs, xs))]
        ws = [k * a for k in xs for a in xs]
        r = k + a
    return (k, a, ys, zs, ws, r)

@fp.fpy
def b_with_as_reuse(x: fp.Real):
    c = 5
    d = c + 1
    with fp.IEEEContext(5, 16, fp.RM.RNE) as c:
        y = x + 1
        t = 1 / 3
    with c:
        z = 1 / 3
    return (d, y, t, z, c)

@fp.fpy
def b_assign_tuple_reuse(x: fp.Real, y: fp.Real):
    with fp.FP64:
        k = 100
        m = 200
        (k, m) = (m, k)
        (k, (m, n)) = (x, (k, m))
        r = (k + m) + n
    return (k, m, n, r)

@fp.fpy
def b_while_rebind(n: fp.Real):
    with fp.FP64:
        k = 100
        i = 0
        while i < n and i < 2:
            k = i
            i = i + 1
        r = k + 1
    return (k, i, r)

@fp.fpy
def b_for_in_for(xss: list[list[fp.Real]]):
    with fp.FP64:
        k = 100
        x = 200
        s = 0
        for k, row in enumerate(xss):
            for x in row:
                s = s + x
            for k, x in enumerate(row):
                pass
        r = k + x
    return (k, x, s, r)

@fp.fpy
def b_if_in_loop(xs: list[fp.Real]):
    with fp.FP64:
        k = 100
        j = 300
        for i, x in enumerate(xs):
            if x > 0:
                k = i
            else:
                j = i
        r = k + j
    return (k, j, r)

# ----------------------------------------------------------------- context forms nested in static ones, constants inside

@fp.fpy
def x_ctx_computed(p: fp.Real):
    with fp.FP64:
        a = 1 / 3
        with fp.MPFloatContext(p, fp.RM.RNE):
            y = 1 / 3
            z = y + 1
        w = y * 1
    return (a, y, z, w)

@fp.fpy
def x_ctx_computed_ieee(es: fp.Real, nb: fp.Real):
    with fp.IEEEContext(5, 16, fp.RM.RNE):
        a = 0.1 + 0.2
        with fp.IEEEContext(es, nb, fp.RM.RTZ) as c:
            y = 0.1 + 0.2
            with fp.FP64:
                u = 0.1 + 0.2
            v = u + y
        w = y + 0
    return (a, y, u, v, w)

@fp.fpy
def x_ctx_passed(c: fp.Context, x: fp.Real):
    with fp.FP64:
        a = 1 / 3
        with c:
            y = 1 / 3
            z = y + x * 0
        w = y + 0
    return (a, y, z, w)

@fp.fpy(ctx=fp.IEEEContext(8, 32, fp.RM.RNE))
def x_ctx_declared_inner(p: fp.Real):
    a = 1 / 3
    with fp.MPFixedContext(p, fp.RM.RTZ):
        y = 1 / 3
    with fp.REAL:
        q = 2 + 2
        with fp.MPFloatContext(p + 10, fp.RM.RAZ):
            z = 1 / 3
    return (a, y, q, z)

@fp.fpy
def x_ctx_cond(c: fp.Context, d: fp.Context, t: bool):
    with fp.FP64:
        e = c if t else d
        with e:
            y = 1 / 3
        k = 0
        while k < 2:
            with (d if k > 0 else c):
                y = y + 1 / 3
            k = k + 1
    return (y, k)

# ----------------------------------------------------------------- callees with symbolic / nested list sizes, several sites

@fp.fpy
def h_rows(m: list[list[fp.Real]]):
    return m

@fp.fpy
def h_scale(xs: list[fp.Real], a: fp.Real):
    return [x * a for x in xs]

@fp.fpy
def h_pair(xs: list[fp.Real], ys: list[fp.Real]):
    return (xs, [y for y in ys])

@fp.fpy
def z_calls_fpy(a: list[list[fp.Real]], b: list[list[fp.Real]], xs: list[fp.Real], ys: list[fp.Real]):
    x = h_rows(a)
    y = h_rows(b)
    u = h_scale(xs, 2.0)
    v = h_scale(ys, 3.0)
    p, q = h_pair(xs, ys)
    s, t = h_pair(ys, xs)
    return (x, y, u, v, p, q, s, t)

try:
    import titanfp.fpbench.fpcparser as _fpcparser
    def _import_fpcore(src):
        return fp.Function.from_fpcore(_fpcparser.compile1(src), ignore_unknown=True)
    fc_rows = _import_fpcore('(FPCore rows ((A m n)) :precision binary64 A)')
    fc_cols = _import_fpcore('(FPCore cols ((B k n)) :precision binary64 B)')
    fc_vec = _import_fpcore('(FPCore vec ((v n)) :precision binary64 v)')

    @fp.fpy
    def z_calls_fpcore(a: list[list[fp.Real]], b: list[list[fp.Real]], xs: list[fp.Real], ys: list[fp.Real]):
        x = fc_rows(a)
        y = fc_cols(b)
        u = fc_vec(xs)
        v = fc_vec(ys)
        w = fc_rows(b)
        return (x, y, u, v, w)

    @fp.fpy
    def z_calls_fpcore_mixed(a: list[list[fp.Real]], xs: list[fp.Real]):
        x = fc_rows(a)
        u = fc_vec(xs)
        r = [len(row) for row in x]
        return (x, u, r, len(u))
    _FPCORE = [z_calls_fpcore, z_calls_fpcore_mixed]
except Exception:   # titanfp missing / the importer rejects the kernels: the FPy callees still run
    _FPCORE = []

# ----------------------------------------------------------------- remaining visitor arms: nullary ops, literal forms, captured values, projections / dim / size / range / empty, assert-pinned sizes, effect statements
G_NUM = 2.5
G_FLAG = True
G_LIST = [1.0, 2.0, 3.0]
G_PAIR = (1.0, [4.0, 5.0])
G_EMPTY = []

@fp.fpy
def u_nullary(x: fp.Real):
    with fp.IEEEContext(5, 16, fp.RM.RNE):
        a = fp.nan()
        b = fp.inf()
        c = fp.const_pi()
        d = c * 2
        e = (a if fp.isnan(x) else b)
    with fp.MPFixedContext(-8, fp.RM.RTZ):
        f = fp.const_e()
    return (a, b, c, d, e, f)

@fp.fpy
def u_nullary_real(x: fp.Real):
    with fp.REAL:
        a = fp.nan()
        b = fp.inf()
        c = -b
        d = a + x
        e = b * x
    return (a, b, c, d, e)

@fp.fpy
def u_free_empty(x: fp.Real):
    e = G_EMPTY
    n = len(e)
    return (e, n, x)

@fp.fpy
def u_assert_or(xs: list[fp.Real], ys: list[fp.Real]):
    assert len(xs) == 3 or len(xs) == len(ys)
    assert not (len(ys) == 5)
    w = [x + 1 for x in xs]
    return (w, ys, len(xs), len(ys))

@fp.fpy
def u_literals(x: fp.Real):
    with fp.FP64:
        a = fp.hexfloat('0x1.8p1')
        b = fp.rational(1, 3)
        c = fp.digits(3, -1, 2)
        d = a + b
        e = c * x
        f = 0x10 + 1e-2
    return (a, b, c, d, e, f)

@fp.fpy
def u_free(x: fp.Real):
    with fp.FP64:
        a = G_NUM + 1
        b = (x if G_FLAG else a)
        c = G_LIST[1]
        d = [v * 2 for v in G_LIST]
        n = len(G_LIST)
    return (a, b, c, d, n)

@fp.fpy
def u_free_pair(x: fp.Real):
    with fp.FP64:
        p, q = G_PAIR
        e = q[0] + p
    return (e, q, p + x)

@fp.fpy
def u_free_lengths():
    # C13-F8: two captured lists of different lengths and the same element type
    c = G_LIST[1]
    p, q = G_PAIR
    return (c, q)

@fp.fpy
def u_struct(xs: list[fp.Real], t: tuple[fp.Real, list[fp.Real]]):
    a = fp.fst(t)
    b = fp.snd(t)
    c = fp.dim(xs)
    d = fp.size(xs, 0)
    e = [i for i in range(1, 4)]
    f = [i for i in range(0, 6, 2)]
    g = fp.empty(3)
    g[0] = a
    g[1] = a
    g[2] = a
    h = [v for v in range(len(xs) + 1)]
    k = [v for v in range(len(xs) - 0)]
    b[0] = a
    return (a, b, c, d, e, f, g, h, k, t)

@fp.fpy
def u_assert_sizes(xs: list[fp.Real], ys: list[fp.Real], zs: list[fp.Real]):
    assert len(xs) == 3 and len(ys) == len(zs)
    assert 2 == len(ys)
    w = [x + 1 for x in xs]
    v = [y + z for y, z in zip(ys, zs)]
    return (w, v, len(xs), len(zs))

@fp.fpy
def h_effect(xs: list[fp.Real]):
    xs[0] = 9.0
    return 0.0

@fp.fpy
def u_effect(a: fp.Real):
    xs = [a, 2.0]
    h_effect(xs)
    with fp.IEEEContext(5, 16, fp.RM.RNE):
        r = xs[0]
    return (r, xs)

SR = fp.MPFloatContext(2, fp.RM.RNE, 4)

@fp.fpy
def c_stochastic():
    with SR:
        r = 1.0 + 0.3
    return r

ALL = [t_bind, t_bind_const, t_index_nested, t_slice, t_slice_flat, t_construct, t_construct_const, t_tuple,
       t_iterate, t_comprehension, t_enumerate, t_zip, t_ifexpr, t_phi, t_loop_rebind, t_store_row, t_nested3,
       t_fst_snd, t_enum_pairs, t_store_deep, t_tuple_in_list, t_swap_loop, t_call_ident, t_call_poke,
       v_ladder, v_ladder_ctx, v_real_arith, v_real_refined, v_loop, v_minmax, v_fixed, v_ops, v_nested_refine,
       v_while_refine,
       s_sizes, s_phi_sizes, s_grow, s_nested, s_ragged, s_assert, s_early_return, s_early_return_assert,
       s_alias_store, s_alias_store_const, s_row_alias_store, s_direct_store, s_loop_alias_store, s_callee_store,
       c_signed_zero, c_signed_zero_loop, c_fold, c_declared, c_stochastic,
       b_for_plain_reuse, b_for_tuple_reuse, b_for_nested_tuple_reuse, b_for_tuple_partial, b_for_zip_reuse, b_comp_reuse, b_with_as_reuse,
       b_assign_tuple_reuse, b_while_rebind, b_for_in_for, b_if_in_loop,
       x_ctx_computed, x_ctx_computed_ieee, x_ctx_passed, x_ctx_declared_inner, x_ctx_cond,
       z_calls_fpy, u_nullary, u_nullary_real, u_free_empty, u_assert_or, u_literals, u_free, u_free_pair, u_free_lengths, u_struct, u_assert_sizes, u_effect] + _FPCORE

NO_ALIAS_CHECK = {'t_call_ident', 's_callee_store', 'z_calls_fpy', 'z_calls_fpcore', 'z_calls_fpcore_mixed'}   # sharing created by a callee: counted, not judged

# deterministic reproductions of the findings this corpus was written around (always run, before the random inputs):
# C13-F1 (+0/-0 merged at a phi), C13-F2 (list constant kept across a mutation through an alias / a callee),
# C13-F3 (zip / assert after a conditional early return), C13-F5 (c_stochastic: no arguments, run repeatedly), C13-F6 below
FIXED = {
    'u_nullary': [(1.0,), (float('nan'),)],
    'u_literals': [(2.0,)],
    'u_nullary_real': [(1.0,), (0.0,)],
    'u_free_empty': [(1.0,)],
    'u_assert_or': [([1.0, 2.0, 3.0], [1.0, 2.0]), ([1.0, 2.0], [3.0, 4.0])],
    'u_free': [(1.0,)],
    'u_free_pair': [(1.0,)],
    'u_struct': [([1.0, 2.0], (5.0, [6.0, 7.0]))],
    'u_assert_sizes': [([1.0, 2.0, 3.0], [1.0, 2.0], [3.0, 4.0]), ([1.0], [1.0, 2.0], [3.0, 4.0])],
    'u_effect': [(1.0,)],
    # binder forms: 0, 1, 2+ iterations
    'b_for_plain_reuse': [([],), ([1.0],), ([1.0, 2.0, 3.0],)],
    'b_for_tuple_reuse': [([],), ([1.0],), ([1.0, 2.0, 3.0],)],
    'b_for_nested_tuple_reuse': [([],), ([1.0],), ([1.0, 2.0, 3.0],)],
    'b_for_tuple_partial': [([],), ([1.0],), ([1.0, 2.0, 3.0],)],
    'b_for_zip_reuse': [([], []), ([4.0], [1.0]), ([4.0, 5.0], [1.0, 2.0])],
    'b_comp_reuse': [([],), ([1.0],), ([1.0, 2.0],)],
    'b_with_as_reuse': [(1.0,)],
    'b_assign_tuple_reuse': [(1.0, 2.0)],
    'b_while_rebind': [(0.0,), (1.0,), (5.0,)],
    'b_for_in_for': [([],), ([[]],), ([[1.0]],), ([[1.0, 2.0], [3.0]],)],
    'b_if_in_loop': [([],), ([1.0],), ([-1.0],), ([1.0, -1.0, 2.0],)],
    # context forms: the computed context differs from the enclosing static one
    'x_ctx_computed': [(3,), (11,), (53,)],
    'x_ctx_computed_ieee': [(4, 8), (8, 32), (11, 64)],
    'x_ctx_passed': [(fp.IEEEContext(5, 16, fp.RM.RNE), 1.0), (fp.MPFloatContext(3, fp.RM.RNE), 2.0), (fp.FP64, 0.0), (fp.REAL, 1.0)],
    'x_ctx_declared_inner': [(-3,), (-6,)],
    'x_ctx_cond': [(fp.IEEEContext(5, 16, fp.RM.RNE), fp.MPFloatContext(3, fp.RM.RNE), True), (fp.IEEEContext(5, 16, fp.RM.RNE), fp.MPFloatContext(3, fp.RM.RNE), False)],
    # callees from several sites with different actual sizes
    'z_calls_fpy': [([[1.0, 2.0], [3.0, 4.0]], [[1.0, 2.0, 3.0]], [1.0], [1.0, 2.0, 3.0, 4.0])],
    'z_calls_fpcore': [([[1.0, 2.0], [3.0, 4.0]], [[1.0, 2.0, 3.0]], [1.0], [1.0, 2.0, 3.0, 4.0]), ([[1.0]], [[1.0, 2.0], [3.0, 4.0], [5.0, 6.0]], [1.0, 2.0], [3.0])],
    'z_calls_fpcore_mixed': [([[1.0, 2.0], [3.0, 4.0], [5.0, 6.0]], [1.0, 2.0, 3.0, 4.0, 5.0])],
    'c_signed_zero': [(True,), (False,)],
    'c_signed_zero_loop': [(2.0,), (0.0,)],
    't_bind_const': [(5.0,)],
    't_construct_const': [(5.0,)],
    't_call_poke': [(1.0,)],
    't_enum_pairs': [(1.0, [1.0, 2.0], [[3.0], [4.0, 5.0]])],
    # C13-F7 (Purity): an argument's list written through another name (alias, row, loop target)
    't_bind': [(5.0, [1.0, 2.0])],
    't_index_nested': [(5.0, [[1.0], [2.0]])],
    't_iterate': [(5.0, [[1.0], [2.0]])],
    'c_declared': [(5.0,)],
    's_early_return': [(1.0, [1.0, 2.0], [1.0, 2.0, 3.0]), (-1.0, [1.0, 2.0], [3.0, 4.0])],
    's_early_return_assert': [(1.0, [1.0]), (-1.0, [1.0, 2.0])],
    # C13-F6 (a list of another length stored into a nested list through an alias / by a callee)
    's_alias_store': [([1.0, 2.0], [3.0])],
    's_alias_store_const': [(5.0,)],
    's_row_alias_store': [([1.0, 2.0], [3.0])],
    's_direct_store': [([1.0, 2.0], [3.0])],
    's_loop_alias_store': [([1.0, 2.0], [3.0])],
    's_callee_store': [([1.0, 2.0], [3.0])],
}
