"""
C13 corpus: hand-written programs exercising exactly the sharing routes the property lists
(binding, indexing into nested lists, slicing, construction, tuple packing/unpacking, iteration,
comprehension, zip/enumerate), value-class ladders, static sizes and foldable constants.
Inputs are generated from the annotations; every list argument is non-empty.
`ALL` lists the functions; `NO_ALIAS_CHECK` names those whose sharing goes through a call
(not a route of the property: counted, not judged).
"""
import fpy2 as fp

# ----------------------------------------------------------------- sharing routes

@fp.fpy
def t_bind(a: fp.Real, xs: list[fp.Real]):
    ys = xs
    ys[0] = a
    return (xs[0], ys)

@fp.fpy
def t_bind_const(a: fp.Real):
    xs = [1.0, 2.0]
    ys = xs
    ys[0] = a
    with fp.IEEEContext(5, 16, fp.RM.RNE):
        r = xs[0]
    return (r, xs)

@fp.fpy
def t_index_nested(a: fp.Real, xss: list[list[fp.Real]]):
    row = xss[0]
    row[0] = a
    other = xss[0]
    return (xss[0][0], other, row)

@fp.fpy
def t_slice(a: fp.Real, xss: list[list[fp.Real]]):
    ys = xss[0:1]
    r = ys[0]
    r[0] = a
    zs = xss[:]
    return (xss[0][0], zs, ys)

@fp.fpy
def t_slice_flat(a: fp.Real, xs: list[fp.Real]):
    ys = xs[:]
    ys[0] = a
    zs = xs[0:1]
    return (xs[0], ys, zs)

@fp.fpy
def t_construct(a: fp.Real, xs: list[fp.Real], ys: list[fp.Real]):
    rows = [xs, ys]
    r = rows[1]
    r[0] = a
    rows2 = [r, xs]
    return (ys[0], rows, rows2)

@fp.fpy
def t_construct_const(a: fp.Real):
    xs = [1.0, 2.0]
    ys = [3.0, 4.0]
    rows = [xs, ys]
    r = rows[1]
    r[0] = a
    with fp.IEEEContext(8, 32, fp.RM.RNE):
        q = ys[0] + 0
    return (q, ys)

@fp.fpy
def t_tuple(a: fp.Real, xs: list[fp.Real], ys: list[fp.Real]):
    t = (xs, ys)
    p, q = t
    p[0] = a
    (u, (v, w)) = (ys, (xs, p))
    return (xs[0], q, u, v, w)

@fp.fpy
def t_iterate(a: fp.Real, xss: list[list[fp.Real]]):
    last = xss[0]
    for row in xss:
        row[0] = a
        last = row
    return (xss[0][0], last)

@fp.fpy
def t_comprehension(a: fp.Real, xss: list[list[fp.Real]]):
    rs = [row for row in xss]
    r0 = rs[0]
    r0[0] = a
    ps = [(row, row) for row in xss]
    f, s = ps[0]
    return (xss[0][0], r0, f, s)

@fp.fpy
def t_enumerate(a: fp.Real, xss: list[list[fp.Real]]):
    keep = xss[0]
    for i, row in enumerate(xss):
        row[0] = a + i
        keep = row
    return (xss[0][0], keep)

@fp.fpy
def t_zip(a: fp.Real, xss: list[list[fp.Real]]):
    keep = xss[0]
    for r, s in zip(xss, xss):
        r[0] = a
        keep = s
    pairs = [p for p, q in zip(xss, xss)]
    return (xss[0][0], keep, pairs)

@fp.fpy
def t_ifexpr(a: fp.Real, xs: list[fp.Real], ys: list[fp.Real]):
    zs = xs if a > 0 else ys
    zs[0] = a
    return (xs[0], ys[0], zs)

@fp.fpy
def t_phi(a: fp.Real, xs: list[fp.Real], ys: list[fp.Real]):
    if a > 0:
        zs = xs
    else:
        zs = ys
    zs[0] = a
    ws = zs
    return (xs[0], ys[0], ws)

@fp.fpy
def t_loop_rebind(a: fp.Real, xs: list[fp.Real], ys: list[fp.Real]):
    cur = xs
    k = 0
    while k < 2:
        cur[0] = a + k
        cur = ys
        with fp.REAL:
            k = k + 1
    return (xs[0], ys[0], cur)

@fp.fpy
def t_store_row(a: fp.Real, xss: list[list[fp.Real]], ys: list[fp.Real]):
    xss[0] = ys
    r = xss[0]
    r[0] = a
    return (ys[0], xss)

@fp.fpy
def t_nested3(a: fp.Real, xss: list[list[fp.Real]]):
    cube = [xss, xss]
    plane = cube[1]
    row = plane[0]
    row[0] = a
    return (xss[0][0], cube)

@fp.fpy
def t_fst_snd(a: fp.Real, xs: list[fp.Real], ys: list[fp.Real]):
    t = (xs, ys)
    p, _ = t
    _, q = t
    p[0] = a
    return (xs[0], q)

@fp.fpy
def t_store_deep(a: fp.Real, xss: list[list[fp.Real]], ys: list[fp.Real]):
    cube = [xss, [ys, ys]]
    cube[0][1] = ys
    r = cube[0][1]
    r[0] = a
    s = xss[1]
    return (ys[0], s, cube)

@fp.fpy
def t_tuple_in_list(a: fp.Real, xs: list[fp.Real], ys: list[fp.Real]):
    ps = [(xs, ys), (ys, xs)]
    p, q = ps[1]
    p[0] = a
    for u, v in ps:
        v[0] = a + 1
    return (xs[0], ys[0], q)

@fp.fpy
def t_swap_loop(a: fp.Real, xs: list[fp.Real], ys: list[fp.Real]):
    p = xs
    q = ys
    k = 0
    while k < 3:
        t = p
        p = q
        q = t
        p[0] = a + k
        with fp.REAL:
            k = k + 1
    return (xs[0], ys[0], p, q)

@fp.fpy
def t_enum_pairs(a: fp.Real, xs: list[fp.Real], xss: list[list[fp.Real]]):
    ps = [p for p in enumerate(xss)]
    q = ps[0]
    zs = [z for z in zip(xs, xss)]
    i, row = q
    row[0] = a + i
    w = zs[0]
    return (ps, q, zs, w, xss[0][0])

@fp.fpy
def h_ident(xs: list[fp.Real]):
    return xs

@fp.fpy
def h_poke(xs: list[fp.Real]):
    xs[0] = 7.0
    return 0.0

@fp.fpy
def t_call_ident(a: fp.Real, xs: list[fp.Real]):
    ys = h_ident(xs)
    ys[0] = a
    return (xs[0], ys)

@fp.fpy
def t_call_poke(a: fp.Real):
    xs = [1.0, 2.0]
    t = h_poke(xs)
    with fp.IEEEContext(5, 16, fp.RM.RNE):
        r = xs[0]
    return (r, t)

# ----------------------------------------------------------------- value classes

@fp.fpy
def v_ladder(x: fp.Real):
    if fp.isnan(x):
        r = 0.0
    elif fp.isinf(x):
        r = 1.0
    elif x == 0:
        r = 2.0
    else:
        r = fp.logb(x)
    return r

@fp.fpy
def v_ladder_ctx(x: fp.Real, y: fp.Real):
    with fp.IEEEContext(5, 16, fp.RM.RNE):
        t = x * y
        if fp.isnan(t):
            r = x + y
        elif t != 0:
            r = t - t
        else:
            r = -t
    return (r, t)

@fp.fpy
def v_real_arith(x: fp.Real, y: fp.Real):
    with fp.REAL:
        z = 0.0
        o = 1.5
        a = x + z
        b = x * z
        c = o * o - o
        d = z * y + o
        e = abs(x) - x
        f = -(x * y)
    return (a, b, c, d, e, f)

@fp.fpy
def v_real_refined(x: fp.Real, y: fp.Real):
    with fp.REAL:
        if fp.isfinite(x) and y == 0:
            r = x * y
            s = x + y
        elif not (x != 2):
            r = x * x
            s = x - 2
        elif x < y < 10:
            r = x - y
            s = y * 0
        else:
            r = x
            s = y
    return (r, s)

@fp.fpy
def v_loop(x: fp.Real, n: fp.Real):
    with fp.REAL:
        acc = 0.0
        k = 0
        while k < 3:
            if acc == 0:
                acc = acc + x
            else:
                acc = acc * x
            k = k + 1
    return acc

@fp.fpy
def v_minmax(x: fp.Real, y: fp.Real):
    with fp.MPFixedContext(-3, fp.RM.RTN):
        a = min(x, y)
        b = max(x, 1.0, y)
        c = x if x > 0 else y
    with fp.REAL:
        d = min(0.0, 1.0)
        e = max(x, y) + 0
    return (a, b, c, d, e)

@fp.fpy
def v_fixed(x: fp.Real, y: fp.Real):
    with fp.FixedContext(True, -2, 8, fp.RM.RNE, fp.OV.SATURATE):
        a = x + y
        b = x * y
        c = fp.round(x)
        d = abs(y)
        n = len([x, y])
    return (a, b, c, d, n)

@fp.fpy
def v_ops(x: fp.Real, y: fp.Real):
    with fp.IEEEContext(4, 8, fp.RM.RNA):
        a = x / y
        b = fp.sqrt(abs(x))
        c = fp.fma(x, y, 1.0)
        d = fp.logb(y)
    with fp.REAL:
        e = fp.logb(x)
        f = -x
        g = abs(y)
    return (a, b, c, d, e, f, g)

@fp.fpy
def v_nested_refine(x: fp.Real, y: fp.Real):
    with fp.REAL:
        r = 0.0
        if not fp.isnan(x):
            if x != 0:
                if not fp.isinf(x):
                    r = x * x
                else:
                    r = x + x
            else:
                r = x * 3
        w = r
        if x == y:
            w = x - y
        if 0 == y or fp.isnan(y):
            w = y * 5
    return (r, w)

@fp.fpy
def v_while_refine(x: fp.Real):
    with fp.REAL:
        k = 0
        while x != 0 and k < 3:
            x = x - x
            k = k + 1
        r = x * 2
    return (r, k)

# ----------------------------------------------------------------- sizes

@fp.fpy
def s_sizes(xs: list[fp.Real], ys: list[fp.Real]):
    a = [1.0, 2.0, 3.0]
    b = [x + 1 for x in xs]
    c = [x + y for x, y in zip(xs, b)]
    d = a[0:2]
    e = xs[1:]
    f = [i for i in range(len(xs))]
    g = [0.0 for _ in range(4)]
    h = [(i, x) for i, x in enumerate(ys)]
    return (a, b, c, d, e, f, g, h, len(a), len(d))

@fp.fpy
def s_phi_sizes(c: fp.Real, xs: list[fp.Real]):
    if c > 0:
        a = [1.0, 2.0]
        b = xs
    else:
        a = [3.0, 4.0]
        b = [0.0 for _ in xs]
    k = 0
    acc = [0.0]
    while k < 2:
        acc = [x for x in a]
        with fp.REAL:
            k = k + 1
    return (a, b, acc)

@fp.fpy
def s_grow(c: fp.Real, xs: list[fp.Real]):
    cur = [0.0]
    k = 0
    while k < c and k < 2:
        cur = [x for x in xs]
        xs = xs[1:]
        with fp.REAL:
            k = k + 1
    return (cur, xs)

@fp.fpy
def s_nested(xss: list[list[fp.Real]]):
    a = [[1.0, 2.0], [3.0, 4.0]]
    b = [row for row in xss]
    c = [[x for x in row] for row in xss]
    d = [len(row) for row in xss]
    r0 = xss[0]
    e = [x + y for x, y in zip(r0, r0)]
    return (a, b, c, d, e)

@fp.fpy
def s_ragged(xss: list[list[fp.Real]]):
    r0 = xss[0]
    r1 = xss[1]
    n0 = len(r0)
    n1 = len(r1)
    return (n0, n1, r0, r1)

@fp.fpy
def s_assert(xs: list[fp.Real], ys: list[fp.Real]):
    assert len(xs) == len(ys)
    zs = [x + y for x, y in zip(xs, ys)]
    return zs

@fp.fpy
def s_early_return(c: fp.Real, xs: list[fp.Real], ys: list[fp.Real]):
    if c > 0:
        return (len(xs), len(ys), xs, ys)
    zs = [x + y for x, y in zip(xs, ys)]
    return (len(zs), 0, xs, zs)

@fp.fpy
def s_early_return_assert(c: fp.Real, xs: list[fp.Real]):
    if c > 0:
        return (xs, [1.0, 2.0])
    assert len(xs) == 2
    return (xs, [x for x in xs])

@fp.fpy
def s_alias_store(xs: list[fp.Real], ys: list[fp.Real]):
    m = [ys, ys]
    k = m
    k[1] = xs
    r = m[1]
    return (m, r, len(m[1]), k)

@fp.fpy
def s_alias_store_const(a: fp.Real):
    m = [[1.0, 2.0], [3.0, 4.0]]
    k = m
    k[0] = [a]
    return (m, k, m[0])

@fp.fpy
def s_row_alias_store(xs: list[fp.Real], ys: list[fp.Real]):
    m = [ys, ys]
    n = [m, m]
    q = n[0]
    q[1] = xs
    p = n[1]
    return (m, p, n)

@fp.fpy
def s_direct_store(xs: list[fp.Real], ys: list[fp.Real]):
    m = [ys, ys]
    m[1] = xs
    k = m
    return (m, k, m[1])

@fp.fpy
def s_loop_alias_store(xs: list[fp.Real], ys: list[fp.Real]):
    m = [ys, ys]
    k = m
    i = 0
    r = m[0]
    while i < 2:
        r = m[1]
        k[1] = xs
        with fp.REAL:
            i = i + 1
    return (m, r, k)

@fp.fpy
def h_store_row(m: list[list[fp.Real]], xs: list[fp.Real]):
    m[0] = xs
    return 0.0

@fp.fpy
def s_callee_store(xs: list[fp.Real], ys: list[fp.Real]):
    m = [ys, ys]
    t = h_store_row(m, xs)
    return (m, t, m[0])

# ----------------------------------------------------------------- constants

@fp.fpy
def c_signed_zero(c: bool):
    x = 0.0
    if c:
        x = -0.0
    return x

@fp.fpy
def c_signed_zero_loop(n: fp.Real):
    x = 0.0
    k = 0
    while k < n and k < 2:
        x = -0.0
        with fp.REAL:
            k = k + 1
    return x

@fp.fpy
def c_fold(c: bool, a: fp.Real):
    with fp.IEEEContext(5, 16, fp.RM.RNE):
        x = 1.0 + 2.0
        y = x * 0.1
        if c:
            z = y
        else:
            z = y
        t = (x, [y, z])
        k = 0
        while k < 2:
            z = z + 0
            k = k + 1
        w = fp.sqrt(2.0) if c else x
    return (x, y, z, t, w, a)

@fp.fpy(ctx=fp.IEEEContext(4, 8, fp.RM.RTZ))
def c_declared(a: fp.Real):
    x = 0.3 + 0.3
    xs = [x, 1.0]
    ys = xs
    k = 0
    while k < 1:
        ys[1] = a
        k = k + 1
    r = xs[1]
    return (x, r)

SR = fp.MPFloatContext(2, fp.RM.RNE, 4)

@fp.fpy
def c_stochastic():
    with SR:
        r = 1.0 + 0.3
    return r

ALL = [t_bind, t_bind_const, t_index_nested, t_slice, t_slice_flat, t_construct, t_construct_const, t_tuple,
       t_iterate, t_comprehension, t_enumerate, t_zip, t_ifexpr, t_phi, t_loop_rebind, t_store_row, t_nested3,
       t_fst_snd, t_enum_pairs, t_store_deep, t_tuple_in_list, t_swap_loop, t_call_ident, t_call_poke,
       v_ladder, v_ladder_ctx, v_real_arith, v_real_refined, v_loop, v_minmax, v_fixed, v_ops, v_nested_refine,
       v_while_refine,
       s_sizes, s_phi_sizes, s_grow, s_nested, s_ragged, s_assert, s_early_return, s_early_return_assert,
       s_alias_store, s_alias_store_const, s_row_alias_store, s_direct_store, s_loop_alias_store, s_callee_store,
       c_signed_zero, c_signed_zero_loop, c_fold, c_declared, c_stochastic]

NO_ALIAS_CHECK = {'t_call_ident', 's_callee_store'}   # sharing created by a callee: counted, not judged

# deterministic reproductions of the findings this corpus was written around (always run, before the random inputs):
# C13-F1 (+0/-0 merged at a phi), C13-F2 (list constant kept across a mutation through an alias / a callee),
# C13-F3 (zip / assert after a conditional early return), C13-F5 (c_stochastic: no arguments, run repeatedly), C13-F6 below
FIXED = {
    'c_signed_zero': [(True,), (False,)],
    'c_signed_zero_loop': [(2.0,), (0.0,)],
    't_bind_const': [(5.0,)],
    't_construct_const': [(5.0,)],
    't_call_poke': [(1.0,)],
    't_enum_pairs': [(1.0, [1.0, 2.0], [[3.0], [4.0, 5.0]])],
    # C13-F7 (Purity): an argument's list written through another name (alias, row, loop target)
    't_bind': [(5.0, [1.0, 2.0])],
    't_index_nested': [(5.0, [[1.0], [2.0]])],
    't_iterate': [(5.0, [[1.0], [2.0]])],
    'c_declared': [(5.0,)],
    's_early_return': [(1.0, [1.0, 2.0], [1.0, 2.0, 3.0]), (-1.0, [1.0, 2.0], [3.0, 4.0])],
    's_early_return_assert': [(1.0, [1.0]), (-1.0, [1.0, 2.0])],
    # C13-F6 (a list of another length stored into a nested list through an alias / by a callee)
    's_alias_store': [([1.0, 2.0], [3.0])],
    's_alias_store_const': [(5.0,)],
    's_row_alias_store': [([1.0, 2.0], [3.0])],
    's_direct_store': [([1.0, 2.0], [3.0])],
    's_loop_alias_store': [([1.0, 2.0], [3.0])],
    's_callee_store': [([1.0, 2.0], [3.0])],
}
