"""
Number-layer canonicalisation: context descriptors <-> real context objects <-> driver tokens;
values <-> tokens; result canonical form (the observation function of C01/C02/C05/C16/C17).
"""
from __future__ import annotations
from fractions import Fraction
import struct
from common import *  # noqa
import fpy2 as fp
from fpy2.number import Float, RealFloat
from fpy2.number.context.efloat import EFloatContext, EFloatNanKind
from fpy2.number.context.mp_float import MPFloatContext
from fpy2.number.context.mps_float import MPSFloatContext
from fpy2.number.context.mpb_float import MPBFloatContext
from fpy2.number.context.mp_fixed import MPFixedContext
from fpy2.number.context.mpb_fixed import MPBFixedContext
from fpy2.number.context.fixed import FixedContext
from fpy2.number.context.sm_fixed import SMFixedContext
from fpy2.number.context.ieee754 import IEEEContext
from fpy2.number.context.exponential import ExpContext

RMS = ['rne', 'rna', 'rtp', 'rtn', 'rtz', 'raz', 'rto', 'rte']
RM = {n: getattr(fp.RM, n.upper()) for n in RMS}
OVS = {'overflow': fp.OV.OVERFLOW, 'saturate': fp.OV.SATURATE, 'wrap': fp.OV.WRAP, 'assert': fp.OV.ASSERT}
KINDS = {'ieee': EFloatNanKind.IEEE_754, 'maxval': EFloatNanKind.MAX_VAL, 'negzero': EFloatNanKind.NEG_ZERO, 'none': EFloatNanKind.NONE}

def b01(b): return '1' if b else '0'

# ---- values -------------------------------------------------------------
# FV descriptor: ('fin', s, exp, c) | ('inf', s) | ('nan', s)

def fv_tok(v) -> str:
    if v is None: return '-'
    if v[0] == 'fin': return f'f{b01(v[1])}:{v[2]}:{v[3]}'
    if v[0] == 'inf': return f'i{b01(v[1])}'
    return f'n{b01(v[1])}'

def fv_obj(v):
    if v is None: return None
    if v[0] == 'fin': return Float(s=v[1], exp=v[2], c=v[3])
    if v[0] == 'inf': return Float(s=v[1], isinf=True)
    return Float(s=v[1], isnan=True)

def rf_tok(x) -> str:   # (s, exp, c)
    return f'{b01(x[0])}:{x[1]}:{x[2]}'

def rf_obj(x): return RealFloat(s=x[0], exp=x[1], c=x[2])

def fv_of_obj(x) -> tuple:
    if isinstance(x, RealFloat): return ('fin', x.s, x.exp, x.c)
    if x.isnan: return ('nan', x.s)
    if x.isinf: return ('inf', x.s)
    return ('fin', x.s, x.exp, x.c)

def fv_value(v):
    """exact value as Fraction, or 'inf'/'-inf'/'nan'"""
    if v[0] == 'nan': return 'nan'
    if v[0] == 'inf': return '-inf' if v[1] else 'inf'
    q = Fraction(v[3]) * Fraction(2) ** v[2]
    return -q if v[1] else q

# operand descriptor: ('F', fv) | ('R', (s,exp,c)) | ('I', int) | ('D', float) | ('Q', Fraction)
def operand_tok(o) -> str:
    k = o[0]
    if k == 'F': return 'F' + fv_tok(o[1])
    if k == 'R': return 'R' + rf_tok(o[1])
    if k == 'I': return f'I{o[1]}'
    if k == 'D': return 'D' + str(struct.unpack('<Q', struct.pack('<d', o[1]))[0])
    if k == 'Q': return f'Q{o[1].numerator}/{o[1].denominator}'
    raise ValueError(o)

def operand_obj(o):
    k = o[0]
    if k == 'F': return fv_obj(o[1])
    if k == 'R': return rf_obj(o[1])
    if k in ('I', 'D', 'Q'): return o[1]
    raise ValueError(o)

def operand_value(o):
    """exact value of the operand: Fraction or 'inf'/'-inf'/'nan'; plus sign-of-zero"""
    k = o[0]
    if k == 'F': return fv_value(o[1])
    if k == 'R': return fv_value(('fin',) + tuple(o[1]))
    if k == 'I': return Fraction(o[1])
    if k == 'Q': return o[1]
    if k == 'D':
        import math
        f = o[1]
        if math.isnan(f): return 'nan'
        if math.isinf(f): return '-inf' if f < 0 else 'inf'
        return Fraction(f)

def operand_sign(o) -> bool:
    import math
    k = o[0]
    if k == 'F': return o[1][1]
    if k == 'R': return o[1][0]
    if k == 'I': return o[1] < 0
    if k == 'Q': return o[1] < 0
    if k == 'D': return math.copysign(1.0, o[1]) < 0

# ---- contexts -----------------------------------------------------------
# descriptor: dict with 'fam' and parameters.

def k_tok(k): return 'N' if k is None else str(k)

def ctx_tok(d) -> str:
    f = d['fam']
    if f == 'real': return 'real'
    o = lambda: f"{b01(d['en'])} {b01(d['ei'])} {fv_tok(d.get('nv'))} {fv_tok(d.get('iv'))}"
    if f == 'mp': return f"mp {d['p']} {d['rm']} {k_tok(d['k'])} {o()}"
    if f == 'mps': return f"mps {d['p']} {d['emin']} {d['rm']} {k_tok(d['k'])} {o()}"
    if f == 'mpb': return f"mpb {d['p']} {d['emin']} {rf_tok(d['pos'])} {rf_tok(d['neg'])} {d['rm']} {d['ov']} {k_tok(d['k'])} {o()}"
    if f in ('ef', 'ieee'):
        if f == 'ieee':
            return f"ef {d['es']} {d['nbits']} 1 ieee 0 {d['rm']} {d['ov']} {k_tok(d['k'])} - -"
        return f"ef {d['es']} {d['nbits']} {b01(d['inf'])} {d['kind']} {d['eoff']} {d['rm']} {d['ov']} {k_tok(d['k'])} {fv_tok(d.get('nv'))} {fv_tok(d.get('iv'))}"
    if f == 'mpfix': return f"mpfix {d['nmin']} {d['rm']} {k_tok(d['k'])} {b01(d['nz'])} {o()}"
    if f == 'mpbfix': return f"mpbfix {d['nmin']} {rf_tok(d['pos'])} {rf_tok(d['neg'])} {d['rm']} {d['ov']} {k_tok(d['k'])} {b01(d['nz'])} {o()}"
    if f == 'fixed': return f"fixed {b01(d['signed'])} {d['scale']} {d['nbits']} {d['rm']} {d['ov']} {k_tok(d['k'])} {fv_tok(d.get('nv'))} {fv_tok(d.get('iv'))}"
    if f == 'smfixed': return f"smfixed {d['scale']} {d['nbits']} {d['rm']} {d['ov']} {k_tok(d['k'])} {fv_tok(d.get('nv'))} {fv_tok(d.get('iv'))}"
    if f == 'exp': return f"exp {d['nbits']} {d['eoff']} {d['rm']} {d['ov']} {fv_tok(d.get('iv'))}"
    raise ValueError(f)

def ctx_obj(d, rng=None):
    """build the real context; raises whatever the real constructor raises"""
    f = d['fam']
    if f == 'real': return fp.REAL
    rm = RM[d['rm']]
    if f == 'exp': return ExpContext(d['nbits'], d['eoff'], rm, OVS[d['ov']], inf_value=fv_obj(d.get('iv')))
    k = d.get('k', 0)
    sp = dict(nan_value=fv_obj(d.get('nv')), inf_value=fv_obj(d.get('iv')))
    if f == 'mp': return MPFloatContext(d['p'], rm, k, rng=rng, enable_nan=d['en'], enable_inf=d['ei'], **sp)
    if f == 'mps': return MPSFloatContext(d['p'], d['emin'], rm, k, rng=rng, enable_nan=d['en'], enable_inf=d['ei'], **sp)
    if f == 'mpb': return MPBFloatContext(d['p'], d['emin'], rf_obj(d['pos']), rm, OVS[d['ov']], k, neg_maxval=rf_obj(d['neg']), rng=rng,
                                          enable_nan=d['en'], enable_inf=d['ei'], **sp)
    if f == 'ef': return EFloatContext(d['es'], d['nbits'], d['inf'], KINDS[d['kind']], d['eoff'], rm, OVS[d['ov']], k, rng=rng, **sp)
    if f == 'ieee': return IEEEContext(d['es'], d['nbits'], rm, OVS[d['ov']], k, rng=rng)
    if f == 'mpfix': return MPFixedContext(d['nmin'], rm, k, rng=rng, enable_nan=d['en'], enable_inf=d['ei'], enable_neg_zero=d['nz'], **sp)
    if f == 'mpbfix': return MPBFixedContext(d['nmin'], rf_obj(d['pos']), rm, OVS[d['ov']], k, neg_maxval=rf_obj(d['neg']), rng=rng,
                                             enable_nan=d['en'], enable_inf=d['ei'], enable_neg_zero=d['nz'], **sp)
    if f == 'fixed': return FixedContext(d['signed'], d['scale'], d['nbits'], rm, OVS[d['ov']], k, rng=rng, **sp)
    if f == 'smfixed': return SMFixedContext(d['scale'], d['nbits'], rm, OVS[d['ov']], k, rng=rng, **sp)
    raise ValueError(f)

# ---- results ------------------------------------------------------------

def canon_rf(s, exp, c) -> str:
    if c == 0: return f'zero {b01(s)}'
    while c % 2 == 0:
        c //= 2; exp += 1
    return f'fin {b01(s)} {c} {exp}'

def canon_fv(v) -> str:
    if v[0] == 'nan': return 'nan'
    if v[0] == 'inf': return f'inf {b01(v[1])}'
    return canon_rf(v[1], v[2], v[3])

ERRS = {ValueError: 'ValueError', TypeError: 'TypeError', OverflowError: 'OverflowError',
        NotImplementedError: 'NotImplementedError', ZeroDivisionError: 'ZeroDivisionError',
        IndexError: 'IndexError', AssertionError: 'AssertionError'}

def err_name(e: BaseException) -> str:
    for t, n in ERRS.items():
        if type(e) is t: return n
    for t, n in ERRS.items():
        if isinstance(e, t): return n
    return type(e).__name__

def show_res(y) -> str:
    """canonical line for a Float result (same format as the Lean driver's showRes)"""
    v = fv_of_obj(y)
    raw = f'{b01(y.s)}:{y.exp}:{y.c}' if v[0] == 'fin' else (f'i{b01(y.s)}' if v[0] == 'inf' else f'n{b01(y.s)}')
    return (f'ok {canon_fv(v)} ix={b01(y.inexact)} ov={b01(y.overflow)} # raw={raw} '
            f'tp={b01(y.tiny_pre)} tq={b01(y.tiny_post)} cy={b01(y.carry)}')

def verdict_part(line: str) -> str:
    return line.split(' # ')[0]

def parse_res(line: str):
    """('err', name) | ('ok', fv-canon-string, inexact, overflow)"""
    head = verdict_part(line)
    t = head.split()
    if t[0] == 'err': return ('err', t[1])
    ix = next(x for x in t if x.startswith('ix='))[3:] == '1'
    ov = next(x for x in t if x.startswith('ov='))[3:] == '1'
    val = ' '.join(x for x in t[1:] if not x.startswith(('ix=', 'ov=')))
    return ('ok', val, ix, ov)

def canon_value(val: str):
    """canonical value string -> Fraction | 'inf' | '-inf' | 'nan', plus sign bit"""
    t = val.split()
    if t[0] == 'nan': return 'nan', None
    if t[0] == 'inf': return ('-inf' if t[1] == '1' else 'inf'), t[1] == '1'
    if t[0] == 'zero': return Fraction(0), t[1] == '1'
    q = Fraction(int(t[2])) * Fraction(2) ** int(t[3])
    return (-q if t[1] == '1' else q), t[1] == '1'
