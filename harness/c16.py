"""C16 — encodings and ordinals are order-preserving bijections.
Exhaustive over every bit pattern of every small format (real code vs Lean model vs first-principles
layout decoders), plus binary16 by stride and binary32/64 sampled against `struct`."""
from __future__ import annotations
import math, struct
from fractions import Fraction
from numgen import *   # noqa  (numcanon, common)
from numspec import efloat_layout_decode, Fmt
from fpy2.number.context.efloat import EFloatFormat
from fpy2.number.context.ieee754 import IEEEFormat
from fpy2.number.context.fixed import FixedFormat
from fpy2.number.context.sm_fixed import SMFixedFormat
from fpy2.number.context.exponential import ExpFormat
from fpy2.number.context.mps_float import MPSFloatFormat
from fpy2.number.context.mp_fixed import MPFixedFormat

PROP = 'C16'

# ---- format descriptors ---------------------------------------------------------------------

def fmt_obj(d):
    f = d['fam']
    if f == 'ef': return EFloatFormat(d['es'], d['nbits'], d['inf'], KINDS[d['kind']], d['eoff'])
    if f == 'ieee': return IEEEFormat(d['es'], d['nbits'])
    if f == 'fixed': return FixedFormat(d['signed'], d['scale'], d['nbits'])
    if f == 'smfixed': return SMFixedFormat(d['scale'], d['nbits'])
    if f == 'exp': return ExpFormat(d['nbits'], d['eoff'])
    if f == 'mps': return MPSFloatFormat(d['p'], d['emin'])
    if f == 'mpfix': return MPFixedFormat(d['nmin'], enable_neg_zero=d['nz'])
    raise ValueError(f)

def fmt_tok(d) -> str:
    f = d['fam']
    if f == 'ef': return f"ef {d['es']} {d['nbits']} {b01(d['inf'])} {d['kind']} {d['eoff']}"
    if f == 'ieee': return f"ef {d['es']} {d['nbits']} 1 ieee 0"
    if f == 'fixed': return f"fixed {b01(d['signed'])} {d['scale']} {d['nbits']}"
    if f == 'smfixed': return f"smfixed {d['scale']} {d['nbits']}"
    if f == 'exp': return f"exp {d['nbits']} {d['eoff']}"
    if f == 'mps': return f"mps {d['p']} {d['emin']} 1 1"
    if f == 'mpfix': return f"mpfix {d['nmin']} 0 0 {b01(d['nz'])}"
    raise ValueError(f)

def ef_params(d):
    if d['fam'] == 'ieee': return d['es'], d['nbits'], True, 'ieee', 0
    return d['es'], d['nbits'], d['inf'], d['kind'], d['eoff']

# ---- Spec: published layouts, first principles -------------------------------------------------
# a Spec value is ('nan',) | ('inf', s) | ('fin', s, Fraction)   (s = sign bit, kept for zero)

def layout(d, b):
    f = d['fam']
    if f in ('ef', 'ieee'):
        es, nbits, inf, kind, eoff = ef_params(d)
        v = efloat_layout_decode(es, nbits, inf, kind, eoff, b)
        s = bool((b >> (nbits - 1)) & 1)
        if isinstance(v, Fraction): return ('fin', s, v)
        if v[0] == 'inf': return ('inf', bool(v[1]))
        return ('nan',)
    if f == 'fixed':
        nb = d['nbits']
        k = b - (1 << nb) if (d['signed'] and b >= (1 << (nb - 1))) else b
        return ('fin', k < 0, Fraction(k) * Fraction(2) ** d['scale'])
    if f == 'smfixed':
        nb = d['nbits']
        s = bool(b >> (nb - 1)); mag = b & ((1 << (nb - 1)) - 1)
        return ('fin', s, (-1 if s else 1) * Fraction(mag) * Fraction(2) ** d['scale'])
    if f == 'exp':
        nb = d['nbits']
        if b == (1 << nb) - 1: return ('nan',)
        bias = (1 << (nb - 1)) - 1 - d['eoff']
        return ('fin', False, Fraction(2) ** (b - bias))
    raise ValueError(f)

def spec_of_float(x):
    """observation of a real `Float` in Spec form"""
    if x.isnan: return ('nan',)
    if x.isinf: return ('inf', bool(x.s))
    q = Fraction(x.c) * Fraction(2) ** x.exp
    return ('fin', bool(x.s), -q if x.s else q)

def same_spec(a, b, zero_sign=True):
    if a[0] != b[0]: return False
    if a[0] == 'nan': return True
    if a[0] == 'inf': return a[1] == b[1]
    if a[2] != b[2]: return False
    return (a[1] == b[1]) if (zero_sign and a[2] == 0) else True

def spec_canonical(d, x) -> bool:
    """is the finite Float `x` in the canonical (s, exp, c) form of the format?"""
    f = d['fam']
    if f in ('fixed', 'smfixed'): return x.exp == d['scale']
    if f == 'mpfix': return x.exp == d['nmin'] + 1
    if f == 'exp': return x.c == 1
    if f in ('ef', 'ieee'):
        es, nbits, inf, kind, eoff = ef_params(d)
        p = nbits - es
        bias = 0 if es == 0 else (1 << (es - 1)) - 1
        expmin = 1 - bias + eoff - (p - 1)
    else:   # mps
        p = d['p']; expmin = d['emin'] - p + 1
    if x.c == 0 or x.c.bit_length() + x.exp - 1 < expmin + p - 1:   # zero / subnormal
        return x.exp == expmin
    return x.c.bit_length() == p

# ---- running the real code ------------------------------------------------------------------------

def show_val(y) -> str:
    v = fv_of_obj(y)
    t = fv_tok(v)
    return f'ok {canon_fv(v)} raw={t[1:] if v[0] == "fin" else t}'

def tryv(fn):
    """(line, object|None)"""
    try:
        y = fn()
    except Exception as e:   # noqa
        return 'err ' + err_name(e), None
    if isinstance(y, bool): return f'ok {b01(y)}', y
    if isinstance(y, int): return f'ok {y}', y
    return show_val(y), y

def variants(x):
    """other (s, exp, c) encodings of the same finite value"""
    out = []
    if x.c == 0:
        out.append(Float(s=x.s, exp=x.exp + 3, c=0)); out.append(Float(s=x.s, exp=x.exp - 2, c=0))
        return out
    out.append(Float(s=x.s, exp=x.exp - 1, c=x.c << 1))
    out.append(Float(s=x.s, exp=x.exp - 3, c=x.c << 3))
    c, e = x.c, x.exp
    t = (c & -c).bit_length() - 1
    if t > 0: out.append(Float(s=x.s, exp=e + t, c=c >> t))
    return out

class Run:
    def __init__(self, rep):
        self.rep = rep
        self.lines = []     # model input lines
        self.impl = []      # the real code's output for the same operation
        self.npat = 0
    def emit(self, line, got):
        self.lines.append(line); self.impl.append(got)
    def viol(self, what, d, finding=None, **kw):
        self.rep.violation(what, {'format': d, 'finding': finding, **{k: str(v) for k, v in kw.items()}})

def check_value_ops(R: Run, d, F, ft, x, b, finset, exhaustive_sorted):
    """operations on one decoded value `x` (pattern `b`) and its re-encodings"""
    rep = R.rep
    sx = spec_of_float(x)
    xt = fv_tok(fv_of_obj(x))
    # representable
    g, r = tryv(lambda: F.representable_in(x)); R.emit(f'repr {ft} {xt}', g)
    if r is not True:
        R.viol(f'decode({b}) = {x} is not representable_in the format that decoded it', d,
               None, pattern=b, impl=g)
    # encode(decode(b))
    if hasattr(F, 'encode'):
        g, e = tryv(lambda: F.encode(x)); R.emit(f'enc {ft} {xt}', g)
        if e is None:
            R.viol(f'encode(decode({b})) raises {g}', d, None, pattern=b, impl=g)
        elif sx[0] == 'nan':
            if layout(d, e)[0] != 'nan':
                R.viol(f'encode(NaN) = {e} is not a NaN pattern', d, None, pattern=b, impl=g)
        elif e != b:
            R.viol(f'encode(decode({b})) = {e}, expected {b}', d, None, pattern=b, impl=g,
                   redecoded=layout(d, e) if 0 <= e < (1 << F.total_bits()) else None)
    if sx[0] != 'fin':
        g, y = tryv(lambda: F.normalize(x)); R.emit(f'normalize {ft} {xt}', g)
        if y is None or not same_spec(spec_of_float(y), sx):
            R.viol(f'normalize({x}) = {g}', d, None, pattern=b, impl=g)
        return
    # finite: ordinal, normalisation, re-encodings
    g, o = tryv(lambda: F.to_ordinal(x)); R.emit(f'ord {ft} {xt} 0', g)
    for xv in [x] + variants(x):
        vt = fv_tok(fv_of_obj(xv))
        if xv is not x:
            g, r = tryv(lambda: F.representable_in(xv)); R.emit(f'repr {ft} {vt}', g)
            if r is not True:
                R.viol(f'{xv!r} (exp={xv.exp}, c={xv.c}) has a decoded value but is not representable_in', d, None, pattern=b, impl=g)
            if hasattr(F, 'encode'):
                g, e = tryv(lambda: F.encode(xv)); R.emit(f'enc {ft} {vt}', g)
                if e != b:
                    R.viol(f'encode of (exp={xv.exp}, c={xv.c}) = {g}, expected {b}', d, None, pattern=b, impl=g)
            g, o2 = tryv(lambda: F.to_ordinal(xv)); R.emit(f'ord {ft} {vt} 0', g)
            if o2 != o:
                R.viol(f'to_ordinal differs between encodings of one value: {o} vs {g}', d, None, pattern=b, impl=g)
        g, y = tryv(lambda: F.normalize(xv)); R.emit(f'normalize {ft} {vt}', g)
        if y is None or not same_spec(spec_of_float(y), sx):
            R.viol(f'normalize(exp={xv.exp}, c={xv.c}) = {g}: value changed (expected {sx[2]})', d,
                   None, pattern=b, impl=g, operand=vt)
        elif not spec_canonical(d, y):
            R.viol(f'normalize(exp={xv.exp}, c={xv.c}) = {g} is not the canonical encoding', d, None, pattern=b, impl=g, operand=vt)
    if o is None:
        R.viol(f'to_ordinal(decode({b})) raises', d, None, pattern=b); return
    g, y = tryv(lambda: F.from_ordinal(o)); R.emit(f'unord {ft} {o} 0', g)
    if y is None or not same_spec(spec_of_float(y), sx, zero_sign=False):
        R.viol(f'from_ordinal(to_ordinal(x)) = {g} for x = {sx[2]}', d, None, pattern=b, impl=g)
    # next_up / next_down against the sorted decoded set
    if exhaustive_sorted is not None:
        i = exhaustive_sorted.index(sx[2])
        for name, j, fn in (('next_up', i + 1, F.next_up), ('next_down', i - 1, F.next_down)):
            g, y = tryv(lambda: fn(x)); R.emit(f'{name} {ft} {xt} 0', g)
            if 0 <= j < len(exhaustive_sorted):
                want = exhaustive_sorted[j]
                if y is None or spec_of_float(y)[0] != 'fin' or spec_of_float(y)[2] != want:
                    R.viol(f'{name}({sx[2]}) = {g}, the neighbour in the decoded set is {want}', d, None, pattern=b, impl=g)
                else:
                    g2, o2 = tryv(lambda: F.to_ordinal(y))
                    if o2 != o + (1 if name == 'next_up' else -1):
                        R.viol(f'{name} does not step the ordinal by one: {o} -> {g2}', d, None, pattern=b)
            elif y is not None:
                R.viol(f'{name}({sx[2]}) = {g} at the end of the finite range (allow_inf=False)', d, None, pattern=b, impl=g)
    return o

def run_encodable(R: Run, d, pats=None):
    """all checks for one encodable format; pats=None: every pattern"""
    rep = R.rep
    F = fmt_obj(d); ft = fmt_tok(d)
    nb = F.total_bits()
    exhaustive = pats is None
    if exhaustive: pats = range(1 << nb)
    rep.count('fam:' + d['fam']); rep.count(f'nbits:{nb}')
    if d['fam'] == 'ef': rep.count('kind:' + d['kind'] + ('+inf' if d['inf'] else ''))
    decoded = {}
    for b in pats:
        R.npat += 1
        rep.distinct.add((ft, b))
        g, x = tryv(lambda: F.decode(b)); R.emit(f'dec {ft} {b}', g)
        sp = layout(d, b)
        if x is None or not same_spec(spec_of_float(x), sp):
            R.viol(f'decode({b}) = {g}, the layout assigns {sp}', d, None, pattern=b, impl=g, spec=sp)
            continue
        decoded[b] = x
        rep.count('class:' + (sp[0] if sp[0] != 'fin' else ('zero' if sp[2] == 0 else ('negative' if sp[2] < 0 else 'positive'))))
        if sp[0] == 'fin' and not spec_canonical(d, x):
            R.viol(f'decode({b}) = {g} is not in canonical form', d, None, pattern=b, impl=g)
    finset = sorted({spec_of_float(x)[2] for x in decoded.values() if spec_of_float(x)[0] == 'fin'})
    ords = {}
    for b, x in decoded.items():
        o = check_value_ops(R, d, F, ft, x, b, finset, finset if exhaustive else None)
        if o is not None: ords[spec_of_float(x)[2]] = o
    if exhaustive:
        # ordinals: strictly increasing, contiguous, zero at 0
        seq = [ords.get(v) for v in finset]
        if None not in seq:
            for v0, v1, o0, o1 in zip(finset, finset[1:], seq, seq[1:]):
                if o1 != o0 + 1:
                    R.viol(f'ordinals of neighbouring values {v0}, {v1} are {o0}, {o1} (not contiguous/increasing)', d, None)
            if Fraction(0) in ords and ords[Fraction(0)] != 0 and d['fam'] != 'exp':
                R.viol(f'ordinal of zero is {ords[Fraction(0)]}', d, None)
        # out-of-range pattern is refused
        g, x = tryv(lambda: F.decode(1 << nb)); R.emit(f'dec {ft} {1 << nb}', g)
        if x is not None: R.viol(f'decode(2^nbits) = {g}', d, None)
        # min/max queries against the decoded set
        pos = [v for v in finset if v > 0]; neg = [v for v in finset if v < 0]
        def q(name, fn, args, want, lenient_zero):
            g, y = tryv(fn); R.emit(f'{name} {ft}{args}', g)
            if want is None:
                if y is not None and not (lenient_zero and spec_of_float(y)[0] == 'fin' and spec_of_float(y)[2] == 0):
                    R.viol(f'{name}{args} = {g} but the decoded set has no such value', d, None, impl=g)
            elif y is None or spec_of_float(y)[0] != 'fin' or spec_of_float(y)[2] != want:
                R.viol(f'{name}{args} = {g}, the decoded set says {want}', d, None, impl=g)
        q('maxval', lambda: F.maxval(False), ' 0', max(pos) if pos else None, True)
        q('maxval', lambda: F.maxval(True), ' 1', min(neg) if neg else None, True)
        q('minval', lambda: F.minval(False), ' 0', min(pos) if pos else None, False)
        q('minval', lambda: F.minval(True), ' 1', max(neg) if neg else None, False)
        q('largest', lambda: F.largest(), '', max(finset) if finset else None, False)
        q('smallest', lambda: F.smallest(), '', min(finset) if finset else None, False)
        # correspondence only (no Spec verdict): the infval= / allow_inf= arms at the ends of the range
        probe = [x for x in decoded.values() if x.isinf][:2]
        if finset:
            probe += [x for x in decoded.values() if not x.is_nar() and spec_of_float(x)[2] in (finset[0], finset[-1])][:3]
        for x in probe:
            xt = fv_tok(fv_of_obj(x))
            g, o = tryv(lambda: F.to_ordinal(x, True)); R.emit(f'ord {ft} {xt} 1', g)
            g, _ = tryv(lambda: F.next_up(x, True)); R.emit(f'next_up {ft} {xt} 1', g)
            g, _ = tryv(lambda: F.next_down(x, True)); R.emit(f'next_down {ft} {xt} 1', g)
            if isinstance(o, int):
                for k in (o - 1, o + 1, o + 2):
                    for iv in (False, True):
                        g, _ = tryv(lambda: F.from_ordinal(k, iv)); R.emit(f'unord {ft} {k} {b01(iv)}', g)
        # special values and signed zeros given directly (both signs): representable iff some pattern has that value,
        # and encode/decode round-trips them
        have = {layout(d, b) for b in range(1 << nb)}
        for v in (Float(isnan=True), Float(isnan=True, s=True), Float(isinf=True), Float(isinf=True, s=True),
                  Float(c=0, exp=0), Float(s=True, c=0, exp=0)):
            sv = spec_of_float(v)
            member = any(same_spec(sv, h) for h in have)
            vt = fv_tok(fv_of_obj(v))
            g, r = tryv(lambda: F.representable_in(v)); R.emit(f'repr {ft} {vt}', g)
            if r is not member:
                R.viol(f'representable_in({v}) = {g}, but {"a" if member else "no"} pattern decodes to it', d,
                       None, impl=g)
            if r is True:
                g, e = tryv(lambda: F.encode(v)); R.emit(f'enc {ft} {vt}', g)
                back = layout(d, e) if (e is not None and 0 <= e < (1 << nb)) else None
                if back is None or not same_spec(back, sv):
                    R.viol(f'encode({v}) = {g} which decodes to {back}', d, None, impl=g)
        # representable_iff_decoded: numbers strictly between neighbours / beyond the extremes are refused
        outs = [(a + c) / 2 for a, c in zip(finset, finset[1:])]
        if len(finset) >= 2:
            outs += [finset[-1] + (finset[-1] - finset[-2]), finset[0] - (finset[1] - finset[0]), finset[-1] * 4 + 1, finset[0] * 4 - 1]
        for v in outs:
            if v in finset: continue
            den = v.denominator
            xo = Float(s=v < 0, exp=-(den.bit_length() - 1), c=abs(v.numerator))
            g, r = tryv(lambda: F.representable_in(xo)); R.emit(f'repr {ft} {fv_tok(fv_of_obj(xo))}', g)
            if r is not False:
                R.viol(f'representable_in({v}) = {g} but no pattern decodes to it', d, None, impl=g)
    return decoded, finset

# ---- unbounded ordinal formats (no encoding): MPS float, MP fixed ----------------------------------

def run_ordinal(R: Run, d, K):
    rep = R.rep
    F = fmt_obj(d); ft = fmt_tok(d)
    rep.count('fam:' + d['fam'])
    if d['fam'] == 'mps': sf = Fmt(p=d['p'], nmin=d['emin'] - d['p'])
    else: sf = Fmt(nmin=d['nmin'])
    prev = None
    for k in range(-K, K + 1):
        R.npat += 1
        rep.distinct.add((ft, 'ord', k))
        g, x = tryv(lambda: F.from_ordinal(k)); R.emit(f'unord {ft} {k} 0', g)
        if x is None or x.isnan or x.isinf:
            R.viol(f'from_ordinal({k}) = {g}', d, None); prev = None; continue
        sx = spec_of_float(x)
        v = sx[2]
        if not sf.member(v): R.viol(f'from_ordinal({k}) = {v} is not a member of the format', d, None)
        if (v > 0) != (k > 0) or (v < 0) != (k < 0): R.viol(f'from_ordinal({k}) = {v} has the wrong sign', d, None)
        if prev is not None:
            # the successor of prev in the format, from first principles: one unit in the last place of the smaller magnitude
            small = min(abs(prev), abs(v))
            step = Fraction(2) ** (sf.ulp_exp(small) if small != 0 else sf.nmin + 1)
            if not (v > prev and v - prev == step):
                R.viol(f'from_ordinal({k - 1}) = {prev}, from_ordinal({k}) = {v}: not neighbouring members (step {step})', d, None)
        prev = v
        xt = fv_tok(fv_of_obj(x))
        if not spec_canonical(d, x) and k != 0:
            R.viol(f'from_ordinal({k}) = {g} is not canonical', d, None)
        for xv in [x] + variants(x):
            vt = fv_tok(fv_of_obj(xv))
            g, r = tryv(lambda: F.representable_in(xv)); R.emit(f'repr {ft} {vt}', g)
            if r is not True: R.viol(f'member (exp={xv.exp}, c={xv.c}) is not representable_in', d, None, impl=g)
            g, o = tryv(lambda: F.to_ordinal(xv)); R.emit(f'ord {ft} {vt} 0', g)
            if o != k: R.viol(f'to_ordinal(from_ordinal({k})) = {g} (encoding exp={xv.exp}, c={xv.c})', d, None, impl=g)
            g, y = tryv(lambda: F.normalize(xv)); R.emit(f'normalize {ft} {vt}', g)
            if y is None or not same_spec(spec_of_float(y), sx):
                R.viol(f'normalize(exp={xv.exp}, c={xv.c}) = {g}: value changed (expected {v})', d,
                       None, impl=g, operand=vt)
            elif not spec_canonical(d, y):
                R.viol(f'normalize(exp={xv.exp}, c={xv.c}) = {g} is not canonical', d, None, impl=g, operand=vt)
        for name, dk, fn in (('next_up', 1, F.next_up), ('next_down', -1, F.next_down)):
            g, y = tryv(lambda: fn(x)); R.emit(f'{name} {ft} {xt} 0', g)
            g2, o2 = (None, None) if y is None else tryv(lambda: F.to_ordinal(y))
            if o2 != k + dk: R.viol(f'{name}(from_ordinal({k})) has ordinal {g2}', d, None, impl=g)
        # a non-member between neighbours is refused
        half = Float(s=x.s, exp=x.exp - 1, c=(x.c << 1) | 1)
        hv = spec_of_float(half)[2]
        g, r = tryv(lambda: F.representable_in(half)); R.emit(f'repr {ft} {fv_tok(fv_of_obj(half))}', g)
        if r is not sf.member(hv): R.viol(f'representable_in({hv}) = {g}, membership is {sf.member(hv)}', d, None, impl=g)

# ---- IEEE interchange formats against the platform ----------------------------------------------

STRUCT = {16: ('<e', '<H'), 32: ('<f', '<I'), 64: ('<d', '<Q')}

def platform_decode(nbits, b):
    fc, ic = STRUCT[nbits]
    f = struct.unpack(fc, struct.pack(ic, b))[0]
    s = bool(b >> (nbits - 1))
    if math.isnan(f): return ('nan',)
    if math.isinf(f): return ('inf', s)
    return ('fin', s, Fraction(f))

def run_ieee(R: Run, d, pats):
    rep = R.rep
    F = fmt_obj(d); ft = fmt_tok(d); nb = d['nbits']
    rep.count('fam:ieee'); rep.count(f'nbits:{nb}')
    magmask = (1 << (nb - 1)) - 1
    for b in pats:
        R.npat += 1
        rep.distinct.add((ft, b))
        g, x = tryv(lambda: F.decode(b)); R.emit(f'dec {ft} {b}', g)
        sp = platform_decode(nb, b)
        if x is None or not same_spec(spec_of_float(x), sp) or not same_spec(layout(d, b), sp):
            R.viol(f'binary{nb}: decode({b:#x}) = {g}, the platform says {sp}', d, None, pattern=b, impl=g); continue
        rep.count('class:' + (sp[0] if sp[0] != 'fin' else ('zero' if sp[2] == 0 else ('negative' if sp[2] < 0 else 'positive'))))
        o = check_value_ops(R, d, F, ft, x, b, [1], None)
        if sp[0] != 'fin': continue
        mag = b & magmask; s = b >> (nb - 1)
        if o != (-mag if s else mag):
            R.viol(f'binary{nb}: to_ordinal(decode({b:#x})) = {o}, the magnitude field is {mag}', d, None, pattern=b)
        # neighbours by bit pattern
        up = (0, mag + 1) if not s else ((1, mag - 1) if mag > 0 else (0, 1))
        dn = (1, mag + 1) if s else ((0, mag - 1) if mag > 0 else (1, 1))
        xt = fv_tok(fv_of_obj(x))
        for name, (ns, nm), fn in (('next_up', up, F.next_up), ('next_down', dn, F.next_down)):
            want = platform_decode(nb, (ns << (nb - 1)) | nm)
            g, y = tryv(lambda: fn(x)); R.emit(f'{name} {ft} {xt} 0', g)
            if want[0] == 'fin':
                if y is None or not same_spec(spec_of_float(y), want, zero_sign=False):
                    R.viol(f'binary{nb}: {name}(decode({b:#x})) = {g}, the neighbouring pattern is {want[2]}', d, None, pattern=b, impl=g)
            elif y is not None:
                R.viol(f'binary{nb}: {name}(decode({b:#x})) = {g} past the largest finite value (allow_inf=False)', d, None, pattern=b, impl=g)
        # encoding a platform float
        if nb == 64:
            f = struct.unpack('<d', struct.pack('<Q', b))[0]
            g, e = tryv(lambda: F.encode(Float.from_float(f)))
            if e != b: R.viol(f'binary64: encode(from_float({f!r})) = {g}, struct.pack gives {b:#x}', d, None, pattern=b, impl=g)

def ieee_patterns(Rn, nb, es, n_random, stride=None):
    p = nb - es
    top = 1 << (nb - 1)
    inf = ((1 << es) - 1) << (p - 1)
    edge = [0, 1, 2, (1 << (p - 1)) - 1, 1 << (p - 1), (1 << (p - 1)) + 1, inf - 1, inf, inf + 1, top - 1,
            ((1 << (es - 1)) - 1) << (p - 1), (((1 << (es - 1)) - 1) << (p - 1)) + 1, inf | (1 << (p - 2))]
    pats = set()
    for e in edge:
        pats.add(e); pats.add(e | top)
    if stride:
        pats.update(range(Rn.randrange(stride), 1 << nb, stride))
    for _ in range(n_random):
        k = Rn.random()
        if k < 0.5: pats.add(Rn.getrandbits(nb))
        elif k < 0.8:   # random exponent, sparse mantissa
            pats.add((Rn.getrandbits(1) << (nb - 1)) | (Rn.randrange(1 << es) << (p - 1)) | (1 << Rn.randrange(p - 1)))
        else:           # near a binade boundary
            e = Rn.randrange(1 << es)
            pats.add(((Rn.getrandbits(1) << (nb - 1)) | (e << (p - 1))) + Rn.choice([-2, -1, 0, 1]) & ((1 << nb) - 1))
    return sorted(pats)

# ---- entry ---------------------------------------------------------------------------------------

def formats_for(tier):
    mx = 6 if tier == 'quick' else 8
    out = list(all_efloat_formats(mx, eoffs=(-3, 0, 2)))
    for nb in range(3, mx + 1):
        for es in range(1, nb - 1):
            out.append(dict(fam='ieee', es=es, nbits=nb))
    for nb in range(1, mx + 1):
        for sc in (-2, 0, 3):
            out.append(dict(fam='fixed', signed=False, scale=sc, nbits=nb))
            if nb >= 2:
                out.append(dict(fam='fixed', signed=True, scale=sc, nbits=nb))
                out.append(dict(fam='smfixed', scale=sc, nbits=nb))
        for eo in (-3, 0, 2):
            out.append(dict(fam='exp', nbits=nb, eoff=eo))
    return out

def run(rep, tier, seed):
    Rn = Prng(seed, 'C16')
    R = Run(rep)
    quick = tier == 'quick'
    # corpus: the shapes that broke once (repaired defects F2, F15, F16, F23), run first as regression inputs
    corpus = [dict(fam='fixed', signed=True, scale=0, nbits=8), dict(fam='ef', es=0, nbits=2, inf=False, kind='maxval', eoff=0),
              dict(fam='ef', es=2, nbits=3, inf=True, kind='maxval', eoff=0), dict(fam='ef', es=1, nbits=2, inf=True, kind='negzero', eoff=0),
              dict(fam='ef', es=4, nbits=8, inf=False, kind='negzero', eoff=0)]
    fmts = corpus + formats_for(tier)
    seen = set()
    nfmt = 0
    for d in fmts:
        key = fmt_tok(d) + d['fam']
        if key in seen: continue
        seen.add(key)
        try:
            fmt_obj(d)
        except Exception:   # the real constructor refuses the parameters
            rep.count('format-rejected'); continue
        run_encodable(R, d)
        nfmt += 1
    # constructor validity agrees with the model's `valid` (all small parameter combinations)
    for nb in range(0, 5):
        for es in range(0, nb + 2):
            for inf in (False, True):
                for kind in ('ieee', 'maxval', 'negzero', 'none'):
                    try:
                        EFloatFormat(es, nb, inf, KINDS[kind], 0); ok = True
                    except ValueError:
                        ok = False
                    if ok != valid_efloat(es, nb, inf, kind):
                        rep.broke('correspondence', 'C16.valid', f'es={es} nbits={nb} inf={inf} kind={kind}: constructor {ok}')
    # unbounded ordinal formats
    for p in (1, 2, 3, 4) if quick else (1, 2, 3, 4, 5, 6):
        for emin in (-2, 0, 1):
            run_ordinal(R, dict(fam='mps', p=p, emin=emin), K=(3 << (p - 1)) + 3 if quick else (5 << (p - 1)) + 3)
    for nmin in (-3, -1, 2):
        for nz in (False, True):
            run_ordinal(R, dict(fam='mpfix', nmin=nmin, nz=nz), K=12 if quick else 40)
    # interchange formats against the platform
    run_ieee(R, dict(fam='ieee', es=5, nbits=16), ieee_patterns(Rn, 16, 5, 50, stride=257 if quick else 13))
    run_ieee(R, dict(fam='ieee', es=8, nbits=32), ieee_patterns(Rn, 32, 8, 250 if quick else 4000))
    run_ieee(R, dict(fam='ieee', es=11, nbits=64), ieee_patterns(Rn, 64, 11, 250 if quick else 4000))
    # correspondence with the Lean model
    model = run_driver(R.lines)
    rep.cov['evaluations'] = len(R.lines)
    nbad = 0
    for line, got, mod in zip(R.lines, R.impl, model):
        rep.count('op:' + line.split()[0])
        rep.count('outcome:' + ('err ' + got.split()[1] if got.startswith('err') else 'ok'))
        if got != mod:
            nbad += 1
            if nbad <= 40: rep.broke('correspondence', 'C16.' + line.split()[0], f'line={line} impl={got} model={mod}')
        if len(rep.cov['samples']) < 12 and Rn.random() < 0.0005 or len(rep.cov['samples']) < 3:
            rep.sample({'line': line, 'impl': got, 'model': mod})
    rep.cov['exhaustive'] = True
    rep.cov['exhaustive_formats'] = nfmt
    rep.cov['patterns_and_ordinals'] = R.npat
    rep.cov['rule'] = (f'EVERY bit pattern of every encodable format with nbits <= {6 if quick else 8} (EFloat: all es, 4 NaN kinds, inf on/off, '
                       'eoffset in {-3,0,2}; IEEEFormat; two\'s complement signed/unsigned, sign-magnitude, scale in {-2,0,3}; ExpFormat eoffset in {-3,0,2}); '
                       'per pattern: decode, representable_in, encode, normalize, to_ordinal, from_ordinal, next_up, next_down on the decoded value and on 2-3 redundant '
                       '(exp, c) encodings of it; per format: minval/maxval/largest/smallest, out-of-range pattern; MPSFloatFormat p<=4(6) x emin and MPFixedFormat over an '
                       'ordinal window; binary16 by stride, binary32/64 sampled (edges + seeded random) against struct; distinct = distinct (format, pattern/ordinal)')
    rep.assumptions += ['Spec oracle: first-principles layout decoders in harness/c16.py and numspec.efloat_layout_decode, exact Fractions; binary16/32/64 also the platform (struct)',
                        'NaN payloads and the sign of NaN are not part of the round-trip (every NaN pattern must encode to some NaN pattern)']

def replay(rep, data):
    """./check C16 --replay f : re-run every check on the formats named in a replay file"""
    R = Run(rep)
    seen = set()
    for v in data.get('violations', []):
        d = v.get('format')
        if not isinstance(d, dict): continue
        key = json.dumps(d, sort_keys=True)
        if key in seen: continue
        seen.add(key)
        if d['fam'] in ('mps', 'mpfix'): run_ordinal(R, d, K=16)
        elif d['fam'] == 'ieee' and d['nbits'] > 10: run_ieee(R, d, [int(v['pattern'])] if 'pattern' in v else [0])
        else: run_encodable(R, d)
    model = run_driver(R.lines) if R.lines else []
    rep.cov['evaluations'] = len(R.lines)
    for line, got, mod in zip(R.lines, R.impl, model):
        if got != mod: rep.broke('correspondence', 'C16.' + line.split()[0], f'line={line} impl={got} model={mod}')
    for v in rep.violations[:20]:
        print('REPLAY:', v['what'], v['format'], 'finding=', v.get('finding'))
    code = finish(rep, {'obligations': 1, 'discharged': 0, 'checker_cmd': 'replay (no proof stage)', 'trusted_base': []})
    sys.exit(code)
