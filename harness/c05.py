"""C05 — number values behave as the real numbers they denote.

Real code (fpy2 `Float`, `RealFloat` mixed with `int`, `float`, `Fraction`) vs
 1. an independent Spec oracle in exact integer / `Fraction` / IEEE-rule arithmetic (property verdict), and
 2. the Lean model (`rfop …` lines of Driver/Exact.lean) — correspondence.
"""
from __future__ import annotations
import math, sys, struct, itertools
from fractions import Fraction
from numgen import *   # noqa  (numcanon, common)

PROP = 'C05'
TYPES = ['F', 'R', 'I', 'D', 'Q']
FPY = ('F', 'R')
COMBOS = [(a, b) for a in TYPES for b in TYPES if a in FPY or b in FPY]      # 16 combinations
ORD = {-1: 'lt', 0: 'eq', 1: 'gt'}

# map a violation shape to a listed known-finding id (none listed: F1, F17-F19 are fixed in /repo)
FINDING_OF_SHAPE: dict[str, str] = {}

# ---------------------------------------------------------------------------
# canonical observation of the real code (same text as Driver/Exact.lean)

def raw_fv(v):
    return f'{b01(v[1])}:{v[2]}:{v[3]}' if v[0] == 'fin' else (f'i{b01(v[1])}' if v[0] == 'inf' else f'n{b01(v[1])}')

def dec_float(f: float):
    """decode a Python float to an FV descriptor without the library (frexp)"""
    s = math.copysign(1.0, f) < 0
    if math.isnan(f): return ('nan', s)
    if math.isinf(f): return ('inf', s)
    if f == 0: return ('fin', s, 0, 0)
    m, e = math.frexp(abs(f))
    c = int(m * (1 << 53))
    return ('fin', s, e - 53, c)

def show_num(y) -> str:
    if isinstance(y, Float):
        v = fv_of_obj(y); return f'ok {canon_fv(v)} ty=F raw={raw_fv(v)}'
    if isinstance(y, RealFloat):
        v = fv_of_obj(y); return f'ok {canon_fv(v)} ty=R raw={raw_fv(v)}'
    if isinstance(y, float):
        return f'ok {canon_fv(dec_float(y))} ty=D'
    if isinstance(y, Fraction): return f'ok rat {y.numerator}/{y.denominator} ty=Q'
    if isinstance(y, int) and not isinstance(y, bool): return f'ok int {y} ty=I'
    return f'ok other {type(y).__name__}'

def show_fvraw(y) -> str:
    v = fv_of_obj(y); return f'{canon_fv(v)} raw={raw_fv(v)}'

def guard(f):
    try: return f()
    except Exception as e:   # noqa
        return 'err ' + err_name(e)

def obs_ord(o) -> str:
    if o is None: return 'ok none'
    return 'ok ' + ORD[int(o)]

BIN = {'add': lambda a, b: a + b, 'sub': lambda a, b: a - b, 'mul': lambda a, b: a * b}
REL = {'eq': lambda a, b: a == b, 'lt': lambda a, b: a < b, 'le': lambda a, b: a <= b,
       'gt': lambda a, b: a > b, 'ge': lambda a, b: a >= b}
UN = {'neg': lambda a: -a, 'pos': lambda a: +a, 'abs': lambda a: abs(a)}

def real_line(op, a, b=None, k=None, k2=None) -> str:
    """run the real code for driver op `op`; a, b are Python objects; k, k2 ints / None"""
    if op in BIN: return guard(lambda: show_num(BIN[op](a, b)))
    if op in REL: return guard(lambda: 'ok ' + b01(bool(REL[op](a, b))))
    if op in UN: return guard(lambda: show_num(UN[op](a)))
    if op == 'pow': return guard(lambda: show_num(a ** k))
    if op == 'cmp': return guard(lambda: obs_ord(a.compare(b)))
    if op == 'int': return guard(lambda: f'ok int {int(a)}')
    if op == 'float': return guard(lambda: f'ok {canon_fv(dec_float(float(a)))}')
    if op == 'rat':
        def f():
            q = a.as_rational(); return f'ok rat {q.numerator}/{q.denominator}'
        return guard(f)
    if op == 'split':
        def f():
            h, l = a.split(k); return f'ok {show_fvraw(h)} | {show_fvraw(l)}'
        return guard(f)
    if op == 'normalize': return guard(lambda: 'ok ' + show_fvraw(a.normalize(k, k2)))
    if op == 'bit': return guard(lambda: 'ok ' + b01(a.bit(k)))
    if op == 'moresig': return guard(lambda: 'ok ' + b01(a.is_more_significant(k)))
    if op == 'ident': return guard(lambda: 'ok ' + b01(a.is_identical_to(b)))
    if op == 'hashkey': return guard(lambda: f'h={hash(a)}')
    raise ValueError(op)

def model_hash_line(mod: str) -> str:
    """turn the model's class key into the hash Python gives that key"""
    t = mod.split()
    if t[0] != 'ok': return mod
    if t[1] == 'nan': return 'h=271828'
    if t[1] == 'inf': return f'h={-sys.hash_info.inf if t[2] == "1" else sys.hash_info.inf}'
    if t[1] == 'int': return f'h={hash(int(t[2]))}'
    if t[1] == 'frac':
        n, d = t[2].split('/'); return f'h={hash(Fraction(int(n), int(d)))}'
    return mod

def nk(k): return 'N' if k is None else str(k)

def drv_line(op, oa, ob=None, k=None, k2=None) -> str:
    if op in BIN or op in REL or op in ('cmp', 'ident'): return f'rfop {op} {operand_tok(oa)} {operand_tok(ob)}'
    if op in ('pow', 'split', 'bit', 'moresig'): return f'rfop {op} {operand_tok(oa)} {k}'
    if op == 'normalize': return f'rfop normalize {operand_tok(oa)} {nk(k)} {nk(k2)}'
    return f'rfop {op} {operand_tok(oa)}'

# ---------------------------------------------------------------------------
# Spec oracle: extended reals with IEEE rules, exact Fractions.  Values: Fraction | 'inf' | '-inf' | 'nan'

def is_nan(v): return isinstance(v, str) and v == 'nan'
def is_inf(v): return isinstance(v, str) and v in ('inf', '-inf')
def vneg(v):
    if is_nan(v): return v
    if is_inf(v): return 'inf' if v == '-inf' else '-inf'
    return -v
def vsign_neg(v, zs):
    """is the value negative (zero: its sign bit)"""
    if is_inf(v): return v == '-inf'
    return zs if v == 0 else v < 0
def vadd(u, v):
    if is_nan(u) or is_nan(v): return 'nan'
    if is_inf(u):
        if is_inf(v) and u != v: return 'nan'
        return u
    if is_inf(v): return v
    return u + v
def vmul(u, v, su, sv):
    if is_nan(u) or is_nan(v): return 'nan'
    if is_inf(u) or is_inf(v):
        if (not is_inf(u) and u == 0) or (not is_inf(v) and v == 0): return 'nan'
        return '-inf' if vsign_neg(u, su) != vsign_neg(v, sv) else 'inf'
    return u * v
def vcmp(u, v):
    if is_nan(u) or is_nan(v): return None
    if u == v: return 0
    if u == '-inf' or v == 'inf': return -1
    if u == 'inf' or v == '-inf': return 1
    return -1 if u < v else 1
def dyadic(q: Fraction): return q.denominator & (q.denominator - 1) == 0

def parse_num(line: str):
    """'ok <canon> ty=X [raw=..]' -> (value, zero/inf sign, ty, raw) ; 'err N' -> ('err', N)"""
    t = line.split()
    if t[0] == 'err': return ('err', t[1])
    ty = next(x for x in t if x.startswith('ty='))[3:]
    raw = next((x[4:] for x in t if x.startswith('raw=')), None)
    val = ' '.join(x for x in t[1:] if not x.startswith(('ty=', 'raw=')))
    v, s = canon_value(val)
    return ('ok', v, s, ty, raw)

def judge_value(got, want, want_zero_sign, non_dyadic_operand, want_ty=None):
    """got = parse_num(...).  Returns None or a description.  A ValueError is accepted only when the exact
    result (or an operand that must be converted) is not a dyadic rational."""
    if got[0] == 'err':
        if got[1] == 'ValueError' and (non_dyadic_operand or (isinstance(want, Fraction) and not dyadic(want))):
            return None
        return f'raised {got[1]}; exact result is {want}'
    _, v, s, ty, raw = got
    if want_ty is not None and ty not in want_ty: return f'result type {ty}, expected one of {want_ty}'
    if is_nan(want): return None if is_nan(v) else f'expected NaN, got {v}'
    if v != want: return f'expected {want}, got {v}'
    if not is_inf(want) and want == 0 and want_zero_sign is not None and s != want_zero_sign:
        return f'zero result has sign bit {s}, IEEE says {want_zero_sign}'
    return None

def zero_sign_of_sum(u, su, v, sv):
    """IEEE sign of an exact zero sum of finite u, v with sign bits su, sv"""
    if u == 0 and v == 0: return su and sv
    return False      # x + (-x) = +0 under round-to-nearest (one zero, one non-zero never sums to 0)

def spec_binop(op, oa, ob):
    """(want value, want zero sign, non-dyadic operand?)"""
    u, v = operand_value(oa), operand_value(ob)
    su, sv = operand_sign(oa), operand_sign(ob)
    nd = any(isinstance(x, Fraction) and not dyadic(x) for x in (u, v))
    if op == 'sub':
        # -b: sign bit flips for Float / RealFloat / float; int 0 and Fraction(0) have no negative zero
        sv = (not sv) if ob[0] in ('F', 'R', 'D') else (-v) < 0
        v = vneg(v)
    if op in ('add', 'sub'):
        w = vadd(u, v)
        zs = zero_sign_of_sum(u, su, v, sv) if (isinstance(w, Fraction) and w == 0) else None
        return w, zs, nd
    w = vmul(u, v, su, sv)
    zs = (su != sv) if (isinstance(w, Fraction) and w == 0) else None
    return w, zs, nd

def floor_log2_abs(q: Fraction) -> int:
    q = abs(q)
    e = q.numerator.bit_length() - q.denominator.bit_length()
    if Fraction(2) ** e > q: e -= 1
    elif Fraction(2) ** (e + 1) <= q: e += 1
    return e

def p2(k: int) -> Fraction: return Fraction(2) ** k

# ---------------------------------------------------------------------------
# one generic case: run real code, Spec-judge, and queue the model line

class Run:
    def __init__(self, rep):
        self.rep = rep; self.lines = []; self.meta = []; self.n = 0
    def viol(self, shape, why, **kw):
        self.rep.count('violation-shape:' + shape)
        self.rep.violation(why, dict(kw, shape=shape, finding=FINDING_OF_SHAPE.get(shape)))
    def queue(self, line, got):
        self.lines.append(line); self.meta.append(got)
    def flush(self):
        if not self.lines: return
        model = run_driver(self.lines)
        for line, got, mod in zip(self.lines, self.meta, model):
            m = model_hash_line(mod) if line.startswith('rfop hashkey') else mod
            if m != got:
                self.rep.broke('correspondence', 'C05.' + line.split()[1], f'line={line} impl={got} model={mod}')
            self.rep.sample({'line': line, 'impl': got, 'model': mod})
            self.rep.distinct.add(line)
        self.n += len(self.lines)
        self.lines, self.meta = [], []

def want_type(oa, ob, w):
    """type the result must have: Float if any Float; else RealFloat, or a Python float for nan/inf from a float operand"""
    if 'F' in (oa[0], ob[0]): return ('F',)
    if isinstance(w, str): return ('D',)
    return ('R',)

def do_binop(run: Run, op, oa, ob, corr=True):
    a, b = operand_obj(oa), operand_obj(ob)
    got = real_line(op, a, b)
    w, zs, nd = spec_binop(op, oa, ob)
    why = judge_value(parse_num(got), w, zs, nd, want_type(oa, ob, w))
    if why: run.viol(f'{op}:{oa[0]}{ob[0]}', f'{op}: {why}', op=op, a=repr(oa), b=repr(ob), impl=got)
    run.rep.count(f'op:{op}'); run.rep.count(f'types:{oa[0]}{ob[0]}')
    run.rep.count('result:' + ('err' if got.startswith('err') else got.split()[1]))
    if corr: run.queue(drv_line(op, oa, ob), got)

def do_rel(run: Run, oa, ob, corr=True):
    """==, !=, <, <=, >, >= and compare, judged by the denoted values"""
    a, b = operand_obj(oa), operand_obj(ob)
    c = vcmp(operand_value(oa), operand_value(ob))
    want = {'eq': c == 0, 'lt': c == -1, 'le': c in (-1, 0), 'gt': c == 1, 'ge': c in (0, 1)}
    for op in REL:
        got = real_line(op, a, b)
        if got != 'ok ' + b01(want[op]):
            run.viol(f'{op}:{oa[0]}{ob[0]}', f'{op}: got {got}, values compare {c}', op=op, a=repr(oa), b=repr(ob), impl=got)
        run.rep.count('op:' + op)
        if corr: run.queue(drv_line(op, oa, ob), got)
    ne = guard(lambda: 'ok ' + b01(bool(a != b)))
    if ne != 'ok ' + b01(c != 0):
        run.viol(f'ne:{oa[0]}{ob[0]}', f'!=: got {ne}, values compare {c}', op='ne', a=repr(oa), b=repr(ob), impl=ne)
    if oa[0] in FPY and not (oa[0] == 'R' and ob[0] == 'F'):
        got = real_line('cmp', a, b)
        if got != obs_ord(c):
            run.viol(f'cmp:{oa[0]}{ob[0]}', f'compare: got {got}, values compare {c}', op='cmp', a=repr(oa), b=repr(ob), impl=got)
        run.rep.count('op:cmp')
        if corr: run.queue(drv_line('cmp', oa, ob), got)
    elif oa[0] == 'R' and ob[0] == 'F' and corr:
        # RealFloat.compare(Float) is not supported (the operators go through Float): correspondence only
        run.rep.count('op:cmp-unsupported'); run.queue(drv_line('cmp', oa, ob), real_line('cmp', a, b))
    # equal values hash equally
    if c == 0:
        ha, hb = guard(lambda: hash(a)), guard(lambda: hash(b))
        run.rep.count('hash-pairs')
        if ha != hb:
            run.viol(f'hash:{oa[0]}{ob[0]}', f'equal values hash differently: {ha} vs {hb}', op='hash', a=repr(oa), b=repr(ob), impl=f'{ha} {hb}')

def do_unary(run: Run, oa):
    """neg pos abs pow int float rat hashkey split normalize moresig bit on a Float / RealFloat"""
    R = run.R
    a = operand_obj(oa)
    u, su = operand_value(oa), operand_sign(oa)
    fin = isinstance(u, Fraction)
    for op in ('neg', 'pos', 'abs'):
        got = real_line(op, a)
        if op == 'neg': w, zs = vneg(u), not su
        elif op == 'pos': w, zs = u, su
        else: w, zs = (u if is_nan(u) else ('inf' if is_inf(u) else abs(u))), False
        pg = parse_num(got)
        why = judge_value(pg, w, zs, False, (oa[0],))
        if why: run.viol(f'{op}:{oa[0]}', f'{op}: {why}', op=op, a=repr(oa), impl=got)
        run.rep.count('op:' + op); run.queue(drv_line(op, oa), got)
    for k in (0, 1, 2, 3, R.choice([4, 5, 6, 7, 11]), -1, -2):
        got = real_line('pow', a, k=k)
        pg = parse_num(got)
        if k < 0:
            why = None if pg == ('err', 'ValueError') else f'negative exponent must be refused, got {got}'
        else:
            if k == 0: w, zs = Fraction(1), None
            elif is_nan(u): w, zs = 'nan', None
            elif is_inf(u): w, zs = ('-inf' if (u == '-inf' and k % 2 == 1) else 'inf'), None
            else: w, zs = u ** k, (su and k % 2 == 1)
            why = judge_value(pg, w, zs, False, (oa[0],))
        if why: run.viol(f'pow:{oa[0]}', f'pow {k}: {why}', op='pow', a=repr(oa), k=k, impl=got)
        run.rep.count('op:pow'); run.queue(drv_line('pow', oa, k=k), got)
    # int()
    got = real_line('int', a)
    if fin and u.denominator == 1: why = None if got == f'ok int {u.numerator}' else f'int(): expected {u.numerator}, got {got}'
    else: why = None if got == 'err ValueError' else f'int(): value {u} is not an integer, got {got}'
    if why: run.viol(f'int:{oa[0]}', why, op='int', a=repr(oa), impl=got)
    run.rep.count('op:int'); run.rep.count('int:' + got.split()[0]); run.queue(drv_line('int', oa), got)
    # float(): exactly the value or ValueError
    got = real_line('float', a)
    if is_nan(u): want = 'ok nan'
    elif is_inf(u): want = f'ok inf {b01(u == "-inf")}'
    else:
        try:
            f = u.numerator / u.denominator      # CPython: correctly rounded true division of ints
            want = 'err ValueError' if (math.isinf(f) or Fraction(f) != u) else None
        except OverflowError:
            want, f = 'err ValueError', None
        if want is None:
            if u == 0: f = -0.0 if su else 0.0
            want = f'ok {canon_fv(dec_float(f))}'
    if got != want: run.viol(f'float:{oa[0]}', f'float(): expected {want}, got {got}', op='float', a=repr(oa), impl=got)
    run.rep.count('op:float'); run.rep.count('float:' + got.split()[0]); run.queue(drv_line('float', oa), got)
    # as_rational()
    got = real_line('rat', a)
    want = f'ok rat {u.numerator}/{u.denominator}' if fin else 'err ValueError'
    if got != want: run.viol(f'rat:{oa[0]}', f'as_rational(): expected {want}, got {got}', op='rat', a=repr(oa), impl=got)
    run.rep.count('op:rat'); run.queue(drv_line('rat', oa), got)
    # hash class key (correspondence only: hash(x) == hash(model key))
    run.rep.count('op:hashkey'); run.queue(drv_line('hashkey', oa), real_line('hashkey', a))
    # positions of interest
    if fin and u != 0:
        e = floor_log2_abs(u); lo = oa[1][2] if oa[0] == 'F' else oa[1][1]
        ns = sorted({lo - 2, lo - 1, lo, lo + 1, e - 1, e, e + 1, R.randint(lo - 3, e + 3), R.randint(lo - 3, e + 3), -1, 0})
    else:
        ns = [-3, -1, 0, 2, R.randint(-50, 50)]
    for n in ns:
        # split
        got = real_line('split', a, k=n)
        why = None
        if got.startswith('err'): why = f'split raised: {got}'
        else:
            hs, ls = got[3:].split(' | ')
            (hv, hsg), (lv, lsg) = canon_value(hs.split(' raw=')[0]), canon_value(ls.split(' raw=')[0])
            if not fin:
                if hv != u or lv != u: why = f'split of {u} must give ({u}, {u}), got {got}'
            else:
                g = p2(n + 1)
                whi = (abs(u) / g).__floor__() * g * (-1 if u < 0 else 1)
                if hv != whi or lv != u - whi: why = f'split({n}): expected ({whi}, {u - whi}), got ({hv}, {lv})'
                elif hv + lv != u: why = 'split parts do not sum to the value'
                elif (hv == 0 and hsg != su) or (lv == 0 and lsg != su): why = 'a zero part of split lost the sign of the value'
                else:
                    hraw = hs.split(' raw=')[1].split(':'); lraw = ls.split(' raw=')[1].split(':')
                    # digit ranges: hi has no digit at or below n; lo has no digit above n
                    if int(hraw[1]) < n + 1: why = f'hi part has exponent {hraw[1]} <= n={n}'
                    if int(lraw[2]) != 0 and int(lraw[1]) + int(lraw[2]).bit_length() - 1 > n: why = f'lo part has a digit above n={n}'
        if why: run.viol(f'split:{oa[0]}', why, op='split', a=repr(oa), n=n, impl=got)
        run.rep.count('op:split'); run.queue(drv_line('split', oa, k=n), got)
        # is_more_significant
        got = real_line('moresig', a, k=n)
        want = 'err ValueError' if not fin else 'ok ' + b01((u / p2(n + 1)).denominator == 1)
        if got != want: run.viol(f'moresig:{oa[0]}', f'is_more_significant({n}): expected {want}, got {got}', op='moresig', a=repr(oa), n=n, impl=got)
        run.rep.count('op:moresig'); run.queue(drv_line('moresig', oa, k=n), got)
        # bit
        if oa[0] == 'R':
            got = real_line('bit', a, k=n)
            want = 'ok ' + b01((abs(u) / p2(n)).__floor__() % 2 == 1)
            if got != want: run.viol('bit:R', f'bit({n}): expected {want}, got {got}', op='bit', a=repr(oa), n=n, impl=got)
            run.rep.count('op:bit'); run.queue(drv_line('bit', oa, k=n), got)
    # normalize
    prec = (abs(u.numerator) // (abs(u.numerator) & -abs(u.numerator))).bit_length() if (fin and u != 0) else 0   # bits of the odd part
    cands = [(None, None), (None, ns[0]), (None, ns[-1]), (prec, None), (prec + R.randint(1, 9), None), (max(prec - 1, 0), None), (0, None), (-1, None), (-2, 3)]
    for _ in range(5): cands.append((R.choice([None, prec, prec + R.randint(0, 5), R.randint(0, 8)]), R.choice([None] + ns)))
    for (p, n) in cands:
        got = real_line('normalize', a, k=p, k2=n)
        why = None
        if p is not None and p < 0: want_err = True
        elif p is None and n is None: want_err = (oa[0] == 'F')   # a Float without a context has no canonical form; RealFloat: copy
        else: want_err = None
        if want_err is True:
            if got != 'err ValueError': why = f'normalize({p},{n}) must be refused, got {got}'
        elif not fin:
            if got.startswith('err') or canon_value(got[3:].split(' raw=')[0])[0] != u: why = f'normalize of {u}: got {got}'
        elif u == 0 or (p is None and n is None):
            if got.startswith('err') or canon_value(got[3:].split(' raw=')[0])[0] != u: why = f'normalize({p},{n}) of {u}: got {got}'
        else:
            e = floor_log2_abs(u)
            t = n + 1 if p is None else (e - p + 1 if n is None else max(e - p + 1, n + 1))
            lossless = (u / p2(t)).denominator == 1
            if not lossless:
                if got != 'err ValueError': why = f'normalize({p},{n}) would lose digits (target exponent {t}) but returned {got}'
            elif got.startswith('err'): why = f'normalize({p},{n}) is possible (target exponent {t}) but raised {got}'
            else:
                v, _ = canon_value(got[3:].split(' raw=')[0]); raw = got.split(' raw=')[1].split(':')
                if v != u: why = f'normalize({p},{n}) changed the value to {v}'
                elif int(raw[1]) != t: why = f'normalize({p},{n}) has exponent {raw[1]}, expected {t}'
                elif b01(su) != raw[0]: why = 'normalize changed the sign bit'
        if why: run.viol(f'normalize:{oa[0]}', why, op='normalize', a=repr(oa), p=p, n=n, impl=got)
        run.rep.count('op:normalize'); run.rep.count('normalize:' + got.split()[0]); run.queue(drv_line('normalize', oa, k=p, k2=n), got)

# ---------------------------------------------------------------------------
# exhaustive small encodings, integer-only Spec (fast path)

SMALL = [(s, e, c) for s in (False, True) for e in range(-4, 5) for c in range(32)]

def small_pool(t):
    """[(operand descriptor, python object, V = value * 16 as int, sign bit)] for type t over the SMALL encodings"""
    out = []; seen = set()
    for (s, e, c) in SMALL:
        V = (-c if s else c) << (e + 4)
        if t == 'R': out.append((('R', (s, e, c)), RealFloat(s=s, exp=e, c=c), V, s))
        elif t == 'F': out.append((('F', ('fin', s, e, c)), Float(s=s, exp=e, c=c), V, s))
        else:
            key = (V, s and V == 0)
            if t == 'D':
                if key in seen: continue
                seen.add(key); f = (-0.0 if s else 0.0) if V == 0 else V / 16.0
                out.append((('D', f), f, V, s if V == 0 else V < 0))
            elif t == 'I':
                if V % 16 or V in seen: continue
                seen.add(V); out.append((('I', V // 16), V // 16, V, V < 0))
            elif t == 'Q':
                if V in seen: continue
                seen.add(V); out.append((('Q', Fraction(V, 16)), Fraction(V, 16), V, V < 0))
    return out

def sval(r, shift):
    """value of a finite Float/RealFloat result times 2^shift as an int, or None when not integral"""
    m = -r.c if r.s else r.c
    k = r.exp + shift
    if k >= 0: return m << k
    if m & ((1 << -k) - 1): return None
    return m >> -k

def exhaustive(run: Run, ta, tb, R, corr_rate):
    A, B = small_pool(ta), small_pool(tb)
    rep = run.rep
    want_cls = Float if 'F' in (ta, tb) else RealFloat
    neg_keeps_zero_sign = tb in ('F', 'R', 'D')
    n = 0
    for (oa, a, Va, sa) in A:
        for (ob, b, Vb, sb) in B:
            n += 1
            bad = None
            try:
                r = a + b
                if type(r) is not want_cls or getattr(r, 'isnan', False) or getattr(r, 'isinf', False): bad = ('add', f'result {r!r}')
                elif sval(r, 4) != Va + Vb: bad = ('add', f'{r!r} is not the exact sum')
                elif Va + Vb == 0 and r.s != ((sa and sb) if (Va == 0 and Vb == 0) else False): bad = ('add', f'zero sum has sign {r.s}')
                if bad is None:
                    r = a - b
                    snb = (not sb) if neg_keeps_zero_sign else (-Vb < 0)
                    if type(r) is not want_cls: bad = ('sub', f'result {r!r}')
                    elif sval(r, 4) != Va - Vb: bad = ('sub', f'{r!r} is not the exact difference')
                    elif Va - Vb == 0 and r.s != ((sa and snb) if (Va == 0 and Vb == 0) else False): bad = ('sub', f'zero difference has sign {r.s}')
                if bad is None:
                    r = a * b
                    if type(r) is not want_cls: bad = ('mul', f'result {r!r}')
                    elif sval(r, 8) != Va * Vb: bad = ('mul', f'{r!r} is not the exact product')
                    elif Va * Vb == 0 and r.s != (sa != sb): bad = ('mul', f'zero product has sign {r.s}, operands {sa},{sb}')
                if bad is None:
                    c = (Va > Vb) - (Va < Vb)
                    if (a == b) != (c == 0) or (a != b) != (c != 0) or (a < b) != (c < 0) or (a <= b) != (c <= 0) or (a > b) != (c > 0) or (a >= b) != (c >= 0):
                        bad = ('rel', f'operators disagree with the values (cmp={c}): == {a == b} < {a < b} <= {a <= b} > {a > b} >= {a >= b}')
                    elif ta in FPY and not (ta == 'R' and tb == 'F') and int(a.compare(b)) != c: bad = ('cmp', f'compare gives {a.compare(b)!r}, values compare {c}')
                    elif c == 0 and hash(a) != hash(b): bad = ('hash', f'equal values hash {hash(a)} and {hash(b)}')
            except Exception as e:   # noqa
                bad = ('raise', f'{type(e).__name__}: {e}')
            if bad:
                run.viol(f'{bad[0]}:{ta}{tb}', f'{bad[0]}: {bad[1]}', op=bad[0], a=repr(oa), b=repr(ob), impl=bad[1])
            if corr_rate and R.random() < corr_rate:
                for op in ('add', 'sub', 'mul'): run.queue(drv_line(op, oa, ob), real_line(op, a, b))
                for op in REL: run.queue(drv_line(op, oa, ob), real_line(op, a, b))
                if ta in FPY and not (ta == 'R' and tb == 'F'): run.queue(drv_line('cmp', oa, ob), real_line('cmp', a, b))
    rep.count(f'exhaustive-pairs:{ta}{tb}', n)
    return n

# ---------------------------------------------------------------------------
# generators

def rand_wide_rf(R):
    nb = R.choice([1, 2, 8, 53, 64, R.randint(1, 300), R.randint(1, 300)])
    c = R.getrandbits(nb) | (1 << (nb - 1)) if R.random() < 0.9 else 0
    e = R.choice([0, R.randint(-8, 8), R.randint(-5000, 5000), R.randint(-1100, 1100)])
    return (R.random() < 0.5, e, c)

def as_type(R, t, x):
    """an operand of type t near / at the (s,exp,c) value x; for native types only when it denotes exactly x, else a fresh one"""
    s, e, c = x
    q = Fraction(-c if s else c) * p2(e)
    if t == 'R': return ('R', x)
    if t == 'F': return ('F', ('fin',) + tuple(x))
    if t == 'I':
        return ('I', int(q)) if q.denominator == 1 else ('I', R.randint(-2 ** R.randint(1, 80), 2 ** R.randint(1, 80)))
    if t == 'D':
        try:
            f = q.numerator / q.denominator
            if not math.isinf(f) and Fraction(f) == q: return ('D', (-0.0 if s else 0.0) if q == 0 else f)
        except OverflowError: pass
        return ('D', struct.unpack('<d', struct.pack('<Q', R.getrandbits(64) & ~(0x7ff << 52) | (R.randint(0, 2046) << 52)))[0])
    if t == 'Q':
        if abs(e) <= 1200 and R.random() < 0.7: return ('Q', q)
        return ('Q', Fraction(R.randint(-10 ** 6, 10 ** 6), R.choice([1, 2, 3, 7, 8, 10, 48, 1024, 3 ** 20])))

SPECIAL_POOL = [
    ('F', ('nan', False)), ('F', ('nan', True)), ('F', ('inf', False)), ('F', ('inf', True)),
    ('F', ('fin', False, 0, 0)), ('F', ('fin', True, 0, 0)), ('F', ('fin', True, -700, 0)), ('F', ('fin', False, 4000, 0)),
    ('F', ('fin', False, 0, 1)), ('F', ('fin', True, 0, 3)), ('F', ('fin', False, -1, 1)), ('F', ('fin', True, 2, 1)), ('F', ('fin', False, 0, 4)),
    ('R', (False, 0, 0)), ('R', (True, 0, 0)), ('R', (True, 3, 0)), ('R', (False, -9, 0)),
    ('R', (False, 0, 1)), ('R', (True, 0, 3)), ('R', (False, 2, 1)), ('R', (False, 0, 4)), ('R', (True, -1, 1)), ('R', (False, -2, 16)),
    ('D', float('nan')), ('D', float('inf')), ('D', float('-inf')), ('D', -0.0), ('D', 0.0), ('D', 4.0), ('D', -3.0), ('D', 0.5), ('D', 5e-324), ('D', 1.7976931348623157e308),
    ('I', 0), ('I', 4), ('I', -3), ('I', 1), ('I', 2 ** 70),
    ('Q', Fraction(0)), ('Q', Fraction(4)), ('Q', Fraction(-3)), ('Q', Fraction(1, 2)), ('Q', Fraction(1, 3)), ('Q', Fraction(-2, 7)), ('Q', Fraction(10 ** 30 + 1, 3 ** 40)),
]

FLOAT_EDGE = [   # values at the edges of binary64 for float()
    (False, -1074, 1), (True, -1074, 1), (False, -1075, 1), (False, -1075, 2), (False, -1075, 3), (False, -1080, 64), (False, -1080, 65),
    (False, 971, 2 ** 53 - 1), (True, 971, 2 ** 53 - 1), (False, 971, 2 ** 53), (False, 1023, 1), (False, 1024, 1), (True, 1024, 1), (False, 970, 2 ** 54 - 1),
    (False, 0, 2 ** 53), (False, 0, 2 ** 53 + 1), (False, 0, 2 ** 53 + 2), (True, 0, 2 ** 54 + 2), (False, -1022, 1), (False, -1074, 2 ** 52 - 1), (False, -1074, 2 ** 53 + 1),
    (False, -1076, 2 ** 54), (False, -60, 2 ** 53 - 1), (False, -60, 2 ** 60 + 1), (False, 5000, 0), (True, -5000, 0),
]

def run(rep, tier, seed):
    R = Prng(seed, 'C05')
    quick = tier == 'quick'
    run_ = Run(rep); run_.R = R
    # ---- 1. specials x specials, every operator, all 5x5 type mixes with at least one fpy operand
    for oa in SPECIAL_POOL:
        for ob in SPECIAL_POOL:
            if oa[0] not in FPY and ob[0] not in FPY: continue
            for op in BIN: do_binop(run_, op, oa, ob)
            do_rel(run_, oa, ob)
    for oa in SPECIAL_POOL:
        if oa[0] in FPY: do_unary(run_, oa)
    run_.flush()
    rep.cov['special_pool_pairs'] = run_.n
    # ---- 2. exhaustive small encodings
    combos = [('R', 'R')] if quick else list(COMBOS)
    if quick:
        rest = [c for c in COMBOS if c not in combos]; R.shuffle(rest); combos += rest[:2]
    total = 0
    for (ta, tb) in combos:
        total += exhaustive(run_, ta, tb, R, (0.004 if quick else 0.02))
        run_.flush()
    rep.cov['exhaustive_pairs'] = total
    rep.cov['exhaustive_type_combinations'] = [a + b for a, b in combos]
    # unary / conversions / split / normalize on every small encoding (both fpy types)
    for (s, e, c) in (SMALL if not quick else R.sample(SMALL, 150)):
        for t in FPY: do_unary(run_, as_type(R, t, (s, e, c)))
    run_.flush()
    # ---- 3. same value in every type / redundant encoding: ==, ordering, hash across types
    nval = 250 if quick else 2500
    for i in range(nval):
        if i % 3 == 0:
            x = Fraction(R.randint(-40, 40), 1 << R.randint(0, 5))
        elif i % 3 == 1:
            x = Fraction(R.getrandbits(R.randint(1, 64)) * R.choice([1, -1]), 1 << R.randint(0, 70)) * p2(R.choice([0, 0, R.randint(-30, 200)]))
        else:
            s_, e_, c_ = rand_wide_rf(R); x = Fraction(-c_ if s_ else c_) * p2(max(min(e_, 1500), -1500))
        encs = encodings(R, x, R.random() < 0.5)
        y = x + R.choice([0, 0, 1, Fraction(1, 2), -p2(R.randint(-20, 5)), Fraction(1, 3)])
        encs2 = encodings(R, y, False)
        for oa in encs:
            for ob in encs + [R.choice(encs2)]:
                if oa[0] not in FPY and ob[0] not in FPY: continue
                do_rel(run_, oa, ob, corr=(R.random() < 0.3))
    run_.flush()
    # ---- 4. wide random encodings, all type mixes
    npair = 1500 if quick else 20000
    for _ in range(npair):
        ta, tb = R.choice(COMBOS)
        x, y = rand_wide_rf(R), rand_wide_rf(R)
        if R.random() < 0.2: y = (R.random() < 0.5, x[1] + R.randint(-3, 3), x[2] + R.randint(-1, 1) if x[2] else 0)   # near-equal
        if R.random() < 0.1: y = (not x[0], x[1] - 2, x[2] << 2)       # exact cancellation through a redundant encoding
        oa, ob = as_type(R, ta, x), as_type(R, tb, y)
        for op in BIN: do_binop(run_, op, oa, ob)
        do_rel(run_, oa, ob)
    for _ in range(200 if quick else 3000):
        t = R.choice(FPY)
        do_unary(run_, as_type(R, t, rand_wide_rf(R)))
    for x in FLOAT_EDGE:
        for t in FPY: do_unary(run_, as_type(R, t, x))
    # random doubles and their neighbours for float()
    for _ in range(150 if quick else 2000):
        bits = R.getrandbits(64) & ~(0x7ff << 52) | (R.choice([0, 1, 2046, R.randint(0, 2046), R.randint(1000, 1100)]) << 52)
        v = dec_float(struct.unpack('<d', struct.pack('<Q', bits))[0])
        sh = R.randint(0, 4)
        x = (v[1], v[2] - sh, (v[3] << sh) + R.choice([0, 0, 1]))
        do_unary(run_, as_type(R, R.choice(FPY), x))
    # is_identical_to
    for _ in range(100):
        x = rand_rf(R); y = R.choice([x, (x[0], x[1] - 1, x[2] * 2), (not x[0], x[1], x[2]), rand_rf(R)])
        got = real_line('ident', rf_obj(x), rf_obj(y))
        if got != 'ok ' + b01(x == y): run_.viol('ident', f'is_identical_to: {got}', op='ident', a=repr(x), b=repr(y), impl=got)
        run_.queue(drv_line('ident', ('R', x), ('R', y)), got)
    run_.flush()
    rep.cov['evaluations'] = run_.n + total
    rep.cov['model_lines'] = run_.n
    rep.cov['rule'] = ('(1) every ordered pair of a fixed pool of specials (NaN, +-inf, +-0 with arbitrary exponents, Python float nan/inf/-0.0/min subnormal/max, '
                       'non-dyadic Fractions, small values in redundant encodings) under + - * == != < <= > >= compare hash, every mix of the five types with at least one fpy type; '
                       '(2) EXHAUSTIVE ordered pairs of all (s, exp in [-4,4], c<=31) encodings for the listed type combinations (quick: RR + 2 sampled; thorough: all 16) judged by an '
                       'integer-only oracle, a random fraction of them also against the Lean model; (3) the same value in every type and redundant encoding (==, ordering, hash across types); '
                       '(4) wide random encodings (c up to 2^300, exp to +-5000) in all type mixes, unary ops, pow, int/float/as_rational, split/normalize/is_more_significant/bit at digit '
                       'boundaries, binary64 edge values for float(); distinct = distinct model lines')
    rep.assumptions += ['Spec oracle (harness/c05.py) is exact Fraction / int arithmetic with IEEE 754 rules for infinities, NaN and signed zeros',
                        'CPython hash() respects int/float/Fraction equality (trusted); the model yields the class key that is hashed',
                        'a ValueError from arithmetic with a non-dyadic Fraction operand is accepted (no exact Float exists for the converted operand)',
                        'bool operands are excluded; two native operands are not this library']

def replay(rep, data):
    """re-run recorded violations on the real code"""
    import ast
    n = 0
    for v in data.get('violations', []):
        op = v.get('op')
        try:
            oa = ast.literal_eval(v['a'].replace('Fraction', '')) if False else eval(v['a'], {'Fraction': Fraction, 'nan': float('nan'), 'inf': float('inf')})
            ob = eval(v['b'], {'Fraction': Fraction, 'nan': float('nan'), 'inf': float('inf')}) if 'b' in v else None
        except Exception as e:   # noqa
            print('cannot parse', v, e); continue
        if op in BIN:
            print(op, oa, ob, '->', real_line(op, operand_obj(oa), operand_obj(ob)), 'spec', spec_binop(op, oa, ob)); n += 1
        elif op in REL or op in ('cmp', 'hash', 'ne', 'rel'):
            a, b = operand_obj(oa), operand_obj(ob)
            print(op, oa, ob, '->', {k: real_line(k, a, b) for k in REL}, 'values compare', vcmp(operand_value(oa), operand_value(ob))); n += 1
        else:
            try:
                a = operand_obj(oa)
                now = real_line(op, a, k=v.get('k', v.get('p', v.get('n'))), k2=(v.get('n') if op == 'normalize' else None)) if op != 'ident' else v.get('impl')
            except Exception as e:   # noqa
                now = f'(cannot re-run: {e})'
            print(op, oa, {k: v[k] for k in ('k', 'p', 'n') if k in v}, '-> now', now, '| recorded', v.get('impl'), '|', v.get('what')); n += 1
    print(f'replayed {n} cases')
    return 0
