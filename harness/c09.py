"""C09 — inlining, specialisation and hoisting preserve results."""
from __future__ import annotations
import itertools
from xform import *   # noqa
from xform import snapshot
import xgen

PROP = 'C09'

MONO = ['fp.FP64', 'fp.FP32', 'fp.IEEEContext(5, 16, fp.RM.RTZ)', 'fp.MPFloatContext(4, fp.RM.RNA)', 'fp.FP8P4', 'fp.BF16', 'fp.MPFixedContext(-3, fp.RM.RTP)',
        'fp.IEEEContext(8, 32, fp.RM.RAZ)', 'fp.MPFloatContext(2, fp.RM.RTO)', 'fp.REAL']
CORE = ['inline()', 'inline(recursive=False)', 'close()', 'lift_context()']

def all_recipes(prog, R):
    ext = []
    for rec in (True, False):
        for w in (0, 1, 2, 3, 4, ('site', 0), ('site', 1), ('site', 2), ('stmt', 1), ('stmt', 2), ('stmt', 4), ('body',), ('tail',)):
            ext.append(f'inline(where={w!r}, recursive={rec})')
        for fs in ('first', 'last', 'all'):
            ext += [f'inline(funcs={fs!r}, recursive={rec})', f'inline(where=0, funcs={fs!r}, recursive={rec})']
        ext += [f'FuncInline(recursive={rec})', f'FuncInline(recursive={rec}, shared=True)', f'FuncInline(where=0, recursive={rec})',
                f"FuncInline(funcs='first', recursive={rec}, shared=True)", f'inline_each(recursive={rec})']
    ext += ["single('FreeVarElim')", "single('LiftContext')", 'LiftContext(shared=True)', 'repeat(lift_context(), 2)', 'repeat(close(), 2)', 'repeat(inline(recursive=False), 2)',
            'repeat(inline(recursive=False), 3)', 'seq(inline(0), inline(0))', 'seq(inline(1), inline(0))', "fwd(inline(0), 'inline', ('site', 1))",
            "fwd(inline(0, recursive=False), 'inline', ('site', 2), recursive=False)", "fwd(inline(1), 'inline', ('site', 0))", "fwd(lift_context(), 'inline', ('site', 0))",
            "fwd(close(), 'inline', ('site', 1))"]
    basics = ['inline()', 'lift_context()', 'close()', 'simplify()', 'inline(recursive=False)']
    for a, b in itertools.permutations(basics, 2): ext.append(f'seq({a}, {b})')
    ext += ['seq(inline(), lift_context(), simplify())', 'seq(close(), inline(), lift_context())', 'seq(lift_context(), close(), inline(), simplify())',
            "seq(inline(), single('ConstFold'))", "seq(inline(), single('DeadCodeEliminate'))",
            "seq(inline(), single('CopyPropagate'))"]
    ext += ['twice(inline())', 'twice(inline(recursive=False))', 'twice(inline(0))', 'twice(close())', 'twice(lift_context())', 'seq(twice(inline(recursive=False)), inline())']
    if prog.get('pinned') and prog.get('decl'):
        # contexts that agree with the function's own pin in some attributes and differ in others: the pin must keep winning
        for v in pin_variants(prog['decl']):
            ext += [f'mono({v!r})', f'module_spec({v!r})', f'Monomorphize({v!r})', f'seq(mono({v!r}), simplify())', f'twice(mono({v!r}))']
    if not prog.get('pinned'):
        for c in MONO:
            ext += [f'mono({c!r})']
        for c in R.sample(MONO, 3):
            ext += [f'module_spec({c!r})', f'twice(mono({c!r}))']
        for c in R.sample(MONO, 4):
            ext += [f"mono({c!r}, args='infer')", f"mono({c!r}, args='none')", f'Monomorphize({c!r})', f'seq(mono({c!r}), simplify())', f'seq(mono({c!r}), inline())',
                    f'seq(inline(), mono({c!r}))', f'seq(mono({c!r}), lift_context())']
    return CORE, ext

def pin_variants(decl: str):
    try:
        ctx = eval(decl, {'fp': fp})
    except Exception:
        return []
    out = [decl]
    rm = getattr(ctx, 'rm', None)
    others = [r for r in ('RTZ', 'RAZ', 'RTP', 'RNA', 'RNE') if rm is None or fp.RM[r] != rm][:3]
    out += [f'({decl}).with_params(rm=fp.RM.{r})' for r in others]
    if hasattr(ctx, 'overflow'): out.append(f'({decl}).with_params(overflow=fp.OV.SATURATE)')
    if hasattr(ctx, 'emin') and hasattr(ctx, 'pmax') and not hasattr(ctx, 'es'): out.append(f'({decl}).with_params(emin={ctx.emin - 7})')
    if hasattr(ctx, 'pmax') and not hasattr(ctx, 'es'): out.append(f'({decl}).with_params(pmax={ctx.pmax + 3})')
    ok = []
    for v in out:
        try: eval(v, {'fp': fp}); ok.append(v)
        except Exception: pass
    return ok + ['fp.FP16']

PRE = ['simplify()', 'unroll_for(times=1)', "single('ConstFold')", 'elim_iter()', 'unroll_while(times=1)']

def pinned_recipes(prog, R):
    ax = prog.get('axes') or {}
    ids = set(ax.get('idioms') or []); callees = set(ax.get('callees') or [])
    out = ['inline()']
    if callees & {'const', 'zero-param', 'only-return', 'leaf'}:
        out += [R.choice(['twice(inline(recursive=False))', 'twice(inline())']), R.choice(['seq(inline(0), inline(0))', 'inline_each(recursive=False)', 'inline(recursive=False)'])]
    if callees & {'chain'}: out += ['inline(recursive=False)', 'repeat(inline(recursive=False), 2)']
    if prog.get('pinned') and prog.get('decl'):
        vs = pin_variants(prog['decl'])
        if len(vs) > 2:
            a, b = R.sample(vs[1:-1], 2) if len(vs) > 3 else (vs[1], vs[1])
            out += [f'mono({a!r})', R.choice([f'module_spec({b!r})', f'Monomorphize({b!r})', f'twice(mono({b!r}))'])]
    elif not prog.get('pinned'):
        out += [f'mono({R.choice(MONO)!r})', R.choice([f'module_spec({R.choice(MONO)!r})', f"mono({R.choice(MONO)!r}, args='infer')"])]
    if 'lift' in ids or ax.get('ctx') in ('static-ctor', 'nested-static', 'as-target'): out += ['lift_context()']
    if 'free-var' in ids or 'free-var' in callees: out += ['close()', R.choice(['seq(close(), inline())', 'seq(inline(), close())'])]
    if ax.get('callpos') in ('while-cond', 'comp-elt', 'ifexpr', 'and-or', 'chain-cmp', 'after-read', 'arg-effect', 'index'):
        out += [R.choice(["inline(where=('site', 0))", 'inline(where=0)', 'FuncInline(shared=True)'])]
    seen, res = set(), []
    for r in out:
        if r not in seen: seen.add(r); res.append(r)
    return res

def recipes_for_factory(tier):
    def recipes_for(prog, R):
        core, ext = all_recipes(prog, R)
        pins = pinned_recipes(prog, R)
        if tier == 'quick':
            rs = pins[:7] + R.sample(core, 2) + R.sample(ext, 3)
        else:
            rs = pins + core + ext
        seen, res = set(), []
        for r in rs:
            if r not in seen: seen.add(r); res.append(r)
        return res
    return recipes_for

def _has_negative_zero(v) -> bool:
    import math
    if isinstance(v, float): return v == 0 and math.copysign(1.0, v) < 0
    if isinstance(v, (tuple, list)): return any(_has_negative_zero(x) for x in v)
    return False

def _ctor_shapes(fn):
    """(has a context constructor with arithmetic in its arguments, has one whose arguments read a variable)"""
    arith = var = False
    from fpy2.transform.path import sub_exprs
    def walk(e):
        yield e
        for _, _, x in sub_exprs(e): yield from walk(x)
    for _, e in T.walk_exprs(fn.ast):
        if isinstance(e, A.Call) and isinstance(e.fn, type) and issubclass(e.fn, fp.Context):
            for a in list(e.args) + [v for _, v in e.kwargs]:
                for x in walk(a):
                    if isinstance(x, (A.Add, A.Sub, A.Mul, A.Div, A.Neg, A.Len)): arith = True
                    if isinstance(x, A.Var) and str(x.name) not in ('fp',) and not isinstance(getattr(fn.ast.env, 'get', lambda k: None)(str(x.name)), type(fp)): var = True
    return arith, var

def classify(d, fn, xf):
    # F55/F56 (lift_context), F57/F58 (inline: free-variable capture, with-as target) and F59 (close, -0.0) were found with this
    # harness and repaired in /repo: nothing is tagged any more, a recurrence is a violation
    return None

def build_programs(seed, tier):
    R = Prng(seed, 'C09:progs')
    n_main, n_other = (230, 40) if tier == 'quick' else (800, 200)
    sc = float(os.environ.get('VERIF_XGEN_SCALE', '1'))   # debugging aid: shrink the run
    n_main, n_other = int(n_main * sc), int(n_other * sc)
    progs = corpus_progs('c09_corpus.py', R, ctxs=(None, 'fp.IEEEContext(5, 16, fp.RM.RTZ)'))
    stats = {}
    for prop, n, frac in (('C09', n_main, 0.15), ('C07', n_other // 2, 0.0), ('C08', n_other - n_other // 2, 0.0)):
        ps, st = xgen.programs(prop, seed, n)
        for k, v in st.items(): stats[f'{prop}:{k}'] = v
        for p in ps:
            d = p.to_dict()
            d['args'] = p.args + xgen.random_args(R, p.kinds, 3)
            if R.random() < frac:
                d['pre'] = R.choice(PRE); d['loops'] = None
            progs.append(d)
    return progs, stats

def run(rep, tier, seed):
    progs, stats = build_programs(seed, tier)
    opts = {'inputs_cap': 5 if tier == 'quick' else None, 'ctx_every': 3 if tier == 'quick' else 2, 'max_traces': 3 if tier == 'quick' else 10,
            'deadline_s': 900 if tier == 'quick' else 3600, 'prog_budget': 60 if tier == 'quick' else 240}
    run_xforms(rep, tier, seed, PROP, progs, recipes_for_factory(tier), classify=classify, opts=opts)
    summarize_cov(rep, stats)
    rep.cov['rule'] = ('hand-written corpus + feature-axis synthesised caller/callee programs (xgen: callee leaf / own context / list-mutating / return inside with / several returns / '
                       'chain / clashing local and gensym-like names / free variables / loop body / tuple result, called from assignments, loops, nested with, argument expressions with '
                       'side effects, if and while conditions, comprehension elements, if-expressions, later and/or and comparison-chain operands, effect statements; module-level data for '
                       'close; context constructors in loops for lift_context) + the loop and simplify programs; inline all / by index / by expression, statement and region cursor / funcs '
                       'filter / one level / one site at a time, FuncInline, close, lift_context, compositions in both orders, cursors forwarded across a pass; monomorphize (10 contexts, '
                       'with and without argument types) judged as f(args, ctx=C) versus pinned(args); distinct = distinct (program, strategy, input, ctx) evaluations')

def replay(rep, data):
    from xform import replay as rp
    return rp(rep, data, PROP, classify)
