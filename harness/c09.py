"""C09 — inlining, specialisation and hoisting preserve results."""
from __future__ import annotations
from xform import *   # noqa
from fpy2 import strategies as S

PROP = 'C09'

MONO = ['fp.FP64', 'fp.FP32', 'fp.IEEEContext(5, 16, fp.RM.RTZ)', 'fp.MPFloatContext(4, fp.RM.RNA)']

def recipes():
    rs = [('inline[all]', lambda fn, R: S.inline(fn)),
          ('inline[all,one-level]', lambda fn, R: S.inline(fn, recursive=False)),
          ('close', lambda fn, R: S.close(fn)),
          ('lift_context', lambda fn, R: S.lift_context(fn)),
          ('inline;lift_context', lambda fn, R: S.lift_context(S.inline(fn))),
          ('inline;simplify', lambda fn, R: S.simplify(S.inline(fn))),
          ('lift_context;inline', lambda fn, R: S.inline(S.lift_context(fn)))]
    for j in (0, 1, 2, 3):
        rs.append((f'inline[{j}]', lambda fn, R, j=j: S.inline(fn, j)))
        rs.append((f'inline[{j},one-level]', lambda fn, R, j=j: S.inline(fn, j, recursive=False)))
    return rs

def _calls_in(e):
    """FPy-function calls occurring anywhere inside expression e"""
    from fpy2.ast import fpyast as A
    from fpy2.function import Function
    out = []
    def walk(x):
        if isinstance(x, A.Call) and isinstance(x.fn, Function): out.append(x)
        for attr in getattr(type(x), '__slots__', ()):
            v = getattr(x, attr, None)
            if isinstance(v, A.Expr): walk(v)
            elif isinstance(v, (list, tuple)):
                for y in v:
                    if isinstance(y, A.Expr): walk(y)
                    elif isinstance(y, tuple):
                        for z in y:
                            if isinstance(z, A.Expr): walk(z)
    walk(e)
    return out

def has_hoisted_conditional_call(fn) -> bool:
    """does the function (or a callee) call an FPy function from a position that is evaluated conditionally or
    repeatedly: a comprehension element / later generator, an if-expression branch, a non-first `and`/`or`
    operand, a non-first-two operand of a comparison chain?  (the inliner splices the callee body BEFORE the
    statement, i.e. unconditionally and once)"""
    from fpy2.ast import fpyast as A
    from fpy2.function import Function
    seen = set()
    def in_func(f) -> bool:
        if id(f.ast) in seen: return False
        seen.add(id(f.ast))
        found = False
        def walk_e(x):
            nonlocal found
            if isinstance(x, A.ListComp):
                if _calls_in(x.elt) or any(_calls_in(it) for it in x.iterables[1:]): found = True
            if isinstance(x, A.IfExpr):
                if _calls_in(x.ift) or _calls_in(x.iff): found = True
            if isinstance(x, (A.And, A.Or)):
                if any(_calls_in(a) for a in x.args[1:]): found = True
            if isinstance(x, A.Compare) and len(x.args) > 2:
                if any(_calls_in(a) for a in x.args[2:]): found = True
            if isinstance(x, A.Call) and isinstance(x.fn, Function):
                if in_func(x.fn): found = True
            for attr in getattr(type(x), '__slots__', ()):
                v = getattr(x, attr, None)
                if isinstance(v, A.Expr): walk_e(v)
                elif isinstance(v, (list, tuple)):
                    for y in v:
                        if isinstance(y, A.Expr): walk_e(y)
                        elif isinstance(y, tuple):
                            for z in y:
                                if isinstance(z, A.Expr): walk_e(z)
        def walk_s(b):
            for st in b.stmts:
                for attr in getattr(type(st), '__slots__', ()):
                    v = getattr(st, attr, None)
                    if isinstance(v, A.Expr): walk_e(v)
                    elif isinstance(v, A.StmtBlock): walk_s(v)
                    elif isinstance(v, (list, tuple)):
                        for y in v:
                            if isinstance(y, A.Expr): walk_e(y)
        walk_s(f.ast.body)
        return found
    return in_func(fn)

def classify(d):
    if 'inline' in d['strategy'] and d.get('_fn') is not None and has_hoisted_conditional_call(d['_fn']):
        return 'F34'
    return None

def run(rep, tier, seed):
    rs = recipes()
    run_xforms(rep, tier, seed, PROP, 'c09_corpus.py', rs, gen_programs=25 if tier == 'quick' else 300,
               n_inputs=5 if tier == 'quick' else 8, call_ctxs=(None, 'fp.IEEEContext(5, 16, fp.RM.RTZ)'), classify=classify)
    # monomorphize: f(*args, ctx=C) versus monomorphize(f, C)(*args)
    mono_check(rep, tier, seed)
    rep.cov['rule'] = ('corpus (callee with/without own context inside nested with, list-mutating callee, name clashes, calls in loops, argument order with side effects, hoistable contexts) '
                       '+ random caller/callee programs; inline all / by index / one level, close, lift_context, compositions; monomorphize compared as f(args, ctx=C) vs pinned(args); '
                       'distinct = distinct (program, strategy, input, ctx)')

def mono_check(rep, tier, seed):
    R = Prng(seed, 'C09m')
    corp = load_module(os.path.join(os.path.dirname(__file__), 'corpus', 'c09_corpus.py'), 'fpyverif_C09_corpus_m')
    for fn in corp.ALL:
        kinds = arg_kinds(fn)
        for cs in MONO:
            ctx = eval(cs, {'fp': fp})
            try:
                xf = with_timeout(lambda: S.monomorphize(fn, ctx), 20)
            except Exception as e:
                rep.count(f'declined:monomorphize:{type(e).__name__}'); continue
            rep.count('applied:monomorphize')
            for args in gen_inputs(R, kinds, 5):
                want = run_real(fn, args, ctx); got = run_real(xf, args, None)
                rep.cov['evaluations'] += 1
                rep.distinct.add((fn.ast.name, 'mono', cs, repr(args)))
                if want.startswith('ok') and got != want:
                    rep.violation(f'monomorphize({cs}): f(args, ctx=C) returns {want[:80]} but the pinned function gives {got[:80]}',
                                  {'program': fn.ast.name, 'strategy': f'monomorphize {cs}', 'args': repr(args), 'original_result': want,
                                   'transformed_result': got, 'transformed': describe(xf), 'finding': None})
