"""C02 — arithmetic rounds the exact result exactly once.

Three things per generated case `fp.ops.<op>(operands, ctx=ctx)`:
 1. the real code is run in-process;
 2. an independent Spec oracle (this file + numspec.spec_round) computes the exact result of the
    operation on the operands' real values by the IEEE 754 rules (exact rationals; roots through an
    enclosure finer than every breakpoint of the target), rounds it ONCE by the context and judges the
    real result (property verdict);
 3. the Lean model's `opf` line is compared with the real result (correspondence).
"""
from __future__ import annotations
import itertools, math
from numgen import *   # noqa
from numspec import spec_round, judge, fmt_of, floor_log2

PROP = 'C02'

ARITY = {'add': 2, 'sub': 2, 'mul': 2, 'div': 2, 'fma': 3, 'neg': 1, 'fabs': 1, 'sqrt': 1, 'cbrt': 1, 'hypot': 2,
         'mod': 2, 'fmod': 2, 'remainder': 2, 'pow': 2, 'copysign': 2, 'fdim': 2, 'fmin': 2, 'fmax': 2,
         'ceil': 1, 'floor': 1, 'trunc': 1, 'roundint': 1, 'nearbyint': 1,
         'round': 1, 'round_exact': 1, 'cast': 1, 'round_at': 2}
# operations the statement lists (Spec verdict); the rest is correspondence only
LISTED = {'add', 'sub', 'mul', 'div', 'fma', 'sqrt', 'cbrt', 'hypot', 'mod', 'fmod', 'remainder', 'pow',
          'ceil', 'floor', 'trunc', 'roundint', 'nearbyint', 'neg', 'fabs', 'copysign', 'fdim'}
# the exact engine does not offer these (REAL context or a non-dyadic operand): refusing is "not offered"
MPFR_ONLY = {'sqrt', 'cbrt', 'hypot', 'mod', 'fmod', 'remainder', 'fdim'}
GRID_BITS = 400      # enclosure of an irrational root: adjacent multiples of 2^-m, m >= GRID_BITS

# ---------------------------------------------------------------------------
# running the real code

def show(y) -> str:
    """canonical line of a result of fp.ops.* (same format as the driver's showNVF)"""
    if isinstance(y, bool): raise TypeError('bool result')
    if isinstance(y, int): y = Fraction(y)
    if isinstance(y, float): y = Float.from_float(y)
    if isinstance(y, Fraction):
        d = y.denominator
        if d & (d - 1) == 0:
            return f'ok {canon_rf(y < 0, -(d.bit_length() - 1), abs(y.numerator))} ix=0 ov=0 # frac'
        return f'ok frac {y.numerator}/{y.denominator} ix=0 ov=0 #'
    v = fv_of_obj(y)
    raw = f'{b01(y.s)}:{y.exp}:{y.c}' if v[0] == 'fin' else (f'i{b01(y.s)}' if v[0] == 'inf' else f'n{b01(y.s)}')
    return (f'ok {canon_fv(v)} ix={b01(y.inexact)} ov={b01(y.overflow)} # raw={raw} '
            f'inv={b01(y.invalid)} dz={b01(y.divzero)}')

def run_real(name, ctx, args) -> str:
    try:
        return show(getattr(fp.ops, name)(*[operand_obj(o) for o in args], ctx=ctx))
    except RuntimeError as e:
        if type(e) is RuntimeError: return 'err AssertionError'      # model's error kind for "not supported here"
        return 'err ' + err_name(e)
    except Exception as e:   # noqa
        return 'err ' + err_name(e)

def parse_got(line):
    """('err', name) | ('ok', value-string, inexact, overflow); value-string may be 'frac n/d'"""
    return parse_res(line)

def got_value(val: str):
    t = val.split()
    if t[0] == 'frac':
        n, d = t[1].split('/')
        q = Fraction(int(n), int(d)); return q, q < 0
    return canon_value(val)

# ---------------------------------------------------------------------------
# Spec: exact result of each operation on extended reals (IEEE 754-2019 §5, §6, §7, §9; C Annex F for
# fmod/fdim/hypot/cbrt; Python's float `%` for `mod`).  Values: ('nan',) | ('inf', s) | ('val', q, zs)
# with zs the sign of a zero result (None = left open) | ('root', k, s, q) = (-1)^s * q^(1/k), q > 0.

NAN = ('nan',)
def cls(v): return 'nan' if v == 'nan' else ('inf' if v in ('inf', '-inf') else ('zero' if v == 0 else 'fin'))
def sgn(v, s):
    """sign bit of an operand: value sign, or the stored sign for zero/NaN"""
    if v == 'inf': return False
    if v == '-inf': return True
    if v == 'nan' or v == 0: return s
    return v < 0

def ex_add(rm, a, sa, b, sb):
    ca, cb = cls(a), cls(b)
    if 'nan' in (ca, cb): return NAN
    if ca == 'inf' and cb == 'inf': return ('inf', sgn(a, sa)) if sgn(a, sa) == sgn(b, sb) else NAN
    if ca == 'inf': return ('inf', sgn(a, sa))
    if cb == 'inf': return ('inf', sgn(b, sb))
    r = a + b
    if r != 0: return ('val', r, None)
    if ca == 'zero' and cb == 'zero' and sa == sb: return ('val', r, sa)
    # exact cancellation (or zeros of opposite sign): +0 in every mode but round-toward-negative, where
    # IEEE says -0 and the property leaves it open
    return ('val', r, None if rm == 'rtn' else False)

def ex_mul(a, sa, b, sb):
    ca, cb = cls(a), cls(b)
    if 'nan' in (ca, cb): return NAN
    s = sgn(a, sa) != sgn(b, sb)
    if 'inf' in (ca, cb): return NAN if 'zero' in (ca, cb) else ('inf', s)
    return ('val', a * b, s)

def ex_div(a, sa, b, sb):
    ca, cb = cls(a), cls(b)
    if 'nan' in (ca, cb): return NAN
    s = sgn(a, sa) != sgn(b, sb)
    if ca == 'inf': return NAN if cb == 'inf' else ('inf', s)
    if cb == 'inf': return ('val', Fraction(0), s)
    if cb == 'zero': return NAN if ca == 'zero' else ('inf', s)
    return ('val', a / b, s)

def ex_fma(rm, a, sa, b, sb, c, sc):
    p = ex_mul(a, sa, b, sb)
    if p == NAN or cls(c) == 'nan': return NAN
    if p[0] == 'inf':
        if cls(c) == 'inf' and sgn(c, sc) != p[1]: return NAN
        return p
    return ex_add(rm, p[1], p[2], c, sc)

def ex_root(k, a, sa):
    c = cls(a)
    if c == 'nan': return NAN
    if c == 'zero': return ('val', Fraction(0), sa)
    if c == 'inf':
        s = sgn(a, sa)
        if k == 2 and s: return NAN
        return ('inf', s)
    if a < 0 and k == 2: return NAN
    return ('root', k, a < 0, abs(a))

def ex_hypot(a, sa, b, sb):
    ca, cb = cls(a), cls(b)
    if 'inf' in (ca, cb): return ('inf', False)
    if 'nan' in (ca, cb): return NAN
    q = a * a + b * b
    if q == 0: return ('val', Fraction(0), False)
    return ('root', 2, False, q)

def trunc_div(a: Fraction, b: Fraction) -> int:
    t = a / b
    n = abs(t.numerator) // t.denominator
    return -n if t < 0 else n

def ex_fmod(a, sa, b, sb):
    ca, cb = cls(a), cls(b)
    if 'nan' in (ca, cb) or ca == 'inf' or cb == 'zero': return NAN
    if cb == 'inf' or ca == 'zero': return ('val', a, sa)
    r = a - trunc_div(a, b) * b
    return ('val', r, a < 0)                      # a zero result has the sign of x

def ex_remainder(a, sa, b, sb):
    ca, cb = cls(a), cls(b)
    if 'nan' in (ca, cb) or ca == 'inf' or cb == 'zero': return NAN
    if cb == 'inf' or ca == 'zero': return ('val', a, sa)
    t = a / b
    n = math.floor(t)
    fr = t - n
    if fr > Fraction(1, 2) or (fr == Fraction(1, 2) and n % 2 != 0): n += 1
    return ('val', a - n * b, a < 0)

def ex_mod(a, sa, b, sb):
    """Python float `%` (the docstring of ops.mod names it): x - floor(x/y)*y; a zero result takes the sign of y"""
    ca, cb = cls(a), cls(b)
    if 'nan' in (ca, cb) or ca == 'inf' or cb == 'zero': return NAN
    s = sgn(b, sb)
    if cb == 'inf':
        if ca == 'zero': return ('val', Fraction(0), s)
        return ('val', a, None) if (a < 0) == s else ('inf', s)
    if ca == 'zero': return ('val', Fraction(0), s)
    r = a - math.floor(a / b) * b
    return ('val', r, s)

def ex_pown(a, sa, n: int):
    """IEEE pown(x, n)"""
    if n == 0: return ('val', Fraction(1), None)
    c = cls(a)
    if c == 'nan': return NAN
    odd = n % 2 == 1
    s = sgn(a, sa) and odd
    if c == 'inf': return ('inf', s) if n > 0 else ('val', Fraction(0), s)
    if c == 'zero': return ('val', Fraction(0), s) if n > 0 else ('inf', s)
    return ('val', a ** n, None)

def ex_rint(name, a, sa):
    c = cls(a)
    if c == 'nan': return NAN
    if c == 'inf': return ('inf', sgn(a, sa))
    fl = math.floor(a)
    if name == 'floor': r = fl
    elif name == 'ceil': r = math.ceil(a)
    elif name == 'trunc': r = fl if a >= 0 else math.ceil(a)
    else:   # roundint: nearest, ties away from zero
        fr = abs(a) - math.floor(abs(a))
        m = math.floor(abs(a)) + (1 if fr >= Fraction(1, 2) else 0)
        r = -m if a < 0 else m
    return ('val', Fraction(r), sgn(a, sa))     # roundToIntegral keeps the sign of the operand on a zero result

def ex_fdim(rm, a, sa, b, sb):
    ca, cb = cls(a), cls(b)
    if 'nan' in (ca, cb): return NAN
    def key(v): return (1, 0) if v == 'inf' else ((-1, 0) if v == '-inf' else (0, v))
    if key(a) > key(b): return ex_add(rm, a, sa, neg_v(b), not sb)
    return ('val', Fraction(0), False)

def neg_v(v): return {'inf': '-inf', '-inf': 'inf', 'nan': 'nan'}[v] if isinstance(v, str) else -v

def exact_result(name, rm, vals, signs):
    """Spec exact result, or None when the statement does not cover the case"""
    a, sa = vals[0], signs[0]
    if len(vals) > 1: b, sb = vals[1], signs[1]
    if name == 'add': return ex_add(rm, a, sa, b, sb)
    if name == 'sub': return ex_add(rm, a, sa, neg_v(b), not sb)
    if name == 'mul': return ex_mul(a, sa, b, sb)
    if name == 'div': return ex_div(a, sa, b, sb)
    if name == 'fma': return ex_fma(rm, a, sa, b, sb, vals[2], signs[2])
    if name == 'sqrt': return ex_root(2, a, sa)
    if name == 'cbrt': return ex_root(3, a, sa)
    if name == 'hypot': return ex_hypot(a, sa, b, sb)
    if name == 'fmod': return ex_fmod(a, sa, b, sb)
    if name == 'remainder': return ex_remainder(a, sa, b, sb)
    if name == 'mod': return ex_mod(a, sa, b, sb)
    if name == 'pow':
        if cls(b) not in ('fin', 'zero') or b.denominator != 1: return None     # integer powers only
        return ex_pown(a, sa, int(b))
    if name in ('ceil', 'floor', 'trunc', 'roundint'): return ex_rint(name, a, sa)
    if name == 'neg':
        return NAN if a == 'nan' else (('inf', not sgn(a, sa)) if cls(a) == 'inf' else ('val', -a, not sa))
    if name == 'fabs':
        return NAN if a == 'nan' else (('inf', False) if cls(a) == 'inf' else ('val', abs(a), False))
    if name == 'copysign':
        if a == 'nan': return NAN
        if b == 'nan': return None                                  # the sign bit of a NaN is not specified
        s = sgn(b, sb)
        if cls(a) == 'inf': return ('inf', s)
        return ('val', -abs(a) if s else abs(a), s)
    if name == 'fdim': return ex_fdim(rm, a, sa, b, sb)
    return None

def iroot(k: int, n: int) -> int:
    """floor of the k-th root (integer Newton, checked)"""
    if n < 2: return n
    x = 1 << -(-n.bit_length() // k)
    while True:
        y = ((k - 1) * x + n // x ** (k - 1)) // k
        if y >= x: break
        x = y
    assert x ** k <= n < (x + 1) ** k
    return x

def root_value(k, q: Fraction, m: int):
    """exact rational root if it exists, else a rational strictly inside an enclosure (lo, hi) of q^(1/k)
    between two ADJACENT multiples of 2^-m (the caller picks m so that no breakpoint of the target lies inside)"""
    rn, rd = iroot(k, q.numerator), iroot(k, q.denominator)
    if rn ** k == q.numerator and rd ** k == q.denominator: return Fraction(rn, rd), True
    t = (q.numerator << (k * m)) // q.denominator           # floor(q * 2^(k m))
    r = iroot(k, t)                                          # r <= q^(1/k) * 2^m < r + 1
    lo, hi = Fraction(r, 1 << m), Fraction(r + 1, 1 << m)
    assert lo ** k < q < hi ** k
    return (lo + hi) / 2, False

def spec_for(d, name, args, n_at=None):
    """Spec verdict dict (numspec format) for a case, or None if not judged; second component: note"""
    vals = [operand_value(o) for o in args]
    signs = [operand_sign(o) for o in args]
    rm = d.get('rm', 'rne')
    real = d['fam'] == 'real'
    if name == 'nearbyint':
        if real: return {'kind': 'error', 'name': 'AssertionError'}
        return spec_round(d, vals[0], signs[0], -1)
    ex = exact_result(name, rm, vals, signs)
    if ex is None: return None
    if ex[0] == 'nan':
        sp = spec_round(d, 'nan', False)
    elif ex[0] == 'inf':
        sp = spec_round(d, '-inf' if ex[1] else 'inf', ex[1])
    else:
        if ex[0] == 'root':
            if real: return {'kind': 'notoffered'}
            # floor(log2) of the root is floor(floor(log2 q) / k); every breakpoint of the target near the root is a
            # multiple of 2^(u-1), u the target's unit exponent there; the enclosure grid 2^-m is finer than that
            e_root = floor_log2(ex[3]) // ex[1]
            u = fmt_of(d).ulp_exp(pow2(e_root))
            m = GRID_BITS if u is None else max(GRID_BITS, 64 - u)
            q, rational = root_value(ex[1], ex[3], m)
            if ex[2]: q = -q
            zs = None
        else:
            q, zs = ex[1], ex[2]
        if real:
            sp = {'kind': 'value', 'q': q, 'zero_sign': zs if q == 0 else None, 'inexact': False, 'overflow': False}
        else:
            sp = spec_round(d, q, bool(zs) if q == 0 else (q < 0))
            if q == 0 and zs is None and sp['kind'] == 'value': sp['zero_sign'] = None
    if name in ('ceil', 'floor', 'trunc', 'roundint') and sp['kind'] == 'value':
        # these set `inexact` when the (finite) result differs from the operand
        x = vals[0]
        sp['inexact'] = not (isinstance(x, Fraction) and x == sp['q']) or sp['inexact']
    return sp

def judge2(sp, gp):
    """numspec.judge extended to Fraction results under the real context"""
    if sp['kind'] == 'notoffered':
        return None if gp == ('err', 'NotImplementedError') else f'real context: expected a refusal, got {gp}'
    if gp[0] == 'ok' and gp[1].startswith('frac'):
        if sp['kind'] != 'value': return f'expected {sp}, got {gp[1]}'
        q, _ = got_value(gp[1])
        return None if q == sp['q'] else f'expected value {sp["q"]}, got {gp[1]}'
    return judge(sp, gp)

# ---------------------------------------------------------------------------
# generation

def pow2(e): return Fraction(2) ** e

def rnd_dyadic(R, bits=12, elo=-8, ehi=8):
    c = R.getrandbits(R.randint(1, bits)) | 1
    v = Fraction(c) * pow2(R.randint(elo, ehi))
    return -v if R.random() < 0.5 else v

def nth_root_approx(k, q: Fraction, bits=48, up=False) -> Fraction:
    """dyadic approximation of q^(1/k) (q > 0) with `bits` significant digits, rounded down or up"""
    e = floor_log2(q) // k
    sh = bits - e
    t = (q.numerator << (k * sh)) // q.denominator if sh >= 0 else q.numerator // (q.denominator << (k * -sh))
    r = iroot(k, t) + (1 if up else 0)
    return Fraction(r) * pow2(-sh)

def small_factor(n: int):
    for f in (3, 5, 7, 9, 11, 13, 15, 25, 27):
        if n % f == 0: return f
    return 1

def operands_for(R, name, b: Fraction):
    """operand VALUES whose exact result under `name` is the target point b (a breakpoint of the context, or a
    point a tiny distance from one): generated backwards from the result"""
    tiny = lambda v: v * pow2(-R.randint(30, 60)) if v != 0 else pow2(-R.randint(30, 60))
    if name == 'add':
        x = rnd_dyadic(R); return [x, b - x]
    if name == 'sub':
        x = rnd_dyadic(R); return [x, x - b]
    if name == 'mul':
        num = abs(b.numerator)
        f = small_factor(num) if R.random() < 0.7 else 1
        x = Fraction(f) * pow2(R.randint(-6, 6)) * (-1 if R.random() < 0.5 else 1)
        if R.random() < 0.15: x = Fraction(R.choice([3, 5, 7, 10]))       # non-dyadic second factor
        return [x, b / x]
    if name == 'div':
        y = rnd_dyadic(R, bits=6)
        if R.random() < 0.15: y = Fraction(R.choice([3, 5, 7])) * (-1 if R.random() < 0.5 else 1)
        return [b * y, y]
    if name == 'fma':
        x, y = rnd_dyadic(R, bits=6), rnd_dyadic(R, bits=6)
        return [x, y, b - x * y]
    if name in ('sqrt', 'cbrt'):
        k = 2 if name == 'sqrt' else 3
        x = b ** k
        t = R.random()
        if t < 0.35: x = x + tiny(x) * R.choice([1, -1])
        if name == 'sqrt': x = abs(x)
        return [x]
    if name == 'hypot':
        bb = abs(b)
        t = R.random()
        if t < 0.25:            # Pythagorean triple scaled: exact hit when b/5 (b/13) is dyadic
            a1, a2, a3 = R.choice([(3, 4, 5), (5, 12, 13), (8, 15, 17)])
            return [bb * a1 / a3 * R.choice([1, -1]), bb * a2 / a3 * R.choice([1, -1])]
        if t < 0.35: return [bb * R.choice([1, -1]), Fraction(0)]
        x = bb * Fraction(R.randint(1, 15), 16)
        y = nth_root_approx(2, bb * bb - x * x, bits=R.randint(30, 60), up=R.random() < 0.5) if bb * bb - x * x > 0 else Fraction(0)
        return [x * R.choice([1, -1]), y * R.choice([1, -1])]
    if name in ('fmod', 'mod', 'remainder'):
        # x = q*y + b with |b| < |y| (|b| <= |y|/2 for remainder)
        bb = abs(b)
        y = (bb * R.choice([2, 2, 3, 4, 8]) + (tiny(bb) if R.random() < 0.3 else 0)) if bb != 0 else rnd_dyadic(R, bits=4)
        y = abs(y) * R.choice([1, -1])
        q = R.randint(-9, 9)
        return [q * y + b, y]
    if name == 'pow':
        n = R.choice([-3, -2, -1, 1, 2, 2, 3, 3, 4, 5])
        if R.random() < 0.5 and b != 0:
            # x = b^(1/n) to many digits: x^n lies a tiny distance from b
            x = nth_root_approx(abs(n), abs(b) if n > 0 else 1 / abs(b), bits=R.randint(24, 40), up=R.random() < 0.5)
            if b < 0 and n % 2 == 1: x = -x
        else:
            x = Fraction(R.randint(1, 31)) * pow2(R.randint(-3, 3)) * R.choice([1, -1])
        return [x, Fraction(n)]
    if name in ('ceil', 'floor', 'trunc', 'roundint', 'nearbyint'):
        t = R.random()
        if t < 0.5:
            k = Fraction(R.randint(-20, 20))
            return [k + R.choice([0, Fraction(1, 4), Fraction(1, 2), Fraction(3, 4), pow2(-R.randint(20, 50)), Fraction(1, 2) - pow2(-40), Fraction(1, 2) + pow2(-40), Fraction(1, 3)])]
        return [b + R.choice([0, Fraction(1, 2), -Fraction(1, 2), Fraction(1, 3), pow2(-30)])]
    if name in ('neg', 'fabs', 'round', 'round_exact', 'cast'): return [b]
    if name == 'round_at': return [b, Fraction(R.randint(-6, 4))]
    if name == 'copysign': return [b, rnd_dyadic(R, bits=3)]
    if name == 'fdim':
        x = rnd_dyadic(R)
        return [x, x - b] if R.random() < 0.7 else [x - b, x]
    if name in ('fmin', 'fmax'):
        return [b, b + R.choice([0, 1, -1, pow2(-20)])]
    raise ValueError(name)

FLOAT_SPECIALS = [o for o in SPECIALS if o[0] != 'R']

def spell(R, v: Fraction, want_sign=None):
    """one spelling (Float incl. redundant encoding / int / float / Fraction) of the value v"""
    s = (v < 0) if v != 0 else (R.random() < 0.5 if want_sign is None else want_sign)
    encs = [e for e in encodings(R, v, s) if e[0] != 'R']
    return R.choice(encs)

def gen_case(R, d, name):
    pts = gen_case.cache.get(id(d))
    if pts is None:
        pts = breakpoints(R, d, count=6) if d['fam'] != 'real' else [rnd_dyadic(R) for _ in range(12)] + [Fraction(R.randint(-9, 9), R.choice([3, 5, 7, 12]))]
        gen_case.cache = {id(d): pts}
    b = R.choice(pts)
    vals = operands_for(R, name, b)
    args = []
    for i, v in enumerate(vals):
        if R.random() < (0.06 if name not in ('pow',) or i == 0 else 0.0):
            args.append(R.choice(FLOAT_SPECIALS))
        elif name in ('pow', 'round_at') and i == 1:
            args.append(R.choice([('I', int(v)), ('F', ('fin', v < 0, -2, abs(int(v)) * 4)), ('D', float(v))]))
        else:
            args.append(spell(R, v))
    return args
gen_case.cache = {}

QUICK_OPS = (['add', 'sub', 'mul', 'div', 'fma', 'sqrt', 'cbrt', 'hypot', 'mod', 'fmod', 'remainder', 'pow'] * 3 +
             ['ceil', 'floor', 'trunc', 'roundint', 'nearbyint', 'neg', 'fabs', 'copysign', 'fdim'] * 2 +
             ['fmin', 'fmax', 'round', 'round_exact', 'cast', 'round_at'])

CORPUS_CTX = [
    dict(fam='mp', p=1, rm='rne', k=0, en=True, ei=True, nv=None, iv=None),
    dict(fam='mp', p=2, rm='rtn', k=0, en=True, ei=True, nv=None, iv=None),
    dict(fam='mps', p=3, emin=-2, rm='rna', k=0, en=True, ei=True, nv=None, iv=None),
    dict(fam='ieee', es=3, nbits=6, rm='rne', ov='overflow', k=0),
    dict(fam='ieee', es=5, nbits=16, rm='rtz', ov='overflow', k=0),
    dict(fam='ieee', es=8, nbits=32, rm='rne', ov='overflow', k=0),
    dict(fam='ieee', es=11, nbits=64, rm='rne', ov='overflow', k=0),
    dict(fam='mpfix', nmin=-3, rm='rne', k=0, nz=True, en=True, ei=True, nv=None, iv=None),
    dict(fam='fixed', signed=True, scale=-2, nbits=6, rm='rto', ov='saturate', k=0, nv=None, iv=None),
    dict(fam='real'),
]

def small_float_values(p, elo, ehi):
    """all values of the float format with precision p and normalized exponents elo..ehi (no subnormals), plus 0"""
    out = [Fraction(0)]
    for e in range(elo, ehi + 1):
        for c in range(1 << (p - 1), 1 << p):
            v = Fraction(c) * pow2(e - p + 1)
            out += [v, -v]
    return out

def thorough_cases(R):
    """all operand pairs of small float formats x narrower targets (all 8 modes, subnormals, fixed point)"""
    targets = []
    for rm in RMS:
        targets.append(dict(fam='mp', p=1, rm=rm, k=0, en=True, ei=True, nv=None, iv=None))
        targets.append(dict(fam='mp', p=2, rm=rm, k=0, en=True, ei=True, nv=None, iv=None))
        targets.append(dict(fam='mps', p=2, emin=-1, rm=rm, k=0, en=True, ei=True, nv=None, iv=None))
        targets.append(dict(fam='mps', p=3, emin=0, rm=rm, k=0, en=True, ei=True, nv=None, iv=None))
        targets.append(dict(fam='mpb', p=2, emin=-2, pos=(False, 1, 3), neg=(True, 1, 3), rm=rm, ov='overflow', k=0, en=True, ei=True, nv=None, iv=None))
        targets.append(dict(fam='mpfix', nmin=-2, rm=rm, k=0, nz=True, en=True, ei=True, nv=None, iv=None))
        targets.append(dict(fam='fixed', signed=True, scale=-1, nbits=5, rm=rm, ov='saturate', k=0, nv=None, iv=None))
    src3 = small_float_values(3, -2, 2)
    src4 = small_float_values(4, -1, 1)
    cases = []
    for d in targets:
        for src, ops2 in ((src3, ['add', 'sub', 'mul', 'div', 'hypot', 'fmod', 'remainder', 'mod', 'fdim', 'copysign']), (src4, ['add', 'mul', 'div'])):
            for x, y in itertools.product(src, src):
                for name in ops2:
                    if R.random() < 0.5:      # thinned uniformly: the full product is ~3.5M cases
                        cases.append((d, name, [('F', ('fin', x < 0 if x else R.random() < 0.5, *fr(x))), ('F', ('fin', y < 0 if y else R.random() < 0.5, *fr(y)))]))
        for x in src4:
            for name in ['sqrt', 'cbrt', 'neg', 'fabs', 'ceil', 'floor', 'trunc', 'roundint', 'nearbyint']:
                cases.append((d, name, [('F', ('fin', x < 0, *fr(x)))]))
            for n in range(-4, 5):
                cases.append((d, 'pow', [('F', ('fin', x < 0, *fr(x))), ('I', n)]))
        grid = small_float_values(2, -1, 1)
        for x, y, z in itertools.product(grid, grid, src3):
            if R.random() < 0.5: cases.append((d, 'fma', [('F', ('fin', v < 0, *fr(v))) for v in (x, y, z)]))
    return cases

def fr(v: Fraction):
    """(exp, c) of |v| dyadic"""
    d = v.denominator
    return (-(d.bit_length() - 1), abs(v.numerator))

# ---------------------------------------------------------------------------

def classify_finding(d, name, args, gp, why):
    """map a Spec violation to a listed known-finding id, if it has exactly that shape.
    (C02-F1 `mod` zero-remainder sign and C02-F2 zero-times-Fraction sign were repaired in /repo and are ordinary
    violations again; C02-F3, the exponent range of the MPFR back end, is tagged in `evaluate_range`.)"""
    return None

def proximity(d, sp_exact):
    """where the exact result sits relative to the target's grid: on a grid point, on a tie, within 2^-16 ulp
    of one of them, or elsewhere (evidence that the sample is concentrated on breakpoints)"""
    if d['fam'] == 'real' or sp_exact is None or sp_exact == 0: return None
    u = fmt_of(d).ulp_exp(abs(sp_exact))
    if u is None: return None
    t = abs(sp_exact) / pow2(u)
    fr = t - (t.numerator // t.denominator)
    eps = Fraction(1, 1 << 16)
    if fr == 0: return 'grid-point'
    if fr == Fraction(1, 2): return 'tie'
    if abs(fr - Fraction(1, 2)) < eps: return 'within-2^-16-ulp-of-tie'
    if fr < eps or fr > 1 - eps: return 'within-2^-16-ulp-of-grid-point'
    return 'generic'

def exact_point(d, name, args):
    """the exact result as a rational when it is one (for the proximity histogram only)"""
    try:
        vals = [operand_value(o) for o in args]; signs = [operand_sign(o) for o in args]
        ex = exact_result(name, d.get('rm', 'rne'), vals, signs)
        if ex is None: return None
        if ex[0] == 'val': return ex[1]
        if ex[0] == 'root':
            q, _ = root_value(ex[1], ex[3], GRID_BITS)
            return q
    except Exception:
        return None
    return None

def spec_verdict(d, name, args, got):
    """None (fine / not judged) or a description of the violation"""
    gp = parse_got(got)
    eng_exact = d['fam'] == 'real' or any(o[0] == 'Q' and o[1].denominator & (o[1].denominator - 1) for o in args)
    if gp == ('err', 'NotImplementedError') and eng_exact and name in MPFR_ONLY: return None, 'not-offered'
    sp = spec_for(d, name, args)
    if sp is None: return None, 'not-covered'
    return judge2(sp, gp), sp

def evaluate(rep, cases, label):
    lines, gots = [], []
    for (d, ctx, name, args) in cases:
        gots.append(run_real(name, ctx, args))
        lines.append(f'opf {name} {ctx_tok(d)} ' + ' '.join(operand_tok(o) for o in args))
    model = run_driver(lines)
    drift = 0
    for (d, ctx, name, args), line, got, mod in zip(cases, lines, gots, model):
        rep.distinct.add(line)
        rep.count('op:' + name); rep.count('fam:' + d['fam']); rep.count('rm:' + d.get('rm', '-'))
        for o in args: rep.count('operand:' + o[0])
        gp = parse_got(got)
        eng = 'exact-engine' if (d['fam'] == 'real' or any(o[0] == 'Q' and o[1].denominator & (o[1].denominator - 1) for o in args)) else 'mpfr-engine'
        rep.count('engine:' + eng)
        rep.count('outcome:' + (gp[1] if gp[0] == 'err' else gp[1].split()[0] + ('+ovf' if gp[3] else '') + ('+inexact' if gp[2] else '')))
        # 1. Spec oracle (property verdict) on the operations the statement lists
        if name in LISTED:
            why, sp = spec_verdict(d, name, args, got)
            if isinstance(sp, str):
                rep.count('spec:' + sp)
            else:
                rep.count('spec:' + sp['kind'])
                pr = proximity(d, exact_point(d, name, args)) if sp['kind'] in ('value', 'inf', 'subst', 'error') else None
                if pr: rep.count('exact-result:' + pr)
            if why:
                rep.violation(f'{name}: {why}', {'ctx': d, 'op': name, 'operands': [operand_tok(o) for o in args], 'impl': got,
                                                 'spec': repr(sp), 'line': line, 'finding': classify_finding(d, name, args, gp, why)})
        # 2. correspondence with the Lean model
        if verdict_part(mod) != verdict_part(got):
            rep.broke('correspondence', f'C02.{name}', f'line={line} impl={got} model={mod}')
        elif 'inv=' in got and got[got.index('inv='):] != mod[mod.index('inv='):]:
            drift += 1
        rep.sample({'line': line, 'impl': got, 'model': mod}, cap=16)
    rep.cov['evaluations'] = rep.cov.get('evaluations', 0) + len(lines)
    rep.cov['informational_drift_invalid_divzero_' + label] = drift

# ---------------------------------------------------------------------------
# self-test: the Spec oracle + this sample must catch the classic double-rounding mistakes.  The mutants are
# monkeypatches applied IN THIS PROCESS (nothing under /repo is touched) and removed again.

def mutants():
    import fpy2.number.gmputils as gu
    import fpy2.number.engine.gmp as ge
    import math as _math
    orig_call, orig_odd = gu.mpfr_call, gu._round_odd
    def one_guard(fn, args, prec=None, n=None):
        if prec is not None:
            r = gu._mpfr_call_with_prec(prec + 1, fn, args); return orig_odd(r, r.rc != 0)
        return orig_call(fn, args, prec=prec, n=n)
    def n_ignored(fn, args, prec=None, n=None):
        if prec is None:
            r = gu._mpfr_call_with_prec(4, fn, args); return orig_odd(r, r.rc != 0)
        return orig_call(fn, args, prec=prec, n=n)
    class TruncMath:
        floor = staticmethod(_math.trunc)
    o = fp.ops
    real_fma, real_hypot = o.fma, o.hypot
    return {
        'one-guard-digit (prec+1)': ([(gu, 'mpfr_call', one_guard), (ge, 'mpfr_call', one_guard)], None),
        'sticky-bit-dropped': ([(gu, '_round_odd', lambda x, inexact: orig_odd(x, False))], None),
        'n-ignored-in-fixed-branch': ([(gu, 'mpfr_call', n_ignored), (ge, 'mpfr_call', n_ignored)], lambda d, name: d['fam'] in ('mpfix', 'mpbfix', 'fixed', 'smfixed')),
        'mod-floor-replaced-by-trunc': ([(ge, 'math', TruncMath)], lambda d, name: name == 'mod'),
        'fma-as-two-roundings': ([(o, 'fma', lambda x, y, z, ctx: o.add(o.mul(x, y, ctx=ctx), z, ctx=ctx))], lambda d, name: name == 'fma'),
        'hypot-via-rounded-squares': ([(o, 'hypot', lambda x, y, ctx: o.sqrt(o.add(o.mul(x, x, ctx=ctx), o.mul(y, y, ctx=ctx), ctx=ctx), ctx=ctx))], lambda d, name: name == 'hypot'),
    }

def selftest(rep, cases, budget=6000):
    killed = {}
    for mname, (patches, flt) in mutants().items():
        sub = [c for c in cases if c[2] in LISTED and c[0]['fam'] != 'real' and (flt is None or flt(c[0], c[2]))][:budget]
        saved = [(m, a, getattr(m, a)) for (m, a, _) in patches]
        n = 0
        try:
            for (m, a, v) in patches: setattr(m, a, v)
            for (d, ctx, name, args) in sub:
                why, _ = spec_verdict(d, name, args, run_real(name, ctx, args))
                if why and classify_finding(d, name, args, None, why) is None: n += 1
        finally:
            for (m, a, v) in saved: setattr(m, a, v)
        killed[mname] = f'{n} of {len(sub)} cases flagged'
        if n == 0:
            rep.broke('selftest', mname, f'the Spec oracle flagged none of {len(sub)} cases under the mutant {mname}: the sample has lost its power')
    rep.cov['selftest_mutants_in_process'] = killed

# ---------------------------------------------------------------------------
# operands / results beyond the exponent range of the MPFR back end (|e| >= 2^30 with gmpy2's default context).
# The Lean model does not model that range (Engine.lean header), so these cases are judged by the Spec only.
# Expected results are written symbolically (a 2^(2^30)-bit Fraction is not affordable): the exact result is a
# power of two, representable in MPFloatContext(5), so it must come back unchanged and unflagged.

def range_cases():
    d = dict(fam='mp', p=5, rm='rne', k=0, en=True, ei=True, nv=None, iv=None)
    B = 1 << 30
    F = lambda s, e: ('F', ('fin', s, e, 1))
    one = F(False, 0)
    return d, [
        ('mul', [one, F(False, B)], f'ok fin 0 1 {B} ix=0 ov=0'),
        ('add', [('F', ('fin', False, 0, 0)), F(False, B)], f'ok fin 0 1 {B} ix=0 ov=0'),
        ('neg', [F(False, B)], f'ok fin 1 1 {B} ix=0 ov=0'),
        ('mul', [F(False, B // 2), F(False, B // 2)], f'ok fin 0 1 {B} ix=0 ov=0'),
        ('mul', [one, F(True, -B - 1)], f'ok fin 1 1 {-B - 1} ix=0 ov=0'),
        ('div', [one, F(False, B)], f'ok fin 0 1 {-B} ix=0 ov=0'),
        ('pow', [F(False, 1), ('I', B)], f'ok fin 0 1 {B} ix=0 ov=0'),
    ]

def evaluate_range(rep):
    d, cs = range_cases()
    ctx = ctx_obj(d)
    for name, args, want in cs:
        got = run_real(name, ctx, args)
        line = f'opf {name} {ctx_tok(d)} ' + ' '.join(operand_tok(o) for o in args)
        rep.count('outside-model-domain(MPFR exponent range)')
        if verdict_part(got) != want:
            rep.violation(f'{name}: exact result is a representable power of two, expected `{want}`, got `{verdict_part(got)}`',
                          {'ctx': d, 'op': name, 'operands': [operand_tok(o) for o in args], 'impl': got, 'spec': want,
                           'line': line, 'finding': 'C02-F3'})
    rep.cov['evaluations'] += len(cs)

def replay(rep, data):
    """re-run stored violations on the current tree: prints impl / Spec verdict / model for each"""
    rc = 0
    for i, v in enumerate(data.get('violations', [])):
        d = v['ctx']
        for k in ('pos', 'neg'):
            if k in d and d[k] is not None: d[k] = tuple(d[k])
        for k in ('nv', 'iv'):
            if d.get(k) is not None: d[k] = tuple(d[k])
        line = v['line']
        toks = line.split()
        nargs = ARITY[v['op']]
        args = [parse_operand_tok(t) for t in toks[-nargs:]]
        got = run_real(v['op'], ctx_obj(d), args)
        if v.get('finding') == 'C02-F3' or (isinstance(v.get('spec'), str) and v['spec'].startswith('ok ')):
            ok = verdict_part(got) == v['spec']
            print(f'[{i}] {line}\n     impl : {got}\n     spec : {v["spec"]}\n     verdict: {"ok" if ok else "differs"}')
            if not ok: rc = 1
            continue
        why, sp = spec_verdict(d, v['op'], args, got)
        mod = run_driver([line])[0]
        print(f'[{i}] {line}\n     impl : {got}\n     model: {mod}\n     spec : {sp}\n     verdict: {why or "ok"}')
        if why: rc = 1
    return rc

def parse_operand_tok(t):
    k, body = t[0], t[1:]
    if k == 'I': return ('I', int(body))
    if k == 'Q':
        n, dd = body.split('/'); return ('Q', Fraction(int(n), int(dd)))
    if k == 'D':
        import struct
        return ('D', struct.unpack('<d', struct.pack('<Q', int(body)))[0])
    if k == 'F':
        if body[0] == 'f':
            sg, e, c = body[1:].split(':'); return ('F', ('fin', sg == '1', int(e), int(c)))
        return ('F', ('inf' if body[0] == 'i' else 'nan', body[1] == '1'))
    raise ValueError(t)

def run(rep, tier, seed):
    R = Prng(seed, 'C02')
    nctx = 330 if tier == 'quick' else 1500
    per_ctx = 120 if tier == 'quick' else 160
    ctxs = list(CORPUS_CTX)
    for _ in range(nctx):
        ctxs.append(rand_ctx(R) if R.random() < 0.93 else {'fam': 'real'})
    cases = []
    for d in ctxs:
        try:
            ctx = ctx_obj(d)
        except Exception:
            rep.count('ctx-rejected'); continue
        for _ in range(per_ctx):
            name = R.choice(QUICK_OPS)
            try:
                args = gen_case(R, d, name)
            except (ZeroDivisionError, OverflowError):
                rep.count('gen-skipped'); continue
            cases.append((d, ctx, name, args))
    # exact cancellation (the zero of x + (-x), in both operand orders and every spelling): a breakpoint no context's grid
    # produces, and the place where the sign rule of an exact zero sum lives (also under REAL: RealFloat.__add__)
    canc = []
    for d in list(CORPUS_CTX) + [{'fam': 'real'}] * 6 + [rand_ctx(R) for _ in range(30)]:
        try:
            ctx = ctx_obj(d)
        except Exception:
            continue
        for _ in range(8):
            v = rnd_dyadic(R) if R.random() < 0.8 else Fraction(R.randint(1, 9), R.choice([1, 2, 4, 8]))
            if v == 0: continue
            w = rnd_dyadic(R, bits=6, elo=-3, ehi=3) or Fraction(3)
            for name, vals in (('add', [v, -v]), ('add', [-v, v]), ('sub', [v, v]), ('sub', [-v, -v]),
                               ('fma', [v, w, -v * w]), ('fma', [-v, w, v * w]), ('fma', [v, -w, v * w])):
                try:
                    canc.append((d, ctx, name, [spell(R, x) for x in vals]))
                except (ZeroDivisionError, OverflowError):
                    pass
    evaluate(rep, cases + canc, 'breakpoint_sample')
    evaluate_range(rep)
    selftest(rep, cases)
    if tier == 'thorough':
        tc = []
        cache = {}
        for (d, name, args) in thorough_cases(R):
            key = ctx_tok(d)
            if key not in cache: cache[key] = ctx_obj(d)
            tc.append((d, cache[key], name, args))
        evaluate(rep, tc, 'small_format_pairs')
    rep.cov['rule'] = ('quick: seeded sample generated BACKWARDS from breakpoints of each sampled context (grid points, quarter/half/three-quarter '
                       'points, half +- tiny, non-dyadic near ties, subnormal seam, maxval neighbourhood, beyond range): operands chosen so that the exact '
                       'result of the operation is that point (or a tiny distance from it: x = b^(1/n) to 24-60 digits for pow/hypot/roots); operands in all '
                       'spellings (Float with redundant encodings, int, float, dyadic and non-dyadic Fraction), specials and signed zeros mixed in; contexts: '
                       'random small parameters over all families x 8 modes + fixed corpus incl. binary16/32/64 and REAL. thorough adds: operand pairs of the '
                       'float formats p=3 (e in -2..2) and p=4 (e in -1..1) x 56 narrower targets (mp p=1,2; mps; mpb; mpfix; fixed; 8 modes), thinned '
                       'uniformly to 50%, all unary ops and pow n in -4..4 on every p=4 value, fma on a grid. distinct = distinct (op, context, operands) lines')
    rep.assumptions += ['Spec oracle: exact results by IEEE 754 / C Annex F rules in Python Fraction arithmetic (this file), rounded once by numspec.spec_round; '
                        'irrational roots are judged through an enclosure between adjacent multiples of 2^-400, finer than every breakpoint of every generated target',
                        'mod: Python float % is the reference for special operands and for the sign of a zero result',
                        'sign of an exact-cancellation zero under RTN, the sign taken from a NaN by copysign, NaN sign, and option-determined substitutes are not judged',
                        'a NotImplementedError of sqrt/cbrt/hypot/mod/fmod/remainder/fdim under REAL or with a non-dyadic Fraction operand counts as "not offered"',
                        'fmin/fmax/round/round_exact/cast/round_at and pow with a non-integer exponent: correspondence only (not in the statement)',
                        'the exponent range of the MPFR back end is not modelled in Lean; seven fixed cases beyond it (|e| >= 2^30) are judged by the Spec only (finding C02-F3); all other generated exponents are tiny']
