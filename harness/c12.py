"""C12 — translation to and from FPCore preserves meaning.

Generated + hand-written FPy programs of the FPCore-expressible subset are compiled with the real
`FPCoreCompiler().compile(f)` and judged four ways:

 (a) evaluation: the emitted core is run by titanfp's `Interpreter().interpret(core, args)` (the
     TRUSTED reference FPCore evaluator named by the property) and by the Lean FPCore evaluator
     (`fpceval`, lean/Fpy/Model/FPCore.lean — a second, independent FPCore semantics over the verified
     number engine) and compared with `f(*args)`.  A difference between the FPy result and the core's
     value is a violation when the two FPCore evaluators agree with each other (or only one of them
     could run the core); where titanfp alone deviates (its rounding of overflow under directed modes,
     of ties at the subnormal boundary …) the case is counted as `reference-evaluator-deviation`,
     sampled in the evidence and not judged;
 (b) re-read: `Function.from_fpcore(core)(*args)` must equal `f(*args)` (in memory; the printed text is
     re-parsed and re-read as well); hand-written cores with partial annotations are read and compared
     with both FPCore evaluators; the re-read function is exported to the Lean core-language evaluator
     (correspondence);
 (c) annotation scope, independent of any evaluator: every marked source operation carries a unique
     rounded constant; the property set in force at that constant in the core (top-level properties
     updated by every enclosing `!`) must denote the context of the innermost enclosing `with` of the
     source (or the function's declared context, or none);
 (e) coverage-driven corpus: `corpus/c12_nodes.py` puts EVERY expression node kind of the back end (each unary / binary / ternary / n-ary operator,
     constants, list max / min / sum / len / indexing / slices / comprehensions / enumerate / zip / any / all, tuple projections, conditional
     expressions, comparison chains, literals of every spelling incl. integers not representable in the enclosing format) directly under
     `fp.round` and bare, under a context narrower / wider than the one its operands were computed in; hand-written cores run every arm of
     the reader (each property alone, `!` around literals / integers / operators, let / let* / while / while* / for / for* / tensor / tensor* /
     array / ref / size / dim, every operator and constant) and are also compiled BACK (reader then compiler); programs the compiler must
     refuse and cores the reader cannot run execute the error arms.  coverage.py (branch=True) measures which functions / lines / branches of
     fpy2/backend/fpc.py, fpy2/frontend/fpc.py, fpy2/fpc_context.py and the bundling / unpacking passes the run executed: rep.cov['translator_coverage'];
 (d) the property table: for every context of every family `from_context` either refuses or returns
     properties that `to_context` — and titanfp's own reading of them — maps back to the same context;
     the Lean table (`fpcprops`) must agree with the real one.
"""
from __future__ import annotations
import importlib.util, itertools, math, os, shutil, signal, sys, tempfile, traceback
from fractions import Fraction
from common import *   # noqa
from numcanon import canon_rf, b01, operand_tok, RM as RM_OBJ
from langexport import export_program, eval_line, run_real, Unsupported, desc_of_ctx
import fpy2 as fp
from fpy2 import FPCoreCompiler, Function
from fpy2.fpc_context import FPCoreContext, NoSuchContextError
from fpy2.ast.fpyast import ListTypeAnn, RealTypeAnn
import titanfp.fpbench.fpcast as fpc
from titanfp.fpbench import fpcparser
from titanfp.arithmetic.mpmf import MPMF, Interpreter
from titanfp.arithmetic import evalctx as tctx
from titanfp.titanic import ndarray

PROP = 'C12'

# ------------------------------------------------------------------ contexts of the expressible subset
RNAMES = {'rne': 'nearestEven', 'rna': 'nearestAway', 'rtp': 'toPositive', 'rtn': 'toNegative', 'rtz': 'toZero', 'raz': 'awayZero'}
FORMATS = [(8, 32), (11, 64), (8, 32), (11, 64), (5, 16), (6, 20)]
PNAMES = {(5, 16): 'binary16', (8, 32): 'binary32', (11, 64): 'binary64', (15, 79): 'binary80', (15, 128): 'binary128'}

def ctx_src(es, nb, rm):
    if (es, nb, rm) == (8, 32, 'rne'): return 'fp.FP32'
    if (es, nb, rm) == (11, 64, 'rne'): return 'fp.FP64'
    return f'fp.IEEEContext({es}, {nb}, fp.RM.{rm.upper()})'

def ctx_key(es, nb, rm): return (es, nb, RNAMES[rm])

def norm_props(props: dict):
    """(es, nbits, roundname) a property dictionary denotes — the harness's own reading (FPCore 2.0 names),
    independent of fpy2.fpc_context; None if it is not an IEEE format"""
    prec = props.get('precision', 'binary64'); rnd = props.get('round', 'nearestEven')
    inv = {v: k for k, v in PNAMES.items()}
    if isinstance(prec, (list, tuple)):
        if len(prec) == 3 and str(prec[0]) == 'float': return (int(str(prec[1])), int(str(prec[2])), str(rnd))
        return ('other', tuple(str(x) for x in prec), str(rnd))
    if str(prec) in inv: return inv[str(prec)] + (str(rnd),)
    return ('other', str(prec), str(rnd))

def data_py(v):
    """property value (fpc.Data / raw) -> str | list[str]"""
    if isinstance(v, fpc.Data): v = v.value
    if isinstance(v, (tuple, list)): return [data_py(x) for x in v]
    if isinstance(v, fpc.ValueExpr): return str(v.value)
    return str(v)

# ------------------------------------------------------------------ program generator (restricted subset)
ARITH = ['+', '-', '*', '/']
CONSTS = ['0.1', '0.5', '1.5', '3', '0.3', '2', '7', '0.001', '1e10', '16777217', '0.75', '100']

class Gen12:
    """statements: assignment, tuple unpacking, nested/sequential `with` (always followed by more statements
    with probability > 1/2), if/else, one-armed if, counter `while` with loop-carried variables, `for` over
    ranges and lists; expressions: rounded constants, + - * / fma sqrt abs neg, min/max, conditional
    expressions, fixed-size lists with sum/index/len, tuples."""
    def __init__(self, R, raw_ints: bool, loopfree: bool = False, subset: bool = False):
        """subset: only the constructs of the Lean compiler model with loops (Model/FPCoreLoops.lean): one order comparison as
        condition, `for … in range(fp.round(n))`, no lists, no min/max, no conditional expressions"""
        self.R = R; self.raw = raw_ints; self.loopfree = loopfree; self.subset = subset
        self.fresh = itertools.count()
        self.marks = {}        # Fraction constant -> expected context key | None
        self.nmark = itertools.count(1)
        self.stack = []        # context keys of the enclosing `with` blocks (function context first)
        self.ctxs = {}         # key -> source text
        self.hist = {}

    def count(self, k): self.hist[k] = self.hist.get(k, 0) + 1
    def name(self):
        """fresh variable; the prefix is random, so the string order of the names is unrelated to the order of definition
        (the bundling passes sort some of their variable sets and keep others in definition / hash order)"""
        return f'{self.R.choice("zqmhcav")}{next(self.fresh)}'
    def lit(self, n): return str(n) if self.raw else f'fp.round({n})'

    def mark(self):
        k = next(self.nmark)
        q = 1 + Fraction(k, 4096)
        self.marks[q] = self.stack[-1] if self.stack else None
        s = f'{float(q):.12f}'.rstrip('0')
        assert Fraction(s) == q
        return f'fp.round({s})'

    def real(self, env, d):
        R = self.R
        vs = [x for x, t in env.items() if t in ('R', 'RO')]     # RO: loop targets (read, never assigned)
        ls = [x for x, t in env.items() if isinstance(t, tuple)]
        ch = ['var'] * 5 + ['const'] * 2
        if d > 0:
            ch += ['bin'] * 6 + ['fma', 'sqrt', 'abs', 'neg'] + ([] if self.loopfree or self.subset else ['minmax', 'ite'])
            if ls and not self.loopfree and not self.subset: ch += ['index', 'sum', 'len']
        c = R.choice(ch)
        self.count('expr:' + c)
        if c == 'var' and vs: return R.choice(vs)
        if c in ('var', 'const'): return f'fp.round({R.choice(CONSTS)})'
        if c == 'bin':
            op = R.choice(ARITH)
            a = self.real(env, d - 1)
            b = self.mark() if R.random() < 0.6 else self.real(env, d - 1)
            return f'({a} {op} {b})' if R.random() < 0.7 else f'({b} {op} {a})'
        if c == 'fma': return f'fp.fma({self.real(env, d - 1)}, {self.mark()}, {self.real(env, d - 1)})'
        if c == 'sqrt': return f'fp.sqrt(abs({self.real(env, d - 1)}))'
        if c == 'abs': return f'abs({self.real(env, d - 1)})'
        if c == 'neg': return f'(-{self.real(env, d - 1)})'
        if c == 'minmax': return f'{R.choice(["min", "max"])}({self.real(env, d - 1)}, {self.real(env, d - 1)})'
        if c == 'ite': return f'({self.real(env, d - 1)} if {self.cond(env, d - 1)} else {self.real(env, d - 1)})'
        l = R.choice(ls)
        if c == 'index': return f'{l}[{self.lit(R.randrange(env[l][1]))}]'
        if c == 'sum': return f'sum({l})'
        return f'len({l})'

    def cond(self, env, d):
        R = self.R
        if self.subset: return f'{self.real(env, d)} {R.choice(["<", "<=", ">", ">="])} {self.real(env, d)}'
        c = R.choice(['cmp'] * 5 + (['and', 'or', 'not', 'isnan'] if d > 0 else []))
        if c == 'cmp': return f'{self.real(env, d)} {R.choice(["<", "<=", ">", ">=", "==", "!="])} {self.real(env, d)}'
        if c == 'not': return f'(not {self.cond(env, d - 1)})'
        if c == 'isnan': return f'fp.isnan({self.real(env, d - 1)})'
        return f'({self.cond(env, d - 1)} {c} {self.cond(env, d - 1)})'

    def new_ctx(self):
        R = self.R
        es, nb = R.choice(FORMATS)
        rm = R.choice(list(RNAMES) + ['rne', 'rne', 'rtz'])
        key = ctx_key(es, nb, rm)
        self.ctxs[key] = ctx_src(es, nb, rm)
        return key

    def block(self, env, depth, n, pad):
        """-> (lines, env after)"""
        R = self.R
        env = dict(env); out = []
        for _ in range(n):
            ks = ['assign'] * 3 + ['new'] * 3
            if depth > 0: ks += ['with'] * 5 + ([] if self.loopfree else ['if', 'if', 'if1', 'while', 'forrange', 'tuple'] + ([] if self.subset else ['list']))
            if depth > 0 and not self.loopfree and any(isinstance(t, tuple) for t in env.values()): ks += ['forlist']
            k = R.choice(ks)
            vs = [x for x, t in env.items() if t == 'R']
            self.count('stmt:' + k)
            if k == 'assign' and vs:
                out.append(f'{pad}{R.choice(vs)} = {self.real(env, 2)}')
            elif k in ('assign', 'new'):
                x = self.name()
                out.append(f'{pad}{x} = {self.real(env, 2)}'); env[x] = 'R'
            elif k == 'tuple':
                x, y = self.name(), self.name()
                out.append(f'{pad}{x}, {y} = ({self.real(env, 2)}, {self.real(env, 1)})'); env[x] = env[y] = 'R'
            elif k == 'list':
                x = f'l{next(self.fresh)}'; n_el = R.randint(2, 4)
                out.append(f'{pad}{x} = [' + ', '.join(self.real(env, 1) for _ in range(n_el)) + ']'); env[x] = ('L', n_el)
            elif k == 'with':
                key = self.new_ctx()
                self.stack.append(key)
                body, env_in = self.block(env, depth - 1, R.randint(1, 3), pad + '    ')
                self.stack.pop()
                out.append(f'{pad}with {self.ctxs[key]}:'); out += body
                env.update(env_in)
                if len(self.stack) >= 1: self.count('with:nested')
            elif k == 'if':
                xs = [self.name() for _ in range(R.choice([0, 0, 1, 1, 2, 3]))]   # variables introduced by both branches
                c = self.cond(env, 1)
                bt, _ = self.block(env, depth - 1, R.randint(1, 2), pad + '    ')
                bf, _ = self.block(env, depth - 1, R.randint(1, 2), pad + '    ')
                for br in (bt, bf):     # … in an order of their own in each branch
                    for x in R.sample(xs, len(xs)): br.append(f'{pad}    {x} = {self.real(env, 1)}')
                out += [f'{pad}if {c}:'] + bt + [f'{pad}else:'] + bf
                for x in xs: env[x] = 'R'
                self.count(f'if:introduced={len(xs)}')
            elif k == 'if1':
                c = self.cond(env, 1)
                bt, _ = self.block(env, depth - 1, R.randint(1, 2), pad + '    ')
                out += [f'{pad}if {c}:'] + bt
            elif k == 'while':
                kx = f'k{next(self.fresh)}'
                out.append(f'{pad}{kx} = {self.lit(0)}')
                env2 = dict(env)
                body, _ = self.block(env2, depth - 1, R.randint(1, 2), pad + '    ')
                out += [f'{pad}while {kx} < {self.lit(R.randint(0, 3))}:'] + body + [f'{pad}    {kx} = {kx} + {self.lit(1)}']
                env[kx] = 'R'
            elif k == 'forrange':
                ix = f'i{next(self.fresh)}'
                env2 = dict(env); env2[ix] = 'RO'
                body, _ = self.block(env2, depth - 1, R.randint(1, 2), pad + '    ')
                r = R.random()
                if self.subset: rng = f'range(fp.round({R.randint(0, 3)}))'
                elif r < 0.5: rng = f'range({self.lit(R.randint(0, 3))})'
                elif r < 0.75: rng = f'range({self.lit(R.randint(0, 2))}, {self.lit(R.randint(2, 4))})'
                else: rng = f'range({self.lit(R.randint(0, 1))}, {self.lit(R.randint(3, 7))}, {self.lit(R.randint(2, 3))})'
                self.count('range:' + str(rng.count(',') + 1))
                out += [f'{pad}for {ix} in {rng}:'] + body
            elif k == 'forlist':
                l = R.choice([x for x, t in env.items() if isinstance(t, tuple)])
                ex = f'e{next(self.fresh)}'
                env2 = dict(env); env2[ex] = 'RO'
                body, _ = self.block(env2, depth - 1, R.randint(1, 2), pad + '    ')
                out += [f'{pad}for {ex} in {l}:'] + body
        return out, env

    def function(self, name):
        R = self.R
        decl = None
        if R.random() < 0.15:
            decl = self.new_ctx(); self.stack.append(decl)
        env = {'a': 'R', 'b': 'R'}
        has_list = R.random() < 0.4 and not self.loopfree and not self.subset
        if has_list: env['xs'] = ('L', 3)
        inner_ret = R.random() < 0.5      # the `return` inside the outermost `with`, or after it
        lines = []
        if inner_ret:
            key = self.new_ctx(); self.stack.append(key)
            body, env2 = self.block(env, 2, R.randint(2, 5), '        ')
            if self.loopfree and R.random() < 0.5:      # `if c: … return … else: … return …` in tail position
                c = f'{self.real(env2, 1)} {R.choice(["<", "<=", ">", ">="])} {self.real(env2, 1)}'
                bt, e3 = self.block(env2, 1, R.randint(0, 2), '            ')
                bt.append(f'            return {self.real(e3, 2)}')
                bf, e4 = self.block(env2, 1, R.randint(0, 2), '            ')
                bf.append(f'            return {self.real(e4, 2)}')
                tail = [f'        if {c}:'] + bt + ['        else:'] + bf
            else:
                tail = [f'        return {self.ret(env2)}']
            self.stack.pop()
            lines = [f'    with {self.ctxs[key]}:'] + body + tail
        else:
            body, env2 = self.block(env, 3, R.randint(2, 5), '    ')
            lines = body + [f'    return {self.ret(env2)}']
        dec = '@fp.fpy' if decl is None else f'@fp.fpy(ctx={self.ctxs[decl]})'
        params = 'a: fp.Real, b: fp.Real' + (', xs: list[fp.Real]' if has_list else '')
        return '\n'.join([dec, f'def {name}({params}):'] + lines) + '\n', has_list, decl

    def ret(self, env):
        R = self.R
        if self.loopfree: return self.real(env, 2)
        r = R.random()
        if r < 0.35: return self.real(env, 2)
        if r < 0.6: return '(' + ', '.join(self.real(env, 1) for _ in range(R.randint(2, 3))) + ')'
        vs = [x for x, t in env.items() if t == 'R']       # every variable: an exchange of any two of them shows
        return '(' + ', '.join(vs) + ', ' + self.real(env, 1) + ')'

# ------------------------------------------------------------------ hand-written templates
# (source, marks {constant: (es, nbits, round) | None}) — the classic scoping shapes
TEMPLATES = [
('''@fp.fpy
def t_after_inner(a: fp.Real, b: fp.Real):
    with fp.FP64:
        with fp.FP32:
            x = a / fp.round(1.000244140625)
        y = x / fp.round(1.00048828125)
        return y * b
''', {Fraction('1.000244140625'): (8, 32, 'nearestEven'), Fraction('1.00048828125'): (11, 64, 'nearestEven')}),
('''@fp.fpy
def t_sequential(a: fp.Real, b: fp.Real):
    with fp.IEEEContext(8, 32, fp.RM.RTZ):
        x = a / fp.round(1.000244140625)
    with fp.IEEEContext(11, 64, fp.RM.RTP):
        y = b / fp.round(1.00048828125)
    z = (x + y) * fp.round(1.000732421875)
    return z
''', {Fraction('1.000244140625'): (8, 32, 'toZero'), Fraction('1.00048828125'): (11, 64, 'toPositive'), Fraction('1.000732421875'): None}),
('''@fp.fpy
def t_three_deep(a: fp.Real, b: fp.Real):
    with fp.FP64:
        with fp.FP32:
            with fp.IEEEContext(5, 16, fp.RM.RNE):
                x = a + fp.round(1.000244140625)
            y = x * fp.round(1.00048828125)
        z = y / fp.round(1.000732421875)
        w = z - b
    return (x, y, z, w)
''', {Fraction('1.000244140625'): (5, 16, 'nearestEven'), Fraction('1.00048828125'): (8, 32, 'nearestEven'), Fraction('1.000732421875'): (11, 64, 'nearestEven')}),
('''@fp.fpy
def t_with_in_loop(a: fp.Real, b: fp.Real):
    with fp.FP64:
        s = a
        t = b
        k = fp.round(0)
        while k < fp.round(3):
            with fp.IEEEContext(8, 32, fp.RM.RTZ):
                s = s / fp.round(3)
            t = t / fp.round(3)
            k = k + fp.round(1)
    return (s, t)
''', {}),
('''@fp.fpy
def t_with_in_branch(a: fp.Real, b: fp.Real):
    with fp.FP64:
        if a < b:
            with fp.FP32:
                x = a / fp.round(3)
            y = b / fp.round(3)
        else:
            x = a / fp.round(7)
            with fp.FP32:
                y = b / fp.round(7)
        z = x + y
    return (x, y, z)
''', {}),
('''@fp.fpy
def t_for_list(a: fp.Real, b: fp.Real):
    with fp.FP64:
        xs = [a, b, a * b]
        s = fp.round(0)
        for x in xs:
            with fp.FP32:
                s = s + x / fp.round(3)
            s = s / fp.round(7)
    return s
''', {}),
('''@fp.fpy
def t_consts(a: fp.Real, b: fp.Real):
    with fp.IEEEContext(8, 32, fp.RM.RTZ):
        x = fp.round(0.1)
    with fp.FP64:
        y = fp.round(0.1)
        z = x + y
    return (x, y, z * a)
''', {}),
('''@fp.fpy(ctx=fp.FP32)
def t_declared(a: fp.Real, b: fp.Real):
    x = a / fp.round(1.000244140625)
    with fp.FP64:
        y = x / fp.round(1.00048828125)
    return y + b * fp.round(1.000732421875)
''', {Fraction('1.000244140625'): (8, 32, 'nearestEven'), Fraction('1.00048828125'): (11, 64, 'nearestEven'), Fraction('1.000732421875'): (8, 32, 'nearestEven')}),
('''@fp.fpy
def t_range3(a: fp.Real, b: fp.Real):
    with fp.FP32:
        s = a
        for i in range(0, 5, 2):
            s = s + b
    return s
''', {}),
('''@fp.fpy
def t_sum_index(a: fp.Real, b: fp.Real, xs: list[fp.Real]):
    with fp.FP32:
        s = sum(xs) + xs[0] * b
        m = max(xs[1], b)
    with fp.FP64:
        r = s + m + len(xs)
    return (r, s * a)
''', {}),
]

# shapes that are NOT repaired (kept under a finding tag, known_findings.json): recognised on the source AST
def _ast_children(n):
    for cls in type(n).__mro__:
        for k in getattr(cls, '__slots__', ()):
            try: v = getattr(n, k)
            except AttributeError: continue
            if isinstance(v, (list, tuple)): yield from v
            else: yield v

def _ast_walk(n):
    from fpy2.ast import fpyast as A
    yield n
    for v in _ast_children(n):
        if isinstance(v, A.Ast): yield from _ast_walk(v)

def shape_findings(fn) -> set:
    """(the other recorded shapes — derived constants, comprehensions with several generators / tuple targets, nested tuple targets, `!=` chains,
    lists longer than a tiny format can count — are recognised at the end of the loop below)
    C12-looptarget: a `for` whose body assigns its target; C12-looptarget2: a `for` whose target is defined before the loop and
    read after it; C12-negrange: a `range` with a bound that is not a literal (fails when it is negative at run time);
    C12-readwhilecond: a `while` whose condition contains a conditional expression (the reader evaluates it once)"""
    from fpy2.ast import fpyast as A
    out = set()
    nodes = list(_ast_walk(fn.ast.body))
    pos = {id(n): i for i, n in enumerate(nodes)}
    def assigned(block):
        acc = set()
        for n in _ast_walk(block):
            if isinstance(n, A.Assign):
                acc |= {str(n.target)} if isinstance(n.target, A.NamedId) else ({str(x) for x in n.target.names()} if isinstance(n.target, A.TupleBinding) else set())
            elif isinstance(n, A.ForStmt) and isinstance(n.target, A.NamedId): acc.add(str(n.target))
        return acc
    def literal(e):
        if isinstance(e, A.Round) and len(getattr(e, 'args', ())) == 1: e = e.args[0]
        return isinstance(e, A.RationalVal)
    params = {str(a.name) for a in fn.ast.args}
    for n in nodes:
        if isinstance(n, A.ForStmt) and isinstance(n.target, A.NamedId):
            x = str(n.target)
            if x in assigned(n.body): out.add('C12-looptarget')
            last = max(pos[id(m)] for m in _ast_walk(n))
            before = x in params or any(isinstance(m, (A.Assign, A.ForStmt)) and m is not n and pos[id(m)] < pos[id(n)]
                                        and x in assigned(A.StmtBlock([m])) for m in nodes)
            after = any(isinstance(m, A.Var) and str(m.name) == x and pos[id(m)] > last for m in nodes)
            if before and after: out.add('C12-looptarget2')
            if isinstance(n.iterable, (A.Range1, A.Range2, A.Range3)) and not all(literal(a) for a in n.iterable.args): out.add('C12-negrange')
        if isinstance(n, A.WhileStmt) and any(isinstance(m, A.IfExpr) for m in _ast_walk(n.cond)): out.add('C12-readwhilecond')
        if type(n).__name__ in DERIVED_CONSTS: out.add('C12-derivedconst')
        if isinstance(n, A.ListComp):
            if len(n.targets) >= 2: out.add('C12-listcomp2')
            if any(isinstance(t, A.TupleBinding) for t in n.targets): out.add('C12-tuplebindpos')
        if isinstance(n, A.Assign) and isinstance(n.target, A.TupleBinding) and any(isinstance(t, A.TupleBinding) for t in n.target.elts):
            out.add('C12-tuplebindpos')
        if isinstance(n, A.ContextStmt) and any(isinstance(m, (A.ForStmt, A.ListComp, A.Len, A.Sum, A.AMax, A.AMin)) for m in _ast_walk(n.body)):
            try:
                from langexport import Exporter
                ex = Exporter(); ex.env = fn.ast.env
                cv = n.ctx.val if isinstance(n.ctx, A.ForeignVal) else ex.static_py(n.ctx)
            except Exception: cv = None
            if isinstance(cv, fp.IEEEContext) and cv.pmax <= 5: out.add('C12-sizeround')
        if isinstance(n, A.Compare) and any(a == b == A.CompareOp.NE for a, b in zip(n.ops, n.ops[1:])): out.add('C12-neqnary')
    return out

DERIVED_CONSTS = {'ConstPi_2': 'PI_2', 'ConstPi_4': 'PI_4', 'Const1_Pi': 'M_1_PI', 'Const2_Pi': 'M_2_PI', 'Const2_SqrtPi': 'M_2_SQRTPI',
                  'ConstLog2E': 'LOG2E', 'ConstLog10E': 'LOG10E'}

def core_shape_findings(text: str) -> set:
    """shapes of recorded defects in a hand-written core"""
    import re
    out = set()
    if any(re.search(r'(?<![A-Z0-9_])' + c + r'(?![A-Z0-9_])', text) for c in DERIVED_CONSTS.values()): out.add('C12-derivedconst')
    if re.search(r'\(!=\s+[^()\s]+\s+[^()\s]+\s+[^()\s]', text): out.add('C12-neqnary')
    if re.search(r'\((fmax|fmin)\s', text): out.add('C12-readfmax')
    return out

def canon_values(text):
    """the finite numbers of a canonical result `ok (n fin s c e)` / `(t …)`, in order; None if it has anything else"""
    import re
    if not text.startswith('ok '): return None
    vals = []
    for m in re.finditer(r'\(n ([^()]*)\)', text):
        f = m.group(1).split()
        if f[0] == 'zero': vals.append(Fraction(0))
        elif f[0] == 'fin': vals.append((-1) ** int(f[1]) * Fraction(int(f[2])) * Fraction(2) ** int(f[3]))
        else: return None
    return vals

def canon_close(a, b, rel=Fraction(1, 64)) -> bool:
    """two results of the same shape whose numbers differ by a rounding slip only"""
    va, vb = canon_values(a or ''), canon_values(b or '')
    if va is None or vb is None or len(va) != len(vb): return False
    return all(abs(x - y) <= rel * max(abs(x), abs(y)) for x, y in zip(va, vb))

def pick_finding(shapes, kind, observed=None, expected=None):
    """the finding a violation of this kind ('eval': the core evaluates differently; 'reread': the re-read function does) on a program
    of these shapes is recorded under, or None"""
    if 'C12-looptarget' in shapes: return 'C12-looptarget'
    if 'C12-looptarget2' in shapes: return 'C12-looptarget2'
    for fid in ('C12-listcomp2', 'C12-tuplebindpos', 'C12-sizeround', 'C12-neqnary'):
        if fid in shapes: return fid
    # the reader reads fmax / fmin (the other operand if one is NaN) as FPy max / min (NaN): only a NaN result is that defect
    if 'C12-readfmax' in shapes and expected is not None and 'nan' in expected: return 'C12-readfmax'
    # a derived constant of the interpreter is off by a rounding slip: only a NEARBY value is that defect
    if 'C12-derivedconst' in shapes and observed is not None and expected is not None and canon_close(observed, expected): return 'C12-derivedconst'
    if kind == 'reread' and 'C12-readwhilecond' in shapes: return 'C12-readwhilecond'
    if 'C12-negrange' in shapes and observed is not None and not observed.startswith('ok'): return 'C12-negrange'
    return None

TEMPLATES.append(('''@fp.fpy
def t_loop_target_reassigned(a: fp.Real, b: fp.Real):
    with fp.FP64:
        for i in range(fp.round(3)):
            i = i + b
    return a
''', {}))

# hand-written cores for the reader: partial annotations inherit the enclosing properties
READ_CORES = [
 '(FPCore (a b) :precision binary32 (! :round toZero (/ a b)))',
 '(FPCore (a b) (! :precision binary32 (! :round toZero (/ a b))))',
 '(FPCore (a b) :round toZero (! :precision binary32 (/ a b)))',
 '(FPCore (a b) :round toPositive (let ([x (/ a b)]) (! :precision binary32 (/ x b))))',
 '(FPCore (a b) (! :precision binary32 (let ([x (/ a b)]) (! :round toZero (let ([y (/ x b)]) (! :precision binary64 (/ y b)))))))',
 '(FPCore (a b) (! :precision binary32 (if (< a b) (! :round toZero (/ a b)) (! :round toPositive (/ b a)))))',
 '(FPCore (a b) (! :precision binary32 (while (< i 3) ([i 0 (+ i 1)] [s a (! :round toZero (/ s b))]) s)))',
 '(FPCore (a b) (while* (< i 3) ([i 0 (+ i 1)] [s a (/ s b)]) s))',
 '(FPCore (a b) (while (< i 3) ([i 0 (+ i 1)] [s a (/ s (+ b i))]) s))',
 '(FPCore (a b) (for ([i 3]) ([s a (/ s (+ b i))]) s))',
 '(FPCore (a b) (let ([a b] [b a]) (- a (/ b 3))))',
 '(FPCore (a b) (let* ([a b] [b a]) (- a (/ b 3))))',
 '(FPCore (a b) (ref (tensor ([i 3]) (/ a (+ b i))) 2))',
 '(FPCore (a b) (! :precision binary32 (for ([i 3]) ([s a (! :precision binary64 (/ s (+ b i)))]) (* s b))))',
]

# ------------------------------------------------------------------ values
ARG_POOL = [1.0, 0.1, 1.0 / 3, 3.0, -2.25, 0.3, 7.0, 1.0 + 2.0 ** -30, 1.0 + 2.0 ** -24, 1.0 + 2.0 ** -23 + 2.0 ** -24, 1.0 + 2.0 ** -11,
            16777217.0, 65519.0, 65520.0, 3.0e38, 3.5e38, 1e300, 1.7e308, 2.0 ** -140, 2.0 ** -149, 2.0 ** -150, 1.5 * 2.0 ** -149, 5e-324, 2.0 ** -1060,
            2.0 ** -25, 6.0e-8, 0.0, -0.0, float('inf'), float('-inf'), float('nan'), -1.0, 100.0, 2.0, 0.5, -7.5, 1e-3, 1e10]

def to_mpmf(x):
    if isinstance(x, list): return [to_mpmf(v) for v in x]
    f = x if isinstance(x, fp.Float) else fp.Float.from_float(float(x))
    return MPMF(negative=f.s, exp=f.exp, c=f.c, isinf=f.isinf, isnan=f.isnan)

def canon(v) -> str:
    """canonical text of a result of any of the evaluators (tuples, lists and tensors all print as `(t …)`)"""
    if isinstance(v, bool): return f'(b {b01(v)})'
    if isinstance(v, (list, tuple, ndarray.NDArray)): return '(t ' + ' '.join(canon(x) for x in v) + ')'
    if isinstance(v, MPMF):
        if v.isnan: return '(n nan)'
        if v.isinf: return f'(n inf {b01(v.negative)})'
        return f'(n {canon_rf(v.negative, v.exp, v.c)})'
    if isinstance(v, fp.Float):
        if v.isnan: return '(n nan)'
        if v.isinf: return f'(n inf {b01(v.s)})'
        return f'(n {canon_rf(v.s, v.exp, v.c)})'
    if isinstance(v, int): return f'(n {canon_rf(v < 0, 0, abs(v))})'
    if isinstance(v, Fraction):
        d = v.denominator
        if d & (d - 1) == 0: return f'(n {canon_rf(v < 0, -(d.bit_length() - 1), abs(v.numerator))})'
        return f'(n frac {v.numerator}/{v.denominator})'
    if isinstance(v, float): return canon(fp.Float.from_float(v))
    raise Unsupported(f'value {type(v).__name__}')

def arg_sexp(v) -> str:
    if isinstance(v, list): return '(t ' + ' '.join(arg_sexp(x) for x in v) + ')'
    return '(n ' + operand_tok(('D', float(v))) + ')'

class Timeout(Exception): pass

def timed(thunk, seconds=5):
    def on_alarm(signum, frame): raise Timeout()
    old = signal.signal(signal.SIGALRM, on_alarm); signal.alarm(seconds)
    try: return thunk()
    finally: signal.alarm(0); signal.signal(signal.SIGALRM, old)

def observe(thunk, seconds=5) -> str:
    try: return 'ok ' + canon(timed(thunk, seconds))
    except Timeout: return 'timeout'
    except Unsupported as e: return f'unsupported {e}'
    except Exception as e: return f'err {type(e).__name__}: {str(e)[:120]}'

# ------------------------------------------------------------------ core -> tagged S-expression for `fpceval`
OPS = {'+': 'add', '-': 'sub', '*': 'mul', '/': 'div', 'sqrt': 'sqrt', 'fma': 'fma', 'fabs': 'fabs', 'copysign': 'copysign', 'fdim': 'fdim',
       'fmax': 'fmax', 'fmin': 'fmin', 'fmod': 'fmod', 'remainder': 'remainder', 'ceil': 'ceil', 'floor': 'floor', 'trunc': 'trunc', 'round': 'roundint',
       'nearbyint': 'nearbyint', 'cast': 'round', 'cbrt': 'cbrt', 'hypot': 'hypot', 'pow': 'pow'}
CMPS = {'<': 'lt', '<=': 'le', '>': 'gt', '>=': 'ge', '==': 'eq', '!=': 'ne'}
PREDS = {'isnan', 'isinf', 'isfinite', 'signbit', 'isnormal'}

def props_sexp(props: dict) -> str:
    out = []
    for k, v in props.items():
        v = data_py(v)
        if k == 'precision':
            out.append('(prec ' + (' '.join(v) if isinstance(v, list) else v) + ')')
        elif k == 'round': out.append(f'(round {v})')
        elif k == 'overflow': out.append(f'(ov {v})')
        elif k in ('name', 'description', 'cite', 'pre', 'spec', 'alt', 'fpbench-domain', 'example'): pass
        else: raise Unsupported(f'property :{k}')
    return '(' + ' '.join(out) + ')'

def num_q(e) -> Fraction:
    if isinstance(e, fpc.Integer): return Fraction(e.i)
    if isinstance(e, fpc.Rational): return Fraction(e.p, e.q)
    if isinstance(e, fpc.Digits): return Fraction(e.m) * Fraction(e.b) ** e.e
    if isinstance(e, fpc.Hexnum): return Fraction(float.fromhex(e.value))
    return Fraction(e.value)

def core_expr(e) -> str:
    X = core_expr
    if isinstance(e, fpc.Var): return f'(var {e.value})'
    if isinstance(e, fpc.Constant):
        if e.value in ('TRUE', 'FALSE', 'NAN', 'INFINITY'): return f'(const {e.value})'
        raise Unsupported(f'constant {e.value}')
    if isinstance(e, (fpc.Decnum, fpc.Integer, fpc.Rational, fpc.Digits, fpc.Hexnum)):
        q = num_q(e)
        if q == 0 and str(getattr(e, 'value', '')).strip().startswith('-'): raise Unsupported('literal -0')      # (the tagged form has no signed zero)
        return f'(num Q{q.numerator}/{q.denominator})'
    if isinstance(e, fpc.Ctx): return f'(ann {props_sexp(e.props)} {X(e.body)})'
    if isinstance(e, fpc.If): return f'(if {X(e.cond)} {X(e.then_body)} {X(e.else_body)})'
    if isinstance(e, fpc.Let):
        tag = 'letstar' if isinstance(e, fpc.LetStar) else 'let'
        return f'({tag} (' + ' '.join(f'({x} {X(v)})' for x, v in e.let_bindings) + f') {X(e.body)})'
    if isinstance(e, fpc.While):
        tag = 'whilestar' if isinstance(e, fpc.WhileStar) else 'while'
        return f'({tag} {X(e.cond)} (' + ' '.join(f'({x} {X(i)} {X(u)})' for x, i, u in e.while_bindings) + f') {X(e.body)})'
    if isinstance(e, fpc.For):
        tag = 'forstar' if isinstance(e, fpc.ForStar) else 'for'
        return (f'({tag} (' + ' '.join(f'({x} {X(v)})' for x, v in e.dim_bindings) + ') ('
                + ' '.join(f'({x} {X(i)} {X(u)})' for x, i, u in e.while_bindings) + f') {X(e.body)})')
    if isinstance(e, fpc.TensorStar): raise Unsupported('tensor*')
    if isinstance(e, fpc.Tensor):
        return '(tensor (' + ' '.join(f'({x} {X(v)})' for x, v in e.dim_bindings) + f') {X(e.body)})'
    if isinstance(e, fpc.Array): return '(array ' + ' '.join(X(c) for c in e.children) + ')'
    if isinstance(e, fpc.Ref): return '(ref ' + ' '.join(X(c) for c in e.children) + ')'
    if isinstance(e, fpc.Size): return '(size ' + ' '.join(X(c) for c in e.children) + ')'
    if isinstance(e, fpc.Dim): return f'(dim {X(e.children[0])})'
    if isinstance(e, fpc.And): return '(and ' + ' '.join(X(c) for c in e.children) + ')'
    if isinstance(e, fpc.Or): return '(or ' + ' '.join(X(c) for c in e.children) + ')'
    if isinstance(e, fpc.Not): return f'(not {X(e.children[0])})'
    if isinstance(e, fpc.Neg): return f'(op neg {X(e.children[0])})'
    if isinstance(e, fpc.UnknownOperator): raise Unsupported('call')
    if isinstance(e, fpc.NaryExpr):
        if e.name == '!=' and len(e.children) > 2: raise Unsupported('n-ary !=')      # (pairwise in FPCore; the Lean evaluator has the binary form)
        if e.name in CMPS: return f'(cmp {CMPS[e.name]} ' + ' '.join(X(c) for c in e.children) + ')'
        if e.name in PREDS: return f'(pred {e.name} {X(e.children[0])})'
        if e.name in OPS: return f'(op {OPS[e.name]} ' + ' '.join(X(c) for c in e.children) + ')'
    raise Unsupported(f'core expression {type(e).__name__}:{getattr(e, "name", "")}')

def fpceval_line(core, args, fuel=20000) -> str:
    if any(isinstance(d, str) for _, _, shape in core.inputs for d in (shape or [])): raise Unsupported('named tensor dimension')
    params = ' '.join(name for name, _, _ in core.inputs)
    return f'fpceval {fuel} ({params}) {props_sexp(core.props)} {core_expr(core.e)} (' + ' '.join(arg_sexp(a) for a in args) + ')'

# ------------------------------------------------------------------ source AST -> the model compiler's subset (`fpcmodel`)
def desc_tok(c) -> str:
    from fpy2.number.context.mp_fixed import MPFixedContext
    from fpy2.number.context.fixed import FixedContext
    rmn = {v: k for k, v in RM_OBJ.items()}
    ovn = {fp.OV.OVERFLOW: 'overflow', fp.OV.SATURATE: 'saturate', fp.OV.WRAP: 'wrap'}
    if isinstance(c, fp.IEEEContext): return f'ieee {c.es} {c.nbits} {rmn[c.rm]} {ovn[c.overflow]} {c.num_randbits}'
    if c is fp.REAL: return 'real'
    if isinstance(c, FixedContext): return f'fixed {b01(c.signed)} {c.scale} {c.nbits} {rmn[c.rm]} {ovn[c.overflow]}'
    if isinstance(c, MPFixedContext): return f'mpfixed {c.nmin} {rmn[c.rm]} {b01(c.enable_neg_zero)}'
    raise Unsupported('context')

def model_program(fn) -> str:
    """`(params) decl (stmts)` of a function of the loop-free subset, else Unsupported"""
    from fpy2.ast import fpyast as A
    from langexport import Exporter
    ex = Exporter(); ex.env = fn.ast.env
    BIN = {A.Add: 'add', A.Sub: 'sub', A.Mul: 'mul', A.Div: 'div'}
    UN = {A.Neg: 'neg', A.Abs: 'fabs', A.Sqrt: 'sqrt'}
    def E(e):
        if isinstance(e, A.Var): return f'(var {e.name})'
        if isinstance(e, A.Round) and isinstance(e.arg, A.RationalVal):
            q = Fraction(e.arg.as_rational())
            if q == 0 and str(getattr(e.arg, 'val', '')).startswith('-'): raise Unsupported('literal -0')
            return f'(lit Q{q.numerator}/{q.denominator})'
        if isinstance(e, A.Round): return f'(op round {E(e.arg)})'
        if isinstance(e, A.Fma): return f'(op fma {E(e.first)} {E(e.second)} {E(e.third)})'
        for cls, nm in BIN.items():
            if type(e) is cls: return f'(op {nm} {E(e.first)} {E(e.second)})'
        for cls, nm in UN.items():
            if type(e) is cls: return f'(op {nm} {E(e.arg)})'
        if isinstance(e, A.Compare) and len(e.ops) == 1 and e.ops[0].symbol() in ('<', '<=', '>', '>='):
            return f'(cmp {CMPS[e.ops[0].symbol()]} {E(e.args[0])} {E(e.args[1])})'
        raise Unsupported(f'model expr {type(e).__name__}')
    def B(b): return '(' + ' '.join(S(x) for x in b.stmts) + ')'
    def S(st):
        if isinstance(st, A.Assign) and not isinstance(st.target, A.TupleBinding) and str(st.target) != '_':
            return f'(assign {st.target} {E(st.expr)})'
        if isinstance(st, A.ContextStmt) and str(st.target) == '_':
            c = st.ctx.val if isinstance(st.ctx, A.ForeignVal) else ex.static_py(st.ctx)
            return f'(with ({desc_tok(c)}) {B(st.body)})'
        if isinstance(st, A.IfStmt): return f'(if {E(st.cond)} {B(st.ift)} {B(st.iff)})'
        if isinstance(st, A.ReturnStmt): return f'(return {E(st.expr)})'
        raise Unsupported(f'model stmt {type(st).__name__}')
    decl = '_' if fn.ast.ctx is None else '(' + desc_tok(fn.ast.ctx) + ')'
    params = ' '.join(str(a.name) for a in fn.ast.args)
    return f'({params}) {decl} {B(fn.ast.body)}'

# ------------------------------------------------------------------ (c) annotation scope
def subexprs_of(e):
    if isinstance(e, fpc.Ctx): return [e.body]
    if isinstance(e, fpc.If): return [e.cond, e.then_body, e.else_body]
    if isinstance(e, fpc.Let): return [v for _, v in e.let_bindings] + [e.body]
    if isinstance(e, fpc.While): return [e.cond] + [x for _, i, u in e.while_bindings for x in (i, u)] + [e.body]
    if isinstance(e, (fpc.For, fpc.Tensor)):
        wb = getattr(e, 'while_bindings', None) or []
        return [v for _, v in e.dim_bindings] + [x for _, i, u in wb for x in (i, u)] + [e.body]
    if isinstance(e, fpc.NaryExpr): return list(e.children)
    return []

def marks_in_core(core, marks):
    """{constant: set of (es, nbits, round) in force at an occurrence}"""
    found = {}
    top = {k: data_py(v) for k, v in core.props.items() if k in ('precision', 'round', 'overflow')}
    stack = [(core.e, top)]
    while stack:
        e, props = stack.pop()
        if isinstance(e, fpc.Ctx):
            props = dict(props); props.update({k: data_py(v) for k, v in e.props.items()})
        if isinstance(e, fpc.Decnum):
            try: q = Fraction(e.value)
            except Exception: q = None
            if q in marks: found.setdefault(q, set()).add(norm_props(props))
        for s in subexprs_of(e): stack.append((s, props))
    return found

# ------------------------------------------------------------------ run
def size_lists(fn, n=3):
    for arg in fn.ast.args:
        if isinstance(arg.type, ListTypeAnn): arg.type = ListTypeAnn(RealTypeAnn(None, None), n, None)
    return fn

def load_module(path, name):
    spec = importlib.util.spec_from_file_location(name, path)
    mod = importlib.util.module_from_spec(spec); sys.modules[name] = mod
    spec.loader.exec_module(mod)
    return mod

def compile_real(fn, prefer_unsafe):
    """-> (core, unsafe_int_cast used) or raises the compiler's exception"""
    first = None
    for unsafe in ([True] if prefer_unsafe else [False, True]):
        try: return FPCoreCompiler(unsafe_int_cast=unsafe).compile(fn), unsafe
        except Exception as e:
            first = first or e
    raise first

def gen_args(R, has_list, n, round_to=None):
    out = []
    for i in range(n):
        pool = ARG_POOL if i % 2 else ARG_POOL[:12]
        a = [R.choice(pool), R.choice(pool)]
        if has_list: a.append([R.choice(pool) for _ in range(3)])
        if round_to is not None:   # titanfp rounds the arguments to the core's own properties; FPy does not: pass representable values
            rnd = lambda x: float(round_to.round(x)) if not isinstance(x, list) else [rnd(y) for y in x]
            a = [rnd(x) for x in a]
        out.append(tuple(a))
    return out

# ------------------------------------------------------------------ code coverage of the translators (coverage.py, branch=True)
COVERED_FILES = ['fpy2/backend/fpc.py', 'fpy2/frontend/fpc.py', 'fpy2/fpc_context.py', 'fpy2/transform/if_bundling.py',
                 'fpy2/transform/while_bundling.py', 'fpy2/transform/for_bundling.py', 'fpy2/transform/for_unpack.py',
                 'fpy2/transform/rename_target.py']

def coverage_start():
    try:
        import coverage
    except Exception:
        return None
    files = [str(REPO / f) for f in COVERED_FILES if (REPO / f).exists()]
    cov = coverage.Coverage(branch=True, include=files, data_file=None, config_file=False)
    cov.start()
    return cov

def coverage_finish(rep, cov, tmp):
    """which functions / lines / branches of the translators this run never executed -> rep.cov['translator_coverage']"""
    if cov is None:
        rep.cov['translator_coverage'] = 'coverage.py not available'; return
    import json as _json
    cov.stop()
    out = os.path.join(tmp, 'coverage.json')
    try: cov.json_report(outfile=out, ignore_errors=True)
    except Exception as e:
        rep.cov['translator_coverage'] = f'no data: {type(e).__name__}: {e}'; return
    data = _json.load(open(out))
    res = {'percent_covered': round(data['totals']['percent_covered'], 2), 'covered_branches': data['totals'].get('covered_branches'),
           'num_branches': data['totals'].get('num_branches'), 'files': {}, 'functions_never_executed': [], 'functions_partly_executed': {}}
    for fname, fd in data['files'].items():
        short = fname[len(str(REPO)) + 1:] if fname.startswith(str(REPO)) else fname
        res['files'][short] = {'percent_covered': round(fd['summary']['percent_covered'], 2), 'missing_lines': len(fd['missing_lines']),
                               'missing_branches': len(fd.get('missing_branches', []))}
        for fn, fr in (fd.get('functions') or {}).items():
            if not fn: continue      # module level (imports, definitions: executed before the measurement starts)
            sm = fr['summary']
            if sm['num_statements'] == 0: continue
            if sm['covered_lines'] == 0: res['functions_never_executed'].append(f'{short}:{fn}')
            elif fr['missing_lines'] or fr.get('missing_branches'):
                res['functions_partly_executed'][f'{short}:{fn}'] = {'missing_lines': fr['missing_lines'][:40],
                                                                    'missing_branches': [list(b) for b in fr.get('missing_branches', [])][:40]}
    st = [fr['summary'] for fd in data['files'].values() for fn, fr in (fd.get('functions') or {}).items() if fn]
    tot = sum(x['num_statements'] for x in st); covd = sum(x['covered_lines'] for x in st)
    br = sum(x.get('num_branches', 0) for x in st); brc = sum(x.get('covered_branches', 0) for x in st)
    res['function_statements'] = tot; res['function_statements_executed'] = covd
    res['percent_of_function_statements_executed'] = round(100.0 * covd / max(tot, 1), 2)
    res['percent_of_function_branches_executed'] = round(100.0 * brc / max(br, 1), 2)
    res['note'] = ('percent_covered counts the module-level statements (imports, definitions: run before the measurement starts) as missing; '
                   'the function-level percentages do not. What is left: error arms that no program reaches through compile()/from_fpcore '
                   '(internal `unreachable` checks, shapes the passes before them remove), entry points nobody calls')
    nf = sum(1 for fd in data['files'].values() for fn, fr in (fd.get('functions') or {}).items() if fn and fr['summary']['num_statements'])
    res['functions_total'] = nf
    res['functions_fully_executed'] = nf - len(res['functions_never_executed']) - len(res['functions_partly_executed'])
    rep.cov['translator_coverage'] = res

def run(rep, tier, seed):
    R = Prng(seed, 'C12')
    nprog = 36 if tier == 'quick' else 500
    ninputs = 6 if tier == 'quick' else 14
    tmp = tempfile.mkdtemp(prefix='fpyverif_c12_', dir='/var/tmp')
    cov_meter = coverage_start()
    rep.cov.update({'programs': 0, 'compiled': 0, 'rejected': 0, 'scope_sites_checked': 0, 'reread_in_memory': 0, 'reread_text': 0,
                    'titanfp_evaluations': 0, 'lean_fpcore_evaluations': 0, 'reference_evaluator_deviations': []})
    lean_lines, lean_meta = [], []        # fpceval lines (core on the Lean FPCore evaluator)
    lang_lines, lang_meta = [], []        # eval lines (re-read function on the Lean core-language evaluator)
    model_lines, model_meta = [], []      # fpcmodel lines (MODEL of the compiler + Lean FPCore evaluator vs the real function)
    rep.cov['model_compiler_programs'] = 0
    read_lines, read_meta = [], []        # fpcread lines (MODEL of the reader, proved sound in Props/C12.lean, vs the real re-read function)
    rep.cov.update({'reader_model_evaluations': 0, 'reader_model_in_subset': 0})
    tie_lines, tie_meta = [], []          # fpccompile lines (TEXT of the model compiler with loops vs the real compiler's core)
    rep.cov.update({'model_subset_programs': 0, 'model_subset_by_kind': {}, 'compile_text_compared': 0, 'compile_text_match': 0,
                    'compile_text_order_ambiguous': 0, 'compile_text_reject_agree': 0})
    try:
        progs = []     # (label, source, fn, marks, has_list, raw_ints, declared ctx object)
        tpath = os.path.join(tmp, 'templates.py')
        with open(tpath, 'w') as fh: fh.write('import fpy2 as fp\n\n' + '\n'.join(s for s, _ in TEMPLATES))
        tmod = load_module(tpath, f'fpyverif_c12_{seed}_templates')
        for src, marks in TEMPLATES:
            name = src.split('def ')[1].split('(')[0]
            fn = size_lists(getattr(tmod, name))
            progs.append(('template:' + name, src, fn, marks, 'xs' in src.split(':\n')[0], False, fn.ast.ctx, None))
        # the systematic corpus for the bundling passes (corpus/c12_bundles.py): every run sees every shape
        corp = load_module(os.path.join(os.path.dirname(os.path.abspath(__file__)), 'corpus', 'c12_bundles.py'), f'fpyverif_c12_{seed}_bundles_gen')
        bundles = corp.bundle_programs(thorough=(tier != 'quick'))
        bpath = os.path.join(tmp, 'bundles.py')
        with open(bpath, 'w') as fh: fh.write('import fpy2 as fp\n\n' + '\n'.join(s_ for _, s_, _ in bundles))
        bmod = load_module(bpath, f'fpyverif_c12_{seed}_bundles')
        for name, src, fixed in bundles:
            fn = getattr(bmod, name)
            progs.append(('bundle:' + name, src, fn, {}, False, False, fn.ast.ctx, fixed))
        rep.cov['bundling_corpus_programs'] = len(bundles)
        # every expression node kind as operand of round / bare, under narrower and wider contexts (corpus/c12_nodes.py)
        ncorp = load_module(os.path.join(os.path.dirname(os.path.abspath(__file__)), 'corpus', 'c12_nodes.py'), f'fpyverif_c12_{seed}_nodes_gen')
        nodes = ncorp.node_programs(thorough=(tier != 'quick'))
        npath = os.path.join(tmp, 'nodes.py')
        with open(npath, 'w') as fh: fh.write('import fpy2 as fp\n\n' + '\n'.join(s_ for _, s_, _, _ in nodes))
        try:
            nmod = load_module(npath, f'fpyverif_c12_{seed}_nodes')
        except Exception as e:
            nmod = None
            rep.violation(f'the front end rejects the node corpus: {type(e).__name__}: {str(e)[:200]}', {'program': 'node-corpus', 'source': None, 'core': None, 'args': None, 'fpy': None, 'fpcore': None, 'finding': None})
        for name, src, fixed, raw in (nodes if nmod is not None else []):
            fn = getattr(nmod, name)
            progs.append(('node:' + name, src, fn, {}, False, raw, fn.ast.ctx, fixed))
        rep.cov['node_corpus_programs'] = len(nodes)
        # programs with a list parameter; programs the compiler must refuse (one per error arm of the back end)
        xsrc = 'import fpy2 as fp\n\n' + '\n'.join(s_ for _, s_, _ in ncorp.LIST_ARG_PROGRAMS) + '\n' + '\n'.join(s_ for _, s_, _ in ncorp.REJECTS)
        xpath = os.path.join(tmp, 'nodes_extra.py')
        with open(xpath, 'w') as fh: fh.write(xsrc)
        xmod = load_module(xpath, f'fpyverif_c12_{seed}_nodes_extra')
        for name, src, fixed in ncorp.LIST_ARG_PROGRAMS:
            fn = size_lists(getattr(xmod, name))
            progs.append(('node:' + name, src, fn, {}, True, False, fn.ast.ctx, fixed))
        rep.cov['compiler_refusals_expected'] = len(ncorp.REJECTS); rep.cov['compiler_refusals_observed'] = 0
        from fpy2.backend.backend import CompileError
        for name, src, raw in ncorp.REJECTS:
            fn = getattr(xmod, name)
            rep.cov['programs'] += 1
            try:
                compile_real(fn, raw)
                rep.count('refusal-corpus:now-compiles:' + name)        # (accepted: nothing to judge here, the node corpus covers what compiles)
            except (CompileError, NotImplementedError) as e:
                rep.cov['compiler_refusals_observed'] += 1
                rep.count('refusal-corpus:' + type(e).__name__)
            except Exception as e:
                rep.count('refusal-corpus:crash:' + type(e).__name__)
                if len(rep.notes) < 8: rep.notes.append(f'the compiler does not refuse {name} cleanly: {type(e).__name__}: {str(e)[:120]}')
        for pi in range(nprog):
            loopfree = pi % 3 == 0; subset = pi % 3 == 1
            G = Gen12(R, raw_ints=(R.random() < 0.5 and not loopfree and not subset), loopfree=loopfree, subset=subset)
            src, has_list, decl = G.function(f'g{pi}')
            path = os.path.join(tmp, f'g{pi}.py')
            with open(path, 'w') as fh: fh.write('import fpy2 as fp\n\n' + src)
            try: mod = load_module(path, f'fpyverif_c12_{seed}_g{pi}')
            except Exception as e:
                rep.count('frontend-rejected:' + type(e).__name__)
                if len(rep.notes) < 4: rep.notes.append(f'front end rejected a generated program: {type(e).__name__}: {str(e)[:160]}\n{src}')
                continue
            fn = size_lists(getattr(mod, f'g{pi}'))
            for k, v in G.hist.items(): rep.count('gen:' + k, v)
            progs.append((f'gen:g{pi}', src, fn, G.marks, has_list, G.raw, fn.ast.ctx, None))

        titan = Interpreter()
        # titanfp cannot index an EMPTY tensor (`range(0)`): same workaround as the repository's tests/infra/fpcore/shim.py
        _check_offset = ndarray.check_offset
        ndarray.check_offset = lambda data, shape, start, strides: None if any(d == 0 for d in shape) else _check_offset(data, shape, start, strides)
        for label, src, fn, marks, has_list, raw, declared, fixed in progs:
            rep.cov['programs'] += 1
            try:
                core, unsafe = timed(lambda: compile_real(fn, raw), 20)
            except Timeout:
                rep.count('compile-timeout'); continue
            except Exception as e:
                rep.cov['rejected'] += 1
                rep.count('rejected:' + type(e).__name__ + ':' + str(e.args[0] if e.args else '')[:50])
                tie_add(rep, tie_lines, tie_meta, label, src, fn, None, True)
                continue
            rep.cov['compiled'] += 1
            rep.count('compiled:unsafe_int_cast=' + str(unsafe))
            text = core.sexp
            try: shapes = shape_findings(fn)
            except Exception as e:
                shapes = set(); rep.count('shape-classifier-error:' + type(e).__name__)
            base = {'program': label, 'source': src, 'core': text, 'unsafe_int_cast': unsafe, 'finding': None, 'shapes': sorted(shapes)}
            # ---- (c) annotation scope
            found = marks_in_core(core, marks)
            dkey = None
            if isinstance(declared, fp.IEEEContext):
                dkey = (declared.es, declared.nbits, RNAMES[{v: k for k, v in RM_OBJ.items()}[declared.rm]])
            for q, want in marks.items():
                want = want if want is not None else (dkey if dkey is not None else (11, 64, 'nearestEven'))
                got = found.get(q)
                if got is None:
                    rep.count('scope:marker-not-in-core'); continue     # folded away / dead code
                rep.cov['scope_sites_checked'] += 1
                rep.distinct.add(('scope', label, str(q)))
                if got != {want}:
                    rep.violation(f'annotation scope: the operation marked {float(q)} is rounded under {sorted(got)} in the core, '
                                  f'its enclosing `with` in the source is {want}',
                                  dict(base, marker=str(q), expected=str(want), in_core=str(sorted(got)), args=None, fpy=None, fpcore=None))
            # ---- re-read
            reread = {}
            try:
                reread['memory'] = timed(lambda: Function.from_fpcore(core, ignore_unknown=True), 20)
                rep.cov['reread_in_memory'] += 1
            except Exception as e:
                rep.violation(f're-read: Function.from_fpcore(compile(f)) raises {type(e).__name__}: {str(e)[:100]}',
                              dict(base, args=None, fpy=None, fpcore=None, error=traceback.format_exc()[-600:], finding=pick_finding(shapes, 'reread')))
            if not has_list:      # (titanfp prints a tensor argument `(xs 3)` as `(xs3)`: not re-parseable, third-party)
                try:
                    reread['text'] = timed(lambda: Function.from_fpcore(fpcparser.compile(text)[0], ignore_unknown=True), 20)
                    rep.cov['reread_text'] += 1
                except Exception as e:
                    rep.violation(f're-read of the printed core raises {type(e).__name__}: {str(e)[:100]}',
                                  dict(base, args=None, fpy=None, fpcore=None, error=traceback.format_exc()[-600:], finding=pick_finding(shapes, 'reread')))
            exported = None
            if 'memory' in reread:
                try: exported = export_program(reread['memory'])
                except Unsupported as e: rep.count('reread-export-unsupported:' + str(e)[:30])
                except Exception as e: rep.count('reread-export-error:' + type(e).__name__)
            try:
                mprog = model_program(fn); rep.cov['model_compiler_programs'] += 1
            except Unsupported as e:
                mprog = None
            except Exception as e:
                mprog = None; rep.count('model-export-error:' + type(e).__name__)
            tie_add(rep, tie_lines, tie_meta, label, src, fn, core, unsafe)
            try: core_line_ok = bool(core_expr(core.e)) and bool(props_sexp(core.props))
            except Unsupported as e:
                core_line_ok = False; rep.count('lean-fpcore-unsupported:' + str(e)[:40])
            # ---- (a)/(b) evaluation
            arglist = gen_args(R, has_list, ninputs, declared if isinstance(declared, fp.Context) else None) if fixed is None else (list(fixed) + gen_args(R, has_list, 1))
            for args in arglist:
                F = observe(lambda: fn(*[list(a) if isinstance(a, list) else a for a in args]))
                if not F.startswith('ok'):
                    rep.count('fpy:' + F.split(':')[0][:40]); continue
                T = observe(lambda: titan.interpret(core, [to_mpmf(a) for a in args]))
                rep.cov['titanfp_evaluations'] += 1
                rep.cov['evaluations'] += 1
                rep.distinct.add((label, repr(args)))
                if mprog is not None:
                    model_lines.append(f'fpcmodel 20000 {mprog} (' + ' '.join(arg_sexp(a) for a in args) + ')'); model_meta.append((label, src, args, F))
                if core_line_ok:
                    lean_lines.append(fpceval_line(core, args)); lean_meta.append((base, args, F, T))
                else:
                    judge(rep, base, args, F, T, None)
                for how, g in reread.items():
                    if 'C12-readwhilecond' in shapes and (how != 'memory' or args is not arglist[0]): continue     # (a re-read loop that never ends: once)
                    Gv = observe(lambda: g(*[list(a) if isinstance(a, list) else a for a in args]), 2 if 'C12-readwhilecond' in shapes else 5)
                    rep.cov['evaluations'] += 1
                    if Gv != F:
                        rep.violation(f're-read ({how}): compile + Function.from_fpcore changes the result: f(*args) = {F[:70]}, re-read = {Gv[:70]}',
                                      dict(base, args=repr(args), fpy=F, fpcore=T, reread=Gv, reread_source=g.format(), finding=pick_finding(shapes, 'reread', Gv, F)))
                    if how == 'memory' and core_line_ok and Gv.startswith('ok'):
                        read_lines.append('fpcread' + fpceval_line(core, args)[len('fpceval'):]); read_meta.append((label, text, args, Gv))
                    if how == 'memory' and exported is not None and Gv.startswith('ok'):
                        entry, prog = exported
                        try:
                            lang_lines.append(eval_line(entry, prog, args, None, fuel=100000)); lang_meta.append((label, args, Gv, g))
                        except Unsupported: rep.count('reread-export-unsupported:arg')
            if len(rep.cov['samples']) < 4:
                rep.sample({'program': label, 'source': src, 'core': text})

        # ---- hand-written cores through the reader
        rep.cov['reader_refusals_expected'] = len(ncorp.READER_REFUSALS); rep.cov['reader_refusals_observed'] = 0
        for text in ncorp.READER_REFUSALS:
            rep.cov['programs'] += 1
            try:
                core = fpcparser.compile(text)[0]
                g = Function.from_fpcore(core, ignore_unknown=True)
                val = observe(lambda: g(1.5, 0.25))
            except Exception as e:
                rep.cov['reader_refusals_observed'] += 1; rep.count('reader-refusal:at-read:' + type(e).__name__); continue
            if not val.startswith('ok'):
                rep.cov['reader_refusals_observed'] += 1; rep.count('reader-refusal:at-call:' + val.split(':')[0][:30])
                # the function cannot run in FPy, but compiling it back must give the core's meaning again (titanfp knows more formats)
                try:
                    core2 = timed(lambda: FPCoreCompiler(unsafe_int_cast=True).compile(g), 20)
                    T = observe(lambda: titan.interpret(core, [to_mpmf(1.5), to_mpmf(0.25)])); T2 = observe(lambda: titan.interpret(core2, [to_mpmf(1.5), to_mpmf(0.25)]))
                    rep.cov['evaluations'] += 1
                    if T.startswith('ok') and T2.startswith('ok') and T != T2:
                        rep.violation(f'reader then compiler: the core evaluates to {T[:60]}, the core compiled from the function read from it to {T2[:60]} (titanfp)',
                                      {'program': 'read:' + text, 'source': None, 'core': text, 'core2': core2.sexp, 'args': '(1.5, 0.25)', 'fpy': None, 'fpcore': T, 'finding': None})
                except Exception as e: rep.count('reader-refusal:then-compiler:' + type(e).__name__)
            else:
                T = observe(lambda: titan.interpret(core, [to_mpmf(1.5), to_mpmf(0.25)]))
                if T != val:
                    rep.violation(f'reader: a core with properties / operators FPy does not know is read as a function returning {val[:60]} (titanfp: {T[:60]})',
                                  {'program': 'read:' + text, 'source': None, 'core': text, 'args': '(1.5, 0.25)', 'fpy': val, 'fpcore': T, 'finding': None})
        read_cores = [(t, None) for t in READ_CORES] + [(t, None) for t in ncorp.READER_CORES] + [(t, n) for t, n in ncorp.LIST_CORES]
        rep.cov['reader_cores'] = len(read_cores)
        for text, nlist in read_cores:
            try: core = fpcparser.compile(text)[0]
            except Exception as e:
                rep.count('reader-core-unparsable:' + type(e).__name__)
                if len(rep.notes) < 8: rep.notes.append(f'titanfp cannot parse the hand-written core {text}: {type(e).__name__}: {str(e)[:100]}')
                continue
            base = {'program': 'read:' + text, 'source': None, 'core': text, 'finding': None, 'shapes': sorted(core_shape_findings(text))}
            rep.cov['programs'] += 1
            try: g = Function.from_fpcore(core, ignore_unknown=True)
            except Exception as e:
                rep.violation(f'reader: Function.from_fpcore raises {type(e).__name__}', dict(base, args=None, fpy=None, fpcore=None, error=str(e)[:300]))
                continue
            top = None
            if 'precision' in core.props:
                try: top = FPCoreContext(**{k: data_py(v) for k, v in core.props.items() if k in ('precision', 'round')}).to_context()
                except Exception: top = None
            # the other round trip: compile the function just read and evaluate THAT core
            core2 = None
            try: core2 = timed(lambda: FPCoreCompiler(unsafe_int_cast=True).compile(g), 20)
            except Exception as e: rep.count('reader-then-compiler:rejected:' + type(e).__name__)
            arglists = gen_args(R, False, ninputs if text in READ_CORES else min(ninputs, 4), top)
            if 'C12-readfmax' in base['shapes']: arglists = [(float('nan'), 2.0)] + arglists      # (pinned: the recorded defect shows on a NaN operand)
            if nlist is not None: arglists = [([a[0], a[1], a[0]][:nlist], a[1]) for a in arglists]
            for args in arglists:
                Gv = observe(lambda: g(*[list(a) if isinstance(a, list) else a for a in args]))
                T = observe(lambda: titan.interpret(core, [to_mpmf(a) for a in args]))
                rep.cov['titanfp_evaluations'] += 1; rep.cov['evaluations'] += 1
                rep.distinct.add((text, repr(args)))
                rbase = dict(base, reader=True, reread_source=g.format())
                if core2 is not None and Gv.startswith('ok'):
                    T2 = observe(lambda: titan.interpret(core2, [to_mpmf(a) for a in args]))
                    rep.cov['evaluations'] += 1
                    if not T2.startswith('ok'): rep.count('reader-then-compiler:titanfp:' + T2.split(':')[0][:30])
                    elif T2 != Gv:
                        # judged like every other core: with the Lean FPCore evaluator as the second opinion (titanfp alone deviates at
                        # ties on the subnormal boundary, overflow under directed rounding, nearbyint of ties)
                        b2 = dict(rbase, program=rbase['program'] + ' [reader then compiler]', core=core2.sexp, original_core=text)
                        try: lean_lines.append(fpceval_line(core2, args)); lean_meta.append((b2, args, Gv, T2))
                        except Unsupported:
                            if 'inf' in T2 and 'inf' not in Gv: rep.count('reader-then-compiler:not-judged:titanfp-overflow')
                            else: judge(rep, b2, args, Gv, T2, None)
                try: line = fpceval_line(core, args)
                except Unsupported as e:
                    rep.count('lean-fpcore-unsupported:' + str(e)[:40]); judge(rep, rbase, args, Gv, T, None); continue
                lean_lines.append(line); lean_meta.append((rbase, args, Gv, T))
                if Gv.startswith('ok'):
                    read_lines.append('fpcread' + line[len('fpceval'):]); read_meta.append(('read:' + text, text, args, Gv))

        # ---- Lean FPCore evaluator on every core (second FPCore semantics + correspondence of the model with titanfp)
        outs = run_driver(lean_lines)
        rep.cov['lean_fpcore_evaluations'] = len(lean_lines)
        for (base, args, F, T), L in zip(lean_meta, outs):
            if L.startswith(('bad-', 'err outOfFuel', 'err NotImplementedError')):
                rep.count('lean-fpcore:' + L.split()[0] + (' ' + L.split()[1] if L.startswith('err') else '')); L = None
            judge(rep, base, args, F, T, L)
        # ---- the MODEL of the compiler (compileFun) + the Lean FPCore evaluator against the real function
        outs = run_driver(model_lines)
        rep.cov['model_compiler_evaluations'] = len(model_lines)
        for (label, src, args, F), m in zip(model_meta, outs):
            if m == 'reject': rep.count('model-compiler:reject'); continue
            if m != F:
                rep.broke('correspondence', 'C12.compile-model', f'program={label}\n{src}\nargs={args!r}\nimpl f(*args)={F}\nmodel compile+eval={m}')
        # ---- the MODEL of the reader (readFun + the Lean core-language evaluator) against the real re-read function
        outs = run_driver(read_lines)
        rep.cov['reader_model_evaluations'] = len(read_lines)
        for (label, text, args, Gv), m in zip(read_meta, outs):
            if m == 'reject': rep.count('reader-model:outside-subset'); continue
            if m.startswith(('bad-', 'err outOfFuel')): rep.count('reader-model:' + m[:20]); continue
            rep.cov['reader_model_in_subset'] += 1
            mm = m.replace('(l ', '(t ').replace('(l)', '(t )')
            if mm != Gv.replace('(t)', '(t )') and 'nan' in Gv and 'C12-readfmax' in core_shape_findings(text): rep.count('reader-model:fmax-nan (C12-readfmax)')
            elif mm != Gv.replace('(t)', '(t )'):
                rep.broke('correspondence', 'C12.read-model', f'program={label}\ncore={text}\nargs={args!r}\nimpl Function.from_fpcore(core)(*args)={Gv}\nmodel readFun + eval={m}')
        # ---- the model compiler WITH loops (compileFunL, proved sound in Props/C12.lean): its output TEXT against the real compiler's
        outs = run_driver(tie_lines)
        tie_judge(rep, tie_meta, outs)
        # ---- Lean core-language evaluator on the re-read functions (correspondence)
        outs = run_driver(lang_lines)
        rep.cov['traces_model_vs_impl'] = len(lang_lines)
        for (label, args, Gv, g), m in zip(lang_meta, outs):
            if m.startswith(('bad-', 'err NotImplementedError')): rep.count('lang-model-unsupported'); continue
            mm = m.replace('(l ', '(t ').replace('(l)', '(t )')
            if mm != Gv.replace('(t)', '(t )'):
                rep.broke('correspondence', 'C12.eval-reread', f'program={label}\n{g.format()}\nargs={args!r}\nimpl ={Gv}\nmodel={m}')
        table_check(rep)
        coverage_finish(rep, cov_meter, tmp)
    finally:
        shutil.rmtree(tmp, ignore_errors=True)
    rep.cov['rule'] = ('node corpus: every expression node kind under round / bare x narrower / nested / wider context (corpus/c12_nodes.py), reader cores for every reader arm, '
                       'refusal corpora for the error arms, bundling corpus (corpus/c12_bundles.py); '
                       'hand-written scoping templates (statement after an inner with, sequential withs, three-deep nesting, with inside loop/branch, declared '
                       'context, range with step, sum/index/len) + restricted random programs (IEEE binary16/32/64/(6,20) x six rounding modes; nested and sequential '
                       '`with` followed by statements; rounded constants; if/else, if, counter while with loop-carried variables, for over range(n)/(a,b)/(a,b,s) and over '
                       'lists; tuples; fixed-size lists with sum/index/len; min/max; conditional expressions), compiled by the real FPCoreCompiler (unsafe_int_cast on '
                       'when the program writes bare integers or the default compiler rejects it); inputs from a pool with binary32/binary64-distinguishing values, ties, '
                       'subnormals of binary32/binary64, overflow thresholds of binary16/32/64, signed zeros, infinities, NaN; distinct = distinct (program, input) and '
                       '(program, marked operation); verdict = equality of canonical values (sign of zero; NaN = NaN; tuples/lists/tensors structurally)')
    rep.assumptions += ['titanfp `Interpreter().interpret` is the trusted reference FPCore evaluator; where it alone deviates from BOTH the FPy result and the Lean FPCore '
                        'evaluator the case is reported as reference-evaluator-deviation, not judged (IEEE 754 semantics of overflow under directed rounding and of ties to '
                        'the subnormal boundary are proved for the Lean number engine in C01/C05)',
                        'arguments are rounded to the declared context of a function before both runs (titanfp rounds arguments to the core\'s own properties, FPy does not)',
                        'the scope check reads property names by the FPCore 2.0 standard (binary32 = (float 8 32), …), not through fpy2.fpc_context']

def tie_add(rep, tie_lines, tie_meta, label, src, fn, core, unsafe):
    """queue the `fpccompile` lines of a program of the modelled subset (one per order of the bundled sets)"""
    import c12tie
    from langexport import Exporter
    try:
        ex = Exporter(); ex.env = fn.ast.env
        prog, keys, dup = c12tie.export_lprogram(fn, desc_tok, ex.static_py)
    except Unsupported as e:
        rep.count('tie:outside-subset:' + str(e)[:40]); return
    except Exception as e:
        rep.count('tie:export-error:' + type(e).__name__); return
    kind = label.split(':')[0]
    rep.cov['model_subset_programs'] += 1
    rep.cov['model_subset_by_kind'][kind] = rep.cov['model_subset_by_kind'].get(kind, 0) + 1
    tables = c12tie.perm_tables(keys)
    if tables is None:
        rep.count('tie:too-many-orders'); return
    real = None
    if core is not None:
        try: real = c12tie.canon_core(props_sexp(core.props), core_expr(core.e))
        except Unsupported as e:
            rep.count('tie:core-unsupported:' + str(e)[:30]); return
    first = len(tie_lines)
    for t in tables: tie_lines.append(f'fpccompile {1 if unsafe else 0} {t} {prog}')
    tie_meta.append((label, src, real, first, len(tables), unsafe, dup))

def tie_judge(rep, tie_meta, outs):
    import c12tie
    for label, src, real, first, n, unsafe, dup in tie_meta:
        res = outs[first:first + n]
        rep.cov['compile_text_compared'] += 1
        if any(r.startswith('bad-') for r in res):
            rep.broke('correspondence', 'C12.compile-text', f'program={label}\n{src}\nthe driver cannot read the exported program: {res[0][:200]}'); continue
        if real is None:      # the real compiler rejects (with and without unsafe_int_cast): so must the model
            if all(r == 'reject' for r in res): rep.cov['compile_text_reject_agree'] += 1
            else: rep.broke('correspondence', 'C12.compile-text', f'program={label}\n{src}\nthe real compiler rejects the program, the model compiles it:\n{res[0][:600]}')
            continue
        texts = []
        for r in res:
            if not r.startswith('ok '): texts.append(None); continue
            rest = r[3:]; depth = 0; cut = 0
            for i, ch in enumerate(rest):
                if ch == '(': depth += 1
                elif ch == ')':
                    depth -= 1
                    if depth == 0: cut = i + 1; break
            try: texts.append(c12tie.canon_core(rest[:cut], rest[cut:].strip()))
            except Exception as e: texts.append(f'?{type(e).__name__}')
        if real in texts:
            rep.cov['compile_text_match'] += 1
            if n > 1: rep.cov['compile_text_order_ambiguous'] += 1
        elif dup and all(t is not None for t in texts):
            rep.count('tie:two-sites-with-the-same-key')      # same kind, same body size, same set: the model cannot tell them apart
        else:
            shown = next((t for t in texts if t), res[0])
            rep.broke('correspondence', 'C12.compile-text', f'program={label} unsafe_int_cast={unsafe}\n{src}\nreal  (alpha-normal): {real[:1500]}\nmodel (alpha-normal, {n} orders tried): {str(shown)[:1500]}')

def judge(rep, base, args, F, T, L):
    """F: FPy (or, for hand-written cores, the re-read function); T: titanfp on the core; L: Lean FPCore evaluator on the core (or None)"""
    what = 'reader: Function.from_fpcore(core)(*args)' if base.get('reader') else 'f(*args)'
    shapes = set(base.get('shapes') or ())
    tv = T if T.startswith('ok') else None
    rep.count('titanfp:' + ('ok' if tv else T.split(':')[0][:40]))
    if L is not None:
        if tv is not None and L != tv and F == tv:
            rep.broke('correspondence', 'C12.fpcore-model', f'core={base["core"]}\nargs={args!r}\ntitanfp={T}\nlean   ={L}')
        if tv is None and L.startswith('ok'): rep.count('judged-by-lean-fpcore-only')
    if tv is not None and tv == F and (L is None or L == F):
        rep.count('agree'); return
    if tv is not None and tv == F:
        return   # Lean model differs: reported above as correspondence
    if tv is None and L is None:
        rep.count('not-judged:no-evaluator-ran-the-core'); return
    if tv is None:
        if L == F: rep.count('agree'); return
        rep.violation(f'{what} = {F[:70]} but the core evaluates to {L[:70]} (Lean FPCore evaluator; titanfp: {T[:50]})',
                      dict(base, args=repr(args), fpy=F, fpcore=T, lean_fpcore=L, finding=pick_finding(shapes, 'eval', L, F))); return
    # titanfp differs from F
    if L is not None and L == F:
        cls = 'reference-evaluator-deviation'
        rep.count(cls)
        devs = rep.cov['reference_evaluator_deviations']
        if len(devs) < 8: devs.append({'core': base['core'], 'args': repr(args), 'fpy': F, 'lean_fpcore': L, 'titanfp': T})
        return
    rep.violation(f'{what} = {F[:70]} but the core evaluates to {T[:70]} (titanfp)' + ('' if L is None else f' / {L[:70]} (Lean FPCore evaluator)'),
                  dict(base, args=repr(args), fpy=F, fpcore=T, lean_fpcore=L, finding=pick_finding(shapes, 'eval', T, F)))

# ------------------------------------------------------------------ (d) the property table
def table_check(rep):
    from fpy2.number.context.mp_fixed import MPFixedContext
    from fpy2.number.context.fixed import FixedContext
    cases = []
    rms = ['rne', 'rna', 'rtp', 'rtn', 'rtz', 'raz', 'rto']
    for es, nb in [(5, 16), (8, 32), (11, 64), (15, 79), (15, 128), (4, 8), (6, 20), (8, 16)]:
        for rm in rms:
            cases.append((f'ieee {es} {nb} {rm} overflow 0', lambda es=es, nb=nb, rm=rm: fp.IEEEContext(es, nb, RM_OBJ[rm])))
        cases.append((f'ieee {es} {nb} rne saturate 0', lambda es=es, nb=nb: fp.IEEEContext(es, nb, fp.RM.RNE, fp.OV.SATURATE)))
        cases.append((f'ieee {es} {nb} rtz overflow 2', lambda es=es, nb=nb: fp.IEEEContext(es, nb, fp.RM.RTZ, fp.OV.OVERFLOW, 2)))
    for nmin in [-1, -4, 0, 3]:
        for rm in rms:
            for nz in (False, True):
                cases.append((f'mpfixed {nmin} {rm} {b01(nz)}', lambda nmin=nmin, rm=rm, nz=nz: MPFixedContext(nmin, RM_OBJ[rm], enable_neg_zero=nz)))
    for sg in (True, False):
        for sc, nb in [(-4, 16), (0, 8), (-8, 8), (3, 5), (8, 16)]:
            for rm in ['rne', 'rtz', 'raz', 'rto']:
                for ov in ['overflow', 'saturate', 'wrap']:
                    cases.append((f'fixed {b01(sg)} {sc} {nb} {rm} {ov}',
                                  lambda sg=sg, sc=sc, nb=nb, rm=rm, ov=ov: FixedContext(sg, sc, nb, RM_OBJ[rm], {'overflow': fp.OV.OVERFLOW, 'saturate': fp.OV.SATURATE, 'wrap': fp.OV.WRAP}[ov])))
    cases.append(('real', lambda: fp.REAL))
    cases.append(('other', lambda: fp.MPFloatContext(24, fp.RM.RNE)))
    lines, meta = [], []
    for tok, mk in cases:
        c = mk()
        rep.cov['evaluations'] += 1
        rep.distinct.add(('table', tok))
        try: p = FPCoreContext.from_context(c)
        except Exception as e:
            p = None; rep.count('table:refused:' + tok.split()[0])
        base = {'program': 'table', 'source': None, 'core': None, 'args': None, 'fpy': None, 'fpcore': None, 'context': repr(c), 'finding': None}
        if p is not None:
            rep.count('table:converted:' + tok.split()[0])
            try: back = p.to_context()
            except Exception as e: back = f'{type(e).__name__}: {e}'
            if back != c:
                rep.violation(f'property table: from_context({tok}) = {p.props} but to_context gives back {str(back)[:120]}', dict(base, props=str(p.props), back=repr(back)))
            # titanfp's own reading of the emitted properties (independent of fpy2)
            try:
                props = {k: fpc.Data(tuple(fpc.Var(str(x)) for x in v) if isinstance(v, list) else fpc.Var(str(v))) for k, v in p.props.items()}
                tc = tctx.determine_ctx(MPMF._ctx, props) if 'precision' in props and str(p.props['precision']) != 'real' else None
            except Exception as e:
                tc = None; rep.count('table:titanfp-cannot-read:' + tok.split()[0])
            want = None
            if isinstance(tc, tctx.IEEECtx) and isinstance(c, fp.IEEEContext):
                want = (c.es, c.nbits) == (tc.es, tc.nbits) and RNAMES.get({v: k for k, v in RM_OBJ.items()}[c.rm]) == tctx.rm_names[tc.rm]
            elif isinstance(tc, tctx.FixedCtx) and isinstance(c, FixedContext):
                want = (c.scale, c.nbits) == (tc.scale, tc.nbits)
            if want is False:
                rep.violation(f'property table: titanfp reads the properties {p.props} emitted for {tok} as {tc!r}', dict(base, props=str(p.props)))
        lines.append('fpcprops ' + tok); meta.append((tok, p))
    # the error arms of the table: what no context corresponds to is refused with NoSuchContextError, never mapped to some context
    base = {'program': 'table', 'source': None, 'core': None, 'args': None, 'fpy': None, 'fpcore': None, 'finding': None}
    for props in [{'precision': 'posit16'}, {'precision': 'binary32', 'round': 'stochastic'}, {'precision': ['fixed', -4, 16], 'overflow': 'trap'},
                  {'precision': ['float', 'x', 3]}, {'precision': ['posit', 2, 16]}]:
        rep.cov['evaluations'] += 1
        try:
            back = FPCoreContext(**props).to_context()
            rep.violation(f'property table: to_context maps the unknown properties {props} to {str(back)[:80]}', dict(base, context=None, props=str(props)))
        except NoSuchContextError as e:
            rep.count('table:refused-unknown-props'); str(e)
        except Exception as e:
            rep.count('table:unknown-props-crash:' + type(e).__name__)
    # with_prop: a copy with one property replaced
    p0 = FPCoreContext.from_context(fp.FP32)
    p1 = p0.with_prop('round', 'toZero')
    rep.cov['evaluations'] += 1
    if p0.props.get('round') != 'nearestEven' or p1.to_context() != fp.FP32.with_params(rm=fp.RM.RTZ) or 'toZero' not in repr(p1):
        rep.violation(f'property table: with_prop(round, toZero) of {p0!r} gives {p1!r}', dict(base, context='FP32', props=str(p1.props)))
    for bad in (3.0, 'binary32'):
        try: FPCoreContext.from_context(bad); rep.count('table:from_context-accepts-non-context')
        except TypeError: rep.count('table:from_context-typeerror')
        except Exception as e: rep.count('table:from_context-' + type(e).__name__)
    outs = run_driver(lines)
    for (tok, p), m in zip(meta, outs):
        got = 'none' if p is None else 'some ' + show_props(p.props)
        if m != got:
            rep.broke('correspondence', 'C12.table', f'context={tok}\nimpl ={got}\nmodel={m}')

def show_props(props: dict) -> str:
    prec = props.get('precision'); rnd = props.get('round'); ov = props.get('overflow')
    ps = '-' if prec is None else ('(' + ' '.join(str(x) for x in prec) + ')' if isinstance(prec, list) else str(prec))
    extra = sorted(k for k in props if k not in ('precision', 'round', 'overflow'))
    return f'prec={ps} round={rnd or "-"} ov={ov or "-"}' + (' extra=' + ','.join(extra) if extra else '')


def replay(rep, data):
    """re-run recorded violations on the current tree: the source is compiled again, `f(*args)`, titanfp on the
    core and the re-read function are evaluated on the recorded arguments and printed"""
    tmp = tempfile.mkdtemp(prefix='fpyverif_c12_replay_', dir='/var/tmp')
    n = 0
    try:
        for i, v in enumerate(data.get('violations', [])):
            print('---', v.get('what', '')[:160])
            if v.get('program') == 'table':
                print('  context', v.get('context')); continue
            args = eval(v['args'], {'inf': float('inf'), 'nan': float('nan')}) if v.get('args') else None
            if v.get('source'):
                path = os.path.join(tmp, f'r{i}.py')
                with open(path, 'w') as fh: fh.write('import fpy2 as fp\n\n' + v['source'])
                name = v['source'].split('def ')[1].split('(')[0]
                fn = size_lists(getattr(load_module(path, f'fpyverif_c12_replay_{i}'), name))
                try: core, _ = compile_real(fn, bool(v.get('unsafe_int_cast')))
                except Exception as e:
                    print('  compiler now rejects:', type(e).__name__, e); continue
                print('  core now:', core.sexp[:400])
                if marks := v.get('marker'):
                    print('  marker', marks, 'in force now:', marks_in_core(core, {Fraction(marks): None}))
                if args is not None:
                    print('  f(*args)      =', observe(lambda: fn(*args)))
                    print('  titanfp(core) =', observe(lambda: Interpreter().interpret(core, [to_mpmf(a) for a in args])))
                    print('  re-read       =', observe(lambda: Function.from_fpcore(core, ignore_unknown=True)(*args)))
            elif v.get('core') and args is not None:
                core = fpcparser.compile(v['core'])[0]
                print('  titanfp(core) =', observe(lambda: Interpreter().interpret(core, [to_mpmf(a) for a in args])))
                print('  reader        =', observe(lambda: Function.from_fpcore(core, ignore_unknown=True)(*args)))
            n += 1
    finally:
        shutil.rmtree(tmp, ignore_errors=True)
    print(f'replayed {n} records')
    return 0
