"""
Shared runner for the transformation properties (C07, C08, C09).

Programs come from three sources: the hand-written corpus, the feature-axis synthesiser `xgen`, and DERIVED
programs (the output of another transformation, so that e.g. `simplify` is also judged on what `unroll_for`
emits).  Worker processes (fork, one program per task) apply every recipe chosen for the program and compare

 (1) property verdict (Spec oracle = the real interpreter on the ORIGINAL program): wherever the original
     returns, the transformed program must return the same value (structurally; sign of zero, NaN, infinities),
     leave every list argument in the same final state, and must not raise / hang.  A STRICT remainder strategy
     or a variable split factor may raise AssertionError exactly where its documented precondition fails
     (length not divisible / factor < 1); the precondition is evaluated from the generator's loop metadata.
 (2) correspondence: the transformed AST is exported to the Lean evaluator and must behave like the real
     interpreter on the transformed program (ties the model semantics to what the transforms emit).

A recipe is a Python expression string evaluated in `RECIPE_NS` (e.g. "split('k', where=0, strategy='STRICT')",
"seq(elim_iter(), unroll_for(times=2))"), so a replay file is self-contained: program text + recipe + args + ctx.
"""
from __future__ import annotations
import importlib.util, os, shutil, sys, traceback, copy, tempfile, time, signal, json, ast as pyast, itertools
import multiprocessing as mp
from common import *   # noqa
from langexport import export_program, eval_line, show_val, Unsupported, PY_ERRS
from numcanon import err_name
import xgen
import fpy2 as fp
from fpy2 import strategies as S
from fpy2.ast import fpyast as A
from fpy2.utils import NamedId
from fpy2 import transform as T
from fpy2.transform import (ConstFold, CopyPropagate, DeadCodeEliminate, ForUnroll, ForUnrollStrategy, WhileUnroll, SplitLoop,
                            SplitLoopStrategy, ZipElim, EnumerateElim, ReduceFusion, FuncInline, FreeVarElim, LiftContext, Monomorphize,
                            StmtCursor, BlockCursor, FuncBody)

NPROC = int(os.environ.get('VERIF_JOBS', '16'))

def load_module(path, name):
    spec = importlib.util.spec_from_file_location(name, path)
    mod = importlib.util.module_from_spec(spec)
    sys.modules[name] = mod
    spec.loader.exec_module(mod)
    return mod

def arg_kinds(fn):
    out = []
    for a in fn.ast.args:
        t = a.type
        if isinstance(t, A.ListTypeAnn): out.append('L')
        elif isinstance(t, A.BoolTypeAnn): out.append('B')
        else: out.append('R')
    return out

REALS = [1.5, -2.25, 0.1, 3.0, 100.0, -0.0, 0.0, float('inf'), float('nan'), 1e300, -7.0, 0.3, 2.0 ** -30, 5, 200.0, 1.0]

def gen_inputs(R, kinds, n, maxlen=5):
    """random argument tuples (kept for the checks that import it)"""
    ins = []
    for i in range(n):
        args = []
        for k in kinds:
            if k == 'L':
                ln = i if i <= maxlen and R.random() < 0.7 else R.randint(0, maxlen)
                args.append([R.choice(REALS) for _ in range(ln)])
            elif k == 'B': args.append(R.random() < 0.5)
            else: args.append(R.choice(REALS))
        ins.append(tuple(args))
    return ins

def describe(fn):
    try: return fn.format()
    except Exception: return '<unprintable>'

class StrategyTimeout(Exception):
    pass

# Time limits are CPU seconds of this process (ITIMER_PROF), not wall-clock: on a busy machine a 2 s wall limit turns
# ordinary runs into "timeouts"; a genuinely non-terminating program burns CPU and is still stopped.
def _arm(seconds, handler):
    old = signal.signal(signal.SIGPROF, handler)
    signal.setitimer(signal.ITIMER_PROF, seconds)
    return old

def _disarm(old):
    signal.setitimer(signal.ITIMER_PROF, 0)
    signal.signal(signal.SIGPROF, old)

def with_timeout(thunk, seconds):
    def on_alarm(signum, frame): raise StrategyTimeout()
    old = _arm(seconds, on_alarm)
    try:
        return thunk()
    finally:
        _disarm(old)

def observe(fn, args, ctx=None, timeout_s=2):
    """(result line, final state of the list arguments) of one call of the real interpreter"""
    def on_alarm(signum, frame): raise TimeoutError('timeout')
    a = copy.deepcopy(list(args))
    res = None
    old = signal.signal(signal.SIGPROF, on_alarm)
    try:
        try:
            signal.setitimer(signal.ITIMER_PROF, timeout_s)
            try:
                v = fn(*a, ctx=ctx) if ctx is not None else fn(*a)
                res = 'ok ' + show_val(v)
            finally:
                signal.setitimer(signal.ITIMER_PROF, 0)      # the timer may still fire right here: caught below
        except (TimeoutError, SystemError):   # a timer signal that lands inside a C extension call surfaces as SystemError
            res = None
        except Unsupported as e:
            res = f'unsupported {e}'
        except RecursionError:
            res = 'err RecursionError'
        except Exception as e:   # noqa
            n = err_name(e)
            res = 'err ' + PY_ERRS.get(n, n)
    except TimeoutError:
        res = None
    finally:
        signal.setitimer(signal.ITIMER_PROF, 0); signal.signal(signal.SIGPROF, old)
    if res is None: return 'timeout', ''
    try:
        post = ' '.join(show_val(x) for x in a if isinstance(x, list))
    except Exception:
        post = '?'
    return res, post

# ====================================================================== recipes
class Decline(Exception):
    """the recipe does not apply to this program (no such site / no callee): not an error of the strategy"""

class Rcp:
    """a transformation recipe: fn -> Function (raises to decline)"""
    def __init__(self, go, strict=None, mono_ctx=None):
        self.go = go; self.strict = strict; self.mono_ctx = mono_ctx
    def __call__(self, fn): return self.go(fn)

def _strategy(s, enum):
    return enum[s] if isinstance(s, str) else s

def _where(fn, w, strat_fn, **kw):
    """None | int | ('site', j) | ('stmt', j) | ('body',) | ('tail',) -> what the strategy's `where` takes"""
    if w is None or isinstance(w, int): return w
    if w[0] == 'site':
        ss = S.sites(strat_fn, fn, **kw)
        if w[1] >= len(ss): raise Decline(f'no site {w[1]}')
        return ss[w[1]]
    n = len(fn.ast.body.stmts)
    if w[0] == 'stmt': return StmtCursor(fn.ast, FuncBody().stmt(w[1] % n))
    if w[0] == 'body': return BlockCursor(fn.ast, FuncBody(), range(0, n))
    if w[0] == 'tail': return BlockCursor(fn.ast, FuncBody(), range(n // 2, n))
    raise ValueError(w)

def _expr(src: str):
    """FPy AST of a small factor expression: names, integers, + - *, len(x), max(a, b)"""
    def cv(n):
        if isinstance(n, pyast.Name): return A.Var(NamedId(n.id), None)
        if isinstance(n, pyast.Constant) and isinstance(n.value, int): return A.Integer(n.value, None)
        if isinstance(n, pyast.BinOp):
            op = {pyast.Add: A.Add, pyast.Sub: A.Sub, pyast.Mult: A.Mul}[type(n.op)]
            return op(cv(n.left), cv(n.right), None)
        if isinstance(n, pyast.Call) and n.func.id == 'len': return A.Len(None, cv(n.args[0]), None)
        if isinstance(n, pyast.Call) and n.func.id == 'max': return A.Max(None, [cv(a) for a in n.args], None)
        raise ValueError(src)
    return cv(pyast.parse(src, mode='eval').body)

def r_simplify(cf=1, ctx=1, op=1, cp=1, dce=1):
    return Rcp(lambda fn: S.simplify(fn, enable_const_fold=bool(cf), enable_const_fold_context=bool(ctx), enable_const_fold_op=bool(op),
                                     enable_copy_prop=bool(cp), enable_dead_code_elim=bool(dce)))

_CLASSES = {'ConstFold': ConstFold, 'CopyPropagate': CopyPropagate, 'DeadCodeEliminate': DeadCodeEliminate, 'ZipElim': ZipElim,
            'EnumerateElim': EnumerateElim, 'ReduceFusion': ReduceFusion, 'FreeVarElim': FreeVarElim, 'LiftContext': LiftContext,
            'FuncInline': FuncInline}

def r_single(cls, **kw):
    return Rcp(lambda fn: fn.with_ast(_CLASSES[cls].apply(fn.ast, **kw)))

def r_constfold_shared(**kw):
    """ConstFold with the analyses computed by the caller (the cached-analysis entry points)"""
    def go(fn):
        from fpy2.analysis import DefineUse, PartialEval
        du = DefineUse.analyze(fn.ast); pe = PartialEval.apply(fn.ast, def_use=du)
        return fn.with_ast(ConstFold.apply(fn.ast, def_use=du, partial_eval=pe, **kw))
    return Rcp(go)

def r_dce_shared():
    def go(fn):
        from fpy2.analysis import DefineUse
        return fn.with_ast(DeadCodeEliminate.apply(fn.ast, DefineUse.analyze(fn.ast)))
    return Rcp(go)

def r_copyprop(names='all'):
    def go(fn):
        from fpy2.analysis import DefineUse
        du = DefineUse.analyze(fn.ast)
        ns = sorted({d.name for d in du.defs}, key=str)
        pick = {'all': ns, 'even': ns[0::2], 'odd': ns[1::2], 'first': ns[:1], 'none': []}[names]
        return fn.with_ast(CopyPropagate.apply(fn.ast, names=set(pick)))
    return Rcp(go)

def r_order(*classes, rounds=3):
    def go(fn):
        a = fn.ast
        for _ in range(rounds):
            for c in classes: a = _CLASSES[c].apply(a)
        return fn.with_ast(a)
    return Rcp(go)

def r_fixpoint(*classes, cap=8):
    def go(fn):
        a = fn.ast
        for _ in range(cap):
            b = a
            for c in classes: b = _CLASSES[c].apply(b)
            if b.is_equiv(a): break
            a = b
        return fn.with_ast(a)
    return Rcp(go)

def r_unroll_for(where=None, times=1, strategy='PEEL', **ids):
    st = _strategy(strategy, ForUnrollStrategy)
    strict = {'kind': 'for', 'k': times + 1, 'where': where} if st is ForUnrollStrategy.STRICT else None
    return Rcp(lambda fn: S.unroll_for(fn, _where(fn, where, S.unroll_for, times=times, strategy=st), times, strategy=st, **ids), strict=strict)

def r_ForUnroll(where=None, times=1, strategy='PEEL', shared=False, **ids):
    st = _strategy(strategy, ForUnrollStrategy)
    strict = {'kind': 'for', 'k': times + 1, 'where': where} if st is ForUnrollStrategy.STRICT and times > 0 else None
    def go(fn):
        kw = {k: NamedId(v) for k, v in ids.items()}
        if shared:
            from fpy2.analysis import ReachingDefs
            from fpy2.transform.utils import infer_array_size
            kw.update(reaching_defs=ReachingDefs.analyze(fn.ast), array_size=infer_array_size(fn.ast))
        return fn.with_ast(ForUnroll.apply(fn.ast, _where(fn, where, S.unroll_for, times=max(times, 1), strategy=st), times, st, **kw))
    return Rcp(go, strict=strict)

def r_unroll_while(where=None, times=1):
    return Rcp(lambda fn: S.unroll_while(fn, _where(fn, where, S.unroll_while), times))

def r_WhileUnroll(where=None, times=1):
    return Rcp(lambda fn: fn.with_ast(WhileUnroll.apply(fn.ast, _where(fn, where, S.unroll_while), times)))

def r_split(factor, where=None, strategy='PEEL', **ids):
    st = _strategy(strategy, SplitLoopStrategy)
    strict = {'kind': 'split', 'factor': factor, 'where': where, 'strict': st is SplitLoopStrategy.STRICT}
    def go(fn):
        fe = A.Integer(factor, None) if isinstance(factor, int) else A.Var(NamedId(factor), None)
        return S.split(fn, factor, _where(fn, where, S.split, factor=fe, strategy=st), strategy=st, **ids)
    return Rcp(go, strict=strict)

def r_SplitLoop(factor, where=None, strategy='PEEL', shared=False, **ids):
    """factor is the source of an FPy expression ('k + 1', 'len(xs)', '3')"""
    st = _strategy(strategy, SplitLoopStrategy)
    strict = {'kind': 'split', 'factor': factor if not str(factor).lstrip('-').isdigit() else int(factor), 'where': where, 'strict': st is SplitLoopStrategy.STRICT}
    def go(fn):
        fe = _expr(str(factor))
        kw = {k: NamedId(v) for k, v in ids.items()}
        if shared:
            from fpy2.analysis import ReachingDefs
            from fpy2.transform.utils import infer_array_size
            kw.update(reaching_defs=ReachingDefs.analyze(fn.ast), array_size=infer_array_size(fn.ast))
        return fn.with_ast(SplitLoop.apply(fn.ast, fe, _where(fn, where, S.split, factor=fe, strategy=st), st, **kw))
    return Rcp(go, strict=strict)

def r_elim_iter(enumerate=True, zip=True):
    return Rcp(lambda fn: S.elim_iter(fn, enable_enumerate=enumerate, enable_zip=zip))

def r_fuse():
    return Rcp(lambda fn: S.fuse(fn))

def _callees(fn):
    from fpy2.function import Function
    out = []
    for _, e in T.walk_exprs(fn.ast):
        if isinstance(e, A.Call) and isinstance(e.fn, Function) and e.fn not in out: out.append(e.fn)
    return out

def _funcs(fn, sel):
    if sel is None: return None
    cs = _callees(fn)
    if not cs: raise Decline('no callees')
    if sel == 'first': return cs[:1]
    if sel == 'last': return cs[-1:]
    if sel == 'all': return cs
    raise ValueError(sel)

def r_inline(where=None, funcs=None, recursive=True):
    def go(fn):
        fs = _funcs(fn, funcs)
        kw = {} if fs is None else {'funcs': fs}
        return S.inline(fn, _where(fn, where, S.inline, **kw), funcs=fs, recursive=recursive)
    return Rcp(go)

def r_FuncInline(where=None, funcs=None, recursive=True, shared=False):
    def go(fn):
        fs = _funcs(fn, funcs)
        kw = {} if fs is None else {'funcs': fs}
        extra = {}
        if shared:
            from fpy2.analysis import DefineUse
            extra['def_use'] = DefineUse.analyze(fn.ast)
        return fn.with_ast(FuncInline.apply(fn.ast, funcs=fs, recursive=recursive, where=_where(fn, where, S.inline, **kw), **extra))
    return Rcp(go)

def r_inline_each(recursive=False, cap=12):
    """inline site 0 repeatedly until no site is left (one call at a time)"""
    def go(fn):
        g = fn
        for _ in range(cap):
            if not S.sites(S.inline, g): break
            g = S.inline(g, 0, recursive=recursive)
        return g
    return Rcp(go)

def r_close(): return Rcp(lambda fn: S.close(fn))
def r_lift_context(): return Rcp(lambda fn: S.lift_context(fn))

def r_LiftContext(shared=True):
    def go(fn):
        from fpy2.analysis import PartialEval
        return fn.with_ast(LiftContext.apply(fn.ast, eval_info=PartialEval.apply(fn.ast) if shared else None))
    return Rcp(go)

def r_mono(ctx_src, args=None):
    """monomorphize(f, C [, argument types]) judged as f(*args, ctx=C) versus pinned(*args)"""
    ctx = eval(ctx_src, {'fp': fp})
    def go(fn):
        tys = None
        if args == 'infer':
            from fpy2.analysis import TypeInfer
            tys = list(TypeInfer.check(fn.ast).arg_types)
        elif args == 'none':
            tys = [None] * len(fn.ast.args)
        return S.monomorphize(fn, ctx, tys)
    return Rcp(go, mono_ctx=ctx)

def r_Monomorphize(ctx_src):
    ctx = eval(ctx_src, {'fp': fp})
    return Rcp(lambda fn: fn.with_ast(Monomorphize.apply(fn.ast, ctx)), mono_ctx=ctx)

def r_twice(r):
    """apply the same strategy twice to the SAME input object and keep the second result (a strategy must not consume its input)"""
    def go(fn):
        try: r(fn)
        except Decline: raise
        return r(fn)
    return Rcp(go, strict=r.strict, mono_ctx=r.mono_ctx)

def r_module_spec(ctx_src, args=None):
    """Module.add(f, ctx=C).specialized() judged as f(*args, ctx=C) versus the specialised public entry"""
    ctx = eval(ctx_src, {'fp': fp})
    def go(fn):
        from fpy2.module import Module
        m = Module('xgen')
        m.add(fn, ctx=ctx)
        sm = m.specialized()
        pubs = sm.public()
        if len(pubs) != 1: raise Decline('specialised module has no single public entry')
        return pubs[0]
    return Rcp(go, mono_ctx=ctx)

def r_seq(*rs):
    def go(fn):
        for r in rs: fn = r(fn)
        return fn
    stricts = [r.strict for r in rs if r.strict]
    monos = [r.mono_ctx for r in rs if r.mono_ctx is not None]
    return Rcp(go, strict={'kind': 'unknown', 'factors': _dyn_factors(stricts)} if stricts else None, mono_ctx=monos[0] if monos else None)

def _dyn_factors(stricts):
    out = []
    for st in stricts:
        if st.get('kind') == 'split' and not isinstance(st['factor'], int): out.append(st['factor'])
        out += st.get('factors', [])
    return out

def r_repeat(r, n=2):
    return r_seq(*([r] * n))

def r_fwd(first, second, where, **kw):
    """aim `second` with a cursor taken on the ORIGINAL program and forwarded across `first`"""
    strat = {'unroll_for': S.unroll_for, 'unroll_while': S.unroll_while, 'split': S.split, 'inline': S.inline}[second]
    def go(fn):
        skw = {}
        if second == 'unroll_for': skw = {'times': kw.get('times', 1)}
        c = _where(fn, where, strat, **skw)
        g = first(fn)
        if second == 'split': return S.split(g, kw.get('factor', 2), c)
        if second == 'inline': return S.inline(g, c, recursive=kw.get('recursive', True))
        return strat(g, c, kw.get('times', 1))
    return Rcp(go, strict={'kind': 'unknown', 'factors': _dyn_factors([first.strict] if first.strict else []) + ([kw['factor']] if isinstance(kw.get('factor'), str) else [])})

RECIPE_NS = {'simplify': r_simplify, 'single': r_single, 'constfold_shared': r_constfold_shared, 'dce_shared': r_dce_shared, 'copyprop': r_copyprop,
             'order': r_order, 'fixpoint': r_fixpoint, 'unroll_for': r_unroll_for, 'ForUnroll': r_ForUnroll, 'unroll_while': r_unroll_while,
             'WhileUnroll': r_WhileUnroll, 'split': r_split, 'SplitLoop': r_SplitLoop, 'elim_iter': r_elim_iter, 'fuse': r_fuse, 'inline': r_inline,
             'FuncInline': r_FuncInline, 'inline_each': r_inline_each, 'close': r_close, 'lift_context': r_lift_context, 'LiftContext': r_LiftContext,
             'mono': r_mono, 'Monomorphize': r_Monomorphize, 'twice': r_twice, 'module_spec': r_module_spec, 'seq': r_seq, 'repeat': r_repeat, 'fwd': r_fwd}

def make_recipe(src: str) -> Rcp:
    return eval(src, dict(RECIPE_NS))

# ====================================================================== the AssertionError precondition
def _selected_trips(loops, where):
    if loops is None: return None
    # an index counts only the loops the strategy does not refuse (STRICT refuses statically indivisible ones), so which
    # loop an index names is not known here: the precondition is taken to hold only if EVERY loop is divisible
    if where is None or isinstance(where, int): return loops
    return None

def _names_of(src):
    return {n.id for n in pyast.walk(pyast.parse(src, mode='eval')) if isinstance(n, pyast.Name)} - {'len', 'max'}

def factor_is_dynamic(rcp, prog) -> bool:
    """is a variable split factor (re)bound by the program itself, so that its value at a loop entry need not be a positive integer?"""
    st = rcp.strict
    if not st: return False
    fs = ([st['factor']] if st.get('kind') == 'split' and not isinstance(st.get('factor'), int) else []) + st.get('factors', [])
    pn = set(prog.get('pnames') or [])
    asg = prog.get('assigned')
    # every name the program text binds anywhere (assignment, for / comprehension / enumerate / tuple targets, with-as): a factor
    # variable that is rebound -- e.g. `for k in zs:` with k = 0.75 -- is not a positive integer at the next loop
    if asg is not None and prog.get('src'):
        try:
            asg = set(asg) | {n.id for n in pyast.walk(pyast.parse(prog['src'])) if isinstance(n, pyast.Name) and isinstance(n.ctx, pyast.Store)}
        except SyntaxError:
            pass
    for f in fs:
        names = _names_of(f)
        if prog.get('pre') or asg is None or not names <= pn or names & set(asg): return True
    return False

def error_allowed(rcp, prog, args, got) -> bool:
    """errors of the transformed program that a documented precondition of the strategy explains"""
    if got == 'err AssertionError' and assertion_allowed(rcp, prog, args): return True
    if got in ('err AssertionError', 'err ValueError', 'err TypeError', 'err NotImplementedError') and factor_is_dynamic(rcp, prog): return True
    return False

def assertion_allowed(rcp, prog, args) -> bool:
    """may the transformed program raise AssertionError on these arguments? (documented preconditions only)"""
    st = rcp.strict
    if st is None: return False
    if st['kind'] == 'unknown': return True
    env = dict(zip(prog.get('pnames') or [], args))
    env.update({'len': len, 'max': max, 'min': min, 'int': int})
    need_div = True
    if st['kind'] == 'for': k = st['k']
    else:
        f = st['factor']
        if isinstance(f, int): k = f
        else:
            names = {n.id for n in pyast.walk(pyast.parse(f, mode='eval')) if isinstance(n, pyast.Name)} - {'len', 'max'}
            if not names <= set(prog.get('pnames') or []) or names & set(prog.get('assigned') or prog.get('pnames') or []):
                return True           # the factor is (re)computed by the program: its value at the loop is not known here
            try: k = eval(f, {'__builtins__': {}}, env)
            except Exception: return True
            if not (isinstance(k, (int, float)) and k == int(k)): return True
            k = int(k)
            if k < 1: return True     # `assert factor >= 1`
        need_div = st['strict']
    if not need_div: return False
    trips = _selected_trips(prog.get('loops'), st['where'])
    if trips is None: return True
    for t in trips:
        if t is None: return True
        try: n = eval(t, {'__builtins__': {}}, env)
        except Exception: return True
        if n % k != 0: return True
    return False

def _driver(lines, timeout):
    import subprocess
    p = subprocess.run([str(DRV)], input='\n'.join(lines) + '\n', capture_output=True, text=True, timeout=timeout)
    out = p.stdout.split('\n')
    if out and out[-1] == '': out.pop()
    if len(out) != len(lines): raise RuntimeError(f'driver returned {len(out)} lines for {len(lines)} inputs; stderr={p.stderr[-300:]}')
    return out

def safe_driver(lines, count, timeout=40, deadline=None):
    """the compiled model can abort on absurd inputs (a precision of 1e300 -> `Nat.pow exponent is too big`) or take very long
    (fuel is a depth bound, not a step bound): isolate the offending lines instead of losing the batch"""
    import subprocess
    deadline = deadline or time.time() + 90
    if time.time() > deadline:
        count('model-budget-cut', len(lines)); return ['bad-budget'] * len(lines)
    try:
        return _driver(lines, timeout)
    except (RuntimeError, subprocess.TimeoutExpired) as e:
        if len(lines) == 1:
            count('model-timeout' if isinstance(e, subprocess.TimeoutExpired) else 'model-crash'); return ['bad-crash']
        mid = len(lines) // 2
        return safe_driver(lines[:mid], count, max(10, timeout // 2), deadline) + safe_driver(lines[mid:], count, max(10, timeout // 2), deadline)

def exportable(fn, seen=None) -> bool:
    """the Lean evaluator has no module-level data: programs (or callees) that read captured numbers / tuples / lists are not exported"""
    from fpy2.function import Function
    seen = seen if seen is not None else set()
    if id(fn.ast) in seen: return True
    seen.add(id(fn.ast))
    env = fn.ast.env
    for fv in fn.ast.free_vars:
        v = env.get(str(fv)) if str(fv) in env else None
        if isinstance(v, (int, float, tuple, list)) and not isinstance(v, bool): return False
        if isinstance(v, Function) and not exportable(v, seen): return False
    return True

# ====================================================================== worker
_W = {'tmp': None, 'corpus': {}}

CRASHES = (AssertionError, KeyError, AttributeError, NameError, ZeroDivisionError, RecursionError, StopIteration, UnboundLocalError)

def snapshot(fn):
    """(function, name, text) of the program under test and of every FPy function it reaches"""
    from fpy2.function import Function
    out, seen, todo = [], set(), [fn]
    while todo:
        f = todo.pop()
        if id(f.ast) in seen: continue
        seen.add(id(f.ast)); out.append((f, f.ast.name, describe(f)))
        try:
            for _, e in T.walk_exprs(f.ast):
                if isinstance(e, A.Call) and isinstance(e.fn, Function): todo.append(e.fn)
        except Exception:
            pass
    return out

def _load_prog(prog, fresh=False):
    """-> (Function under test, source text shown in a replay)"""
    if prog['src'] is None:
        path = prog['corpus_file']
        if fresh: _W['corpus'].pop(path, None)
        if path not in _W['corpus']:
            _W['n'] = _W.get('n', 0) + 1
            _W['corpus'][path] = load_module(path, 'fpyverif_corpus_' + os.path.basename(path)[:-3] + f"_{os.getpid()}_{_W['n']}")
        fn = getattr(_W['corpus'][path], prog['entry'])
        src = None
    else:
        tmp = _W['tmp'] or tempfile.mkdtemp(prefix='fpyverif_xf_', dir='/var/tmp')
        _W['tmp'] = tmp
        _W['n'] = _W.get('n', 0) + 1
        path = os.path.join(tmp, f"{prog['entry']}_{os.getpid()}_{_W['n']}.py")
        with open(path, 'w') as fh: fh.write(prog['src'])
        mod = load_module(path, f"fpyverif_{prog['entry']}_{os.getpid()}_{_W['n']}")
        fn = getattr(mod, prog['entry'])
        src = prog['src']
    return fn, src

def run_one(task):
    """one program, all its recipes and inputs; returns a picklable summary (never raises)"""
    tr = os.environ.get('VERIF_XTRACE')
    for attempt in (0, 1):
        try:
            if tr:
                with open(tr, 'a') as fh: fh.write(f'start {task[0]["label"]} {os.getpid()} {time.time():.0f}\n')
            r = _run_one(task)
            if tr:
                with open(tr, 'a') as fh: fh.write(f'end {task[0]["label"]} {os.getpid()} {time.time():.0f}\n')
            return r
        except TimeoutError:
            continue     # a stray alarm outside `observe`: run the program again
        except BaseException as e:
            return {'label': task[0]['label'], 'hist': {'worker-error:' + type(e).__name__: 1}, 'violations': [], 'samples': [], 'evals': 0, 'distinct': 0, 'traces': 0, 'hangs': [], 'notes': [],
                    'broken': [('harness', 'worker', f"{task[0]['label']}: " + traceback.format_exc()[-1500:])]}
    return {'label': task[0]['label'], 'hist': {'worker-retry-exhausted': 1}, 'violations': [], 'samples': [], 'evals': 0, 'distinct': 0, 'traces': 0, 'hangs': [], 'notes': [], 'broken': []}

def _run_one(task):
    prog, recipes, opts = task
    out = {'label': prog['label'], 'hist': {}, 'violations': [], 'broken': [], 'samples': [], 'evals': 0, 'distinct': 0, 'traces': 0, 'hangs': [], 'notes': []}
    H = out['hist']
    def count(k, n=1): H[k] = H.get(k, 0) + n
    t_start = time.time(); c_start = time.process_time()
    _W['tmp'] = opts.get('tmpdir') or _W['tmp']
    try:
        fn0, src = _load_prog(prog)
    except Exception as e:
        count('frontend-rejected'); count(f'frontend-rejected:{type(e).__name__}')
        return out
    count('programs')
    fn = fn0
    if prog.get('pre'):
        try:
            fn = with_timeout(lambda: make_recipe(prog['pre'])(fn0), 20)
        except BaseException as e:
            count(f'pre-declined:{type(e).__name__}'); return out
        if fn.ast.is_equiv(fn0.ast):
            count('pre-unchanged'); return out
    inputs = []
    for a in prog['args']:
        try: inputs.append((a, tuple(eval(a, {'fp': fp}))))
        except Exception: count('bad-args')
    ctxs = [(cs, None if cs is None else eval(cs, {'fp': fp})) for cs in (prog.get('ctxs') or [None])]
    base = {}; slow = set()
    def baseline(akey, args, cs, ctx):
        k = (akey, cs)
        if k not in base:
            t0 = time.process_time()
            base[k] = observe(fn, args, ctx)
            if time.process_time() - t0 > opts.get('slow_s', 0.5) and not base[k][0].startswith('timeout'):
                slow.add(akey); count('slow-input-dropped')
            r = base[k][0]
            count('orig:' + ('ok' if r.startswith('ok') else r.split()[1] if ' ' in r else r))
        return base[k]
    seen_xf = {}
    fn_text = describe(fn)
    cls = opts.get('classify')
    def run_classify(d, f, x):
        if not cls: return None
        try: return cls(d, f, x)
        except Exception as e:
            out['notes'].append(f'classifier failed: {e!r}'); return None
    def violation_dict(rname, akey, cs, want, got, wpost, gpost, xtext):
        return {'program': prog['label'], 'entry': prog['entry'], 'pre': prog.get('pre'), 'strategy': rname, 'args': akey, 'ctx': cs,
                'original_result': want, 'transformed_result': got, 'original_lists_after': wpost, 'transformed_lists_after': gpost,
                'original': src or fn_text, 'program_under_test': fn_text if (prog.get('pre') or src is None) else None,
                'corpus_file': prog.get('corpus_file'), 'transformed': xtext, 'axes': prog.get('axes'), 'finding': None}
    state = {'fn': fn, 'snap': snapshot(fn)}
    def check_inputs_intact(rname):
        """a strategy must leave its input (the function and every helper it calls) as it found it"""
        nonlocal fn, fn_text
        changed = [n for (f, n, t) in state['snap'] if describe(f) != t]
        if not changed: return False
        count('violation:input-mutated')
        f0, n0, t0 = next(x for x in state['snap'] if x[1] == changed[0])
        akey, args = inputs[0] if inputs else ('()', ())
        got = observe(fn, args, None)[0] if inputs else '?'
        d = violation_dict(rname, akey, None, 'input program text before the call:\n' + t0, 'after the call:\n' + describe(f0) + f'\n(the original now gives {got[:120]})', '', '', '<the strategy edited its INPUT in place>')
        d['finding'] = run_classify(d, fn, None)
        out['violations'].append((f'{rname}: the strategy changed its input: function `{changed[0]}` reads differently after the call', d))
        # continue with a pristine copy of the program
        prog2 = dict(prog); prog2['entry_suffix'] = f'_r{len(out["violations"])}'
        try:
            f1, _ = _load_prog(prog, fresh=True)
            if prog.get('pre'): f1 = make_recipe(prog['pre'])(f1)
            fn = f1; fn_text = describe(fn); state['snap'] = snapshot(fn); base.clear()
        except Exception:
            pass
        return True
    lines, meta = [], []
    budget = opts.get('prog_budget', 90)
    for rname in recipes:
        if time.process_time() - c_start > budget:
            count('program-budget-cut'); break
        try:
            rcp = make_recipe(rname)
        except Exception as e:
            out['broken'].append(('harness', 'recipe', f'{rname}: {e!r}')); continue
        short = rname.split('(')[0]
        try:
            xf = with_timeout(lambda: rcp(fn), 20)
        except StrategyTimeout:
            count(f'strategy-timeout:{short}')
            out['hangs'].append({'program': prog['label'], 'strategy': rname, 'source': src or fn_text})
            continue
        except BaseException as e:   # the strategy declined / does not apply
            count(f'declined:{short}:{type(e).__name__}')
            if isinstance(e, CRASHES) or type(e).__name__ == 'FPySyntaxError':    # ... or it produced an ill-formed program
                # an internal error is not a refusal: the original returns, the transformation produces nothing
                k0 = next((k for k in base if base[k][0].startswith('ok')), None)
                if k0 is None and inputs:
                    baseline(inputs[0][0], inputs[0][1], None, None); k0 = next((k for k in base if base[k][0].startswith('ok')), None)
                if k0 is not None:
                    d = violation_dict(rname, k0[0], k0[1], base[k0][0], f'strategy raised {type(e).__name__}: {str(e)[:200]}', base[k0][1], '', '<none: the strategy crashed>')
                    d['finding'] = run_classify(d, fn, None)
                    out['violations'].append((f'{rname}: the strategy raised {type(e).__name__} (an internal error, not a refusal) on a program that returns', d))
                    count('violation:crash:' + short)
            if check_inputs_intact(rname): continue
            continue
        count('applied:' + short)
        if check_inputs_intact(rname): continue
        try:
            changed = not xf.ast.is_equiv(fn.ast)
        except Exception:
            changed = True
        if rcp.mono_ctx is not None and xf.ast.ctx is not fn.ast.ctx: changed = True
        count(('changed:' if changed else 'unchanged:') + short)
        if not changed: continue
        xtext = describe(xf) + (f'#mono={rcp.mono_ctx}' if rcp.mono_ctx is not None else '') + (f'#strict={rcp.strict}' if rcp.strict else '')
        if xtext in seen_xf:
            count('duplicate-output:' + short); continue
        if len(xtext) > opts.get('max_output_chars', 40000):
            count('skipped-huge-output:' + short); continue      # nested compositions can blow the text up; running it only measures compile time
        seen_xf[xtext] = rname
        if len(out['samples']) < 1 and opts.get('want_samples'):
            out['samples'].append({'program': prog['label'], 'strategy': rname, 'original': fn_text, 'transformed': describe(xf)})
        entry = eprog = None
        if opts.get('export', True) and prog.get('export', True) and exportable(xf):
            try:
                entry, eprog = export_program(xf)
            except Unsupported as e:
                count('export-unsupported:' + str(e)[:40])
            except Exception as e:
                count('export-error:' + type(e).__name__)
        use_inputs = inputs if opts.get('all_inputs') else select_inputs(inputs, rname, opts)
        n_lines = 0
        for ai, (akey, args) in enumerate(use_inputs):
            if akey in slow: continue
            use_ctxs = ctxs if rcp.mono_ctx is None else [(None, None)]
            if len(use_ctxs) > 1 and opts.get('ctx_every') and ai % opts['ctx_every'] != 1: use_ctxs = use_ctxs[:1]
            for cs, ctx in use_ctxs:
                if rcp.mono_ctx is not None:
                    want, wpost = baseline(akey, args, f'mono:{rcp.mono_ctx}', rcp.mono_ctx)
                else:
                    want, wpost = baseline(akey, args, cs, ctx)
                if want.startswith('timeout'):
                    slow.add(akey); count('timeout:original'); continue
                if akey in slow: continue
                got, gpost = observe(xf, args, ctx)
                out['evals'] += 1; out['distinct'] += 1
                if got.startswith('timeout'):
                    # confirm with a generous limit before calling it a hang (the machine may be busy)
                    w2, _ = observe(fn, args, rcp.mono_ctx if rcp.mono_ctx is not None else ctx, 8)
                    if w2.startswith('ok'):
                        got, gpost = observe(xf, args, ctx, 30)
                        count('timeout:transformed-confirmed' if got.startswith('timeout') else 'timeout:transformed-slow')
                    else:
                        count('timeout:both'); continue
                if want.startswith('ok'):
                    bad = (got != want) or (gpost != wpost)
                    if bad and got.startswith('err') and error_allowed(rcp, prog, args, got):
                        count('precondition-error:' + short); bad = False
                    if bad:
                        d = violation_dict(rname, akey, cs, want, got, wpost, gpost, describe(xf))
                        d['finding'] = run_classify(d, fn, xf)
                        what = f'{rname}: original returns {want[:80]} but the transformed program gives {got[:80]}'
                        if got == want: what = f'{rname}: same value but the list arguments end as {gpost[:80]} instead of {wpost[:80]}'
                        out['violations'].append((what, d))
                        count('violation:' + short)
                else:
                    count('orig-raises' + (':transformed-differs' if got != want else ':same'))
                if eprog is not None and not got.startswith(('unsupported', 'timeout')) and n_lines < opts.get('max_traces', 10**9):
                    try:
                        lines.append(eval_line(entry, eprog, args, ctx, fuel=opts.get('fuel', 100000)))
                        meta.append((rname, akey, cs, got, xf)); n_lines += 1
                    except Unsupported as e:
                        count('export-unsupported-value')
                    except Exception as e:
                        count('export-error:' + type(e).__name__)
    if lines:
        try:
            model = safe_driver(lines, count)
            out['traces'] = len(lines)
            for line, (rname, akey, cs, got, xf), m in zip(lines, meta, model):
                if m.startswith('bad-'):
                    count('model-unsupported'); continue
                if 'OutOfFuel' in m:
                    count('model-out-of-fuel'); continue
                if got == 'err ValueError' and m.startswith('ok') and len(m) > 1500:
                    # model gap, stated in the trusted base: the interpreter (MPFR) refuses an absurd computed precision with ValueError,
                    # the Lean evaluator has unbounded precision and returns a number with thousands of digits -- counted, not judged
                    count('model-gap:huge-precision-refused-by-mpfr'); continue
                if m != got and not (m == 'err Unbound' and got in ('err KeyError', 'err Unbound', 'err NameError')):   # the interpreter reports an unbound name as KeyError
                    # (the report keeps the LAST 3000 characters: the verdict goes last, the bulky parts first and clipped)
                    out['broken'].append(('correspondence', f"{opts.get('prop')}.eval-transformed",
                                          f"line={line[:600]}...\n{describe(xf)[:1400]}\nprogram={prog['label']} strategy={rname}\nargs={akey[:300]} ctx={cs}\nimpl ={got[:400]}\nmodel={m[:400]}"))
        except Exception as e:
            out['broken'].append(('harness', 'driver', repr(e)[:500]))
    count('wall-ms', int((time.time() - t_start) * 1000)); count('cpu-ms', int((time.process_time() - c_start) * 1000))
    return out

LOOPY = ('unroll', 'ForUnroll', 'WhileUnroll', 'split', 'SplitLoop', 'fwd', 'seq(unroll', 'seq(split', 'elim_iter', 'repeat(unroll', 'repeat(split')

def select_inputs(inputs, rname, opts):
    """quick tier: loop-restructuring recipes see (almost) every designed length; the others a spread"""
    cap = opts.get('inputs_cap')
    if cap is None or len(inputs) <= cap: return inputs
    h = sum(map(ord, rname))
    if rname.startswith(LOOPY):
        drop = set(opts.get('loop_inputs_drop') or ())
        if not drop: return inputs
        # one of the dropped inputs comes back per recipe, so that over the recipes of a program every input is used
        keep_back = sorted(drop)[h % len(drop)]
        return [x for i, x in enumerate(inputs) if i not in drop or i == keep_back]
    idx = sorted({(h + i * 3) % len(inputs) for i in range(cap)} | {len(inputs) - 1, 2 % len(inputs)})
    return [inputs[i] for i in idx[:cap + 1]]

# ====================================================================== driver of a whole run
def corpus_progs(corpus_file, R, n_random=4, lengths=None, ctxs=(None,)):
    path = os.path.join(os.path.dirname(os.path.abspath(__file__)), 'corpus', corpus_file)
    corp = load_module(path, 'fpyverif_corpus_parent_' + corpus_file[:-3])
    meta = getattr(corp, 'META', {})
    out = []
    for f in corp.ALL:
        m = meta.get(f.ast.name, {})
        kinds = m.get('kinds') or arg_kinds(f)
        args = xgen.design_args(R, kinds, m.get('quadratic', True), lengths) + xgen.random_args(R, kinds, n_random)
        out.append({'label': 'corpus:' + f.ast.name, 'entry': f.ast.name, 'src': None, 'corpus_file': path, 'args': args + m.get('args', []), 'kinds': kinds,
                    'pnames': [str(a.name) for a in f.ast.args], 'loops': m.get('loops'), 'assigned': m.get('assigned'), 'factors': m.get('factors', []),
                    'ctxs': (m.get('ctxs') or list(ctxs)) if f.ast.ctx is None else [None], 'pinned': f.ast.ctx is not None, 'axes': None, 'pre': None, 'helpers': []})
    return out

_TASKS = []

def _pool_worker(tq, rq):
    signal.signal(signal.SIGINT, signal.SIG_IGN)
    while True:
        i = tq.get()
        if i is None: break
        rq.put(('start', i, os.getpid()))
        rq.put(('done', i, run_one(_TASKS[i])))

def run_pool(tasks, nproc, deadline, rep):
    """fork workers over the tasks; a worker that dies (the interpreter's GMP backend aborts the process on an absurd precision)
    loses only the program it was running, which is counted, and is replaced"""
    global _TASKS
    _TASKS = tasks
    ctx = mp.get_context('fork')
    tq, rq = ctx.Queue(), ctx.Queue()
    for i in range(len(tasks)): tq.put(i)
    for _ in range(nproc): tq.put(None)
    procs = {}
    def spawn():
        p = ctx.Process(target=_pool_worker, args=(tq, rq), daemon=True); p.start(); procs[p.pid] = p
    for _ in range(nproc): spawn()
    running, results, finished = {}, [], 0      # pid -> task index
    import queue as _q
    while finished < len(tasks):
        if time.time() > deadline:
            rep.notes.append(f'time budget reached after {finished} of {len(tasks)} programs; the rest were not run')
            rep.count('budget-cut-programs', len(tasks) - finished); break
        try:
            kind, i, payload = rq.get(timeout=1.0)
            if kind == 'start': running[payload] = i
            else:
                results.append(payload); finished += 1
                for pid, j in list(running.items()):
                    if j == i: del running[pid]
            continue
        except _q.Empty:
            pass
        for pid, p in list(procs.items()):
            if not p.is_alive():
                del procs[pid]
                if pid in running:
                    i = running.pop(pid); finished += 1
                    rep.count('worker-died'); rep.count('worker-died:' + tasks[i][0]['label'].split(':')[0])
                    if len(rep.notes) < 12: rep.notes.append(f"the worker running {tasks[i][0]['label']} died (exit code {p.exitcode}); the program is skipped")
                    spawn()
        if not procs and finished < len(tasks):
            spawn()
    for p in procs.values():
        if p.is_alive(): p.terminate()
    _TASKS = []
    return results

def run_xforms(rep, tier, seed, prop, progs, recipes_for, classify=None, opts=None):
    """progs: list of program dicts; recipes_for(prog, R) -> list of recipe strings"""
    opts = dict(opts or {})
    tmpdir = tempfile.mkdtemp(prefix=f'fpyverif_{prop}_', dir='/var/tmp')
    opts.update(prop=prop, classify=classify, tmpdir=tmpdir)
    tasks = []
    for i, p in enumerate(progs):
        R = Prng(seed, f"{prop}:recipes:{p['label']}:{p.get('pre')}")
        rs = recipes_for(p, R)
        o = dict(opts); o['want_samples'] = i % 97 == 0
        tasks.append((p, rs, o))
    deadline = time.time() + opts.get('deadline_s', 10**9)
    results = run_pool(tasks, min(NPROC, max(1, len(tasks))), deadline, rep)
    shutil.rmtree(tmpdir, ignore_errors=True)
    results.sort(key=lambda r: r['label'])
    hangs = rep.cov.setdefault('strategy_hangs', [])
    for r in results:
        for k, v in r['hist'].items(): rep.count(k, v)
        for what, d in r['violations']: rep.violation(what, d)
        for kind, name, detail in r['broken']: rep.broke(kind, name, detail)
        for s in r['samples']: rep.sample(s, cap=6)
        rep.cov['evaluations'] += r['evals']
        rep.cov['traces_model_vs_impl'] = rep.cov.get('traces_model_vs_impl', 0) + r['traces']
        for i in range(r['distinct']): rep.distinct.add((r['label'], i))
        hangs.extend(r['hangs'][:2])
        for n in r['notes'][:2]:
            if len(rep.notes) < 12: rep.notes.append(n)
    rep.cov['programs'] = rep.hist.get('programs', 0)
    for h in hangs[:10]:
        if len(rep.notes) < 12: rep.notes.append(f"strategy {h['strategy']} did not finish within 20 s on {h['program']}")
    del hangs[20:]
    return results

def summarize_cov(rep, gen_stats):
    """input distribution for the evidence file"""
    H = rep.hist
    def grp(prefix): return {k[len(prefix):]: v for k, v in sorted(H.items()) if k.startswith(prefix)}
    rep.cov['generator'] = {k: v for k, v in sorted(gen_stats.items())}
    rep.cov['recipes'] = {'applied': grp('applied:'), 'changed': grp('changed:'), 'unchanged': grp('unchanged:'), 'declined': grp('declined:'),
                          'duplicate_output': grp('duplicate-output:'), 'precondition_error': grp('precondition-error:')}
    rep.cov['original_outcomes'] = grp('orig:')

# ====================================================================== replay
def replay(rep, data, prop, classify=None):
    """re-run the violations of a replay file against the current tree; exit 1 if any still fails"""
    tmp = tempfile.mkdtemp(prefix='fpyverif_replay_', dir='/var/tmp')
    still = 0
    try:
        for i, v in enumerate(data.get('violations', [])):
            try:
                if v.get('corpus_file'):
                    fn = getattr(load_module(v['corpus_file'], f'fpyverif_replay_corpus_{i}'), v['entry'])
                else:
                    path = os.path.join(tmp, f'r{i}.py')
                    with open(path, 'w') as fh: fh.write(v['original'])
                    fn = getattr(load_module(path, f'fpyverif_replay_{i}'), v['entry'])
                if v.get('pre'): fn = make_recipe(v['pre'])(fn)
                rcp = make_recipe(v['strategy'])
                xf = rcp(fn)
                args = tuple(eval(v['args'], {'fp': fp}))
                ctx = None if v.get('ctx') is None else eval(v['ctx'], {'fp': fp})
                want, wpost = observe(fn, args, rcp.mono_ctx if rcp.mono_ctx is not None else ctx, 20)
                got, gpost = observe(xf, args, None if rcp.mono_ctx is not None else ctx, 60)
                bad = want.startswith('ok') and (got != want or gpost != wpost)
                print(f"[{i}] {v['program']} {v['strategy']} args={v['args'][:100]} ctx={v.get('ctx')}\n     original   : {want[:200]}\n     transformed: {got[:200]}\n     -> {'STILL FAILS' if bad else 'agrees now'}")
                still += bad
            except Exception as e:
                print(f'[{i}] could not be replayed: {e!r}')
    finally:
        shutil.rmtree(tmp, ignore_errors=True)
    print(f'{still} of {len(data.get("violations", []))} recorded violation(s) still fail')
    sys.exit(1 if still else 0)
