"""
Shared runner for the transformation properties (C07, C08, C09):
apply real strategies to corpus + generated programs, then
 (1) property verdict (Spec oracle = the real interpreter on the ORIGINAL program): wherever the original
     returns a value, the transformed program must return the same value (structurally, sign of zero);
 (2) correspondence: the transformed AST is exported to the Lean evaluator and must behave like the real
     interpreter on the transformed program (ties the model semantics to what the transforms emit).
"""
from __future__ import annotations
import importlib.util, os, shutil, sys, traceback, copy
from proggen import *   # noqa
from langexport import export_program, eval_line, run_real, Unsupported
import fpy2 as fp
from fpy2.ast import fpyast as A

REALS = [1.5, -2.25, 0.1, 3.0, 100.0, -0.0, 0.0, float('inf'), float('nan'), 1e300, -7.0, 0.3, 2.0 ** -30, 5, 200.0, 1.0]

def load_module(path, name):
    spec = importlib.util.spec_from_file_location(name, path)
    mod = importlib.util.module_from_spec(spec)
    sys.modules[name] = mod
    spec.loader.exec_module(mod)
    return mod

def arg_kinds(fn):
    out = []
    for a in fn.ast.args:
        t = a.type
        if isinstance(t, A.ListTypeAnn): out.append('L')
        elif isinstance(t, A.BoolTypeAnn): out.append('B')
        else: out.append('R')
    return out

def gen_inputs(R, kinds, n, maxlen=5):
    ins = []
    for i in range(n):
        args = []
        for k in kinds:
            if k == 'L':
                ln = i if i <= maxlen and R.random() < 0.7 else R.randint(0, maxlen)
                args.append([R.choice(REALS) for _ in range(ln)])
            elif k == 'B': args.append(R.random() < 0.5)
            else: args.append(R.choice(REALS))
        ins.append(tuple(args))
    return ins

def describe(fn):
    try: return fn.format()
    except Exception: return '<unprintable>'

class StrategyTimeout(Exception):
    pass

def with_timeout(thunk, seconds):
    import signal
    def on_alarm(signum, frame): raise StrategyTimeout()
    old = signal.signal(signal.SIGALRM, on_alarm)
    signal.alarm(seconds)
    try:
        return thunk()
    finally:
        signal.alarm(0); signal.signal(signal.SIGALRM, old)

def run_xforms(rep, tier, seed, prop, corpus_file, recipes, gen_programs, n_inputs, call_ctxs=(None,), classify=None):
    """recipes: list of (name, function(Function, R) -> Function); may raise to decline"""
    R = Prng(seed, prop)
    progs = []   # (label, Function, source)
    corp = load_module(os.path.join(os.path.dirname(__file__), 'corpus', corpus_file), f'fpyverif_{prop}_corpus')
    for f in corp.ALL:
        progs.append(('corpus:' + f.ast.name, f, None))
    tmp = tempfile.mkdtemp(prefix=f'fpyverif_{prop}_', dir='/var/tmp')
    try:
        G = Gen(R)
        for pi in range(gen_programs):
            funcs = G.program(pi)
            path = os.path.join(tmp, f'p{pi}.py')
            with open(path, 'w') as fh:
                fh.write('import fpy2 as fp\n\n' + '\n'.join(src_func(f, annotate=True) for f in funcs))
            try:
                mod = load_module(path, f'fpyverif_{prop}_{seed}_p{pi}')
            except Exception as e:
                rep.count('frontend-rejected'); continue
            progs.append((f'gen:p{pi}', getattr(mod, funcs[-1]['name']), open(path).read()))
        lines, meta = [], []
        hangs = rep.cov.setdefault('strategy_hangs', [])
        for label, fn, src in progs:
            kinds = arg_kinds(fn)
            inputs = gen_inputs(R, kinds, n_inputs)
            base = {}
            for name, recipe in recipes:
                try:
                    xf = with_timeout(lambda: recipe(fn, R), 20)
                except StrategyTimeout:
                    rep.count(f'strategy-timeout:{name}')
                    rep.notes.append(f'strategy {name} did not finish within 20 s on {label}') if len(rep.notes) < 10 else None
                    hangs.append({'program': label, 'strategy': name, 'source': src or describe(fn)})
                    continue
                except Exception as e:   # the strategy declined / does not apply
                    rep.count(f'declined:{name}:{type(e).__name__}')
                    continue
                if xf is None: continue
                rep.count('applied:' + name)
                changed = not xf.ast.is_equiv(fn.ast)
                rep.count('changed:' + name if changed else 'unchanged:' + name)
                rep.cov['programs'] = rep.cov.get('programs', 0) + 1
                try:
                    entry, prog = export_program(xf)
                except Unsupported as e:
                    entry = prog = None; rep.count('export-unsupported:' + str(e)[:40])
                except Exception as e:
                    entry = prog = None; rep.count('export-error:' + type(e).__name__)
                for args in inputs:
                    for cs in call_ctxs:
                        ctx = None if cs is None else eval(cs, {'fp': fp})
                        key = (repr(args), cs)
                        if key not in base: base[key] = run_real(fn, args, ctx)
                        want = base[key]
                        if want.startswith('timeout'):
                            rep.count('timeout'); continue
                        got = run_real(xf, args, ctx)
                        rep.cov['evaluations'] += 1
                        rep.distinct.add((label, name, key))
                        if want.startswith('timeout') or got.startswith('timeout'):
                            rep.count('timeout'); continue
                        if want.startswith('ok') and got != want and not (name.endswith('!strict') and got == 'err AssertionError'):
                            d = {'program': label, 'strategy': name, 'args': repr(args), 'ctx': cs, 'original_result': want,
                                 'transformed_result': got, 'original': src or describe(fn), 'transformed': describe(xf), 'finding': None}
                            if classify:
                                d['_fn'] = fn; d['finding'] = classify(d); del d['_fn']
                            rep.violation(f'{name}: original returns {want[:80]} but the transformed program gives {got[:80]}', d)
                        rep.count('orig:' + ('ok' if want.startswith('ok') else want.split()[1] if ' ' in want else want))
                        if prog is not None and not got.startswith('unsupported'):
                            lines.append(eval_line(entry, prog, args, ctx, fuel=100000))
                            meta.append((label, name, args, cs, got, xf))
                if len(rep.cov['samples']) < 3 and changed:
                    rep.sample({'program': label, 'strategy': name, 'original': describe(fn), 'transformed': describe(xf)})
        model = run_driver(lines)
        rep.cov['traces_model_vs_impl'] = len(lines)
        for line, (label, name, args, cs, got, xf), m in zip(lines, meta, model):
            if m.startswith('bad-'):
                rep.count('model-unsupported'); continue
            if m != got:
                rep.broke('correspondence', f'{prop}.eval-transformed',
                          f'program={label} strategy={name}\n{describe(xf)}\nargs={args!r} ctx={cs}\nimpl ={got}\nmodel={m}\nline={line}')
    finally:
        shutil.rmtree(tmp, ignore_errors=True)
