"""C14 — coverage of the analysed code by the check itself.

The anchor files (the format inference, the abstract format arithmetic, and the analyses in the same
family) are measured with `coverage` (branch mode) while the check calls into them; the report lists
every function, every `match` arm and every `if` / `else` / loop-`else` arm of those files whose
first statement was never executed, and every two-way branch of which one way was never taken, so
that a transfer function the generators never reach is visible in the evidence instead of being
discovered by a seeded change.
"""
from __future__ import annotations
import ast, os
from pathlib import Path

ANCHORS = ['fpy2/analysis/format_infer/analysis.py', 'fpy2/analysis/format_infer/format.py',
           'fpy2/analysis/array_size.py', 'fpy2/analysis/value_class.py', 'fpy2/analysis/partial_eval.py']

# why an arm of the transfer-function files is not executed by the check (matched on "function" of the arm);
# an arm without a reason is reported under 'analysis_code_never_executed_unexplained'
WHY_NOT = {
    'NegZero.__repr__': 'printing / comparing the -0 sentinel (no inference rule)', 'NegZero.__str__': 'printing the -0 sentinel',
    'NegZero.__eq__': 'comparing the -0 sentinel with another NegZero instance (there is one instance)', 'Special.__repr__': 'printing a sentinel',
    '_instantiate_real_at_ctx': 'only for a callee analysed from its DECLARED parameter types (tuple-typed / already monomorphised parameters); the checks pin call-site formats',
    '_bound_of_type': 'type-derived bound of a tuple-typed expression with no format rule (foreign call) / unreachable `case _`',
    'is_bottom': 'used by the C++ backend storage selection only, not by the inference',
    '_bottom_of_type': '`empty` of tuples or of non-real elements',
    '_set_as_fraction': 'defensive: raises TypeError for a Special (callers dispatch on it first)',
    'exact_binop': 'defensive: operand without a numeric format (tuple / list / None) or an operator without a set rule',
    'exact_unop': 'defensive: operand without a numeric format, or an operator without a set rule',
    '_int_bounds': 'defensive: unbounded operand (callers return earlier)',
    'exact_logb': 'defensive: operand without a numeric format',
    'exact_exp2': 'defensive guards; the span guard needs an exponent operand ranging over more than 65536 integers',
    'exact_select': 'defensive: operand without a numeric format / no operand',
    'round_is_identity': 'API guards for RoundElim (None arguments); a scope format that is not abstractable does not exist among the stock formats',
    '_join_bounds': 'unreachable `case _` (raises); widening of two SetFormats needs a loop phi that is still a set at the iteration limit',
    '_literal_bound': 'a literal that parses to inf / nan (no such FPy literal syntax)',
    '_has_list_depth': 'indexed store into a list shallower than the store depth through an alias',
    '_format_of_scope': 'dead code: no caller', '_FormatInferInstance._is_real_scope': 'dead code: no caller',
    '_FormatInferInstance._with_region_inserts': 'indexed store through a second name of the same list (alias regions)',
    '_FormatInferInstance._record_region_insert': 'indexed store through a second name of the same list (alias regions) / repeated identical store',
    '_FormatInferInstance._bound_if_fits': 'a scope whose format is not abstractable: no such stock format',
    '_FormatInferInstance._visit_binding': 'defensive: raises on a malformed tuple binding (the type checker rejects it first)',
    '_FormatInferInstance._visit_attribute': 'attribute expression on a foreign value',
    '_FormatInferInstance._visit_unaryop': 'round / cast of an argument without a scalar format (ill-typed)',
    '_FormatInferInstance._sum_bound': 'sum over elements without a scalar format (ill-typed)',
    '_FormatInferInstance._static_dim_size': 'size() of a dimension the list does not have (ill-typed)',
    '_FormatInferInstance._visit_call': 'keyword arguments are resolved to positions by the front end; the kwargs loop is empty',
    '_FormatInferInstance._analyze_callee': 'callee that is not an FPy Function (foreign Python callable)',
    'FormatInfer.analyze': 'API guard: argument is not a FuncDef',
    'AbstractFormat.from_format': 'unreachable `case _` (raises ValueError): every stock Format is abstractable',
    'AbstractFormat._prec_constrains': 'defensive guards; the caller checks finiteness first',
}

_cov = None

def start(repo: Path):
    """begin measuring (no-op when the coverage package is missing)"""
    global _cov
    try:
        import coverage
    except ImportError:
        return False
    _cov = coverage.Coverage(branch=True, include=[str(repo / a) for a in ANCHORS], data_file=None, config_file=False)
    _cov.start()
    return True

def pause():
    if _cov is not None: _cov.stop()

def resume():
    if _cov is not None: _cov.start()

class _Arms(ast.NodeVisitor):
    """(kind, qualified function, line of the first statement of the arm, label)"""
    def __init__(self, src_lines):
        self.out = []; self.stack = []; self.src = src_lines
    def _fn(self): return '.'.join(self.stack) or '<module>'
    def _label(self, line): return self.src[line - 1].strip()[:90]
    def _first(self, body):
        for st in body:
            # a docstring is not a statement the tracer reports
            if isinstance(st, ast.Expr) and isinstance(st.value, ast.Constant) and isinstance(st.value.value, str): continue
            return (st.lineno, getattr(st, 'end_lineno', st.lineno) or st.lineno)
        return None
    def visit_ClassDef(self, n):
        self.stack.append(n.name); self.generic_visit(n); self.stack.pop()
    def visit_FunctionDef(self, n):
        self.stack.append(n.name)
        f = self._first(n.body)
        if f is not None: self.out.append(('function', self._fn(), f, f'def {n.name}'))
        self.generic_visit(n); self.stack.pop()
    visit_AsyncFunctionDef = visit_FunctionDef
    def visit_Match(self, n):
        for c in n.cases:
            f = self._first(c.body)
            if f is not None: self.out.append(('case', self._fn(), f, self._label(c.pattern.lineno)))
        self.generic_visit(n)
    def visit_If(self, n):
        f = self._first(n.body)
        if f is not None: self.out.append(('if-true', self._fn(), f, self._label(n.lineno)))
        if n.orelse and not (len(n.orelse) == 1 and isinstance(n.orelse[0], ast.If)):
            f = self._first(n.orelse)
            if f is not None: self.out.append(('if-else', self._fn(), f, 'else of: ' + self._label(n.lineno)))
        self.generic_visit(n)
    def _loop(self, n):
        f = self._first(n.body)
        if f is not None: self.out.append(('loop-body', self._fn(), f, self._label(n.lineno)))
        self.generic_visit(n)
    visit_For = _loop
    visit_While = _loop

def report(rep, repo: Path, transfer_files=('fpy2/analysis/format_infer/analysis.py', 'fpy2/analysis/format_infer/format.py')):
    """stop measuring; put the percentages and the lists of never-executed arms into rep.cov"""
    global _cov
    if _cov is None:
        rep.cov['analysis_code_coverage'] = 'coverage package not available'
        return
    _cov.stop()
    data = _cov.get_data()
    summary = {}; missing = {}; partial = {}
    tot_arms = tot_hit = 0
    for a in ANCHORS:
        path = str(repo / a)
        src = Path(path).read_text()
        lines = set(data.lines(path) or [])
        arcs = data.arcs(path) or []
        v = _Arms(src.splitlines()); v.visit(ast.parse(src))
        arms = v.out
        def ran(x): return any(l in lines for l in range(x[2][0], x[2][1] + 1))
        hit = [x for x in arms if ran(x)]
        miss = [x for x in arms if not ran(x)]
        # two-way branches of which only one way was taken (needs the arcs): a line with >1 possible exits
        try:
            an = _cov._analyze(path)
            mb = an.missing_branch_arcs()       # {from_line: [to_lines never taken]}
            executed_from = {l for l in mb if l in lines}
            part = sorted(executed_from)
        except Exception:   # noqa
            part = []
        fn_total = sum(1 for x in arms if x[0] == 'function'); fn_hit = sum(1 for x in hit if x[0] == 'function')
        summary[a] = {'arms': len(arms), 'arms_executed': len(hit), 'percent': round(100.0 * len(hit) / max(1, len(arms)), 1),
                      'functions': fn_total, 'functions_executed': fn_hit, 'lines_executed': len(lines),
                      'branch_lines_with_a_way_never_taken': len(part)}
        missing[a] = [f'{k} {fn}:{ln[0]}: {lab}' for (k, fn, ln, lab) in miss]
        partial[a] = [f'{ln}: {src.splitlines()[ln - 1].strip()[:80]}' for ln in part]
        if a in transfer_files:
            tot_arms += len(arms); tot_hit += len(hit)
    rep.cov['analysis_code_coverage'] = summary
    rep.cov['analysis_code_coverage_transfer_functions_percent'] = round(100.0 * tot_hit / max(1, tot_arms), 1)
    rep.cov['analysis_code_never_executed'] = missing
    unexplained = []; explained = {}
    for a in transfer_files:
        for entry in missing.get(a, []):
            fn = entry.split(' ', 1)[1].split(':', 1)[0]
            why = WHY_NOT.get(fn)
            if why is None: unexplained.append(f'{a}: {entry}')
            else: explained.setdefault(why, []).append(entry.split(' ', 1)[1].split(':')[0] + ':' + entry.split(':')[1])
    rep.cov['analysis_code_never_executed_reasons'] = explained
    rep.cov['analysis_code_never_executed_unexplained'] = unexplained
    rep.cov['analysis_code_coverage_note'] = ('value_class.py is not imported by format_infer (0% by construction; it belongs to C13); partial_eval.py is reached '
                                              'through array_size.py only; percentages count functions + match arms + if/else arms + loop bodies whose first '
                                              'statement ran while the check called into the file (coverage ' + __import__('coverage').__version__ + ', branch mode)')
    rep.cov['analysis_code_branches_one_way_only'] = partial
    _cov = None
