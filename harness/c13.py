"""C13 — static analysis facts hold on every execution.

Layer 1 (Lean, proved): value-class transfer functions and the union-find — `Fpy/Props/C13.lean`.
Layer 2 (correspondence): every entry of the real transfer tables / refinement rules / representable
classes vs the Lean model; random union-find op sequences vs the real `Unionfind`.
Layer 3 (RUNTIME MONITORING, not proof): the real analyses are run on generated + hand-written programs,
the programs are executed by a tracing subclass of the real `BytecodeCompiler`, and every reported
fact is tested against every recorded value.
"""
from __future__ import annotations
import ast as pyast
import importlib.util, os, shutil, sys, tempfile, traceback, itertools, signal
from fractions import Fraction
from proggen import Gen, src_func, CTXS
from numgen import rand_ctx, add_substitutes
from numcanon import ctx_tok, ctx_obj, fv_tok
from common import Prng, run_driver
import fpy2 as fp
from fpy2 import Float, RealFloat
from fpy2.number import Context
from fpy2.ast import fpyast as A
from fpy2.interpret.byte import BytecodeCompiler
from fpy2.interpret import get_default_interpreter
from fpy2.interpret.value import to_value, Foreign
from fpy2.types import RealType, BoolType, ContextType, TupleType, ListType, VarType, FunctionType
from fpy2.utils import Unionfind, NamedId, UNINIT
from fpy2.analysis import (DefineUse, TypeInfer, ArraySizeInfer, ValueClassInfer, PartialEval, Alias, ContextUse, Purity)
from fpy2.analysis.reaching_defs import AssignDef, PhiDef
from fpy2.analysis.array_size import ListSize, TupleSize, is_size_eq
from fpy2.analysis import value_class as VCM

PROP = 'C13'
LEVEL = 'proof'

NANV, INFV, ZEROV, FINV = 1, 2, 4, 8
assert (VCM.ValueClass.NAN.value, VCM.ValueClass.INF.value, VCM.ValueClass.ZERO.value, VCM.ValueClass.FINITE.value) == (1, 2, 4, 8)

# ------------------------------------------------------------------------------------------------
# independent oracles (Spec side of layer 3)

def my_class(v):
    """the value class of a run-time number, by this harness's own reading of the four classes"""
    if isinstance(v, bool): return None
    if isinstance(v, Float):
        if v.isnan: return NANV
        if v.isinf: return INFV
        return ZEROV if v.c == 0 else FINV
    if isinstance(v, RealFloat): return ZEROV if v.c == 0 else FINV
    if isinstance(v, (Fraction, int)): return ZEROV if v == 0 else FINV
    return None

def num_key(v):
    """identity of a number as a constant: class, sign (also of zeros), exact value"""
    if isinstance(v, Float):
        if v.isnan: return ('nan',)
        if v.isinf: return ('inf', bool(v.s))
        if v.c == 0: return ('zero', bool(v.s))
        return ('fin', Fraction(v.c) * Fraction(2) ** v.exp * (-1 if v.s else 1))
    if isinstance(v, RealFloat):
        if v.c == 0: return ('zero', bool(v.s))
        return ('fin', Fraction(v.c) * Fraction(2) ** v.exp * (-1 if v.s else 1))
    if isinstance(v, (Fraction, int)) and not isinstance(v, bool):
        return ('zero', False) if v == 0 else ('fin', Fraction(v))
    return None

def same_const(reported, observed) -> bool:
    if isinstance(reported, bool) or isinstance(observed, bool):
        return isinstance(reported, bool) and isinstance(observed, bool) and reported == observed
    kr, ko = num_key(reported), num_key(observed)
    if kr is not None or ko is not None: return kr == ko
    if isinstance(reported, (list, tuple)):
        return type(reported) is type(observed) and len(reported) == len(observed) and all(same_const(a, b) for a, b in zip(reported, observed))
    if isinstance(reported, Foreign):
        return isinstance(observed, Foreign) and reported.val is observed.val
    try:
        return bool(reported == observed)
    except Exception:
        return False

def shape_ok(v, ty, env=None) -> bool:
    """does the run-time value have the shape of the inferred type?  A list type may carry a length: a concrete one
    must be the list's length; a symbolic one must denote ONE length wherever it occurs inside this type."""
    if env is None: env = {}
    if v is UNINIT: return True   # a cell of `empty(n)` not yet written: no value to have a shape
    if isinstance(ty, RealType): return isinstance(v, (Float, Fraction)) and not isinstance(v, bool)
    if isinstance(ty, BoolType): return isinstance(v, bool)
    if isinstance(ty, ContextType): return isinstance(v, Context)
    if isinstance(ty, TupleType):
        return isinstance(v, tuple) and len(v) == len(ty.elts) and all(shape_ok(x, t, env) for x, t in zip(v, ty.elts))
    if isinstance(ty, ListType):
        if not isinstance(v, list): return False
        n = getattr(ty, 'length', None)
        if isinstance(n, int) and not isinstance(n, bool) and len(v) != n: return False
        if isinstance(n, NamedId) and env.setdefault(n, len(v)) != len(v): return False
        return all(shape_ok(x, ty.elt, env) for x in v)
    return True   # type variable / function type / unknown: nothing claimed

def show(v, depth=0):
    if isinstance(v, Float): return 'nan' if v.isnan else (('-' if v.s else '+') + 'inf') if v.isinf else (('-' if v.s else '') + str(Fraction(v.c) * Fraction(2) ** v.exp))
    if isinstance(v, list): return '[' + ', '.join(show(x) for x in v[:6]) + (', …' if len(v) > 6 else '') + ']'
    if isinstance(v, tuple): return '(' + ', '.join(show(x) for x in v) + ')'
    return repr(v)[:60]

# ------------------------------------------------------------------------------------------------
# static facts of one function (the REAL analyses)

class Facts:
    def __init__(self, fn, rep):
        self.fn = fn; self.ast = fn.ast
        self.ok = {}
        def attempt(name, thunk):
            try:
                r = with_alarm(thunk, 10); self.ok[name] = True; rep.count('analysis-ok:' + name); return r
            except RunTimeout:
                self.ok[name] = False; rep.count('analysis-timeout:' + name)
                hangs = rep.cov.setdefault('analysis_hangs', [])
                if len(hangs) < 5: hangs.append({'analysis': name, 'function': fn.ast.name, 'program': source_of(fn)})
                rep.notes.append(f'{name} did not finish within 10 s on {fn.ast.name}')
                return None
            except Exception as e:   # the analysis declines / rejects this program
                self.ok[name] = False; rep.count(f'analysis-declined:{name}:{type(e).__name__}')
                if os.environ.get('VERIF_DEBUG'):
                    rep.notes.append(f'{name} declined {fn.ast.name}: {type(e).__name__}: {str(e)[:120]}') if len(rep.notes) < 20 else None
                return None
        self.du = attempt('DefineUse', lambda: DefineUse.analyze(self.ast))
        self.ti = attempt('TypeInfer', lambda: TypeInfer.check(self.ast, def_use=self.du)) if self.du else None
        self.pe = attempt('PartialEval', lambda: PartialEval.apply(self.ast, def_use=self.du)) if self.du else None
        self.asz = attempt('ArraySizeInfer', lambda: ArraySizeInfer.analyze(self.ast, partial_eval=self.pe, type_info=self.ti)) if (self.pe and self.ti) else None
        self.cu = attempt('ContextUse', lambda: ContextUse.analyze(self.ast, def_use=self.du, partial_eval=self.pe)) if self.pe else None
        self.vc = attempt('ValueClassInfer', lambda: ValueClassInfer.analyze(self.ast, def_use=self.du, type_info=self.ti, ctx_use=self.cu)) if (self.ti and self.cu) else None
        self.al = attempt('Alias', lambda: Alias.analyze(self.ast, self.du, self.ti)) if self.ti else None
        self.pure = attempt('Purity', lambda: Purity.analyze(self.ast, self.du)) if self.du else None
        self._closure = {}

    def closure(self, d):
        """the assignments a definition may stand for: itself, or (phi) the closure of its operands"""
        k = id(d)
        if k in self._closure: return self._closure[k]
        out, seen, stack = set(), set(), [d]
        while stack:
            x = stack.pop()
            if id(x) in seen: continue
            seen.add(id(x))
            if isinstance(x, AssignDef): out.add(id(x))
            else:
                stack.append(self.du.defs[x.lhs]); stack.append(self.du.defs[x.rhs])
        self._closure[k] = out
        return out

class RunTimeout(BaseException):
    """raised by the alarm; a BaseException so that no `except Exception` (here or in the interpreter) swallows it"""

def with_alarm(thunk, seconds):
    def on_alarm(signum, frame): raise RunTimeout()
    old = signal.signal(signal.SIGALRM, on_alarm); signal.alarm(seconds)
    try: return thunk()
    finally:
        signal.alarm(0); signal.signal(signal.SIGALRM, old)

def source_of(fn):
    try: return fn.ast.format()
    except Exception: return fn.ast.name

def carries_list(ty) -> bool:
    if isinstance(ty, ListType): return True
    if isinstance(ty, TupleType): return any(carries_list(t) for t in ty.elts)
    return False

# ------------------------------------------------------------------------------------------------
# tracing subclass of the real bytecode compiler

def _call(name, *args):
    return pyast.Call(func=pyast.Name(id=name, ctx=pyast.Load()), args=list(args), keywords=[])

class TracingCompiler(BytecodeCompiler):
    """the real compiler, with every expression wrapped in a recorder, a hook before every statement,
    and a definition event after every binding"""
    def __init__(self, func, env, tracer):
        super().__init__(func, env)
        self.tr = tracer
        self.foreign_vals.update({'__c13_e': tracer.on_expr, '__c13_s': tracer.on_stmt, '__c13_d': tracer.on_def,
                                  '__c13_ce': tracer.comp_enter, '__c13_cx': tracer.comp_exit, '__c13_cb': tracer.comp_bind})

    def _visit_expr(self, e, ctx):
        if isinstance(e, A.ListComp):
            py = self._comp(e, ctx)
        else:
            py = super()._visit_expr(e, ctx)
        k = self.tr.expr_key(e)
        return _call('__c13_e', pyast.Constant(value=k), py, pyast.Name(id='__ctx__', ctx=pyast.Load()))

    def _comp(self, e, ctx):
        k = self.tr.expr_key(e)
        targets = [self._visit_target(t) for t in e.targets]
        iterables = [self._visit_expr(it, ctx) for it in e.iterables]
        gens = [pyast.comprehension(target=t, iter=it, ifs=[_call('__c13_cb', pyast.Constant(value=k), pyast.Constant(value=i))], is_async=0)
                for i, (t, it) in enumerate(zip(targets, iterables))]
        elt = self._visit_expr(e.elt, ctx)
        comp = pyast.ListComp(elt=elt, generators=gens)
        return _call('__c13_cx', pyast.Constant(value=k), _call('__c13_ce', pyast.Constant(value=k)), comp)

    def _visit_block(self, block, ctx):
        out = []
        for stmt in block.stmts:
            k = self.tr.stmt_key(stmt)
            out.append(pyast.Expr(value=_call('__c13_s', pyast.Constant(value=k), _call('locals'))))
            py = self._visit_statement(stmt, ctx)
            if isinstance(stmt, A.ForStmt):
                py.body.insert(0, pyast.Expr(value=_call('__c13_d', pyast.Constant(value=k))))
            elif isinstance(stmt, A.ContextStmt):
                py.body.insert(3, pyast.Expr(value=_call('__c13_d', pyast.Constant(value=k))))
            out.append(py)
            if isinstance(stmt, (A.Assign, A.IndexedAssign)):
                out.append(pyast.Expr(value=_call('__c13_d', pyast.Constant(value=k))))
        return out

    def _visit_function(self, func, ctx):
        f = super()._visit_function(func, ctx)
        f.body.insert(0, pyast.Expr(value=_call('__c13_d', pyast.Constant(value=-1))))
        pyast.fix_missing_locations(f)
        return f


class Tracer:
    """records and judges: every check is made at the moment the value is observed"""
    def __init__(self, facts: Facts, rep, source, label, alias_check=True):
        self.F = facts; self.rep = rep; self.source = source; self.label = label
        self.alias_check = alias_check
        self.exprs = []; self.ekey = {}
        self.stmts = []; self.skey = {}
        self.in_comp = set()          # expression keys lying inside a comprehension's element
        self.while_conds = set()
        self.args = None
        self.seen_viol = set()
        self.pyfn = None
        self.wheres = {}
        self.swheres = {}
        self.cnt = {}
        self._index(self.F.ast)

    # ----- indexing the AST
    def expr_key(self, e):
        k = self.ekey.get(id(e))
        if k is None:
            k = len(self.exprs); self.exprs.append(e); self.ekey[id(e)] = k
        return k
    def stmt_key(self, s):
        k = self.skey.get(id(s))
        if k is None:
            k = len(self.stmts); self.stmts.append(s); self.skey[id(s)] = k
        return k
    def _index(self, func):
        tr = self
        class V(fp.ast.DefaultVisitor):
            def __init__(self): self.depth = 0
            def _visit_expr(self, e, ctx):
                k = tr.expr_key(e)
                if self.depth: tr.in_comp.add(k)
                return super()._visit_expr(e, ctx)
            def _visit_list_comp(self, e, ctx):
                for it in e.iterables: self._visit_expr(it, ctx)
                self.depth += 1
                self._visit_expr(e.elt, ctx)
                self.depth -= 1
            def _visit_while(self, stmt, ctx):
                tr.while_conds.add(tr.expr_key(stmt.cond))
                return super()._visit_while(stmt, ctx)
            def _visit_statement(self, stmt, ctx):
                tr.stmt_key(stmt)
                return super()._visit_statement(stmt, ctx)
        try:
            V()._visit_function(func, None)
        except Exception:
            pass

    # ----- run-time state
    def reset(self, args):
        self.args = args
        self.tags = {}            # name -> AssignDef currently bound (by the most recent definition event)
        self.saved = []           # comprehension scopes
        self.sizes = {}           # size variable -> (length, where) at this instant
        self.pending = []
        self.last_expr = None
        self.budget = 20000

    def count(self, k, n=1):
        c = self.cnt; c[k] = c.get(k, 0) + n      # flushed into the report by `flush_counts`
    def flush_counts(self):
        for k, n in self.cnt.items(): self.rep.count(k, n)
        self.cnt = {}

    def violate(self, analysis, what, fact, observed, where, finding=None, force=False):
        key = (analysis, what, where)
        self.count('violations:' + analysis)
        if key in self.seen_viol: return
        if finding is None: finding = classify(analysis, what, fact, observed, self)
        if analysis == 'ArraySizeInfer' and not force:
            # size facts describe executions that complete (an unconditional strict zip / assert constrains the
            # inputs globally): judged once the run has returned normally
            self.pending.append((analysis, what, fact, observed, where, finding)); return
        self.seen_viol.add(key)
        self.rep.violation(f'{analysis}: {what} at `{where}` in {self.label}',
                           {'program': self.source, 'function': self.F.ast.name, 'label': self.label, 'args': show(self.args), 'args_py': repr(self.args), 'analysis': analysis,
                            'fact': str(fact)[:300], 'observed': str(observed)[:300], 'where': where, 'finding': finding})

    def site_def(self, name, site):
        try: return self.F.du.find_def_from_site(name, site)
        except KeyError: return None

    def bind(self, names, site):
        for n in names:
            if isinstance(n, NamedId):
                d = self.site_def(n, site)
                if d is not None: self.tags[str(n)] = d

    # ----- hooks called by the traced program
    def on_def(self, k):
        if self.F.du is None: return
        if k == -1:
            f = self.F.ast
            for a in f.args:
                if isinstance(a.name, NamedId): self.bind([a.name], a)
            self.bind(list(f.free_vars), f)
            return
        s = self.stmts[k]
        if isinstance(s, A.Assign): self.bind(list(s.target.names()), s)
        elif isinstance(s, A.IndexedAssign): self.bind([s.var], s)
        elif isinstance(s, A.ForStmt): self.bind(list(s.target.names()), s)
        elif isinstance(s, A.ContextStmt):
            if isinstance(s.target, NamedId): self.bind([s.target], s)

    def comp_enter(self, k):
        e = self.exprs[k]
        names = [str(n) for t in e.targets for n in t.names()]
        self.saved.append({n: self.tags.get(n) for n in names})
        return None
    def comp_bind(self, k, i):
        e = self.exprs[k]
        self.bind(list(e.targets[i].names()), e)
        return True
    def comp_exit(self, k, _, val):
        for n, d in self.saved.pop().items():
            if d is None: self.tags.pop(n, None)
            else: self.tags[n] = d
        return val

    def on_expr(self, k, v, ctx):
        F = self.F; e = self.exprs[k]
        self.last_expr = e
        self.rep.cov['evaluations'] += 1
        self.budget -= 1
        if self.budget < 0: raise RunTimeout()   # a run-away loop of a generated program: deterministic cut
        where = self.wheres.get(k)
        if where is None: where = self.wheres[k] = fmt(e)
        if k in self.while_conds: self.sizes = {}
        # --- type shape
        if F.ti is not None:
            ty = F.ti.by_expr.get(e)
            if ty is not None:
                self.count('facts:type')
                if not shape_ok(v, ty): self.violate('TypeInfer', 'value does not have the shape of its inferred type', ty.format(), show(v), where)
        # --- value class
        if F.vc is not None:
            cls = F.vc.by_expr.get(e)
            mine = my_class(v)
            if isinstance(cls, VCM.ValueClass) and mine is not None:
                self.count('facts:vclass')
                self.count(f'vclass-reported:{cls.value}')
                if not (cls.value & mine):
                    self.violate('ValueClassInfer', 'value is in none of the reported classes', cls, show(v) + f' (class {mine})', where)
        # --- constants
        if F.pe is not None and e in F.pe.by_expr:
            c = F.pe.by_expr[e]
            self.count('facts:const')
            if not same_const(c, v):
                self.violate('PartialEval', 'expression reported constant evaluates to something else', show(c), show(v), where)
        # --- static size
        if F.asz is not None:
            b = F.asz.by_expr.get(e)
            if b is not None:
                self.check_size(b, v, 'ArraySizeInfer', where, instant=(k not in self.in_comp))
        # --- context use
        if F.cu is not None and e in F.cu.use_to_scope:
            sc = F.cu.use_to_scope[e]
            if isinstance(sc.ctx, Context):
                self.count('facts:ctxuse')
                if not (sc.ctx == ctx):
                    self.violate('ContextUse', 'operation runs under a different context than the resolved one', sc.ctx, ctx, where)
        # --- reaching definitions
        if isinstance(e, A.Var) and F.du is not None and e in F.du.use_to_def:
            d = F.du.use_to_def[e]
            got = self.tags.get(str(e.name))
            if got is not None:
                self.count('facts:reaching')
                if id(got) not in F.closure(d):
                    self.violate('DefineUse', 'a read observes a definition not listed as reaching it',
                                 f'use -> def#{F.du.def_to_idx.get(d)} {describe_def(F, d)}', f'def#{F.du.def_to_idx.get(got)} {describe_def(F, got)}', where)
        return v

    def check_size(self, b, v, analysis, where, instant=True):
        if isinstance(b, ListSize):
            if not isinstance(v, list):
                self.count('facts:size'); self.violate(analysis, 'a value with a list size is not a list', b, show(v), where); return
            if isinstance(b.size, int) and not isinstance(b.size, bool):
                self.count('facts:size')
                if len(v) != b.size: self.violate(analysis, 'list does not have its static length', b.size, f'len {len(v)}: {show(v)}', where)
            elif isinstance(b.size, NamedId) and instant:
                self.count('facts:size-eq')
                prev = self.sizes.get(b.size)
                if prev is None: self.sizes[b.size] = (len(v), where)
                elif prev[0] != len(v):
                    self.violate(analysis, 'two lists reported equal-length differ', f'size variable {b.size} at `{prev[1]}` and `{where}`', f'{prev[0]} vs {len(v)}', where)
            if b.elt is not None:
                for x in v: self.check_size(b.elt, x, analysis, where + '[·]', instant)
        elif isinstance(b, TupleSize):
            if not isinstance(v, tuple) or len(v) != len(b.elts):
                self.count('facts:size'); self.violate(analysis, 'a value with a tuple size is not such a tuple', b, show(v), where); return
            for bb, x in zip(b.elts, v):
                if bb is not None: self.check_size(bb, x, analysis, where + '.·', instant)

    def on_stmt(self, k, loc):
        F = self.F; s = self.stmts[k]
        self.last_expr = None
        if F.du is None: return
        self.sizes = {}
        reach = F.du.reach.get(s)
        if reach is None: return
        where0 = self.swheres.get(k)
        if where0 is None: where0 = self.swheres[k] = 'before `' + fmt(s).split('\n')[0][:50] + '`'
        live = []
        for name, d in reach.items():
            n = str(name)
            if n not in loc: continue
            v = loc[n]
            got = self.tags.get(n)
            where = f'{n} {where0}'
            if got is not None:
                self.count('facts:reaching')
                if id(got) not in F.closure(d):
                    self.violate('ReachingDefs', 'the definition reaching a statement is not the one bound',
                                 f'reach -> def#{F.du.def_to_idx.get(d)} {describe_def(F, d)}', f'def#{F.du.def_to_idx.get(got)} {describe_def(F, got)}', where)
            for dd in ({id(d): d, id(got): got}.values() if got is not None else [d]):
                if F.ti is not None and dd in F.ti.by_def:
                    self.count('facts:type')
                    if not shape_ok(v, F.ti.by_def[dd]):
                        self.violate('TypeInfer', 'variable does not have the shape of its definition\'s type', F.ti.by_def[dd].format(), show(v), where)
                if F.vc is not None:
                    cls = F.vc.by_def.get(dd); mine = my_class(v)
                    if isinstance(cls, VCM.ValueClass) and mine is not None:
                        self.count('facts:vclass')
                        if not (cls.value & mine):
                            self.violate('ValueClassInfer', 'variable is in none of the classes of its definition', cls, show(v) + f' (class {mine})', where)
                if F.pe is not None and dd in F.pe.by_def:
                    self.count('facts:const')
                    if not same_const(F.pe.by_def[dd], v):
                        self.violate('PartialEval', 'definition reported constant holds something else', show(F.pe.by_def[dd]), show(v), where)
                if F.asz is not None and F.asz.by_def.get(dd) is not None:
                    self.check_size(F.asz.by_def[dd], v, 'ArraySizeInfer', where)
            if F.al is not None and F.ti is not None and isinstance(v, (list, tuple)):
                live.append((n, v, d, got))
        # --- aliasing among live names
        if F.al is not None and self.alias_check and len(live) > 0:
            self.check_alias(live, where0)

    def check_alias(self, live, where0):
        al = self.F.al
        places = {}   # id(list object) -> [(name, path, region, def)]
        def walk(v, region, name, path, d):
            if isinstance(v, list):
                places.setdefault(id(v), []).append((name, path, region, d))
                sub = al.region_at(region, 1) if region is not None else None
                for i, x in enumerate(v):
                    if isinstance(x, (list, tuple)): walk(x, sub, name, path + f'[{i}]', d)
            elif isinstance(v, tuple):
                for i, x in enumerate(v):
                    if isinstance(x, (list, tuple)): walk(x, al.region_field(region, i) if region is not None else None, name, path + f'.{i}', d)
        for n, v, d, got in live:
            dd = got if got is not None else d
            walk(v, al.region_of(dd), n, '', dd)
        for oid, ps in places.items():
            if len(ps) < 2: continue
            for (n1, p1, r1, d1), (n2, p2, r2, d2) in itertools.combinations(ps, 2):
                if n1 == n2 and p1 == p2: continue
                top = (p1 == '' and p2 == '')
                if top:
                    self.count('facts:alias')
                    if not al.may_alias(d1, d2):
                        self.violate('Alias', 'two names refer to the same list but are not reported as possibly aliased',
                                     f'may_alias({n1}, {n2}) = False', f'id({n1}) == id({n2})', f'{n1},{n2} {where0}')
                else:
                    if r1 is None or r2 is None:
                        self.count('alias:nested-no-region'); continue
                    self.count('facts:alias-nested')
                    if r1 is not r2:
                        self.violate('Alias', 'two places hold the same list but lie in different regions',
                                     f'region({n1}{p1}) is not region({n2}{p2})', f'id({n1}{p1}) == id({n2}{p2})', f'{n1}{p1},{n2}{p2} {where0}')


def fmt(node):
    try: return node.format()
    except Exception: return type(node).__name__

def describe_def(F, d):
    if isinstance(d, AssignDef): return f'{d.name} @ {fmt(d.site).splitlines()[0][:40]}'
    return f'{d.name} = phi({d.lhs}, {d.rhs})'

def classify(analysis, what, fact, observed, tr):
    """candidate finding ids (for known_findings.json), by the shape of the violation"""
    if analysis == 'PartialEval':
        f, o = str(fact), str(observed)
        if f.lstrip('-') in ('0', 'Fraction(0, 1)') and o.lstrip('-+') in ('0', 'Fraction(0, 1)'): return 'C13-F1'   # +0 / -0 identified
        cu = tr.F.cu
        if cu is not None and any(getattr(sc.ctx, 'num_randbits', 0) not in (0, None) for sc in cu.scopes if isinstance(sc.ctx, Context)):
            return 'C13-F5'   # an operation under a stochastic rounding context folded to one draw
        pe = tr.F.pe
        if pe is not None and any(isinstance(v, list) or (isinstance(v, tuple) and any(isinstance(x, list) for x in v)) for v in pe.by_def.values()):
            return 'C13-F2'   # a list-valued definition kept as a constant across a mutation
    if analysis == 'TypeInfer' and '][' in str(fact) and captures_lists(tr.F.fn):
        return 'C13-F8'   # list types that differ only in their length share one union-find entry: a captured list's length leaks
    if analysis == 'Purity':
        if writes_param_directly(tr.F): return None   # a store through the parameter's own name must be seen
        return 'C13-F7'   # a write to the caller's list through another name (alias, row, loop target) is not seen
    if analysis == 'ValueClassInfer' and any(isinstance(e, A.Sum) for e in tr.exprs):
        return 'C13-F4'   # sum() of a one-element list passes the element through unrounded
    if analysis == 'ArraySizeInfer' and replaces_rows(tr.F):
        return 'C13-F6'   # a list stored into a nested list (through an alias / by a callee): another name's element sizes go stale
    if analysis == 'ArraySizeInfer' and has_early_return(tr.F.ast):
        return 'C13-F3'   # an unconditional zip/assert after an early return constrains the inputs globally
    return None

def captures_lists(fn) -> bool:
    def holds(v): return isinstance(v, list) or (isinstance(v, tuple) and any(holds(x) for x in v))
    try: return sum(1 for n in fn.ast.free_vars if holds(fn.env[str(n)])) >= 2
    except Exception: return False

def writes_param_directly(F) -> bool:
    """is there an `xs[i] = e` whose target, followed back through earlier stores and phis, is a parameter or a
    free variable itself (the case Purity handles by its definition walk)?"""
    du = F.du; found = []
    class V(fp.ast.DefaultVisitor):
        def _visit_indexed_assign(self, stmt, ctx):
            seen, work = set(), [du.use_to_def.get(stmt)]
            while work:
                d = work.pop()
                if d is None or id(d) in seen: continue
                seen.add(id(d))
                if isinstance(d, AssignDef):
                    if isinstance(d.site, (A.Argument, A.FuncDef)): found.append(stmt)
                    elif isinstance(d.site, A.IndexedAssign) and d.prev is not None: work.append(du.defs[d.prev])
                else:
                    work += [du.defs[d.lhs], du.defs[d.rhs]]
            super()._visit_indexed_assign(stmt, ctx)
    try: V()._visit_function(F.ast, None)
    except Exception: pass
    return bool(found)

def replaces_rows(F) -> bool:
    """does the function store a list(-carrying value) into a list, or hand a list of lists to a call?"""
    if F.ti is None: return False
    found = []
    def nested(ty):
        if isinstance(ty, ListType): return carries_list(ty.elt)
        if isinstance(ty, TupleType): return any(nested(t) for t in ty.elts)
        return False
    class V(fp.ast.DefaultVisitor):
        def _visit_indexed_assign(self, stmt, ctx):
            if carries_list(F.ti.by_expr.get(stmt.expr)): found.append(stmt)
            super()._visit_indexed_assign(stmt, ctx)
        def _visit_call(self, e, ctx):
            if not (isinstance(e.fn, type) and issubclass(e.fn, Context)) and any(nested(F.ti.by_expr.get(a)) for a in e.args): found.append(e)
            super()._visit_call(e, ctx)
    try: V()._visit_function(F.ast, None)
    except Exception: pass
    return bool(found)

def has_early_return(func) -> bool:
    found = []
    class V(fp.ast.DefaultVisitor):
        def __init__(self): self.depth = 0
        def _visit_return(self, stmt, ctx):
            if self.depth: found.append(stmt)
        def _visit_if1(self, stmt, ctx):
            self.depth += 1; super()._visit_if1(stmt, ctx); self.depth -= 1
        def _visit_if(self, stmt, ctx):
            self.depth += 1; super()._visit_if(stmt, ctx); self.depth -= 1
        def _visit_while(self, stmt, ctx):
            self.depth += 1; super()._visit_while(stmt, ctx); self.depth -= 1
        def _visit_for(self, stmt, ctx):
            self.depth += 1; super()._visit_for(stmt, ctx); self.depth -= 1
    try: V()._visit_function(func, None)
    except Exception: pass
    return bool(found)

def snapshot(v):
    """the structure of a value (lists and tuples rebuilt, numbers shared: they are immutable)"""
    if isinstance(v, list): return [snapshot(x) for x in v]
    if isinstance(v, tuple): return tuple(snapshot(x) for x in v)
    return v

def run_traced(fn, facts, tracer, args, ctx=None, timeout_s=2):
    """execute the function through the tracing compiler; returns ('ok', value) / ('err', name)"""
    tracer.reset(args)
    rt = get_default_interpreter()
    if tracer.pyfn is None:
        tracer.pyfn = TracingCompiler(fn.ast, fn.env, tracer).compile()
    pyfn = tracer.pyfn
    rctx = rt._func_ctx(fn.ast, ctx)
    vals = tuple(to_value(a) for a in args)
    tracer.arg_vals = vals; tracer.arg_snap = snapshot(vals)
    def on_alarm(signum, frame): raise RunTimeout()
    old = signal.signal(signal.SIGALRM, on_alarm); signal.alarm(timeout_s)
    try:
        return ('ok', pyfn(*vals, __ctx__=rctx))
    except RunTimeout:
        return ('timeout', None)
    except RecursionError:
        return ('err', 'RecursionError')
    except Exception as e:
        return ('err', type(e).__name__)
    finally:
        signal.alarm(0); signal.signal(signal.SIGALRM, old)

# ------------------------------------------------------------------------------------------------
# inputs from annotations

REALS = [1.5, -2.25, 0.1, 3.0, 100.0, -0.0, 0.0, float('inf'), float('-inf'), float('nan'), 1e300, -7.0, 0.3, 2.0 ** -30, 5, 2.0, 1.0, 65520.0, 1e-8]

ARG_CTXS = [fp.FP64, fp.FP32, fp.IEEEContext(5, 16, fp.RM.RNE), fp.MPFloatContext(3, fp.RM.RNE), fp.MPFixedContext(-4, fp.RM.RTZ), fp.REAL]

def ann_kind(t):
    if isinstance(t, A.ListTypeAnn): return ('L', ann_kind(t.elt))
    if isinstance(t, A.TupleTypeAnn): return ('T', [ann_kind(x) for x in t.elts])
    if isinstance(t, A.BoolTypeAnn): return 'B'
    if isinstance(t, A.ContextTypeAnn): return 'C'
    return 'R'

def gen_value(R, kind, i, ragged=True):
    if kind == 'R': return R.choice(REALS)
    if kind == 'B': return R.random() < 0.5
    if kind == 'C': return R.choice(ARG_CTXS)
    if kind[0] == 'T': return tuple(gen_value(R, k, i) for k in kind[1])
    n = R.choice([1, 2, 2, 3, 4]) if kind[1] == 'R' else R.choice([2, 2, 3])
    if kind[1] != 'R' and not ragged:
        m = R.choice([1, 2, 3]); return [[R.choice(REALS) for _ in range(m)] for _ in range(n)]
    return [gen_value(R, kind[1], i) for _ in range(n)]

def type_kind(ty):
    if isinstance(ty, ListType): return ('L', type_kind(ty.elt))
    if isinstance(ty, TupleType): return ('T', [type_kind(t) for t in ty.elts])
    if isinstance(ty, BoolType): return 'B'
    if isinstance(ty, ContextType): return 'C'
    return 'R'

def gen_args(R, fn, n):
    kinds = [ann_kind(a.type) for a in fn.ast.args]
    if any(isinstance(a.type, A.AnyTypeAnn) for a in fn.ast.args):
        # an unannotated (or `fp.Context`) parameter: take its kind from the inferred signature
        try:
            tys = TypeInfer.check(fn.ast).arg_types
            kinds = [type_kind(t) if isinstance(a.type, A.AnyTypeAnn) else k for a, t, k in zip(fn.ast.args, tys, kinds)]
        except Exception:
            pass
    out = []
    for i in range(n if kinds else 2 * n):
        rag = R.random() < 0.5
        out.append(tuple(gen_value(R, k, i, rag) for k in kinds))
    return out

# ------------------------------------------------------------------------------------------------
# generator of list-sharing programs (flat, nested and tupled lists; no calls)

class AliasGen:
    """straight-line + branching + looping programs over names of type list[Real] (L), list[list[Real]] (M)
    and tuple[list[Real], list[Real]] (T), built only from the routes the property lists"""
    def __init__(self, R):
        self.R = R; self.n = itertools.count()
    def fresh(self, p): return f'{p}{next(self.n)}'
    def real(self, env):
        R = self.R
        ls = [x for x, t in env.items() if t == 'L']
        c = R.choice(['a', 'lit', 'idx', 'a', 'sum'])
        if c == 'idx' and ls: return f'{R.choice(ls)}[0]'
        if c == 'sum': return f'(a + {R.choice(["1", "0.5", "2"])})'
        if c == 'lit': return R.choice(['1.0', '2.0', '0.0', '-0.0', '0.25'])
        return 'a'
    def L(self, env, d=2):
        R = self.R
        ls = [x for x, t in env.items() if t == 'L']; ms = [x for x, t in env.items() if t == 'M']; ts = [x for x, t in env.items() if t == 'T']
        opts = ['var'] * 3 + ['lit']
        if d > 0: opts += ['index', 'slice', 'ite', 'comp', 'index', 'field']
        c = R.choice(opts)
        if c == 'var' and ls: return R.choice(ls)
        if c == 'index' and ms: return f'{R.choice(ms)}[{R.choice(["0", "0", "1"])}]'
        if c == 'slice' and ls: return f'{R.choice(ls)}[{R.choice(["", "0"])}:{R.choice(["", "1"])}]'
        if c == 'ite' and len(ls) >= 1: return f'({self.L(env, d - 1)} if a > {R.choice(["0", "1"])} else {self.L(env, d - 1)})'
        if c == 'comp' and ls: return f'[e for e in {R.choice(ls)}]'
        if c == 'field' and ts: return f'fp.{R.choice(["fst", "snd"])}({R.choice(ts)})'
        return '[' + ', '.join(self.real(env) for _ in range(R.randint(1, 3))) + ']'
    def M(self, env, d=2):
        R = self.R
        ms = [x for x, t in env.items() if t == 'M']
        opts = ['var'] * 2 + ['lit'] * 2
        if d > 0: opts += ['slice', 'comp', 'zipcomp', 'enumcomp', 'repl', 'ite']
        c = R.choice(opts)
        if c == 'var' and ms: return R.choice(ms)
        if c == 'slice' and ms: return f'{R.choice(ms)}[{R.choice(["", "0"])}:{R.choice(["", "1", "2"])}]'
        if c == 'comp' and ms: return f'[r for r in {R.choice(ms)}]'
        if c == 'zipcomp' and ms:
            m = R.choice(ms); return f'[{R.choice(["p", "q"])} for p, q in zip({m}, {m})]'
        if c == 'enumcomp' and ms: return f'[r for i, r in enumerate({R.choice(ms)})]'
        if c == 'repl': return f'[{self.L(env, 0)} for _ in range({R.choice(["1", "2"])})]'
        if c == 'ite' and ms: return f'({self.M(env, d - 1)} if a > {R.choice(["0", "2"])} else {self.M(env, d - 1)})'
        return '[' + ', '.join(self.L(env, d - 1) for _ in range(R.randint(2, 3))) + ']'
    def block(self, env, n, depth, ind):
        R = self.R; pad = '    ' * ind; out = []; env = dict(env)
        for _ in range(n):
            ls = [x for x, t in env.items() if t == 'L']; ms = [x for x, t in env.items() if t == 'M']; ts = [x for x, t in env.items() if t == 'T']
            kinds = ['newL'] * 3 + ['newM', 'mut', 'mut', 'newT', 'rebindL']
            if ms: kinds += ['store', 'mutrow']
            if ts: kinds += ['unpack']
            if depth > 0: kinds += ['if', 'for', 'forenum', 'while', 'forzip']
            k = R.choice(kinds)
            if k == 'newL':
                x = self.fresh('l'); out.append(f'{pad}{x} = {self.L(env)}'); env[x] = 'L'
            elif k == 'rebindL' and ls:
                out.append(f'{pad}{R.choice(ls)} = {self.L(env)}')
            elif k == 'newM':
                x = self.fresh('m'); out.append(f'{pad}{x} = {self.M(env)}'); env[x] = 'M'
            elif k == 'newT':
                x = self.fresh('t'); out.append(f'{pad}{x} = ({self.L(env, 1)}, {self.L(env, 1)})'); env[x] = 'T'
            elif k == 'unpack' and ts:
                p, q = self.fresh('l'), self.fresh('l'); out.append(f'{pad}{p}, {q} = {R.choice(ts)}'); env[p] = 'L'; env[q] = 'L'
            elif k == 'mut' and ls:
                out.append(f'{pad}{R.choice(ls)}[0] = {self.real(env)}')
            elif k == 'mutrow' and ms:
                out.append(f'{pad}{R.choice(ms)}[0][0] = {self.real(env)}')
            elif k == 'store' and ms and ls:
                out.append(f'{pad}{R.choice(ms)}[{R.choice(["0", "1"])}] = {R.choice(ls)}')
            elif k == 'if':
                b1, e1 = self.block(env, R.randint(1, 2), depth - 1, ind + 1)
                b2, e2 = self.block(env, R.randint(1, 2), depth - 1, ind + 1)
                out += [f'{pad}if a > {R.choice(["0", "1", "2"])}:'] + b1 + [f'{pad}else:'] + b2
            elif k == 'for' and ms:
                r = self.fresh('r'); env2 = dict(env); env2[r] = 'L'
                b, _ = self.block(env2, R.randint(1, 2), depth - 1, ind + 1)
                out += [f'{pad}for {r} in {R.choice(ms)}:'] + b
            elif k == 'forenum' and ms:
                r = self.fresh('r'); i = self.fresh('i'); env2 = dict(env); env2[r] = 'L'
                b, _ = self.block(env2, R.randint(1, 2), depth - 1, ind + 1)
                out += [f'{pad}for {i}, {r} in enumerate({R.choice(ms)}):'] + b
            elif k == 'forzip' and ms:
                r = self.fresh('r'); s = self.fresh('r'); env2 = dict(env); env2[r] = 'L'; env2[s] = 'L'
                m = R.choice(ms)
                b, _ = self.block(env2, R.randint(1, 2), depth - 1, ind + 1)
                out += [f'{pad}for {r}, {s} in zip({m}, {m}):'] + b
            elif k == 'while':
                kx = self.fresh('k')
                b, _ = self.block(env, R.randint(1, 2), depth - 1, ind + 1)
                out += [f'{pad}{kx} = 0', f'{pad}while {kx} < {R.choice(["1", "2"])}:'] + b + [f'{pad}    with fp.REAL:', f'{pad}        {kx} = {kx} + 1']
        return out or [f'{pad}pass'], env
    def program(self, name):
        R = self.R
        env = {'xs': 'L', 'ys': 'L', 'xss': 'M'}
        body, env2 = self.block(env, R.randint(4, 8), 2, 2 if R.random() < 0.5 else 1)
        wrap = None
        if body and body[0].startswith('        '): wrap = R.choice(['fp.IEEEContext(5, 16, fp.RM.RNE)', 'fp.REAL', 'fp.FP64'])
        ret = ', '.join([x for x in env2 if x in env or True][:12])
        head = ['@fp.fpy', f'def {name}(a: fp.Real, xs: list[fp.Real], ys: list[fp.Real], xss: list[list[fp.Real]]):']
        if wrap: lines = head + [f'    with {wrap}:'] + body + [f'    return ({ret},)']
        else: lines = head + body + [f'    return ({ret},)']
        return '\n'.join(lines) + '\n'

# ------------------------------------------------------------------------------------------------
# layer 2: correspondence of the transfer tables and of the union-find

def real_flag(x): return VCM.ValueClass(x)

def layer2_vclass(rep, R, tier):
    lines, want = [], []
    for a in range(16):
        for b in range(16):
            lines.append(f'vclass add {a} {b}'); want.append(str(VCM._exact_add(real_flag(a), real_flag(b)).value))
            lines.append(f'vclass mul {a} {b}'); want.append(str(VCM._exact_mul(real_flag(a), real_flag(b)).value))
            lines.append(f'vclass join {a} {b}'); want.append(str((real_flag(a) | real_flag(b)).value))
            lines.append(f'vclass meet {a} {b}'); want.append(str((real_flag(a) & real_flag(b)).value))
        lines.append(f'vclass logb {a}'); want.append(str(VCM._map(VCM._LOGB, real_flag(a)).value))
        lines.append(f'vclass pow {a}'); want.append(str(VCM._map(VCM._POW_POS_BASE, real_flag(a)).value))
    for _ in range(200):
        xs = [R.randrange(16) for _ in range(R.randint(1, 4))]
        acc = VCM.ValueClass(0)
        for x in xs: acc |= real_flag(x)
        lines.append('vclass minmax ' + ' '.join(map(str, xs))); want.append(str(acc.value))
    rep.count('vclass-table-entries', len(lines))
    # representable classes / rounded, against real contexts (plus: the rounding transfer judged on the real code)
    nctx = 150 if tier == 'quick' else 1500
    probes = [Float(isnan=True), Float(isnan=True, s=True), Float(isinf=True), Float(isinf=True, s=True), Float.from_float(0.0), Float.from_float(-0.0),
              Float.from_float(1.0), Float.from_float(-3.5), Float.from_float(1e30), Float.from_float(-1e30), Float.from_float(1e-30), Float.from_float(0.1),
              Float.from_float(65504.0), Float.from_float(7.0), Float.from_float(-0.75)]
    ds = [dict(fam='real')]
    while len(ds) < nctx:
        d = add_substitutes(R, rand_ctx(R))
        ds.append(d)
    for d in ds:
        try: c = ctx_obj(d)
        except Exception: rep.count('ctx-constructor-rejected'); continue
        rc = VCM.representable_classes(c)
        lines.append('vclass repr ' + ctx_tok(d)); want.append(str(rc.value))
        a = R.randrange(16)
        lines.append(f'vclass rounded {a} ' + ctx_tok(d)); want.append(str((real_flag(a) if c is fp.REAL else rc).value))
        rep.count('ctx-family:' + d['fam'])
        for x in probes:
            try: y = c.round(x)
            except Exception: rep.count('round-raises'); continue
            rep.cov['evaluations'] += 1; rep.count('facts:rounding-transfer')
            if not (rc.value & my_class(y)):
                rep.violation(f'representable_classes({c}) = {rc} but round({x}) = {y}',
                              {'analysis': 'ValueClassInfer', 'fact': str(rc), 'observed': show(y), 'context': repr(c), 'operand': repr(x), 'finding': None})
    lines.append('vclass rounded 5 none'); want.append('15')
    got = run_driver(lines)
    for l, w, g in zip(lines, want, got):
        rep.distinct.add(l)
        if w != g: rep.broke('correspondence', 'C13.vclass', f'{l}\nreal ={w}\nmodel={g}')
    rep.count('vclass-lines', len(lines))

CMP_SRC = {'lt': '<', 'le': '<=', 'ge': '>=', 'gt': '>', 'eq': '==', 'ne': '!='}

def layer2_refine(rep, tmp):
    """the refinement rules, read off the REAL analysis on one-branch programs, vs the model tables"""
    progs = []   # (name, source, model line for the then-arm, model line for the else-arm)
    i = 0
    def add(cond, lt, lf):
        nonlocal i
        nm = f'r{i}'; i += 1
        src = f'@fp.fpy\ndef {nm}(x: fp.Real, y: fp.Real):\n    if {cond}:\n        a = x\n    else:\n        a = x\n    return a\n'
        progs.append((nm, src, lt, lf))
    for p in ['isnan', 'isinf', 'isfinite', 'isnormal']:
        add(f'fp.{p}(x)', f'vclass pred {p} 1', f'vclass pred {p} 0')
        add(f'not fp.{p}(x)', f'vclass pred {p} 0', f'vclass pred {p} 1')
    for op, s in CMP_SRC.items():
        flip = {'lt': 'gt', 'le': 'ge', 'ge': 'le', 'gt': 'lt', 'eq': 'eq', 'ne': 'ne'}[op]
        for lit, tok in [('y', 'notlit'), ('0', 'zero'), ('0.0', 'zero'), ('1', 'nonzero'), ('0.1', 'nonzero'), ('(-2)', 'nonzero')]:
            add(f'x {s} {lit}', f'vclass linkT {op} {tok}', f'vclass linkF {op} {tok}')
            add(f'{lit} {s} x', f'vclass linkT {op} {tok}', f'vclass linkF {op} {tok}')
            add(f'not (x {s} {lit})', f'vclass linkF {op} {tok}', f'vclass linkT {op} {tok}')
    # the `Sum()` rule, under every sweep context: the real analysis' answer for `sum(xs)` vs the model's rule
    sum_src = 'import fpy2 as fp\n\n' + ''.join(f'@fp.fpy\ndef sm{ci}(xs: list[fp.Real]):\n    with {cs}:\n        r = sum(xs)\n    return r\n\n' for ci, cs in enumerate(SWEEP_CTXS))
    spath = os.path.join(tmp, 'sumrule.py')
    with open(spath, 'w') as fh: fh.write(sum_src)
    smod = load_module(spath, 'fpyverif_c13_sumrule')
    model_sum = run_driver(['vclass sum 15 none'])[0]
    for ci, cs in enumerate(SWEEP_CTXS):
        fn = getattr(smod, f'sm{ci}')
        vc = ValueClassInfer.analyze(fn.ast)
        e = fn.ast.body.stmts[0].body.stmts[0].expr
        rep.distinct.add(('sumrule', cs)); rep.count('sum-rule')
        if str(vc.by_expr[e].value) != model_sum:
            rep.broke('correspondence', 'C13.sum-rule', f'sum(xs) under {cs}: real={vc.by_expr[e]} model={model_sum}')
    path = os.path.join(tmp, 'refine.py')
    with open(path, 'w') as fh: fh.write('import fpy2 as fp\n\n' + '\n'.join(p[1] for p in progs))
    mod = load_module(path, 'fpyverif_c13_refine')
    lines, want, meta = [], [], []
    for nm, src, lt, lf in progs:
        fn = getattr(mod, nm)
        vc = ValueClassInfer.analyze(fn.ast)
        ifs = fn.ast.body.stmts[0]
        for arm, line in ((ifs.ift, lt), (ifs.iff, lf)):
            var = arm.stmts[0].expr
            cls = vc.by_expr[var]
            lines.append(line); want.append(cls.value); meta.append(src)
    got = run_driver(lines)
    for l, w, g, src in zip(lines, want, got, meta):
        m = 15 if g == '-' else int(g)     # no refinement: the mask stays TOP
        rep.distinct.add(('refine', l, src))
        if m != w: rep.broke('correspondence', 'C13.refine', f'{src}\n{l}\nreal ={w}\nmodel={g}')
    rep.count('refine-rules', len(lines))

def layer2_uf(rep, R, tier):
    nseq = 300 if tier == 'quick' else 3000
    lines, want = [], []
    for _ in range(nseq):
        n_el = R.randint(1, 30); n_ops = R.randint(1, 200 if R.random() < 0.3 else 40)
        uf = Unionfind(); toks, outs = [], []
        for _ in range(n_ops):
            c = R.choice(['a', 'a', 'u', 'u', 'u', 'f', 'f', 'g', 'c', 'i', 'r', 'n', 'm'])
            x = R.randrange(n_el); y = R.randrange(n_el)
            try:
                if c == 'a': toks.append(f'a{x}'); outs.append(str(uf.add(x)))
                elif c == 'f': toks.append(f'f{x}'); outs.append(str(uf.find(x)))
                elif c == 'g':
                    toks.append(f'g{x}'); r = uf.get(x); outs.append('None' if r is None else str(r))
                elif c == 'u': toks.append(f'u{x},{y}'); outs.append(str(uf.union(x, y)))
                elif c == 'c': toks.append(f'c{x}'); outs.append('{' + ','.join(map(str, sorted(uf.component(x)))) + '}')
                elif c == 'i': toks.append('i'); outs.append('[' + ' '.join(f'{a}:{b}' for a, b in uf.items()) + ']')
                elif c == 'r': toks.append('r'); outs.append('{' + ','.join(map(str, sorted(uf.representatives()))) + '}')
                elif c == 'n': toks.append('n'); outs.append(str(len(uf)))
                elif c == 'm': toks.append(f'm{x}'); outs.append('1' if x in uf else '0')
            except KeyError:
                outs.append('KeyError')
            rep.count('uf-op:' + c)
        # Spec oracle on the real class: the partition is the one a naive closure computes
        naive = {}
        for t in toks:
            if t[0] == 'a': naive.setdefault(int(t[1:]), {int(t[1:])})
            elif t[0] == 'u':
                x, y = map(int, t[1:].split(','))
                if x in naive and y in naive and naive[x] is not naive[y]:
                    s = naive[x] | naive[y]
                    for z in s: naive[z] = s
        for x in naive:
            rep.cov['evaluations'] += 1
            if uf.component(x) != naive[x]:
                rep.violation('Unionfind: component differs from the partition generated by the unions',
                              {'analysis': 'Unionfind', 'ops': ' '.join(toks), 'fact': sorted(uf.component(x)), 'observed': sorted(naive[x]), 'finding': None})
        lines.append('uf ' + ' '.join(toks)); want.append(' '.join(outs))
    got = run_driver(lines)
    for l, w, g in zip(lines, want, got):
        rep.distinct.add(l)
        if w != g: rep.broke('correspondence', 'C13.unionfind', f'{l[:400]}\nreal ={w[:400]}\nmodel={g[:400]}')
    rep.count('uf-sequences', len(lines))

def load_module(path, name):
    spec = importlib.util.spec_from_file_location(name, path)
    mod = importlib.util.module_from_spec(spec)
    sys.modules[name] = mod
    spec.loader.exec_module(mod)
    return mod

# ------------------------------------------------------------------------------------------------
# layer 3 driver

CALL_CTXS = [None, None, 'fp.FP32', 'fp.REAL', 'fp.IEEEContext(5, 16, fp.RM.RTZ)', 'fp.FixedContext(True, -4, 16, fp.RM.RNE, fp.OV.SATURATE)']

def trace_function(rep, R, fn, source, label, n_inputs, alias_check=True, inputs=None, call_ctxs=CALL_CTXS):
    facts = Facts(fn, rep)
    if facts.du is None: return
    tr = Tracer(facts, rep, source, label, alias_check)
    rep.cov['programs'] = rep.cov.get('programs', 0) + 1
    for args in (inputs if inputs is not None else gen_args(R, fn, n_inputs)):
        cs = R.choice(call_ctxs)
        ctx = None if cs is None else eval(cs, {'fp': fp})
        try:
            st, val = run_traced(fn, facts, tr, args, ctx)
        except Exception as e:
            rep.count('trace-compile-error:' + type(e).__name__)
            if os.environ.get('VERIF_DEBUG'): rep.notes.append(traceback.format_exc()[-600:])
            tr.flush_counts(); return
        rep.count('run:' + (st if st != 'err' else 'err:' + val))
        if facts.pure is True and st != 'timeout':
            # --- purity: a function reported pure leaves the lists it was handed as they were (also when it raises)
            rep.count('facts:purity')
            for i, (now, was) in enumerate(zip(tr.arg_vals, tr.arg_snap)):
                if isinstance(now, (list, tuple)) and not same_const(was, now):
                    tr.violate('Purity', 'a function reported pure changed a list it was handed', f'Purity.analyze = True; argument {i} before: {show(was)}', f'after: {show(now)}', f'argument {i}')
        if st == 'ok':
            for p in tr.pending: tr.violate(*p[:5], finding=p[5], force=True)
        elif tr.pending: rep.count('size-facts-false-on-a-raising-run', len(tr.pending))
        tr.pending = []
        rep.distinct.add((label, show(args), cs))
        if st == 'ok' and facts.ti is not None:
            rep.count('facts:type')
            if not shape_ok(val, facts.ti.return_type):
                tr.violate('TypeInfer', 'returned value does not have the shape of the inferred return type', facts.ti.return_type.format(), show(val), 'return')
            if facts.asz is not None and facts.asz.ret_size is not None:
                tr.sizes = {}
                tr.check_size(facts.asz.ret_size, val, 'ArraySizeInfer', 'return')
                for p in tr.pending: tr.violate(*p[:5], finding=p[5], force=True)
                tr.pending = []
    tr.flush_counts()
    if len(rep.cov['samples']) < 4:
        rep.sample({'program': source[:1500], 'label': label, 'analyses': facts.ok})

SWEEP_CTXS = ['fp.MPFixedContext(-3, fp.RM.RTN)', 'fp.FixedContext(True, -2, 8, fp.RM.RNE, fp.OV.SATURATE)',
              'fp.EFloatContext(4, 8, False, fp.EFloatNanKind.MAX_VAL, 1, fp.RM.RNE)', 'fp.MPFloatContext(3, fp.RM.RNE, enable_inf=False)',
              'fp.MPFloatContext(3, fp.RM.RAZ, enable_nan=False)', 'fp.REAL', 'fp.IEEEContext(5, 16, fp.RM.RNE)']
OPS1 = ['acos', 'acosh', 'asin', 'asinh', 'atan', 'atanh', 'cbrt', 'ceil', 'cos', 'cosh', 'erf', 'erfc', 'exp', 'exp10', 'exp2', 'expm1', 'fabs', 'floor',
        'lgamma', 'log', 'log10', 'log1p', 'log2', 'logb', 'nearbyint', 'neg', 'round', 'roundint', 'sin', 'sinh', 'sqrt', 'tan', 'tanh', 'tgamma', 'trunc',
        'cast', 'round_exact']
OPS2 = ['add', 'sub', 'mul', 'div', 'atan2', 'copysign', 'fdim', 'fmax', 'fmin', 'fmod', 'hypot', 'mod', 'pow', 'remainder']
OPS3 = ['fma']
OPSL = ['sum', 'min', 'max', 'len']
SPECIAL = [float('nan'), float('inf'), float('-inf'), 0.0, -0.0]
ORDINARY = [1.5, -2.0, 0.1, 3.0, 2.0 ** -30, 1.0, -0.5, 10.0]   # no huge magnitudes: exp/sinh/tgamma of 1e300 under a fixed-point context do not return in minutes
GUARDS = {'inf': ('fp.isinf({v})', [float('inf'), float('-inf')]), 'nan': ('fp.isnan({v})', [float('nan')]),
          'zero': ('{v} == 0', [0.0, -0.0]), 'fin': ('fp.isfinite({v}) and {v} != 0', [1.5, -2.0, 0.1, 3.0, 1e300, 2.0 ** -30])}
EXACT2 = {'add': '(x + y)', 'sub': '(x - y)', 'mul': '(x * y)', 'min': 'min(x, y)', 'max': 'max(x, y)', 'pow2': 'fp.pow(2, y)', 'pow3': '(0.5 ** y)'}
EXACT1 = {'neg': '(-x)', 'fabs': 'abs(x)', 'logb': 'fp.logb(x)', 'pow2': 'fp.pow(2, x)'}

def op_sweep(rep, R, tmp, tier):
    """every numeric operation under contexts that cannot hold every class (the `_rounded(e, TOP)` rule:
    "the result is a value the context represents"), and the exact tables end to end under REAL behind
    refinement ladders"""
    quick = tier == 'quick'
    ctxs = [0, 2, 3, 5] if quick else list(range(len(SWEEP_CTXS)))
    mods = []
    for nm in OPS1 + OPS2 + OPS3 + OPSL:
        ar = 1 if nm in OPS1 else 2 if nm in OPS2 else 3
        src = 'import fpy2 as fp\n\n'
        for ci, cs in enumerate(SWEEP_CTXS):
            if nm in OPSL:
                call = f'{nm}(xs)'
                src += f'@fp.fpy\ndef o_{nm}_{ci}(xs: list[fp.Real]):\n    with {cs}:\n        r = {call}\n    return r\n\n'
            else:
                call = f'fp.{nm}(' + ', '.join(['x', 'y', 'z'][:ar]) + ')'
                src += f'@fp.fpy\ndef o_{nm}_{ci}(x: fp.Real, y: fp.Real, z: fp.Real):\n    with {cs}:\n        r = {call}\n        s = -r\n    return (r, s)\n\n'
        mods.append((nm, src))
    for nm, src in mods:
        path = os.path.join(tmp, f'op_{nm}.py')
        with open(path, 'w') as fh: fh.write(src)
        try: mod = load_module(path, 'fpyverif_c13_op_' + nm)
        except Exception as e:
            rep.count('frontend-rejected:op:' + nm); continue
        for ci in ctxs:
            fn = getattr(mod, f'o_{nm}_{ci}')
            if nm in OPSL:
                pool = SPECIAL + ORDINARY
                inputs = [([v],) for v in SPECIAL] + [([R.choice(pool) for _ in range(R.randint(0, 3))],) for _ in range(4 if quick else 20)]
            else:
                inputs = [(v, R.choice(ORDINARY), R.choice(ORDINARY)) for v in SPECIAL] + [(R.choice(ORDINARY), v, R.choice(ORDINARY)) for v in SPECIAL]
                pool = SPECIAL + ORDINARY
                inputs += [tuple(R.choice(pool) for _ in range(3)) for _ in range(4 if quick else 30)]
            trace_function(rep, R, fn, src, f'opsweep:{nm}:{SWEEP_CTXS[ci]}', 0, inputs=inputs, call_ctxs=[None])
    # exact tables behind ladders
    src = 'import fpy2 as fp\n\n'; fns = []
    for nm, ex in EXACT2.items():
        for g1, (c1, p1) in GUARDS.items():
            for g2, (c2, p2) in GUARDS.items():
                f = f'e_{nm}_{g1}_{g2}'
                src += (f'@fp.fpy\ndef {f}(x: fp.Real, y: fp.Real):\n    r = 0.0\n    with fp.REAL:\n        if {c1.format(v="x")}:\n            if {c2.format(v="y")}:\n'
                        f'                r = {ex}\n                s = r + 0\n    return r\n\n')
                fns.append((f, [(a, b) for a in p1 for b in p2]))
    for nm, ex in EXACT1.items():
        for g1, (c1, p1) in GUARDS.items():
            f = f'e1_{nm}_{g1}'
            src += (f'@fp.fpy\ndef {f}(x: fp.Real):\n    r = 0.0\n    with fp.REAL:\n        if {c1.format(v="x")}:\n            r = {ex}\n            s = r + 0\n    return r\n\n')
            fns.append((f, [(a,) for a in p1]))
    path = os.path.join(tmp, 'exact_ladders.py')
    with open(path, 'w') as fh: fh.write(src)
    try:
        mod = load_module(path, 'fpyverif_c13_exact')
    except Exception as e:
        rep.broke('harness', 'C13.exact-ladders', f'{type(e).__name__}: {e}'); return
    for f, inputs in fns:
        if quick and len(inputs) > 8: inputs = R.sample(inputs, 8)
        trace_function(rep, R, getattr(mod, f), src[:200] + '…' + f, 'ladder:' + f, 0, inputs=inputs, call_ctxs=[None])


# ------------------------------------------------------------------------------------------------
# layer 3: refinement sweep — every shape of branch condition, both arms, operands of every class

SWEEP_VALUES = [float('nan'), float('inf'), float('-inf'), 0.0, -0.0, 1.5, -2.0, 3.0, Fraction(1, 10), 0.1]
SWEEP_RHS = ['0', '0.0', '1.5', '0.1', '(-2)', 'y']

def refine_atoms():
    atoms = [f'fp.{p}({v})' for p in ('isnan', 'isinf', 'isfinite', 'isnormal') for v in ('x', 'y')]
    for s in CMP_SRC.values():
        for rhs in SWEEP_RHS:
            atoms.append(f'x {s} {rhs}'); atoms.append(f'{rhs} {s} x')
    atoms += ['0 < x < y', 'x <= y <= 3', 'x == y == 0', 'x != y != 0', '0 != x != 1.5', 'y > x >= 0', '1.5 == x', 'x == y != 0.1']
    return atoms

ARM = ('        a = x\n        b = y\n        with fp.REAL:\n            r = a * b\n            s = a - y\n')

def refine_program(name, cond, form):
    if form == 'if':
        return (f'@fp.fpy\ndef {name}(x: fp.Real, y: fp.Real):\n    if {cond}:\n{ARM}    else:\n{ARM}    return (a, b, r, s)\n')
    if form == 'if1':
        return (f'@fp.fpy\ndef {name}(x: fp.Real, y: fp.Real):\n    a = y\n    b = x\n    r = 0.0\n    s = 0.0\n    if {cond}:\n{ARM}    u = a\n    return (a, b, r, s, u, x)\n')
    if form == 'ifexpr':
        return (f'@fp.fpy\ndef {name}(x: fp.Real, y: fp.Real):\n    with fp.REAL:\n        a = (x * y if {cond} else x + y)\n        b = (x if {cond} else -x)\n    return (a, b)\n')
    if form == 'while':
        return (f'@fp.fpy\ndef {name}(x: fp.Real, y: fp.Real):\n    k = 0\n    r = 0.0\n    while ({cond}) and k < 2:\n        with fp.REAL:\n            r = x * y\n            x = x - x\n            k = k + 1\n    t = x\n    return (r, t, k)\n')
    if form == 'elif':
        c1, c2 = cond
        return (f'@fp.fpy\ndef {name}(x: fp.Real, y: fp.Real):\n    if {c1}:\n{ARM}    elif {c2}:\n{ARM}    else:\n{ARM}    return (a, b, r, s)\n')
    raise ValueError(form)

def refine_sweep(rep, R, tmp, tier):
    """value-class refinement end to end on the REAL analysis and interpreter: every comparison operator x
    {zero literal, non-zero literal, non-dyadic literal, variable} x either side, the class tests, chains, and
    not/and/or combinations, as `if`/`else`, `if`, `elif` ladder, if-expression and `while` condition; both arms
    read the tested variables and compute with them under REAL; run on ALL pairs of operand classes"""
    quick = tier == 'quick'
    atoms = refine_atoms()
    progs = []
    def add(cond, form): progs.append((f'q{len(progs)}', cond, form))
    for a in atoms:
        add(a, 'if'); add(f'not ({a})', 'if')
    ncomb = 50 if quick else 600
    for _ in range(ncomb):
        a, b, c = R.choice(atoms), R.choice(atoms), R.choice(atoms)
        add(R.choice([f'({a}) and ({b})', f'({a}) or ({b})', f'not (({a}) and ({b}))', f'not (({a}) or ({b}))', f'({a}) and not ({b})',
                      f'(({a}) or ({b})) and ({c})', f'({a}) or (({b}) and ({c}))', f'not ({a}) or ({b})']), 'if')
    for _ in range(25 if quick else 300):
        form = R.choice(['if1', 'ifexpr', 'while', 'elif'])
        a, b = R.choice(atoms), R.choice(atoms)
        c = R.choice([a, f'not ({a})', f'({a}) and ({b})', f'({a}) or ({b})'])
        add((a, b) if form == 'elif' else c, form)
    src = 'import fpy2 as fp\n\n' + '\n'.join(refine_program(n, c, f) for n, c, f in progs)
    path = os.path.join(tmp, 'refsweep.py')
    with open(path, 'w') as fh: fh.write(src)
    try:
        mod = load_module(path, 'fpyverif_c13_refsweep')
    except Exception as e:
        rep.broke('harness', 'C13.refine-sweep', f'{type(e).__name__}: {str(e)[:300]}'); return
    pairs = [(a, b) for a in SWEEP_VALUES for b in SWEEP_VALUES]
    # quick tier: the plain atoms see every pair of classes; negations / combinations / other statement forms see
    # every class of x against a rotating class of y (and the diagonal), which still reaches both arms of each
    nv = len(SWEEP_VALUES)
    def thin(i): return [(SWEEP_VALUES[j], SWEEP_VALUES[(j + i + k) % nv]) for j in range(nv) for k in (0, 3)] + [(v, v) for v in SWEEP_VALUES[:6]]
    xonly = [(v, w) for v in SWEEP_VALUES for w in (1.5, float('nan'))]
    for i, (n, c, f) in enumerate(progs):
        simple = f == 'if' and isinstance(c, str) and (c in atoms or (c.startswith('not (') and c[5:-1] in atoms))
        if not quick: inputs = pairs
        elif simple: inputs = pairs if 'y' in c else xonly
        else: inputs = thin(i)
        trace_function(rep, R, getattr(mod, n), refine_program(n, c, f), f'refine:{n}:{f}', 0, inputs=inputs, call_ctxs=[None])
    rep.count('refine-sweep-programs', len(progs))

COVERED_FILES = ['reaching_defs', 'define_use', 'partial_eval', 'type_infer', 'array_size', 'value_class', 'alias', 'purity', 'live_vars', 'context_use']

def coverage_summary(cov):
    """what the run executed of the analyses under monitoring: per file line/branch percentages, the functions never
    entered and the `case` arms never taken"""
    import json as _json, ast as _ast
    out = {}
    fd, tmpf = tempfile.mkstemp(suffix='.json', dir='/var/tmp'); os.close(fd)
    try:
        cov.json_report(outfile=tmpf, ignore_errors=True)
        data = _json.load(open(tmpf))
    finally:
        os.remove(tmpf)
    tot_s = tot_c = tot_b = tot_cb = 0
    for path, f in sorted(data.get('files', {}).items()):
        name = os.path.basename(path)[:-3]
        sm = f['summary']
        missing = set(f.get('missing_lines', []))
        src = open(path).read(); lines = src.splitlines()
        never, arms = [], []
        for node in _ast.walk(_ast.parse(src)):
            if isinstance(node, (_ast.FunctionDef,)):
                body = [n.lineno for n in node.body if not (isinstance(n, _ast.Expr) and isinstance(getattr(n, 'value', None), _ast.Constant))]
                if body and all(l in missing for l in body): never.append(node.name)
            if isinstance(node, _ast.match_case):
                if node.body and node.body[0].lineno in missing:
                    arms.append(f'{node.pattern.lineno}: ' + lines[node.pattern.lineno - 1].strip()[:70])
        out[name] = {'lines_pct': round(100.0 * sm['covered_lines'] / max(sm['num_statements'], 1), 1),
                     'branches_pct': round(100.0 * sm.get('covered_branches', 0) / max(sm.get('num_branches', 0), 1), 1),
                     'functions_never_run': sorted(set(never)), 'case_arms_never_taken': arms}
        tot_s += sm['num_statements']; tot_c += sm['covered_lines']; tot_b += sm.get('num_branches', 0); tot_cb += sm.get('covered_branches', 0)
    out['TOTAL'] = {'lines_pct': round(100.0 * tot_c / max(tot_s, 1), 1), 'branches_pct': round(100.0 * tot_cb / max(tot_b, 1), 1)}
    return out

def run(rep, tier, seed):
    cov = None
    if os.environ.get('C13_COVERAGE'):
        import coverage
        cov = coverage.Coverage(branch=True, data_file=None, include=[os.path.join(os.path.dirname(fp.__file__), 'analysis', f + '.py') for f in COVERED_FILES])
        cov.start()
    try:
        _run(rep, tier, seed)
    finally:
        if cov is not None:
            cov.stop()
            try: rep.cov['analysis_coverage'] = coverage_summary(cov)
            except Exception as e: rep.notes.append(f'coverage summary failed: {type(e).__name__}: {e}')

def _run(rep, tier, seed):
    R = Prng(seed, 'C13')
    quick = tier == 'quick'
    tmp = tempfile.mkdtemp(prefix='fpyverif_c13_', dir='/var/tmp')
    try:
        # ---- layer 2
        layer2_vclass(rep, R, tier)
        layer2_refine(rep, tmp)
        layer2_uf(rep, R, tier)
        # ---- layer 3: every operation under narrow contexts; exact tables behind refinement ladders
        op_sweep(rep, R, tmp, tier)
        refine_sweep(rep, R, tmp, tier)
        # ---- layer 3: corpus
        corp = load_module(os.path.join(os.path.dirname(os.path.abspath(__file__)), 'corpus', 'c13_templates.py'), 'fpyverif_c13_corpus')
        csrc = open(corp.__file__).read()
        for fn in corp.ALL:
            try: src = fn.ast.format()
            except Exception: src = fn.ast.name
            inputs = list(getattr(corp, 'FIXED', {}).get(fn.ast.name, [])) + gen_args(R, fn, 10 if quick else 40)
            trace_function(rep, R, fn, src, 'corpus:' + fn.ast.name, 0, inputs=inputs, alias_check=fn.ast.name not in corp.NO_ALIAS_CHECK)
        # ---- layer 3: generated list-sharing programs
        AG = AliasGen(R)
        for i in range(45 if quick else 800):
            name = f'al{seed}_{i}'
            src = 'import fpy2 as fp\n\n' + AG.program(name)
            path = os.path.join(tmp, name + '.py')
            with open(path, 'w') as fh: fh.write(src)
            try: mod = load_module(path, 'fpyverif_c13_' + name)
            except Exception as e:
                rep.count('frontend-rejected:alias:' + type(e).__name__)
                if os.environ.get('VERIF_DEBUG'): rep.notes.append(f'{type(e).__name__}: {str(e)[:200]}\n{src}')
                continue
            trace_function(rep, R, getattr(mod, name), src, 'aliasgen:' + name, 4 if quick else 8)
        # ---- layer 3: type-directed general programs
        G = Gen(R)
        for pi in range(50 if quick else 900):
            funcs = G.program(f'{seed}_{pi}')
            src = 'import fpy2 as fp\n\n' + '\n'.join(src_func(f, annotate=True) for f in funcs)
            path = os.path.join(tmp, f'g{pi}.py')
            with open(path, 'w') as fh: fh.write(src)
            try: mod = load_module(path, f'fpyverif_c13_{seed}_g{pi}')
            except Exception as e:
                rep.count('frontend-rejected:gen:' + type(e).__name__); continue
            for f in funcs:
                trace_function(rep, R, getattr(mod, f['name']), src, f'gen:{f["name"]}', 4 if quick else 8)
        for k, v in G.stats.items(): rep.count('gen:' + k, v)
    finally:
        shutil.rmtree(tmp, ignore_errors=True)
    rep.cov['facts_checked'] = {k[6:]: v for k, v in rep.hist.items() if k.startswith('facts:')}
    rep.cov['rule'] = ('layer 2: ALL 16x16 class-set pairs of _exact_add/_exact_mul/join/meet, all 16 sets through the _LOGB/_POW_POS_BASE tables, random Min/Max joins, '
                       'representable_classes + _rounded on random small contexts of every family (with nan_value/inf_value substitutes), the Sum rule under every sweep context, every refinement rule '
                       '(4 class tests x truth, 6 comparison operators x literal kind x side x negation) read off the real analysis on one-branch programs, '
                       'random union-find op sequences (<= 200 ops, <= 30 elements: add/find/get/union/component/items/representatives/len/contains) vs the Lean model; '
                       'layer 3: a refinement sweep (every comparison operator x {zero, non-zero, non-dyadic literal, variable} x side, class tests, chains, not/and/or combinations, as if/else, if, elif, if-expression, while; all pairs of operands from NaN, +-inf, +-0, finite, Fraction) read in both arms; hand-written templates for each sharing route + value-class ladders + static sizes + foldable constants, a generator of list-sharing programs '
                       '(flat/nested/tupled lists; binding, indexing, slicing, construction, tuple packing, iteration, comprehension, zip/enumerate, if-expression, phi, loops), '
                       'and proggen.Gen type-directed programs (helpers included); inputs from a pool incl. NaN, +-inf, +-0, huge/tiny, ragged and rectangular nested lists; '
                       'call context in {absent, FP32, REAL, narrow}; evaluations = recorded expression values + rounding probes + union-find components; '
                       'distinct = distinct (program, input, ctx) runs + distinct model lines')
    rep.cov['explanation'] = ('Layers 1-2 are machine-checked Lean theorems about faithful models of value_class.py transfer/refinement functions and utils/unionfind.py, tied to the code by '
                              'exhaustive table comparison / random op sequences. Layer 3 is RUNTIME MONITORING of the real analyses (TypeInfer, ArraySizeInfer, ValueClassInfer, PartialEval, '
                              'DefineUse/ReachingDefs, ContextUse, Alias, Purity) against traced executions through a subclass of the real BytecodeCompiler: it can find false facts, it proves nothing.')
    rep.assumptions += ['layer 3 (type shapes, static sizes, constants, reaching definitions, aliasing, program-level value classes) is runtime monitoring, not proof',
                        'equal-length facts (shared size variable) are judged at one instant: live variables at a statement entry and the expressions evaluated by that statement outside comprehension elements',
                        'aliasing is judged for sharing created inside the function by the listed routes; arguments are passed as fresh, pairwise disjoint lists; sharing through calls is counted, not judged',
                        'only executions in which every operation has a result are described (value_class.py soundness assumption): a raising run contributes the values recorded before the raise',
                        'vclass_refine_cmp_lit_*_partial cover dyadic literals only; _POW_POS_BASE is compared table-wise but has no Lean soundness theorem (irrational results are outside the number model)']


def replay(rep, data):
    """re-run recorded layer-3 violations on the current tree: the same program, function and input through the
    real analyses and the tracing compiler; prints what is (still) false"""
    rc = 0
    tmp = tempfile.mkdtemp(prefix='fpyverif_c13_replay_', dir='/var/tmp')
    R = Prng(0, 'C13-replay')
    try:
        for i, v in enumerate(data.get('violations', [])):
            if 'args_py' not in v or 'function' not in v:
                print(f'[{i}] not a traced-program violation: {v.get("what")}'); continue
            args = eval(v['args_py'], {'nan': float('nan'), 'inf': float('inf'), 'Fraction': Fraction})
            label = v.get('label', '')
            if label.startswith('corpus:'):
                mod = load_module(os.path.join(os.path.dirname(os.path.abspath(__file__)), 'corpus', 'c13_templates.py'), 'fpyverif_c13_corpus_replay')
            else:
                src = v['program']
                if '…' in src: print(f'[{i}] program text was abbreviated ({label}); re-run the check instead'); continue
                path = os.path.join(tmp, f'r{i}.py')
                with open(path, 'w') as fh: fh.write(src)
                mod = load_module(path, f'fpyverif_c13_replay_{i}')
            fn = getattr(mod, v['function'])
            r2 = type(rep)(rep.prop, rep.tier, rep.seed)
            trace_function(r2, R, fn, v['program'], label, 0, inputs=[args] * (8 if not args else 1), call_ctxs=[None, 'fp.FP32', 'fp.REAL'])
            same = [w for w in r2.violations if w['analysis'] == v['analysis']]
            print(f'[{i}] {v["what"]}\n     args={v["args"]} fact={v["fact"]} observed={v["observed"]}\n     now: ' +
                  (f'{len(same)} violation(s) of {v["analysis"]}: ' + same[0]['what'] + ' | observed ' + same[0]['observed'] if same else 'no violation'))
            if same: rc = 1
    finally:
        shutil.rmtree(tmp, ignore_errors=True)
    return rc
