"""C07 — simplify never changes what a program returns."""
from __future__ import annotations
import itertools
from xform import *   # noqa
from fpy2 import strategies as S
from fpy2.transform import ConstFold, CopyPropagate, DeadCodeEliminate

PROP = 'C07'

def single(cls):
    def go(fn, R):
        ast = cls.apply(fn.ast)
        return fn.with_ast(ast)
    return go

def simp(**kw):
    return lambda fn, R: S.simplify(fn, **kw)

def order(classes):
    def go(fn, R):
        ast = fn.ast
        for _ in range(3):
            for c in classes: ast = c.apply(ast)
        return fn.with_ast(ast)
    return go

def recipes():
    rs = [('simplify', simp()),
          ('const_fold', single(ConstFold)), ('copy_prop', single(CopyPropagate)), ('dce', single(DeadCodeEliminate))]
    for cf, cfc, cfo, cp, dce in itertools.product([False, True], repeat=5):
        if not (cf or cp or dce): continue
        if not cf and (cfc != True or cfo != True): continue
        rs.append((f'simplify[cf={int(cf)},ctx={int(cfc)},op={int(cfo)},cp={int(cp)},dce={int(dce)}]',
                   simp(enable_const_fold=cf, enable_const_fold_context=cfc, enable_const_fold_op=cfo, enable_copy_prop=cp, enable_dead_code_elim=dce)))
    for perm in itertools.permutations([ConstFold, CopyPropagate, DeadCodeEliminate]):
        rs.append(('order[' + ','.join(c.__name__ for c in perm) + ']', order(perm)))
    return rs

def classify(d):
    return None

def run(rep, tier, seed):
    rs = recipes()
    if tier == 'quick':
        R0 = Prng(seed, 'C07r'); keep = rs[:4] + R0.sample(rs[4:], 6)
    else: keep = rs
    run_xforms(rep, tier, seed, PROP, 'c07_corpus.py', keep, gen_programs=25 if tier == 'quick' else 300,
               n_inputs=4 if tier == 'quick' else 8, call_ctxs=(None, 'fp.IEEEContext(5, 16, fp.RM.RTZ)'), classify=classify)
    rep.cov['rule'] = ('corpus of hand-written programs (copy past redefinition, alias mutation, folds under several contexts, signed zeros, dead branches) '
                       '+ type-directed random programs; every enable_* combination, single passes, all pass orders; inputs incl. specials, list lengths 0..5; '
                       'distinct = distinct (program, strategy, input, ctx)')
