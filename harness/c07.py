"""C07 — simplify never changes what a program returns."""
from __future__ import annotations
import itertools
from xform import *   # noqa
import xgen

PROP = 'C07'
PASSES = ['ConstFold', 'CopyPropagate', 'DeadCodeEliminate']

def all_recipes():
    core = ['simplify()', "single('ConstFold')", "single('CopyPropagate')", "single('DeadCodeEliminate')"]
    ext = []
    for cf, cfc, cfo, cp, dce in itertools.product([0, 1], repeat=5):
        if not (cf or cp or dce): continue
        if not cf and (cfc != 1 or cfo != 1): continue
        if cf and cfc and cfo and cp and dce: continue
        ext.append(f'simplify(cf={cf}, ctx={cfc}, op={cfo}, cp={cp}, dce={dce})')
    ext += ["single('ConstFold', enable_context=False)", "single('ConstFold', enable_op=False)", "single('ConstFold', enable_context=False, enable_op=False)",
            'constfold_shared()', 'constfold_shared(enable_context=False)', 'dce_shared()',
            "copyprop('even')", "copyprop('odd')", "copyprop('first')", "copyprop('all')"]
    for perm in itertools.permutations(PASSES):
        a = ', '.join(repr(c) for c in perm)
        ext += [f'order({a})', f'order({a}, rounds=1)', f'fixpoint({a})']
    for a, b in itertools.permutations(PASSES, 2):
        ext += [f'order({a!r}, {b!r}, rounds=2)', f'fixpoint({a!r}, {b!r})']
    ext += ['repeat(simplify(), 2)', "seq(single('DeadCodeEliminate'), simplify(dce=0))", "seq(simplify(cf=0), single('ConstFold'))",
            "repeat(single('CopyPropagate'), 3)", "repeat(single('DeadCodeEliminate'), 2)", "repeat(single('ConstFold'), 2)"]
    return core, ext

# programs on which simplify is judged AFTER another transformation has produced them
PRE_LOOP = ['unroll_for(times=1)', 'unroll_for(times=2)', "unroll_for(times=1, strategy='STRICT')", 'split(2)', 'split(3)', "split('{k}')", 'elim_iter()', 'fuse()',
            'unroll_while(times=1)', 'unroll_while(times=2)', 'seq(elim_iter(), unroll_for(times=1))', 'lift_context()']
PRE_CALL = ['inline()', 'inline(recursive=False)', 'lift_context()', 'close()', 'seq(inline(), lift_context())', 'inline(0)']

def recipes_for_factory(tier):
    core, ext = all_recipes()
    def recipes_for(prog, R):
        if tier == 'quick': return ['simplify()'] + R.sample(core[1:], 2) + R.sample(ext, 4)
        return core + ext
    return recipes_for

def classify(d, fn, xf):
    return None

def build_programs(seed, tier):
    R = Prng(seed, 'C07:progs')
    n_main, n_loop, n_call = (230, 70, 40) if tier == 'quick' else (900, 300, 180)
    sc = float(os.environ.get('VERIF_XGEN_SCALE', '1'))   # debugging aid: shrink the run
    n_main, n_loop, n_call = int(n_main * sc), int(n_loop * sc), int(n_call * sc)
    progs = corpus_progs('c07_corpus.py', R, ctxs=(None, 'fp.IEEEContext(5, 16, fp.RM.RTZ)'))
    stats = {}
    for prop, n, pres in (('C07', n_main, None), ('C08', n_loop, PRE_LOOP), ('C09', n_call, PRE_CALL)):
        ps, st = xgen.programs(prop, seed, n)
        for k, v in st.items(): stats[f'{prop}:{k}'] = v
        for p in ps:
            d = p.to_dict()
            d['args'] = p.args + xgen.random_args(R, p.kinds, 3)
            if pres:
                d['pre'] = R.choice(pres).replace('{k}', p.factors[0])
                d['loops'] = None
            progs.append(d)
    return progs, stats

def run(rep, tier, seed):
    progs, stats = build_programs(seed, tier)
    opts = {'inputs_cap': 5 if tier == 'quick' else None, 'ctx_every': 3 if tier == 'quick' else 2, 'max_traces': 3 if tier == 'quick' else 12, 'deadline_s': 900 if tier == 'quick' else 3600,
            'prog_budget': 60 if tier == 'quick' else 240}
    run_xforms(rep, tier, seed, PROP, progs, recipes_for_factory(tier), classify=classify, opts=opts)
    summarize_cov(rep, stats)
    rep.cov['rule'] = ('hand-written corpus + feature-axis synthesised programs (xgen: pairwise-covered axes idiom x name reuse x context pattern x inner context x destructuring '
                       'x loop-control side effects x iterable kind x constant flavour x placement x rounding mode; seeded random filling) + the same judged on the OUTPUT of '
                       'loop/call transformations; every enable_* combination, each pass alone (incl. flags, shared analyses, name subsets), all pass orders, fixpoints, repeats; '
                       'designed inputs (every list length 0..7, 17, 33, ~257; specials) + random inputs, with and without a caller context; '
                       'distinct = distinct (program, strategy, input, ctx) evaluations')

def replay(rep, data):
    return xform_replay(rep, data)

def xform_replay(rep, data):
    from xform import replay as rp
    return rp(rep, data, PROP, classify)
