"""C20 — library decompositions are exact.

For every call `f(operands, ctx=ctx)` of a library function of fpy2/libraries/{eft,core}.py:
 1. the REAL decorated function / primitive is run in-process;
 2. a Spec oracle written here in exact `Fraction` arithmetic decides the documented precondition (from the
    docstring: floating-point context, round-to-nearest where required, |a| >= |b| for the fast sum, enough
    precision for the splitting-based ones, no overflow / underflow of an error term) and, inside it, judges
    the REAL result: every part finite  =>  sum of the parts == exact sum / product / fma of the operands,
    first part == the exact result rounded once (numspec.spec_round); decompositions recombine exactly and
    have the documented digit ranges and special-value tables; `ldexp(x, n)` == x*2^n rounded once;
 3. correspondence: the same call on the Lean model — op `lib` (Fpy/Model/Lib.lean, the transcription the
    theorems of Props/C20 are about) and, for the `@fp.fpy` functions the exporter covers, op `eval`
    (Fpy.Lang evaluator on the AST exported from the real decorated function) — must print the same result.

The identities of the classic transformations are NOT all proved in Lean (see Props/C20.lean: the ideal variants,
the decompositions, ldexp, and fast_2sum / fast_2mul in the MPFloat and MPSFloat families are): for the rest
(classic_2sum, classic_2mul, classic_2fma, priest_2sum, veltkamp_split, the fast variants in EFloat/IEEE formats) the
exhaustive enumeration below is a TEST of the stated identity, never its proof.

Repaired defects this check found (the model keeps the old text as `…Legacy`, `lib_variants` picks the matching
transcription from the source text): F38 classic_2sum, F39 classic_2mul, F40 frexp; tag 'classic_2fma' = its last step.
Documented preconditions used by the oracle that the docstrings leave implicit (reported as such, not as failures):
fast_2mul / classic_2mul / classic_2fma need "no underflow of an error term" (a*b, resp. ulp(a)*ulp(b), not below the
least digit of the format); classic_2fma needs p >= 3; classic_2mul needs the precision p itself to be a value of the
format (core.max_p() returns ctx.round(p)); "no overflow" = the exact result does not overflow (toward-zero modes
return the largest finite value, so finiteness of the parts alone does not express it).
"""
from __future__ import annotations
import itertools, os, concurrent.futures
from numgen import *   # noqa
from numspec import spec_round, fmt_of, floor_log2, efloat_finite_set
from langexport import export_program, eval_line, show_val, Unsupported
from fpy2.libraries import eft, core

PROP = 'C20'

# the Spec's format description does not depend on the rounding mode: computed once per descriptor (private key '_fmt')
import numspec as _numspec
_fmt_of_orig = _numspec.fmt_of
def fmt_of(d):   # noqa: F811
    f = d.get('_fmt')
    if f is None:
        f = _fmt_of_orig(d); d['_fmt'] = f
    return f
_numspec.fmt_of = fmt_of
PRIVATE_KEYS = ('span', 'elo', '_fmt', '_tok')

# ids of listed known findings (known_findings.json) per function; None = not listed: a failure is a plain violation.
# F38 (classic_2sum: `bb = s - a`), F39 (classic_2mul: max_p() under INTEGER, floor instead of ceil), F40 (frexp: exponent
# rounded inexactly) are REPAIRED in /repo: entries stay None.  'classic_2fma' is the tag of its last step
# `fast_2sum(g, a2)` (the assertion |g| >= |a2| need not hold): None while it is not a listed finding.
FINDING_ID = {'classic_2sum': None, 'classic_2mul': None, 'classic_2fma': None, 'frexp': None}

def lib_variants():
    """which transcription of Fpy/Model/Lib.lean corresponds to the source under test (the model keeps the pre-repair
    definitions as `…Legacy`); decided from the source text, so the correspondence holds before and after each repair"""
    import inspect
    se, sc = inspect.getsource(eft), inspect.getsource(core)
    v = {}
    legacy_sum = '    bb = s - a\n' in se
    fast_last = 'fast_2sum(g, a2)' in se
    if legacy_sum: v['classic_2sum'] = 'classic_2sum_legacy'
    if 'with fp.INTEGER:\n        p = core.max_p()' in se: v['classic_2mul'] = 'classic_2mul_legacy'
    if legacy_sum: v['classic_2fma'] = 'classic_2fma_legacy'
    elif fast_last: v['classic_2fma'] = 'classic_2fma_fastlast'
    if 'e = ctx.round(x.e)\n' in sc: v['frexp'] = 'frexp_legacy'
    return v
MAX_RECORDED = 6          # recorded replays per (function); every failure is counted in the histogram

NEAREST = ['rne', 'rna']
FLOAT_FAMS = ('mp', 'mps', 'mpb', 'ef', 'ieee')

# name -> (real callable, arity, exact operation, modes the docstring allows)
EFT = {
    'ideal_2sum': (eft.ideal_2sum, 2, 'add', RMS), 'ideal_2mul': (eft.ideal_2mul, 2, 'mul', RMS),
    'ideal_fma': (eft.ideal_fma, 3, 'fma', RMS),
    'fast_2sum': (eft.fast_2sum, 2, 'add', NEAREST), 'classic_2sum': (eft.classic_2sum, 2, 'add', NEAREST),
    'priest_2sum': (eft.priest_2sum, 2, 'add', RMS),
    'fast_2mul': (eft.fast_2mul, 2, 'mul', RMS), 'classic_2mul': (eft.classic_2mul, 2, 'mul', NEAREST),
    'classic_2fma': (eft.classic_2fma, 3, 'fma', NEAREST),
}
IDEAL = ('ideal_2sum', 'ideal_2mul', 'ideal_fma')
ROUNDED_FIRST = {'ideal_2sum', 'fast_2sum', 'classic_2sum', 'ideal_2mul', 'fast_2mul', 'classic_2mul', 'ideal_fma', 'classic_2fma'}

# ---------------------------------------------------------------------------
# formats and operands

def ieee(es, nbits): return dict(fam='ieee', es=es, nbits=nbits, ov='overflow', k=0)
def ef(es, nbits, inf, kind, eoff=0): return dict(fam='ef', es=es, nbits=nbits, inf=inf, kind=kind, eoff=eoff, ov='overflow', k=0, nv=None, iv=None)
def mps(p, emin, span): return dict(fam='mps', p=p, emin=emin, k=0, en=True, ei=True, nv=None, iv=None, span=span)
def mp(p, elo, span): return dict(fam='mp', p=p, k=0, en=True, ei=True, nv=None, iv=None, elo=elo, span=span)
def fixed(signed, scale, nbits, ov): return dict(fam='fixed', signed=signed, scale=scale, nbits=nbits, ov=ov, k=0, nv=None, iv=None)
def mpfix(nmin, nz, span): return dict(fam='mpfix', nmin=nmin, k=0, nz=nz, en=False, ei=False, nv=None, iv=None, span=span)

def fmt_name(d):
    f = d['fam']
    if f == 'ieee': return f"ieee(es={d['es']},nbits={d['nbits']})"
    if f == 'ef': return f"ef(es={d['es']},nbits={d['nbits']},inf={b01(d['inf'])},{d['kind']})"
    if f == 'mps': return f"mps(p={d['p']},emin={d['emin']})"
    if f == 'mp': return f"mp(p={d['p']})"
    if f == 'fixed': return f"fixed({'s' if d['signed'] else 'u'},scale={d['scale']},nbits={d['nbits']},{d['ov']})"
    if f == 'mpfix': return f"mpfix(nmin={d['nmin']})"
    return f

def precision(d):
    f = d['fam']
    if f in ('mp', 'mps', 'mpb'): return d['p']
    if f in ('ef', 'ieee'): return d['nbits'] - d['es']
    return None

def expmin(d):
    """exponent of the least representable digit (None: unbounded below)"""
    n = fmt_of(d).nmin
    return None if n is None else n + 1

def magnitudes(d):
    """every positive representable value of the format (for the unbounded families: `span` binades)"""
    f = d['fam']
    if f in ('ef', 'ieee'):
        inf, kind, eoff = (True, 'ieee', 0) if f == 'ieee' else (d['inf'], d['kind'], d['eoff'])
        return sorted(v for v in efloat_finite_set(d['es'], d['nbits'], inf, kind, eoff) if v > 0)
    out = set()
    if f == 'mps':
        p, emin = d['p'], d['emin']; em = emin - p + 1
        for c in range(1, 1 << (p - 1)): out.add(Fraction(c) * Fraction(2) ** em)
        for e in range(emin, emin + d['span']):
            for c in range(1 << (p - 1), 1 << p): out.add(Fraction(c) * Fraction(2) ** (e - p + 1))
    elif f == 'mp':
        p = d['p']
        for e in range(d['elo'], d['elo'] + d['span']):
            for c in range(1 << (p - 1), 1 << p): out.add(Fraction(c) * Fraction(2) ** (e - p + 1))
    elif f in ('fixed', 'mpfix'):
        fm = fmt_of(d); u = Fraction(2) ** (fm.nmin + 1)
        hi = int(fm.pos / u) if fm.pos is not None else d['span']
        lo = int(-fm.neg / u) if fm.neg is not None else d['span']
        for c in range(1, max(hi, lo) + 1): out.add(c * u)
    return sorted(out)

def float_of(q: Fraction, s=False, ctx=None, pad=0):
    """the `Float` denoting q (sign bit s for a zero); `pad` trailing zero digits in the encoding"""
    if q == 0: return Float(s=bool(s), c=0, exp=0, ctx=ctx)
    e = -(q.denominator.bit_length() - 1)
    return Float(s=q < 0, c=abs(q.numerator) << pad, exp=e - pad, ctx=ctx)

class Opd:
    """an operand: the real object, its exact value (Fraction | 'inf' | '-inf' | 'nan'), its sign bit and its driver token"""
    __slots__ = ('obj', 'val', 's', 'tok', 'sx')
    def __init__(self, obj):
        self.obj = obj
        v = fv_of_obj(obj)
        self.val = fv_value(v); self.s = v[1]
        self.tok = 'F' + fv_tok(v)
        self.sx = f'(n {self.tok})'
    def __repr__(self): return self.tok

def operands(d, ctx, zeros=True, signed=True):
    fm = fmt_of(d)
    out = []
    if zeros:
        out.append(Opd(float_of(Fraction(0), False, ctx)))
        if fm.negzero: out.append(Opd(float_of(Fraction(0), True, ctx)))
    for m in magnitudes(d):
        if fm.pos is None or m <= fm.pos: out.append(Opd(float_of(m, ctx=ctx)))
        if signed and (fm.neg is None or -m >= fm.neg): out.append(Opd(float_of(-m, ctx=ctx)))
    return out

def specials(d, ctx):
    fm = fmt_of(d)
    out = []
    if fm.has_nan: out += [Opd(Float(isnan=True, s=False, ctx=ctx)), Opd(Float(isnan=True, s=True, ctx=ctx))]
    if fm.has_inf: out += [Opd(Float(isinf=True, s=False, ctx=ctx)), Opd(Float(isinf=True, s=True, ctx=ctx))]
    return out

# ---------------------------------------------------------------------------
# Spec oracle (exact rationals)

def isq(v): return isinstance(v, Fraction)

def ext_add(x, y):
    if x == 'nan' or y == 'nan': return 'nan'
    if not isq(x) and not isq(y): return x if x == y else 'nan'
    if not isq(x): return x
    if not isq(y): return y
    return x + y

def ext_mul(x, y):
    if x == 'nan' or y == 'nan': return 'nan'
    if isq(x) and isq(y): return x * y
    if (isq(x) and x == 0) or (isq(y) and y == 0): return 'nan'
    neg = (x == '-inf' or (isq(x) and x < 0)) != (y == '-inf' or (isq(y) and y < 0))
    return '-inf' if neg else 'inf'

def exact_op(kind, vals):
    if kind == 'add': return ext_add(vals[0], vals[1])
    if kind == 'mul': return ext_mul(vals[0], vals[1])
    return ext_add(ext_mul(vals[0], vals[1]), vals[2])

def ulp_exp(d, q: Fraction):
    """exponent of the last digit of the p-digit representation of q != 0 in the format"""
    u = floor_log2(abs(q)) - precision(d) + 1
    em = expmin(d)
    return u if em is None else max(u, em)

def sig_digits(q: Fraction) -> int:
    if q == 0: return 0
    n = abs(q.numerator)
    return (n >> ((n & -n).bit_length() - 1)).bit_length()

def precondition(fname, d, vals, extra=None) -> str | None:
    """None if the documented precondition holds, else the reason it does not (finite operands)"""
    if fname in IDEAL: return None
    if d['fam'] not in FLOAT_FAMS: return 'not a floating-point context'
    if d['rm'] not in EFT[fname][3] if fname in EFT else d['rm'] not in NEAREST: return 'rounding mode not nearest'
    em = expmin(d)
    if fname == 'fast_2sum' and abs(vals[0]) < abs(vals[1]): return '|a| < |b|'
    if fname == 'fast_2mul' and em is not None and (vals[0] * vals[1] / Fraction(2) ** em).denominator != 1:
        return 'the error term underflows (a*b is not a multiple of the least digit)'
    if fname in ('classic_2mul', 'classic_2fma'):
        a, b = vals[0], vals[1]
        if fname == 'classic_2fma' and precision(d) < 3: return 'precision below 3'
        if fname == 'classic_2mul' and not fmt_of(d).member(Fraction(precision(d))):
            return 'the precision p is not a value of the format (core.max_p() returns ctx.round(p))'
        if em is not None and a != 0 and b != 0 and ulp_exp(d, a) + ulp_exp(d, b) < em:
            return 'a partial product underflows (ulp(a)*ulp(b) below the least digit)'
    if fname == 'veltkamp_split' and not (0 <= extra <= precision(d) - 1): return 'split point outside 0..p-1'
    # "no overflow": an overflowing intermediate is an infinity (and shows in the parts) only in a format that has
    # infinities; elsewhere it is silently the largest finite value, so it has to be excluded here
    if fname in ('veltkamp_split', 'classic_2mul'):
        sp = extra if fname == 'veltkamp_split' else -(-precision(d) // 2)
        for x in (vals[:1] if fname == 'veltkamp_split' else vals[:2]):
            if spec_round(d, (Fraction(2) ** sp + 1) * x, False).get('overflow'): return 'the splitting constant times the operand overflows'
    if fname in ('classic_2mul', 'classic_2fma') and not fmt_of(d).has_inf: return 'format without infinities: an intermediate overflow (e.g. of the partial product ah*bh) is not observable'
    return None

def spec_first(sp):
    """the exact result rounded once (a numspec.spec_round verdict): ('val', q) | ('inf', s) | None (left to C01/C02: substitutes, errors)"""
    if sp['kind'] == 'value': return ('val', sp['q'])
    if sp['kind'] == 'inf': return ('inf', sp['s'])
    if sp['kind'] == 'nan': return ('nan',)
    return None

def part_value(x):
    if x.isnan: return 'nan'
    if x.isinf: return '-inf' if x.s else 'inf'
    return x.as_rational()

# ---------------------------------------------------------------------------
# plumbing

class Run:
    def __init__(self, rep, tier):
        self.rep, self.tier = rep, tier
        self.pool = concurrent.futures.ThreadPoolExecutor(max_workers=3)
        self.pending = []
        self.lines, self.meta = [], []
        self.progs = {}
        self.recorded = {}
        self.nmodel = 0
        self.variants = lib_variants()
        for k, v in self.variants.items(): rep.notes.append(f'{k}: the source under test is the pre-repair text; compared with the model definition `{v}`')
        for name, (fn, *_rest) in list(EFT.items()) + [('veltkamp_split', (eft.veltkamp_split,)), ('isnar', (core.isnar,))]:
            try:
                self.progs[name] = export_program(fn)
            except Unsupported as e:
                rep.count(f'export-unsupported:{name}')
                rep.notes.append(f'{name}: not exportable to the core-language model ({e}); compared through op `lib` only') if len(rep.notes) < 12 else None
            except Exception as e:   # a primitive has no AST
                rep.count(f'export-unsupported:{name}')

    def violation(self, fname, what, d, opds, got, extra=None):
        self.rep.count(f'VIOLATION:{fname}:{d.get("rm", "-")}')
        n = self.recorded.get(fname, 0)
        if n >= MAX_RECORDED: return
        self.recorded[fname] = n + 1
        dd = {k: v for k, v in d.items() if k not in PRIVATE_KEYS}
        rec = {'function': fname, 'ctx': dd, 'ctx_expr': repr(ctx_obj(d)), 'operands': [o.tok for o in opds],
               'operand_values': [str(o.val) for o in opds], 'impl': got, 'finding': FINDING_ID.get(fname)}
        if extra is not None: rec['extra'] = extra
        self.rep.violation(what, rec)

    def model(self, fname, d, ctx, args_tok, args_obj, got, use_eval=True):
        """queue the model lines of one call (`args_tok`: driver operand tokens F… / I…)"""
        ct = d.get('_tok')
        if ct is None: ct = d['_tok'] = ctx_tok(d)
        self.lines.append(f'lib {self.variants.get(fname, fname)} {ct} ' + ' '.join(args_tok)); self.meta.append((fname, got, 'lib'))
        if use_eval and fname in self.progs:
            entry, prog = self.progs[fname]
            # same text as langexport.eval_line(entry, prog, args, ctx, fuel=400)
            self.lines.append(f'eval 400 {entry} ({ct}) {prog} (' + ' '.join(f'(n {t})' for t in args_tok) + ')'); self.meta.append((fname, got, 'eval'))
        if len(self.lines) >= 6000: self.flush()

    def flush(self):
        if not self.lines: return
        lines, meta = self.lines, self.meta
        self.lines, self.meta = [], []
        self.pending.append((self.pool.submit(run_driver, lines), lines, meta))
        while len(self.pending) > 3: self.collect(self.pending.pop(0))

    def collect(self, item):
        fut, lines, meta = item
        out = fut.result()
        self.nmodel += len(lines)
        for line, (fname, got, via), mod in zip(lines, meta, out):
            self.rep.count(f'model:{via}')
            if via == 'eval' and len(self.rep.cov['samples']) < 10 and self.nmodel % 7 == 0 and ' zero' not in got:
                self.rep.sample({'line': line[:400], 'impl': got, 'model': mod})
            if mod != got:
                self.rep.count(f'MISMATCH:{via}:{fname}')
                if sum(1 for b in self.rep.broken if b['name'] == f'C20.{via}.{fname}') < 3:
                    self.rep.broke('correspondence', f'C20.{via}.{fname}', f'line={line[:1500]}\nimpl ={got}\nmodel={mod}')

    def finish(self):
        self.flush()
        for it in self.pending: self.collect(it)
        self.pending = []
        self.pool.shutdown()

def call_real(fn, args, ctx):
    try:
        return fn(*args, ctx=ctx), None
    except Exception as e:   # noqa
        return None, err_name(e)

def got_line(res, err): return ('err ' + err) if err else ('ok ' + show_val(res))

# ---------------------------------------------------------------------------
# error-free transformations

def judge_eft(R: Run, fname, d, opds, res, err, got):
    """Spec verdict of one call on finite operands"""
    rep = R.rep
    kind = EFT[fname][2]
    vals = [o.val for o in opds]
    pre = precondition(fname, d, vals)
    key = f'{fname}:{d["rm"]}'
    if pre is not None:
        rep.count(f'{key}:outside-precondition')
        if fname == 'fast_2sum' and pre == '|a| < |b|' and err != 'AssertionError':
            rep.count(f'{key}:unordered-not-refused')
        return
    if err is not None:
        if d['fam'] in FLOAT_FAMS and d.get('ov', 'overflow') == 'overflow':
            R.violation(fname, f'{fname} raises {err} inside its documented precondition', d, opds, got)
        else:
            rep.count(f'{key}:raised:{err}')
        return
    exact = exact_op(kind, vals)
    parts = [part_value(x) for x in res]
    spr = spec_round(d, exact, False) if d['fam'] != 'real' else None
    if spr is not None and spr.get('overflow') and fname not in IDEAL:
        # "no overflow": under a toward-zero direction an overflowing result is the largest finite value, not an infinity
        rep.count(f'{key}:outside-precondition'); return
    if fname in ROUNDED_FIRST and spr is not None:
        sp = spec_first(spr)
        if sp is not None:
            p0 = parts[0]
            okf = (sp[0] == 'val' and p0 == sp[1]) or (sp[0] == 'inf' and p0 == ('-inf' if sp[1] else 'inf')) or (sp[0] == 'nan' and p0 == 'nan')
            if not okf:
                R.violation(fname, f'{fname}: the first part is not the exact result rounded once (Spec {sp})', d, opds, got); return
    if not all(isq(p) for p in parts):
        rep.count(f'{key}:part-not-finite'); return
    if sum(parts) != exact:
        R.violation(fname, f'{fname}: the parts sum to {sum(parts)}, the exact {kind} of the operands is {exact}', d, opds, got)
        return
    rep.count(f'{key}:exact')
    if parts[-1] != 0: rep.distinct.add((fname, d['rm'], fmt_name(d), tuple(o.tok for o in opds)))

def judge_eft_special(R: Run, fname, d, opds, res, err, got):
    """operands with an infinity or a NaN: no exception in a format that has both, first part = IEEE class of the exact operation"""
    rep = R.rep
    kind = EFT[fname][2]
    key = f'{fname}:{d["rm"]}'
    if fname == 'classic_2mul' or d['fam'] not in FLOAT_FAMS:
        rep.count(f'{key}:special:skipped'); return
    if err is not None:
        R.violation(fname, f'{fname} raises {err} on special operands', d, opds, got); return
    exact = exact_op(kind, [o.val for o in opds])
    p0 = part_value(res[0])
    want = exact if not isq(exact) else None
    fm = fmt_of(d)
    if (want == 'nan' and not fm.has_nan) or (want in ('inf', '-inf') and not fm.has_inf):
        rep.count(f'{key}:special:class-not-representable'); return     # the format substitutes (EFloat `_fixup`): C01's matter
    if want is not None and fname != 'priest_2sum' and p0 != want:
        R.violation(fname, f'{fname}: first part {p0} on special operands, IEEE result is {want}', d, opds, got); return
    rep.count(f'{key}:special:{p0 if not isq(p0) else "fin"}')

def run_eft(R: Run, fname, d, tuples, use_eval=True):
    fn, arity, kind, modes = EFT[fname]
    ctx = ctx_obj(d)
    for opds in tuples:
        res, err = call_real(fn, [o.obj for o in opds], ctx)
        got = got_line(res, err)
        R.rep.cov['evaluations'] += 1
        if all(isq(o.val) for o in opds): judge_eft(R, fname, d, opds, res, err, got)
        else: judge_eft_special(R, fname, d, opds, res, err, got)
        R.model(fname, d, ctx, [o.tok for o in opds], [o.obj for o in opds], got, use_eval)

def run_veltkamp(R: Run, d, ops):
    ctx = ctx_obj(d); p = precision(d); rep = R.rep
    for s in range(0, p + 1):
        for o in ops:
            res, err = call_real(eft.veltkamp_split, [o.obj, s], ctx)
            got = got_line(res, err)
            rep.cov['evaluations'] += 1
            R.model('veltkamp_split', d, ctx, [o.tok, f'I{s}'], [o.obj, s], got)
            key = f'veltkamp_split:{d["rm"]}'
            if not isq(o.val): rep.count(f'{key}:special'); continue
            pre = precondition('veltkamp_split', d, [o.val], s)
            if pre is not None: rep.count(f'{key}:outside-precondition'); continue
            if err is not None:
                R.violation('veltkamp_split', f'veltkamp_split raises {err} inside its documented precondition', d, [o], got, {'s': s}); continue
            hi, lo = part_value(res[0]), part_value(res[1])
            if not (isq(hi) and isq(lo)): rep.count(f'{key}:part-not-finite'); continue
            if hi + lo != o.val:
                R.violation('veltkamp_split', f'veltkamp_split: {hi} + {lo} != {o.val}', d, [o], got, {'s': s}); continue
            if sig_digits(hi) > p - s or sig_digits(lo) > max(s, 0):
                R.violation('veltkamp_split', f'veltkamp_split: high part {hi} / low part {lo} exceed {p - s} / {s} digits', d, [o], got, {'s': s}); continue
            rep.count(f'{key}:exact')
            if lo != 0: rep.distinct.add(('veltkamp_split', d['rm'], fmt_name(d), o.tok, s))

# ---------------------------------------------------------------------------
# decompositions

def judge_split(R, d, o, n, res, err, got, fname='split'):
    rep = R.rep; key = fname
    x = o.val
    if err is not None:
        # refusing is allowed only when a part is not representable in the context (an operand outside the format)
        if isq(x) and fmt_of(d).member(x) and d['fam'] != 'real':
            R.violation(fname, f'{fname} raises {err} on a representable operand', d, [o], got, {'n': n})
        else: rep.count(f'{key}:raised:{err}')
        return
    hi, lo = part_value(res[0]), part_value(res[1])
    nz = fmt_of(d).negzero
    if (x == 'nan' and not fmt_of(d).has_nan) or (x in ('inf', '-inf') and not fmt_of(d).has_inf):
        rep.count(f'{key}:special:class-not-representable'); return
    if x == 'nan':
        ok = hi == 'nan' and lo == 'nan'
    elif not isq(x):
        ok = (hi == x and lo == x) if fname == 'split' else (hi == 0 and (res[0].s == o.s or not nz) and lo == x)
    elif x == 0 and fname == 'modf':
        ok = hi == 0 and lo == 0 and ((res[0].s == o.s and res[1].s == o.s) or not nz)
    else:
        g = Fraction(2) ** (n + 1)
        ok = (isq(hi) and isq(lo) and hi + lo == x and (hi / g).denominator == 1 and abs(lo) < g
              and (hi == 0 or (hi < 0) == (x < 0)) and (lo == 0 or (lo < 0) == (x < 0)))
    if not ok:
        R.violation(fname, f'{fname}: parts ({hi}, {lo}) of {x} at digit {n} do not recombine / are not the documented parts', d, [o], got, {'n': n})
    else:
        rep.count(f'{key}:ok:{cls_of(x)}')
        if isq(x) and isq(lo) and lo != 0 and hi != 0: rep.distinct.add((fname, fmt_name(d), o.tok, n))

def cls_of(x): return x if not isq(x) else ('zero' if x == 0 else 'fin')

def judge_frexp(R, d, o, res, err, got):
    rep = R.rep; x = o.val
    if err is not None:
        rep.count(f'frexp:raised:{err}'); return
    m, e = part_value(res[0]), part_value(res[1])
    fm = fmt_of(d)
    if not isq(x) and not fm.has_nan:
        rep.count('frexp:special:class-not-representable'); return
    if x == 'nan': ok = m == 'nan' and e == 'nan'
    elif not isq(x): ok = m == x and e == 'nan'
    elif x == 0: ok = m == 0 and (res[0].s == o.s or not fmt_of(d).negzero) and e == 0
    else:
        ok = isq(m) and isq(e) and e.denominator == 1 and m * Fraction(2) ** int(e) == x
    if not ok:
        R.violation('frexp', f'frexp: ({m}, {e}) does not recombine to {x}', d, [o], got)
    else:
        rep.count(f'frexp:ok:{cls_of(x)}')
        if isq(x) and x != 0: rep.distinct.add(('frexp', fmt_name(d), o.tok))

def judge_ldexp(R, d, o, n, res, err, got):
    rep = R.rep; x = o.val
    exact = x if not isq(x) else x * Fraction(2) ** n
    sp = spec_round(d, exact, o.s)
    if err is not None:
        if sp['kind'] in ('error', 'subst') or d['fam'] == 'real': rep.count(f'ldexp:raised:{err}')
        else: R.violation('ldexp', f'ldexp raises {err}; Spec {sp}', d, [o], got, {'n': n})
        return
    r = part_value(res)
    if sp['kind'] == 'value':
        ok = r == sp['q'] and (sp['q'] != 0 or sp['zero_sign'] is None or res.s == sp['zero_sign'])
    elif sp['kind'] == 'inf': ok = r == ('-inf' if sp['s'] else 'inf')
    elif sp['kind'] == 'nan': ok = r == 'nan'
    else: ok = True
    if not ok:
        R.violation('ldexp', f'ldexp: {r} is not x*2^n rounded once (Spec {sp})', d, [o], got, {'n': n})
    else:
        rep.count(f'ldexp:ok:{cls_of(x)}')
        if isq(x) and x != 0: rep.distinct.add(('ldexp', d['rm'], fmt_name(d), o.tok, n))

def run_decomp(R: Run, d, ops, Rng, ldexp_modes=True):
    rep = R.rep; ctx = ctx_obj(d); p = precision(d) or 4
    fm = fmt_of(d)
    for o in ops:
        lo_n = (floor_log2(abs(o.val)) if isq(o.val) and o.val != 0 else 0)
        ns = sorted({-1, 0, lo_n, lo_n - 1, lo_n - p, lo_n - p + 1, lo_n + 1, Rng.randint(lo_n - p - 1, lo_n + 1)})
        for n in ns:
            res, err = call_real(core.split, [o.obj, n], ctx); got = got_line(res, err)
            rep.cov['evaluations'] += 1
            judge_split(R, d, o, n, res, err, got)
            R.model('split', d, ctx, [o.tok, f'I{n}'], None, got)
        res, err = call_real(core.modf, [o.obj], ctx); got = got_line(res, err)
        rep.cov['evaluations'] += 1
        judge_split(R, d, o, -1, res, err, got, 'modf')
        R.model('modf', d, ctx, [o.tok], None, got)
        res, err = call_real(core.frexp, [o.obj], ctx); got = got_line(res, err)
        rep.cov['evaluations'] += 1
        judge_frexp(R, d, o, res, err, got)
        R.model('frexp', d, ctx, [o.tok], None, got)
        res, err = call_real(core.isinteger, [o.obj], ctx); got = got_line(res, err)
        rep.cov['evaluations'] += 1
        if err is None and isq(o.val) and res != (o.val.denominator == 1):
            R.violation('isinteger', f'isinteger({o.val}) is {res}', d, [o], got)
        R.model('isinteger', d, ctx, [o.tok], None, got)

def run_ldexp(R: Run, d, ops, Rng):
    rep = R.rep; ctx = ctx_obj(d); p = precision(d) or 4
    for o in ops:
        ns = sorted({0, 1, -1, p, -p, p + 1, -p - 1, Rng.randint(-2 * p - 4, 2 * p + 4), Rng.randint(-2 * p - 4, 2 * p + 4)})
        for n in ns:
            res, err = call_real(core.ldexp, [o.obj, n], ctx); got = got_line(res, err)
            rep.cov['evaluations'] += 1
            judge_ldexp(R, d, o, n, res, err, got)
            R.model('ldexp', d, ctx, [o.tok, f'I{n}'], None, got)

# ---------------------------------------------------------------------------

def float_formats(tier):
    """(descriptor, exhaustive-for-pairs?) of the floating-point formats, 2 <= p <= 4 (5 in thorough), all with subnormals"""
    fs = [(ieee(2, 4), True), (mps(2, -2, 4 if tier == 'quick' else 6), True), (ieee(3, 5), True), (ieee(2, 5), True), (mps(3, -2, 4), True), (ieee(2, 6), True)]
    if tier == 'quick':
        fs += [(ieee(3, 6), False), (mps(4, -1, 3), False)]
    else:
        fs += [(ieee(3, 6), True), (ieee(3, 7), True), (mps(4, -1, 4), True), (ieee(2, 7), True), (mps(5, -1, 3), True), (ieee(3, 8), False),
               (mp(2, -2, 5), True), (mp(3, -2, 4), True)]
        for inf in (False, True):
            for kind in ('maxval', 'negzero', 'none'):
                for es, nbits in ((2, 4), (2, 5), (3, 5), (2, 6)):
                    if valid_efloat(es, nbits, inf, kind): fs.append((ef(es, nbits, inf, kind), True))
    return fs

def quick_modes(fname, d0, full):
    """quick tier: [(mode, sample size or None = every ordered pair)] — the budget goes to the transformations NOT proved in Lean"""
    p = precision(d0); ie = d0['fam'] == 'ieee'
    allm = lambda ms, n=None: [(m, n) for m in ms]
    if not full:   # the two larger formats of the quick tier are sampled
        if fname in ('fast_2sum', 'classic_2sum'): return allm(NEAREST, 1200)
        if fname in ('ideal_2sum', 'ideal_2mul'): return allm(['rne'], 300)
        return [('rne', 800), ('rtz' if p == 3 else 'raz', 500)]
    if fname in ('fast_2sum', 'classic_2sum'): return allm(NEAREST)
    if fname in ('ideal_2sum', 'ideal_2mul'):
        if p == 2 and ie and d0['es'] == 2: return allm(RMS)
        if p == 2 and not ie: return allm(['rne', 'rtz', 'rto', 'rtp'])
        if p == 2: return allm(['rne', 'raz'])
        if p == 3 and ie: return allm(NEAREST)
        return allm(['rne'], 300)
    # priest_2sum, fast_2mul: any rounding mode
    if p == 2 and not (ie and d0['es'] == 3): return allm(RMS)
    if p == 2: return allm(['rne', 'rtz'])
    if p == 3 and ie: return allm(['rne', 'rna', 'rtz'] if fname == 'priest_2sum' else ['rne', 'rna', 'rtz', 'rtp'])
    if p == 3: return [('rne', None if full else 800), ('rtn', 600)]
    if fname == 'priest_2sum': return [('rne', 1000)]
    return [('rne', None if full else 600), ('raz', 600)]

def thorough_modes(fname, d0, full, npairs):
    """thorough tier: [(mode, sample size or None = every ordered pair)]"""
    p = precision(d0); big = npairs > 5000; variant = d0['fam'] == 'ef'
    nearest_n = None if full else 8000
    if fname in ('fast_2sum', 'classic_2sum'): return [(m, nearest_n if not (variant and npairs > 2000) else 1500) for m in NEAREST]
    if variant:   # the EFloat layouts other than IEEE: nearest modes and one directed mode
        n = None if npairs <= 1000 else 1500
        return [(m, n) for m in (['rne', 'rna'] if fname in IDEAL[:2] else ['rne', 'rna', 'rtz'])]
    if fname in ('ideal_2sum', 'ideal_2mul'):
        if p <= 3: return [(m, None) for m in RMS]
        return [(m, None if not big else 1500) for m in ['rne', 'rna', 'rtz', 'rto']]
    # priest_2sum, fast_2mul
    if not big: return [(m, None) for m in RMS]
    return [('rne', nearest_n)] + [(m, 1500) for m in RMS[1:]]

def run(rep, tier, seed):
    Rng = Prng(seed, 'C20')
    R = Run(rep, tier)
    quick = tier == 'quick'
    exhaustive = []
    try:
        # ---- 1. two-operand transformations: exhaustive operand pairs
        for d0, full in float_formats(tier):
            ctx0 = ctx_obj(dict(d0, rm='rne'))
            ops = operands(d0, ctx0)
            allpairs = list(itertools.product(ops, ops))
            sp = specials(d0, ctx0)
            some = [ops[0], ops[-1], ops[len(ops) // 2]] + sp
            spairs = [(a, b) for a in some for b in some if not (isq(a.val) and isq(b.val))]
            for fname in ('classic_2sum', 'fast_2sum', 'priest_2sum', 'fast_2mul', 'ideal_2sum', 'ideal_2mul'):
                plan = quick_modes(fname, d0, full) if quick else thorough_modes(fname, d0, full, len(allpairs))
                ex = [m for m, n in plan if n is None or n >= len(allpairs)]
                if ex: exhaustive.append(f'{fname} [{",".join(ex)}] {fmt_name(d0)}: all {len(ops)}^2 ordered operand pairs')
                for i, (rm, nsample) in enumerate(plan):
                    d = dict(d0, rm=rm)
                    pairs = allpairs if nsample is None or nsample >= len(allpairs) else Rng.sample(allpairs, nsample)
                    use = pairs
                    if fname == 'fast_2sum': use = [(a, b) for a, b in pairs if abs(a.val) >= abs(b.val)] + pairs[:40]
                    run_eft(R, fname, d, use, use_eval=(not quick or i == 0))
                    if i < 2 or not quick: run_eft(R, fname, d, spairs, use_eval=True)
            # classic_2mul and veltkamp_split
            for rm in NEAREST:
                d = dict(d0, rm=rm)
                run_eft(R, 'classic_2mul', d, allpairs[:: (5 if quick else 1)])
                run_veltkamp(R, d, ops + sp)
            exhaustive.append(f'veltkamp_split [rne,rna] {fmt_name(d0)}: all {len(ops)} operands x every split point 0..p')
        # ---- 2. three-operand transformations: triples on a grid
        for d0, full in float_formats(tier):
            p = precision(d0)
            if quick and not full: continue
            ctx0 = ctx_obj(dict(d0, rm='rne'))
            ops = operands(d0, ctx0)
            size = 7 if quick else 10
            grid = ops if len(ops) <= size else sorted(Rng.sample(ops, size), key=lambda o: (o.val, o.s))
            triples = list(itertools.product(grid, grid, grid))
            sp = specials(d0, ctx0)
            striples = [(a, b, c) for a in sp[:3] + grid[:1] for b in sp[1:] + grid[-1:] for c in sp[:2] + grid[:1] if not (isq(a.val) and isq(b.val) and isq(c.val))]
            for fname in ('ideal_fma', 'classic_2fma'):
                if fname == 'classic_2fma': modes = NEAREST if p >= 3 else ['rne']
                elif quick: modes = RMS if (p == 2 and d0['fam'] == 'ieee' and d0['es'] == 2) else ['rne']
                else: modes = RMS if d0['fam'] != 'ef' else NEAREST
                for i, rm in enumerate(modes):
                    d = dict(d0, rm=rm)
                    run_eft(R, fname, d, triples, use_eval=(not quick or i == 0))
                    if i == 0 or not quick: run_eft(R, fname, d, striples[:30])
        # ---- 3. the ideal variants under fixed-point contexts, all eight modes
        fx = [fixed(True, -1, 4, 'saturate'), fixed(True, 0, 3, 'wrap'), fixed(False, -2, 3, 'overflow'), mpfix(-2, True, 5), dict(fam='real')]
        if not quick: fx += [fixed(True, 1, 4, 'wrap'), fixed(False, 0, 4, 'saturate'), fixed(True, -2, 5, 'assert'), mpfix(0, False, 6)]
        for d0 in fx:
            modes = RMS if d0['fam'] != 'real' else ['rne']
            for rm in modes:
                d = dict(d0, rm=rm) if d0['fam'] != 'real' else dict(d0)
                d.setdefault('rm', 'rne')
                ctx = ctx_obj(d)
                ops = operands(d0, ctx) if d0['fam'] != 'real' else operands(mps(3, -2, 3), None)
                pairs = list(itertools.product(ops, ops))
                if len(pairs) > 100 and quick: pairs = Rng.sample(pairs, 100)
                for fname in ('ideal_2sum', 'ideal_2mul'):
                    run_eft(R, fname, d, pairs)
                g = ops[:: max(1, len(ops) // (4 if quick else 6))]
                run_eft(R, 'ideal_fma', d, list(itertools.product(g, g, g)))
        # ---- 4. decompositions: every finite / zero / infinite / NaN operand of the formats
        dec = [d0 for d0, _ in float_formats(tier)] + [mps(2, -7, 14), mp(2, -8, 16), mp(3, -3, 6)]
        for d0 in dec:
            for rm in (['rne'] if quick else ['rne', 'rtz']):
                d = dict(d0, rm=rm)
                ctx = ctx_obj(d)
                ops = operands(d0, ctx) + specials(d0, ctx)
                exhaustive.append(f'{fmt_name(d0)}: split/modf/frexp/isinteger on all {len(ops)} operands') if rm == 'rne' else None
                run_decomp(R, d, ops, Rng)
            for rm in (['rne', 'rtz', 'raz'] if quick else RMS):
                d = dict(d0, rm=rm)
                ctx = ctx_obj(d)
                ops = operands(d0, ctx) + specials(d0, ctx)
                if quick and len(ops) > 20: ops = Rng.sample(ops, 20)
                run_ldexp(R, d, ops, Rng)
        # operands that are NOT values of the context (doubles, redundant encodings, context-free Floats) and fixed-point / real contexts
        others = [dict(fixed(True, -2, 6, 'saturate'), rm='rne'), dict(mpfix(-3, True, 4), rm='rtz'), dict(fam='real', rm='rne'),
                  dict(mps(3, -3, 4), rm='rne'), dict(ieee(3, 6), rm='rna')]
        for d in others:
            ctx = ctx_obj(d)
            xs = [1.25, -1.625, 0.3, 40.0, 2.0 ** -20, -0.0, 0.0, float('inf'), float('-inf'), float('nan'), 3, -7, 0]
            ops = [Opd(Float.from_float(x, ctx=fp.FP64)) if isinstance(x, float) else Opd(Float.from_int(x, ctx=fp.INTEGER)) for x in xs]
            ops += [Opd(float_of(Fraction(13, 8), ctx=fp.REAL, pad=3)), Opd(float_of(Fraction(-5, 2), ctx=fp.REAL, pad=1))]
            run_decomp(R, d, ops, Rng)
            run_ldexp(R, d, ops, Rng)
    finally:
        R.finish()
    rep.cov['model_lines'] = R.nmodel
    rep.cov['exhaustive'] = True
    rep.cov['exhaustive_over'] = exhaustive
    rep.cov['rule'] = ('EFTs: every ordered operand pair (finite values incl. subnormals and both zeros) of each listed float format, 2 <= p <= 4 (5 thorough), '
                       'RNE+RNA for fast/classic 2sum, all 8 modes for priest_2sum, fast_2mul and the ideal variants (formats up to 3 digits in quick), triples on a '
                       'value grid for ideal_fma / classic_2fma, ideal variants also under fixed-point (saturate/wrap/overflow) and real contexts; specials by class; '
                       'veltkamp_split on every operand x every split point 0..p; split at 7+ digit positions, modf, frexp, isinteger on every finite/zero/inf/NaN operand, '
                       'ldexp with n in [-2p-4, 2p+4]; verdict by exact Fraction arithmetic on the REAL results; every call also on the Lean model (lib, and eval of the exported AST); '
                       'distinct = distinct (function, mode, format, operands) with a non-zero error term / both parts non-zero')
    rep.assumptions += ['Spec oracle (this file + numspec.spec_round) states exactness in exact rational arithmetic on the results of the real code',
                        'fast_2sum and fast_2mul are PROVED in Lean for the MPFloat and MPSFloat families (Props/C20.lean); for the EFloat/IEEE formats, and for priest_2sum, veltkamp_split, classic_2sum / classic_2mul / classic_2fma, the exhaustive enumerations are TESTS of the stated identities, not proofs',
                        'frexp operands carry the context they are values of (`x.normalize()` needs `x.ctx`)',
                        'quick tier: two larger formats (ieee(3,6), mps(4,-1)) are sampled, all others exhaustive']

# ---------------------------------------------------------------------------

def replay(rep, data):
    """re-run the stored violations on the current tree"""
    rc = 0
    for i, v in enumerate(data.get('violations', [])):
        d = v['ctx']
        for k in ('pos', 'neg', 'nv', 'iv'):
            if d.get(k) is not None: d[k] = tuple(d[k])
        ctx = ctx_obj(d)
        fname = v['function']
        fn = getattr(eft, fname, None) or getattr(core, fname)
        objs = []
        for t in v['operands']:
            body = t[1:]
            if body[0] == 'f':
                s, e, c = body[1:].split(':'); objs.append(Float(s=s == '1', exp=int(e), c=int(c), ctx=ctx))
            elif body[0] == 'i': objs.append(Float(isinf=True, s=body[1] == '1', ctx=ctx))
            else: objs.append(Float(isnan=True, s=body[1] == '1', ctx=ctx))
        extra = v.get('extra') or {}
        args = objs + ([extra['s']] if 's' in extra else []) + ([extra['n']] if 'n' in extra else [])
        res, err = call_real(fn, args, ctx)
        got = got_line(res, err)
        same = got == v['impl']
        print(f"[{i}] {fname}({', '.join(v['operand_values'])}{', ' + str(extra) if extra else ''}) under {v['ctx_expr']}\n"
              f"     recorded: {v['impl']}\n     now     : {got}\n     {v['what']}\n     {'still fails' if same else 'CHANGED'}")
        if same: rc = 1
    return rc
