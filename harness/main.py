"""entry point: ./check Cxx [--tier quick|thorough] [--replay f]"""
import sys, os, argparse, importlib, json, traceback
sys.path.insert(0, os.path.dirname(os.path.abspath(__file__)))
from common import *   # noqa

def main():
    ap = argparse.ArgumentParser()
    ap.add_argument('prop')
    ap.add_argument('--tier', default=os.environ.get('VERIF_TIER', 'quick'))
    ap.add_argument('--replay')
    ap.add_argument('--no-proof', action='store_true', help='skip the Lean build/audit (debugging only)')
    a = ap.parse_args()
    seed = int(os.environ.get('VERIF_SEED', '0') or 0)
    prop = a.prop.upper()
    mod = importlib.import_module(prop.lower())
    rep = Report(prop, a.tier, seed)
    if a.replay:
        data = json.loads(open(a.replay).read())
        return mod.replay(rep, data)
    proof = {'obligations': 1, 'discharged': 0, 'checker_cmd': 'skipped', 'trusted_base': []}
    if a.no_proof:
        os.environ['FPY_EVIDENCE_ELSEWHERE'] = '1'   # a debugging run is not evidence
    if not a.no_proof:
        proof = proof_stage(rep, prop, a.tier == 'thorough', getattr(mod, 'EXTRA_PROPS', None))
    try:
        mod.run(rep, a.tier, seed)
    except Exception:
        rep.broke('harness', f'{prop}.run', traceback.format_exc())
    level = getattr(mod, 'LEVEL', 'proof')
    code = finish(rep, proof, level=level)
    sys.exit(code)

if __name__ == '__main__':
    main()
