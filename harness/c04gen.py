"""
C04 program generator, second generation: type-directed SOURCE TEXT generation covering every construct the FPy front
end accepts and the core model (or an exact desugaring, see c04front) can decide.  The Lean side of a program is
produced from this text by the independent front end `c04front`; nothing here knows about S-expressions.

The feature list was derived from a branch-coverage measurement of fpy2/interpret/*.py, fpy2/frontend/parser.py and
fpy2/ops.py under the first-generation generator (proggen.Gen): every `_visit_*` method / helper / case arm the old
programs never executed has a production below (see FEATURES, counted in rep.cov as `gen4:<feature>`).

Types: R real, B bool, L list[R], LL list[list[R]], P pair (R, R), LP list of pairs, C context.
Programs are accepted by construction (reads are of definitely-bound names, comprehension/loop targets may shadow) and
terminate by construction.  With probability `risk` an index / slice / zip / range / min is left unguarded so that the
error paths (IndexError, ValueError of a strict zip, TypeError of a non-integer index, failed assert) are exercised
too: the error KIND must agree.
"""
from __future__ import annotations
import itertools
from fractions import Fraction

# numeric literal spellings: (source text) — every spelling class of the reference: integers (decimal, hex, binary,
# underscores), decimals, exponents, signed literals, signed zeros, hexfloat / rational / digits, nan / inf
LITS = ['0', '1', '2', '3', '7', '10', '0.5', '0.25', '1.5', '0.1', '0.3', '2.75', '100', '0.001', '1e3', '16', '255', '0.75',
        '1e-3', '2.5e2', '0x10', '0b101', '1_000', '2.0', '1e22', '5e-324', '00.50', '.5', '3.',
        '(-1)', '(-2.5)', '(-0.0)', '(-0)', '(-(-3))', '(+4)', '(-1e3)', '(- +2)', '(-(0.0))',
        "fp.hexfloat('0x1.8p1')", "fp.hexfloat('-0x1.4p-3')", "fp.hexfloat('0x0p0')", "fp.hexfloat('-0x0p0')", "fp.hexfloat('0xap0')", "fp.hexfloat('0x.8p1')",
        'fp.rational(1, 3)', 'fp.rational(-7, 4)', 'fp.rational(6, 4)', 'fp.rational(0, 5)', '(-fp.rational(0, 5))', 'fp.rational(2, -3)',
        'fp.digits(3, -2, 10)', 'fp.digits(5, 3, 2)', 'fp.digits(-7, -3, 2)', 'fp.digits(0, 4, 10)', 'fp.digits(1, 2, 16)',
        'fp.nan()', 'fp.inf()', '(-fp.inf())']
SMALL_INTS = ['0', '1', '2', '3']

UNARY = ['abs({0})', 'fp.fabs({0})', 'fp.sqrt(abs({0}))', 'fp.sqrt({0})', 'fp.cbrt({0})', 'fp.ceil({0})', 'fp.floor({0})', 'fp.trunc({0})',
         'fp.roundint({0})', 'fp.nearbyint({0})', 'fp.round({0})', 'fp.cast(fp.round({0}))', 'fp.round_exact(fp.round({0}))', '(-{0})', '(+{0})',
         'fp.round_at({0}, {k})']
BINARY = ['({0} + {1})', '({0} - {1})', '({0} * {1})', '({0} / {1})', '({0} % {1})', 'fp.add({0}, {1})', 'fp.sub({0}, {1})', 'fp.mul({0}, {1})',
          'fp.div({0}, {1})', 'fp.copysign({0}, {1})', 'fp.fdim({0}, {1})', 'fp.fmod({0}, {1})', 'fp.remainder({0}, {1})', 'fp.hypot({0}, {1})',
          'fp.fmin({0}, {1})', 'fp.fmax({0}, {1})', 'min({0}, {1})', 'max({0}, {1})', '({0} ** {p})', 'fp.pow({0}, {p})']
PREDS = ['fp.isnan({0})', 'fp.isinf({0})', 'fp.isfinite({0})', 'fp.signbit({0})']
CMPS = ['<', '<=', '>', '>=', '==', '!=']
AUG = ['+=', '-=', '*=', '/=', '%=', '**=']

RMS = ['RNE', 'RNA', 'RTP', 'RTN', 'RTZ', 'RAZ', 'RTO', 'RTE']
# context expressions with static arguments, in every spelling of the arguments (positional / keyword / mixed / defaults)
def static_contexts(R):
    rm = lambda: 'fp.RM.' + R.choice(RMS)
    ov = lambda: 'fp.OV.' + R.choice(['OVERFLOW', 'SATURATE'])
    return [
        'fp.FP64', 'fp.FP32', 'fp.FP16', 'fp.BF16', 'fp.TF32', 'fp.REAL', 'fp.INTEGER', 'fp.SINT8', 'fp.UINT8', 'fp.SINT16', 'fp.MX_INT8',
        'fp.FP8P3', 'fp.S1E4M3', 'fp.S1E5M2', 'fp.MX_E4M3', 'fp.MX_E5M2', 'fp.MX_E2M1', 'fp.FP128',
        f'fp.IEEEContext(5, 16, {rm()})', f'fp.IEEEContext(8, 32, {rm()}, {ov()})', 'fp.IEEEContext(4, 8)', f'fp.IEEEContext(es=3, nbits=6, rm={rm()})',
        f'fp.IEEEContext(11, 64, rm={rm()}, overflow={ov()})', f'fp.IEEEContext(nbits=16, es=5)', f'fp.IEEEContext(5, nbits=12, overflow={ov()})',
        f'fp.MPFloatContext({R.choice([1, 2, 3, 5, 12, 24])}, {rm()})', f'fp.MPFloatContext(pmax={R.choice([1, 2, 4, 8])})', f'fp.MPFloatContext({R.choice([2, 3, 7])}, rm={rm()})',
        f'fp.MPFloatContext(4, {rm()}, enable_inf=False)', f'fp.MPFloatContext(3, enable_nan=False, enable_inf=False)',
        f'fp.MPSFloatContext({R.choice([2, 4, 6])}, {R.choice([-3, -8, 0, 2])}, {rm()})', f'fp.MPSFloatContext(pmax=3, emin=-2)', f'fp.MPSFloatContext(5, emin=-4, rm={rm()})',
        f'fp.MPBFloatContext(4, -5, 240, {rm()}, {ov()})', f'fp.MPBFloatContext(3, -2, 6.5, {rm()})', f'fp.MPBFloatContext(pmax=5, emin=-6, maxval=1e3, rm={rm()}, overflow={ov()})',
        f'fp.MPFixedContext({R.choice([-3, -1, 0, 2, -8])}, {rm()})', f'fp.MPFixedContext(nmin=-2)', f'fp.MPFixedContext(-4, rm={rm()}, enable_nan=True, enable_inf=True)',
        f'fp.MPFixedContext(-2, {rm()}, enable_neg_zero=False)',
        f'fp.MPBFixedContext(-3, 100, {rm()}, fp.OV.SATURATE)', f'fp.MPBFixedContext(nmin=-2, maxval=15.5, rm={rm()}, overflow=fp.OV.SATURATE)',
        f'fp.FixedContext(True, -2, 8, {rm()}, fp.OV.SATURATE)', f'fp.FixedContext(False, 0, 6, {rm()}, fp.OV.WRAP)', f'fp.FixedContext(signed=True, scale=-4, nbits=12, rm={rm()}, overflow=fp.OV.SATURATE)',
        f'fp.FixedContext(True, 1, 5, overflow=fp.OV.SATURATE)', 'fp.FixedContext(False, -1, 4)',
        f'fp.SMFixedContext(-1, 6, {rm()}, fp.OV.SATURATE)', f'fp.SMFixedContext(scale=-3, nbits=8, overflow=fp.OV.SATURATE)',
        f'fp.EFloatContext(4, 8, False, fp.EFloatNanKind.MAX_VAL, 1, {rm()})', f'fp.EFloatContext(5, 8, True, fp.EFloatNanKind.NEG_ZERO, -1, {rm()}, {ov()})',
        f'fp.EFloatContext(3, 7, True, fp.EFloatNanKind.IEEE_754, eoffset=0, rm={rm()})', f'fp.EFloatContext(es=2, nbits=6, enable_inf=False, nan_kind=fp.EFloatNanKind.NONE, eoffset=0, overflow=fp.OV.SATURATE)',
    ]

FEATURES = ['nullary', 'literal-forms', 'named-binary', 'mod', 'pow', 'round_at', 'cast', 'range2', 'range3', 'neg-step', 'slice-forms', 'nested-list',
            'multi-index-assign', 'free-var-number', 'free-var-list', 'free-var-context', 'free-var-function', 'pass', 'effect', 'print', 'assert-msg',
            'augassign', 'annassign', 'elif', 'tuple-nested-pattern', 'swap', 'comp-shadow', 'loop-shadow', 'zip3', 'ctx-keyword', 'ctx-computed',
            'ctx-as-var', 'ctx-arg', 'typed-args', 'eq-mixed', 'fst-snd', 'size', 'empty', 'return-alias', 'helper-list-result', 'risky-index',
            'risky-slice', 'risky-zip', 'minmax-list', 'sum-list', 'ite-list', 'chain-eq', 'bool-var', 'while', 'early-return', 'docstring']


class Gen4:
    def __init__(self, R, uid: str, risk: float = 0.12, max_depth: int = 3):
        self.R = R
        self.uid = uid
        self.risk = risk
        self.max_depth = max_depth
        self.fresh = itertools.count()
        self.stats: dict[str, int] = {}
        self.helpers: dict[str, tuple[list[str], str]] = {}     # name -> (param types, result type)
        self.globals: dict[str, tuple[str, str]] = {}           # name -> (type, source of the value)
        self.static_ctx = static_contexts(R)
        self.py_ctx = [c for c in self.static_ctx if 'MPBF' not in c]      # usable in plain Python (globals, decorator arguments)

    def count(self, k): self.stats[k] = self.stats.get(k, 0) + 1
    def new(self, p): return f'{p}{next(self.fresh)}'
    def vars_of(self, env, ty): return [x for x, t in env.items() if t == ty]
    def wvars(self, env, ty): return [x for x, t in env.items() if t == ty and x not in self.globals]     # rebindable
    def risky(self): return self.R.random() < self.risk

    # ---------------------------------------------------------------- contexts
    def ctx(self, env, allow_dynamic=True) -> str:
        R = self.R
        cvars = self.vars_of(env, 'C')
        c = R.choice(['static'] * 6 + (['var'] * 2 if cvars else []) + (['dyn'] * 3 if allow_dynamic else []) + ['ite'] * (1 if cvars else 0))
        if c == 'var': self.count('ctx-as-var'); return R.choice(cvars)
        if c == 'ite':
            self.count('ctx-as-var')
            return f'({R.choice(cvars)} if {self.boolean(env, 0)} else {R.choice(self.static_ctx)})'
        if c == 'dyn':
            self.count('ctx-computed')
            n = self.int_expr(env)
            form = R.choice(['mp', 'mp', 'mpkw', 'mps', 'ieee', 'mpfix', 'fixed'])
            rm = 'fp.RM.' + R.choice(RMS)
            if form == 'mp': return f'fp.MPFloatContext({n} + 1, {rm})'
            if form == 'mpkw': return f'fp.MPFloatContext(pmax={n} + 2, rm={rm})'
            if form == 'mps': return f'fp.MPSFloatContext({n} + 1, 0 - {self.int_expr(env)}, {rm})'
            if form == 'ieee': return f'fp.IEEEContext({n} + 2, 2 * {n} + 8, {rm})'
            if form == 'mpfix': return f'fp.MPFixedContext(0 - {n}, {rm})'
            return f'fp.FixedContext(True, 0 - {n}, {n} + 6, {rm}, fp.OV.SATURATE)'
        s = R.choice(self.static_ctx)
        if '=' in s: self.count('ctx-keyword')
        return s

    def int_expr(self, env) -> str:
        """an expression whose EXACT value is a small non-negative integer — but whose value under a narrow active context
        is not (so a constructor argument evaluated under the wrong context is observable)"""
        R = self.R
        ls = self.vars_of(env, 'L')
        forms = ['{k}', '({k} + 1)', '(0.1 * {k}0)', '(fp.rational(1, 3) * {k3})', '({k}.5 * 2 - 1)', '(1025 - 1024 + {k})', '((1 / 3) * {k3})']
        if ls: forms += ['len({l})', '(len({l}) + 1)']
        f = R.choice(forms)
        k = R.choice([1, 2, 3, 4])
        return f.format(k=k, k3=3 * k, l=R.choice(ls) if ls else '')

    # ---------------------------------------------------------------- expressions
    def lit(self):
        s = self.R.choice(LITS)
        if not s[0].isdigit() or not s.replace('.', '').isdigit(): self.count('literal-forms')
        if 'nan()' in s or 'inf()' in s: self.count('nullary')
        return s

    def index_of(self, env, l, guard_len=None) -> str:
        """an index expression for list variable l: mostly small literals, sometimes computed / risky"""
        R = self.R
        if self.risky():
            self.count('risky-index')
            return R.choice(['5', '(-1)', '-1', '-2', '0.5', f'len({l})', f'len({l}) + 1', f'(0 - 1)', f'(len({l}) - len({l}) - 1)', self.real(env, 0), '(1 / 3)', '1e22', '-0', '-0.0', '2.0', 'fp.rational(4, 2)'])
        return R.choice(['0', '0', '1', '2', f'(len({l}) - 1)'])

    def real(self, env, d) -> str:
        R = self.R
        vs = self.vars_of(env, 'R'); ls = self.vars_of(env, 'L'); lls = self.vars_of(env, 'LL'); ps = self.vars_of(env, 'P')
        choices = ['var'] * 5 + ['lit'] * 3
        if d > 0:
            choices += ['unary'] * 4 + ['binary'] * 7 + ['fma', 'ite', 'minmax', 'minmax']
            if ls: choices += ['index'] * 2 + ['sum', 'len', 'minl', 'size']
            if lls: choices += ['index2', 'lenrow']
            if ps: choices += ['fst'] * 2
            if self.helpers: choices += ['call'] * 3
            choices += ['pairlit']
        c = R.choice(choices)
        if c == 'var' and vs: return R.choice(vs)
        if c in ('var', 'lit'): return self.lit()
        if c == 'unary':
            t = R.choice(UNARY) if not (self.risky() and R.random() < 0.3) else R.choice(['fp.cast({0})', 'fp.round_exact({0})'])
            if 'round_at' in t: self.count('round_at')
            if 'cast' in t or 'round_exact' in t: self.count('cast')
            return t.format(self.real(env, d - 1), k=R.choice(['0', '1', '(-1)', '(-3)', '2', '(-10)']))
        if c == 'binary':
            t = R.choice(BINARY)
            if t.startswith('fp.'): self.count('named-binary')
            if '%' in t: self.count('mod')
            if '{p}' in t: self.count('pow')
            return t.format(self.real(env, d - 1), self.real(env, d - 1), p=R.choice(['0', '1', '2', '3', '(-1)', '(-2)']))
        if c == 'fma': return f'fp.fma({self.real(env, d - 1)}, {self.real(env, d - 1)}, {self.real(env, d - 1)})'
        if c == 'ite': return f'({self.real(env, d - 1)} if {self.boolean(env, d - 1)} else {self.real(env, d - 1)})'
        if c == 'minmax':
            return R.choice(['min', 'max', 'fp.fmin', 'fp.fmax']) + '(' + ', '.join(self.real(env, d - 1) for _ in range(R.randint(2, 4))) + ')'
        if c == 'index':
            l = R.choice(ls)
            if R.random() < 0.3: return f'{l}[{self.index_of(env, l)}]'
            i = R.choice(['0', '0', '1', '2'])
            return f'({l}[{i}] if len({l}) > {i} else {self.lit()})'
        if c == 'index2':
            l = R.choice(lls)
            i, j = R.choice(["0", "0", "1"]), R.choice(["0", "0", "1"])
            if self.risky(): return f'{l}[{R.choice([i, "-1", "(-1)", "3"])}][{R.choice([j, "-1", "2"])}]'
            return f'({l}[{i}][{j}] if len({l}) > {i} and len({l}[{i}]) > {j} else {self.lit()})'
        if c == 'lenrow':
            l = R.choice(lls)
            return f'(len({l}[0]) if len({l}) > 0 else 0)'
        if c == 'sum': self.count('sum-list'); return f'sum({self.lst(env, d - 1)})'
        if c == 'len': return f'len({self.lst(env, d - 1)})'
        if c == 'size': self.count('size'); return f'fp.size({R.choice(ls)}, 0)' if R.random() < 0.5 else f'len({R.choice(ls)})'
        if c == 'minl':
            self.count('minmax-list')
            return R.choice(['min', 'max', 'fp.fmin', 'fp.fmax']) + f'({self.lst(env, d - 1)})'
        if c == 'fst': self.count('fst-snd'); return R.choice(['fp.fst', 'fp.snd']) + f'({R.choice(ps)})'
        if c == 'pairlit':
            self.count('fst-snd')
            return R.choice(['fp.fst', 'fp.snd']) + f'(({self.real(env, d - 1)}, {self.real(env, d - 1)}))'
        if c == 'call':
            cands = [f for f, (pt, rt) in self.helpers.items() if rt == 'R']
            if cands:
                f = R.choice(cands)
                return f'{f}(' + ', '.join(self.of_type(env, t, d - 1) for t in self.helpers[f][0]) + ')'
        return self.lit()

    def of_type(self, env, t, d) -> str:
        if t == 'R': return self.real(env, d)
        if t == 'B': return self.boolean(env, d)
        if t == 'L': return self.lst(env, d)
        if t == 'LL': return self.llst(env, d)
        if t == 'P': return self.pair(env, d)
        if t == 'C': return self.ctx(env, allow_dynamic=False)
        raise ValueError(t)

    def pair(self, env, d) -> str:
        ps = self.vars_of(env, 'P')
        if ps and self.R.random() < 0.5: return self.R.choice(ps)
        hp = [f for f, (pt, rt) in self.helpers.items() if rt == 'P']
        if hp and d > 0 and self.R.random() < 0.4:
            f = self.R.choice(hp)
            return f'{f}(' + ', '.join(self.of_type(env, t, d - 1) for t in self.helpers[f][0]) + ')'
        return f'({self.real(env, max(d - 1, 0))}, {self.real(env, max(d - 1, 0))})'

    def boolean(self, env, d) -> str:
        R = self.R
        bs = self.vars_of(env, 'B')
        choices = ['cmp'] * 4 + ['const'] + (['var'] * 2 if bs else [])
        if d > 0:
            choices += ['not', 'and', 'or', 'pred', 'pred', 'chain', 'chain', 'eq', 'eq', 'ite']
            if self.vars_of(env, 'L'): choices += ['anyall'] * 2
            if [f for f, (pt, rt) in self.helpers.items() if rt == 'B']: choices += ['call']
        c = R.choice(choices)
        if c == 'var': self.count('bool-var'); return R.choice(bs)
        if c == 'const': return R.choice(['True', 'False'])
        if c == 'cmp': return f'({self.real(env, d - 1)} {R.choice(CMPS)} {self.real(env, d - 1)})'
        if c == 'chain':
            n = R.randint(2, 3)
            ops = [R.choice(CMPS) for _ in range(n)]
            if '==' in ops or '!=' in ops: self.count('chain-eq')
            s = self.real(env, d - 1)
            for o in ops: s += f' {o} {self.real(env, d - 1)}'
            return f'({s})'
        if c == 'eq':
            self.count('eq-mixed')
            k = R.choice(['pair', 'list', 'bool', 'nested', 'plist'])
            o = R.choice(['==', '!='])
            if k == 'pair': return f'({self.pair(env, d - 1)} {o} {self.pair(env, d - 1)})'
            if k == 'list': return f'({self.lst(env, d - 1)} {o} {self.lst(env, d - 1)})'
            if k == 'bool': return f'({self.boolean(env, d - 1)} {o} {self.boolean(env, d - 1)})'
            if k == 'nested': return f'(({self.real(env, 0)}, [{self.real(env, 0)}], ({self.boolean(env, 0)},)) {o} ({self.real(env, 0)}, [{self.real(env, 0)}], ({self.boolean(env, 0)},)))'
            return f'([{self.pair(env, 0)}] {o} [{self.pair(env, 0)}])'
        if c == 'not': return f'(not {self.boolean(env, d - 1)})'
        if c in ('and', 'or'): return '(' + f' {c} '.join(self.boolean(env, d - 1) for _ in range(R.randint(2, 3))) + ')'
        if c == 'pred': return R.choice(PREDS).format(self.real(env, d - 1))
        if c == 'ite': return f'({self.boolean(env, d - 1)} if {self.boolean(env, d - 1)} else {self.boolean(env, d - 1)})'
        if c == 'anyall':
            x = self.comp_var(env)
            env2 = dict(env); env2[x] = 'R'
            return R.choice(['any', 'all']) + f'([{self.boolean(env2, 1)} for {x} in {self.lst(env, d - 1)}])'
        if c == 'call':
            f = R.choice([f for f, (pt, rt) in self.helpers.items() if rt == 'B'])
            return f'{f}(' + ', '.join(self.of_type(env, t, d - 1) for t in self.helpers[f][0]) + ')'
        return 'True'

    def comp_var(self, env) -> str:
        """a comprehension / loop target: fresh, or (shadowing) the name of a real variable already in scope"""
        vs = self.wvars(env, 'R')
        if vs and self.R.random() < 0.25:
            self.count('comp-shadow'); return self.R.choice(vs)
        return self.new('c')

    def range_expr(self, env) -> str:
        R = self.R
        ls = self.vars_of(env, 'L')
        k = R.choice(['r1', 'r1', 'r2', 'r2', 'r3', 'r3', 'r3neg', 'rlen', 'rlenrev'] if ls else ['r1', 'r1', 'r2', 'r2', 'r3', 'r3', 'r3neg'])
        if k == 'r1': return f'range({R.choice(["0", "1", "3", "4", "(-2)"] + (["2.5"] if self.risky() else []))})'
        if k == 'r2': self.count('range2'); return f'range({R.choice(["0", "1", "(-2)", "3"])}, {R.choice(["2", "4", "0", "(-1)"])})'
        if k == 'r3':
            self.count('range3')
            return f'range({R.choice(["0", "1", "(-3)"])}, {R.choice(["2", "5", "7"])}, {R.choice(["1", "2", "3"] + (["0", "0.5"] if self.risky() else []))})'
        if k == 'r3neg': self.count('neg-step'); return f'range({R.choice(["4", "5", "1", "0"])}, {R.choice(["0", "(-1)", "(-4)", "2"])}, {R.choice(["(-1)", "(-2)", "(-3)"])})'
        l = R.choice(ls)
        if k == 'rlen': return f'range(len({l}))'
        self.count('neg-step'); return f'range(len({l}) - 1, -1, -1)'

    def slice_expr(self, env, l) -> str:
        R = self.R
        self.count('slice-forms')
        if self.risky():
            self.count('risky-slice')
            return R.choice([f'{l}[{R.choice(["", "1", "2", "(-1)", "-1", "0.5"])}:{R.choice(["", "3", "1", "5", "-1", f"len({l}) + 1"])}]', f'{l}[:len({l})][-1]', f'{l}[0:][{R.choice(["-1", "0", "5"])}]',
                             f'{l}[{R.choice(["3", "5", f"len({l}) + 1", "2"])}:]', f'{l}[:{R.choice(["3", "5", f"len({l}) + 1", "(-1)"])}]'])
        k = R.choice(['all', 'from0', 'from1g', 'to0', 'tolen', 'mid', 'empty', 'computed'])
        if k == 'all': return f'{l}[:]'
        if k == 'from0': return f'{l}[0:]'
        if k == 'to0': return f'{l}[:0]'
        if k == 'tolen': return f'{l}[:len({l})]'
        if k == 'empty': return f'{l}[len({l}):]'
        if k == 'computed': return f'{l}[len({l}) - len({l}):len({l}) * 1]'
        if k == 'from1g': return f'({l}[1:] if len({l}) > 0 else {l}[:])'
        return f'({l}[1:2] if len({l}) > 1 else {l}[0:0])'

    def lst(self, env, d) -> str:
        R = self.R
        vs = self.vars_of(env, 'L'); lls = self.vars_of(env, 'LL')
        choices = ['var'] * 5 + ['lit'] * 2
        if d > 0:
            choices += ['comp', 'comp', 'rangecomp', 'rangecomp', 'lit']
            if vs: choices += ['slice'] * 2 + ['comp2', 'zipcomp', 'zipcomp', 'enumcomp', 'ite', 'zip3comp']
            if lls: choices += ['row', 'flat']
            if [f for f, (pt, rt) in self.helpers.items() if rt == 'L']: choices += ['call'] * 2
        c = R.choice(choices)
        if c == 'var' and vs: return R.choice(vs)
        if c in ('var', 'lit'): return '[' + ', '.join(self.real(env, max(d - 1, 0)) for _ in range(R.randint(0, 3))) + ']'
        if c == 'rangecomp':
            x = self.comp_var(env)
            env2 = dict(env); env2[x] = 'R'
            return f'[{self.real(env2, 1)} for {x} in {self.range_expr(env)}]'
        if c == 'slice': return self.slice_expr(env, R.choice(vs))
        if c == 'comp':
            x = self.comp_var(env)
            env2 = dict(env); env2[x] = 'R'
            return f'[{self.real(env2, d - 1)} for {x} in {self.lst(env, d - 1)}]'
        if c == 'comp2':
            x = self.comp_var(env); y = self.new('c')
            env2 = dict(env); env2[x] = 'R'
            it2 = self.lst(env2, 0) if R.random() < 0.5 else self.range_expr(env2)     # the second generator may read the first target
            env2[y] = 'R'
            return f'[{self.real(env2, 1)} for {x} in {R.choice(vs)} for {y} in {it2}]'
        if c == 'zipcomp':
            x = self.comp_var(env); y = self.new('c')
            env2 = dict(env); env2[x] = 'R'; env2[y] = 'R'
            a = R.choice(vs)
            b = a if R.random() < 0.6 else (R.choice(vs) if not self.risky() else self.lst(env, 0))
            if b != a: self.count('risky-zip')
            return f'[{self.real(env2, 1)} for {x}, {y} in zip({a}, {b})]'
        if c == 'zip3comp':
            self.count('zip3')
            x, y, z = self.new('c'), self.new('c'), self.new('c')
            env2 = dict(env); env2[x] = 'R'; env2[y] = 'R'; env2[z] = 'R'
            a = R.choice(vs)
            tgt = R.choice([f'{x}, {y}, {z}', f'({x}, {y}, {z})', f'{x}, _, {z}'])
            if '_' in tgt: env2.pop(y)
            return f'[{self.real(env2, 1)} for {tgt} in zip({a}, {a}[:], [{self.real(env, 0)} for _ in {a}])]'
        if c == 'enumcomp':
            x = self.new('c'); y = self.comp_var(env)
            env2 = dict(env); env2[x] = 'R'; env2[y] = 'R'
            return f'[{self.real(env2, 1)} for {x}, {y} in enumerate({R.choice(vs)})]'
        if c == 'ite': self.count('ite-list'); return f'({self.lst(env, d - 1)} if {self.boolean(env, d - 1)} else {self.lst(env, d - 1)})'
        if c == 'row':
            l = R.choice(lls)
            i = R.choice(["0", "0", "1"])
            return f'{l}[{i}]' if self.risky() else f'({l}[{i}] if len({l}) > {i} else [])'
        if c == 'flat':
            x = self.new('c'); y = self.new('c')
            return f'[{y} for {x} in {R.choice(lls)} for {y} in {x}]'
        if c == 'call':
            f = R.choice([f for f, (pt, rt) in self.helpers.items() if rt == 'L'])
            self.count('helper-list-result')
            return f'{f}(' + ', '.join(self.of_type(env, t, d - 1) for t in self.helpers[f][0]) + ')'
        return '[]'

    def llst(self, env, d) -> str:
        R = self.R
        lls = self.vars_of(env, 'LL'); ls = self.vars_of(env, 'L')
        self.count('nested-list')
        c = R.choice((['var'] * 3 if lls else []) + ['lit', 'comp'] + (['share'] if ls else []))
        if c == 'var': return R.choice(lls)
        if c == 'share':   # rows that ARE existing lists: writes through a row reach them
            a = R.choice(ls)
            return f'[{a}, {R.choice(ls)}, [{self.real(env, 0)}, {self.real(env, 0)}]]'
        if c == 'comp':
            x = self.new('c')
            env2 = dict(env); env2[x] = 'R'
            return f'[[{self.real(env2, 1)}, {x}] for {x} in {self.range_expr(env)}]'
        return '[' + ', '.join('[' + ', '.join(self.real(env, 0) for _ in range(2)) + ']' for _ in range(R.randint(2, 3))) + ']'

    # ---------------------------------------------------------------- statements
    def block(self, env, depth, n, wide, ret_ty, ind, in_loop=False):
        """returns (lines, env_after)"""
        R = self.R
        pad = '    ' * ind
        out: list[str] = []
        env = dict(env)
        for _ in range(n):
            kinds = ['assign'] * 4 + ['newvar'] * 2 + ['newlist', 'aug', 'aug', 'ann', 'newbool', 'newpair', 'pass', 'effect']
            if depth > 0:
                kinds += ['if', 'if1', 'elif', 'for', 'for', 'with', 'with', 'with', 'withas', 'assert', 'assertmsg', 'earlyret', 'tuplepat', 'tuplepat', 'swap',
                          'newll', 'empty']
                if wide: kinds += ['while']
                if self.vars_of(env, 'L'): kinds += ['iassign', 'iassign', 'alias', 'iassign', 'callmut']
                if self.vars_of(env, 'LL'): kinds += ['iassign2', 'iassign2', 'rowalias']
                if self.vars_of(env, 'TL'): kinds += ['unpacktl'] * 3
                kinds += ['empty2']
            k = R.choice(kinds)
            rs = self.wvars(env, 'R')
            if k == 'assign' and rs:
                out.append(f'{pad}{R.choice(rs)} = {self.real(env, self.max_depth)}')
            elif k in ('newvar', 'assign'):
                x = self.new('v')
                out.append(f'{pad}{x} = {self.real(env, self.max_depth)}'); env[x] = 'R'
            elif k == 'aug' and rs:
                self.count('augassign')
                op = R.choice(AUG)
                rhs = R.choice(['0', '1', '2', '3']) if op == '**=' else self.real(env, 2)
                out.append(f'{pad}{R.choice(rs)} {op} {rhs}')
            elif k == 'ann':
                self.count('annassign')
                x = self.new('v')
                out.append(f'{pad}{x}: {R.choice(["fp.Real", "float", "int"])} = {self.real(env, 2)}'); env[x] = 'R'
            elif k == 'newbool':
                x = self.new('b')
                out.append(f'{pad}{x} = {self.boolean(env, 2)}'); env[x] = 'B'
            elif k == 'newpair':
                x = self.new('p')
                out.append(f'{pad}{x} = {self.pair(env, 2)}'); env[x] = 'P'
            elif k == 'newlist':
                x = self.new('l')
                out.append(f'{pad}{x} = {self.lst(env, 2)}'); env[x] = 'L'
            elif k == 'newll':
                x = self.new('m')
                out.append(f'{pad}{x} = {self.llst(env, 1)}'); env[x] = 'LL'
            elif k == 'empty':
                self.count('empty')
                x = self.new('l'); i = self.new('i')
                ls = self.vars_of(env, 'L')
                n_ = R.choice(['2', '3', '0'] + ([f'len({R.choice(ls)})'] if ls else []))
                env2 = dict(env); env2[i] = 'R'
                out.append(f'{pad}{x} = fp.empty({n_})')
                out.append(f'{pad}for {i} in range({n_}):')
                out.append(f'{pad}    {x}[{i}] = {self.real(env2, 2)}')
                env[x] = 'L'
            elif k == 'unpacktl':
                x, l = self.new('v'), self.new('l')
                out.append(f'{pad}{x}, {l} = {R.choice(self.vars_of(env, "TL"))}'); env[x] = 'R'; env[l] = 'L'
                out.append(f'{pad}if len({l}) > 0:')
                out.append(f'{pad}    {l}[0] = {l}[0] + {self.real(env, 1)}')
            elif k == 'empty2':
                self.count('empty')
                m = self.new('m'); i, j = self.new('i'), self.new('i')
                r, c = R.choice(['1', '2', '3']), R.choice(['1', '2'])
                env2 = dict(env); env2[i] = env2[j] = 'R'
                out.append(f'{pad}{m} = fp.empty({r}, {c})')
                out.append(f'{pad}for {i} in range({r}):')
                out.append(f'{pad}    for {j} in range({c}):')
                out.append(f'{pad}        {m}[{i}][{j}] = {self.real(env2, 2)}')
                env[m] = 'LL'
            elif k == 'alias':
                x = self.new('l')
                out.append(f'{pad}{x} = {R.choice(self.vars_of(env, "L"))}'); env[x] = 'L'
            elif k == 'rowalias':
                x = self.new('l')
                m_ = R.choice(self.vars_of(env, "LL"))
                out.append(f'{pad}{x} = {m_}[0] if len({m_}) > 0 else [{self.real(env, 0)}]'); env[x] = 'L'
            elif k == 'tuplepat':
                x, y, z = self.new('v'), self.new('v'), self.new('v')
                form = R.choice(['pair', 'pair_', 'nested', 'nested', 'fromvar', 'triple', 'withlist'])
                if form == 'pair': out.append(f'{pad}{x}, {y} = ({self.real(env, 2)}, {self.real(env, 2)})'); env[x] = env[y] = 'R'
                elif form == 'pair_': out.append(f'{pad}({x}, _) = ({self.real(env, 2)}, {self.real(env, 2)})'); env[x] = 'R'
                elif form == 'nested':
                    self.count('tuple-nested-pattern')
                    out.append(f'{pad}{x}, ({y}, {z}) = ({self.real(env, 1)}, ({self.real(env, 1)}, {self.real(env, 1)}))'); env[x] = env[y] = env[z] = 'R'
                elif form == 'fromvar' and self.vars_of(env, 'P'):
                    out.append(f'{pad}{x}, {y} = {R.choice(self.vars_of(env, "P"))}'); env[x] = env[y] = 'R'
                elif form == 'withlist':
                    self.count('tuple-nested-pattern')
                    l = self.new('l')
                    out.append(f'{pad}({x}, {l}), {y} = (({self.real(env, 1)}, {self.lst(env, 1)}), {self.real(env, 1)})'); env[x] = env[y] = 'R'; env[l] = 'L'
                else: out.append(f'{pad}{x}, {y}, {z} = ({self.real(env, 1)}, {self.real(env, 1)}, {self.real(env, 1)})'); env[x] = env[y] = env[z] = 'R'
            elif k == 'swap' and len(rs) >= 2:
                self.count('swap')
                a, b = R.sample(rs, 2)
                out.append(f'{pad}{a}, {b} = {b}, {a}')
            elif k == 'iassign':
                l = R.choice(self.vars_of(env, 'L'))
                if self.risky():
                    self.count('risky-index')
                    out.append(f'{pad}{l}[{self.index_of(env, l)}] = {self.real(env, 2)}')
                else:
                    i = R.choice(['0', '1'])
                    out.append(f'{pad}if len({l}) > {i}:')
                    out.append(f'{pad}    {l}[{R.choice([i, i, "len(" + l + ") - 1"])}] = {self.real(env, 2)}')
            elif k == 'iassign2':
                self.count('multi-index-assign')
                l = R.choice(self.vars_of(env, 'LL'))
                i, j = R.choice(['0', '0', '1']), R.choice(['0', '0', '1'])
                if self.risky(): out.append(f'{pad}{l}[{R.choice([i, "-1", "(-1)", "5"])}][{R.choice(["2", "(-1)", "-1", "0.5", j])}] = {self.real(env, 2)}')
                else:
                    out.append(f'{pad}if len({l}) > {i} and len({l}[{i}]) > {j}:')
                    out.append(f'{pad}    {l}[{i}][{j}] = {self.real(env, 2)}')
            elif k == 'callmut':
                cands = [f for f, (pt, rt) in self.helpers.items() if 'L' in pt]
                if cands:
                    self.count('effect')
                    f = R.choice(cands)
                    out.append(f'{pad}{f}(' + ', '.join(self.of_type(env, t, 1) for t in self.helpers[f][0]) + ')')
            elif k == 'effect':
                self.count('effect')
                out.append(pad + R.choice([self.real(env, 2), self.boolean(env, 1), self.lst(env, 1)]))
                if R.random() < 0.3:
                    self.count('print')
                    out.append(f'{pad}print({self.real(env, 1)}, {self.boolean(env, 0)})')
            elif k == 'pass':
                self.count('pass')
                out.append(f'{pad}pass')
            elif k == 'if':
                t, _ = self.block(env, depth - 1, R.randint(1, 2), wide, ret_ty, ind + 1, in_loop)
                f, _ = self.block(env, depth - 1, R.randint(1, 2), wide, ret_ty, ind + 1, in_loop)
                out += [f'{pad}if {self.boolean(env, 2)}:'] + t + [f'{pad}else:'] + f
            elif k == 'elif':
                self.count('elif')
                x = self.new('v')
                out.append(f'{pad}if {self.boolean(env, 2)}:')
                out.append(f'{pad}    {x} = {self.real(env, 2)}')
                for _ in range(R.randint(1, 2)):
                    out.append(f'{pad}elif {self.boolean(env, 2)}:')
                    out.append(f'{pad}    {x} = {self.real(env, 2)}')
                out.append(f'{pad}else:')
                out.append(f'{pad}    {x} = {self.real(env, 2)}')
                env[x] = 'R'       # bound on every path
            elif k == 'if1':
                t, _ = self.block(env, depth - 1, R.randint(1, 2), wide, ret_ty, ind + 1, in_loop)
                out += [f'{pad}if {self.boolean(env, 2)}:'] + t
            elif k == 'earlyret':
                self.count('early-return')
                out += [f'{pad}if {self.boolean(env, 2)}:', f'{pad}    return {self.ret_expr(env, ret_ty)}']
            elif k == 'for':
                env2 = dict(env)
                form = R.choice(['list', 'list', 'range', 'range', 'enum', 'zip', 'zip3', 'rows', 'pairs'])
                x = self.comp_var(env) if R.random() < 0.7 else self.new('e')
                if x in env: self.count('loop-shadow')
                if form == 'list': hdr = f'for {x} in {self.lst(env, 1)}:'; env2[x] = 'R'
                elif form == 'range': hdr = f'for {x} in {self.range_expr(env)}:'; env2[x] = 'R'
                elif form == 'enum':
                    y = self.new('e'); it = self.lst(env, 1)
                    hdr = f'for {y}, {x} in enumerate({it}):'; env2[x] = env2[y] = 'R'
                elif form == 'zip':
                    y = self.new('e'); it = self.lst(env, 1)
                    it2 = it if not self.risky() else self.lst(env, 1)
                    hdr = f'for {x}, {y} in zip({it}, {it2}):'; env2[x] = env2[y] = 'R'
                elif form == 'zip3':
                    self.count('zip3')
                    y = self.new('e'); z = self.new('e'); it = self.lst(env, 0)
                    hdr = f'for {x}, ({y}, {z}) in zip({it}, zip({it}, {it})):'; env2[x] = env2[y] = env2[z] = 'R'
                elif form == 'rows' and self.vars_of(env, 'LL'):
                    r = self.new('l')
                    hdr = f'for {r} in {R.choice(self.vars_of(env, "LL"))}:'; env2[r] = 'L'
                elif form == 'pairs':
                    y = self.new('e')
                    hdr = f'for {x}, {y} in [{self.pair(env, 1)}, {self.pair(env, 1)}]:'; env2[x] = env2[y] = 'R'
                else: hdr = f'for {x} in {self.lst(env, 1)}:'; env2[x] = 'R'
                b, _ = self.block(env2, depth - 1, R.randint(1, 2), wide, ret_ty, ind + 1, True)
                out += [pad + hdr] + b
                # (after the loop only names bound BEFORE it are readable; a shadowed loop variable keeps its last value)
            elif k == 'while':
                self.count('while')
                kx = self.new('k')
                n_iter = R.choice(['0', '1', '2', '3'])
                env2 = dict(env)
                b, _ = self.block(env2, depth - 1, R.randint(1, 2), False, ret_ty, ind + 1, True)
                out.append(f'{pad}{kx} = 0')
                cond = R.choice([f'{kx} < {n_iter}', f'({kx} < {n_iter}) and {self.boolean(env2, 1)}', f'not ({kx} >= {n_iter})'])
                out.append(f'{pad}while {cond}:')
                out += b + [f'{pad}    with fp.REAL:', f'{pad}        {kx} = {kx} + 1']
                env[kx] = 'R'
            elif k in ('with', 'withas'):
                cx = self.ctx(env)
                nm = self.new('cx') if k == 'withas' or R.random() < 0.15 else None
                env_in = dict(env)
                if nm: env_in[nm] = 'C'
                b, env_b = self.block(env_in, depth - 1, R.randint(1, 3), False, ret_ty, ind + 1, in_loop)
                out += [f'{pad}with {cx}' + (f' as {nm}' if nm else '') + ':'] + b
                for x, t in env_b.items(): env.setdefault(x, t)      # names bound in the body stay bound after the block
            elif k == 'assert':
                c = self.boolean(env, 1)
                out.append(f'{pad}assert ' + (f'({c} or True)' if R.random() < 0.85 else c))
            elif k == 'assertmsg':
                self.count('assert-msg')
                c = self.boolean(env, 1)
                msg = R.choice(['"message"', "'x must be positive'", self.real(env, 0), 'None'])     # (no comprehension in a message: C04-F3)
                out.append(f'{pad}assert ' + (f'({c} or True)' if R.random() < 0.8 else c) + f', {msg}')
        if not out: out.append(f'{pad}pass')
        return out, env

    def ret_expr(self, env, ret_ty) -> str:
        R = self.R
        if ret_ty == 'R': return self.real(env, 2)
        if ret_ty == 'B': return self.boolean(env, 2)
        if ret_ty == 'L':
            ls = self.vars_of(env, 'L')
            if ls and R.random() < 0.6: self.count('return-alias'); return R.choice(ls)     # the caller receives the SAME list
            return self.lst(env, 1)
        if ret_ty == 'P': return self.pair(env, 1)
        parts = [self.real(env, 2), self.boolean(env, 1)]
        ls = self.vars_of(env, 'L')
        if ls: parts.append(R.choice(ls))
        parts.append(self.lst(env, 1))
        for t in ('LL', 'P', 'B'):
            vs = self.vars_of(env, t)
            if vs and R.random() < 0.7: parts.append(R.choice(vs))
        for x in self.vars_of(env, 'R')[-2:]: parts.append(x)
        return '(' + ', '.join(parts) + ')'

    ANN = {'R': ['', '', ': fp.Real', ': float', ': int'], 'L': ['', '', ': list[fp.Real]', ': list[float]', ': list'],
           'LL': ['', ': list[list[fp.Real]]'], 'P': ['', ': tuple[fp.Real, fp.Real]', ': tuple[float, int]'], 'C': ['', ': fp.Context'], 'B': ['', ': bool']}
    RET_ANN = {'R': ['', ' -> fp.Real', ' -> float'], 'L': ['', ' -> list[fp.Real]'], 'B': ['', ' -> bool'], 'P': ['', ' -> tuple[fp.Real, fp.Real]'], 'T': ['']}

    def function(self, name, ptys, ret_ty, decl, size, depth, wide=True, mutate_first=False) -> str:
        R = self.R
        params = [f'a{i}' for i in range(len(ptys))]
        env = dict(zip(params, ptys))
        for g, (t, _) in self.globals.items():
            if R.random() < 0.5: env[g] = t
        body: list[str] = []
        if R.random() < 0.15:
            self.count('docstring'); body.append('    """generated"""')
        if mutate_first and 'L' in ptys:
            li = params[ptys.index('L')]
            body += [f'    if len({li}) > 0:', f'        {li}[0] = {self.real({p: t for p, t in zip(params, ptys)}, 2)}']
        b, env2 = self.block(env, depth, size, wide and decl is None, ret_ty, 1)
        body += b
        body.append(f'    return {self.ret_expr(env2, ret_ty)}')
        used = '\n'.join(body)
        for g, (t, _) in self.globals.items():
            if g in used: self.count({'R': 'free-var-number', 'L': 'free-var-list', 'C': 'free-var-context', 'LL': 'free-var-list', 'P': 'free-var-number', 'B': 'free-var-number', 'TL': 'free-var-list'}[t])
        anns = [R.choice(self.ANN[t]) for t in ptys]
        if any(anns): self.count('typed-args')
        dec = '@fp.fpy' if decl is None else f'@fp.fpy(ctx={decl})'
        if decl is None and R.random() < 0.1: dec = '@fp.fpy(ctx=None)'
        sig = ', '.join(p + a for p, a in zip(params, anns))
        return '\n'.join([dec, f'def {name}({sig}){R.choice(self.RET_ANN.get(ret_ty, [""]))}:'] + body) + '\n'

    def program(self) -> dict:
        """one module: globals, helpers, main.  Returns {'source', 'entry', 'ptys'}"""
        R = self.R
        u = self.uid
        self.helpers = {}; self.globals = {}
        src = ['import fpy2 as fp', 'from fractions import Fraction', '']
        # captured free variables (numbers in every Python spelling, lists, nested containers, contexts)
        for i in range(R.randint(0, 3)):
            t = R.choice(['R', 'R', 'L', 'C', 'LL', 'B', 'TL', 'TL'])
            g = f'G{u}_{i}'
            if t == 'R': v = R.choice(['2.5', '3', '-0.0', '0.1', 'Fraction(1, 3)', 'Fraction(3, 4)', '1e300', "float('inf')", '-7', 'fp.Float.from_float(0.3)', 'fp.RealFloat(False, -2, 5)',
                                       '2 ** 53 + 1', '2 ** 64 - 1', '-(3 ** 40)', 'Fraction(2 ** 70 + 1, 3)', 'fp.RealFloat(True, 0, 2 ** 80 + 1)', 'True' if False else '2 ** 61 - 1'])
            elif t == 'L': v = R.choice(['[1.0, 2.5]', '[0.1, -0.0, 3]', '[]', '[Fraction(1, 3), 2, 4.5, -1e-3]', '[2 ** 53 + 1, 2 ** 64 - 1, 1]', '[3 ** 40, 0.5]'])
            elif t == 'LL': v = R.choice(['[[1.0, 2.0], [3.0, 4.0]]', '[[0.5, 0.25], [1, 2], [3, 4]]'])
            elif t == 'B': v = R.choice(['True', 'False'])
            elif t == 'TL': v = R.choice(['(1.5, [2.0, 3.0])', '(0.1, [1, -0.0, Fraction(1, 3)])', '(-2, [0.5])', '(2 ** 64 - 1, [2 ** 53 + 1, 3])'])
            else: v = R.choice(self.py_ctx)
            self.globals[g] = (t, v)
            src.append(f'{g} = {v}')
        src.append('')
        nh = R.randint(0, 3)
        for i in range(nh):
            ptys, rt = R.choice([(['R'], 'R'), (['R', 'R'], 'R'), (['L'], 'R'), (['R', 'L'], 'R'), (['L'], 'L'), (['L', 'R'], 'L'), (['R'], 'B'), (['R', 'R'], 'P'),
                                 (['LL'], 'R'), (['P'], 'R'), (['R', 'C'], 'R'), (['B', 'R'], 'R')])
            nm = f'h{u}_{i}'
            decl = R.choice([None, None, None] + [R.choice(self.py_ctx) for _ in range(2)])
            f = self.function(nm, ptys, rt, decl, R.randint(1, 3), 1, mutate_first=R.random() < 0.7)
            src.append(f)
            self.helpers[nm] = (ptys, rt)
            if i > 0: self.count('free-var-function')
        extra = R.choice([[], [], ['LL'], ['P'], ['C'], ['B'], ['LL', 'B']])
        if 'C' in extra: self.count('ctx-arg')
        ptys = ['R', 'R', 'L'] + extra
        decl = R.choice([None, None, None, None] + [R.choice(self.py_ctx)])
        src.append(self.function(f'm{u}', ptys, 'T', decl, R.randint(3, 6), 2))
        return {'source': '\n'.join(src), 'entry': f'm{u}', 'ptys': ptys}


# ---------------------------------------------------------------------- inputs (as SOURCE TEXT: a run replays from it)
IN_R = ['1.5', '-2.25', '0.1', '3.0', '1e-3', '100.0', '-0.0', '0.0', "float('inf')", "float('-inf')", "float('nan')", '1e300', '-7.0', '0.3', '65504.0',
        '2.0 ** -30', '5', '-3', '2.0 ** 20', '2.0 ** 100', '-(2.0 ** -26)', '0', '1', '2', '4', '1e-310', '0.5', '2.5', '-1.5',
        'Fraction(1, 3)', 'Fraction(-7, 2)', 'Fraction(3, 4)', 'Fraction(10, 1)', '3 ** 40', '-(2 ** 70 + 1)', '2 ** 53 + 1', '2 ** 64 - 1', '2 ** 61 - 1', '-(2 ** 53 + 1)', '10 ** 30 + 1', 'Fraction(3 ** 40, 7)', 'Fraction(2 ** 80 + 1, 2 ** 10)',
        'fp.Float(True, 5, 3 ** 50 + 1)', 'fp.RealFloat(False, 0, 2 ** 90 + 1)', 'fp.RealFloat(False, -200, 2 ** 64 + 1)', 'fp.Float(False, -70, 3 ** 40)', 'fp.Float.from_float(0.1)',
        'fp.RealFloat(True, -3, 5)', 'fp.Float(s=True, isinf=True)', 'fp.Float(isnan=True)', 'fp.Float(s=True, exp=0, c=0)']
IN_C = ['fp.FP32', 'fp.MPFloatContext(3, fp.RM.RTZ)', 'fp.REAL', 'fp.FixedContext(True, -3, 10, fp.RM.RNE, fp.OV.SATURATE)', 'fp.IEEEContext(4, 8, fp.RM.RAZ)']
CALL_CTXS = [None, None, None, 'fp.FP32', 'fp.REAL', 'fp.IEEEContext(5, 16, fp.RM.RTZ)', 'fp.MPFloatContext(4, fp.RM.RNA)', 'fp.FixedContext(True, -4, 16, fp.RM.RNE, fp.OV.SATURATE)',
             'fp.MPFloatContext(1, fp.RM.RTP)', 'fp.MPFixedContext(-2, fp.RM.RTN)', 'fp.MPSFloatContext(3, -2, fp.RM.RNE)']

IN_K = ['0', '1', '2', '3', '4', '5', '2.5', "float('nan')", 'Fraction(1, 3)', '3.0', 'Fraction(4, 2)']
IN_N = ['0', '1', '2', '3', '4', '5', '8', '11', '24', '2.5', '-1', '-2', "float('nan')", "float('inf')", 'Fraction(1, 3)', 'Fraction(6, 2)', '3.0', '-0.0']

def input_src(R, t) -> str:
    if t == 'R': return R.choice(IN_R)
    if t == 'N': return R.choice(IN_N)
    if t == 'K': return R.choice(IN_K)      # a small NON-NEGATIVE number (sizes)      # a small (usually integer) number: precisions, sizes, indices
    if t == 'B': return R.choice(['True', 'False'])
    if t == 'LB': return '[' + ', '.join(R.choice(['True', 'False']) for _ in range(R.choice([0, 1, 2, 3]))) + ']'
    if t == 'L': return '[' + ', '.join(R.choice(IN_R) for _ in range(R.choice([0, 1, 2, 3, 3, 4]))) + ']'
    if t == 'L9': return '[' + ', '.join(R.choice(IN_R) for _ in range(R.choice([3, 5, 7, 9, 12]))) + ']'      # a longer list (indices that narrow contexts cannot represent)
    if t == 'LL': return '[' + ', '.join('[' + ', '.join(R.choice(IN_R) for _ in range(R.choice([1, 2, 2, 3]))) + ']' for _ in range(R.choice([1, 2, 2, 3]))) + ']'
    if t == 'P': return f'({R.choice(IN_R)}, {R.choice(IN_R)})'
    if t == 'C': return R.choice(IN_C)
    raise ValueError(t)

def eval_input(src: str):
    import fpy2 as fp
    return eval(src, {'fp': fp, 'Fraction': Fraction, 'float': float})
