"""C03 — elementary / special functions and named constants are correctly rounded.

Transcendental values cannot be computed exactly and MPFR is external, so the check has three parts:

 1. Spec oracle (property verdict), per case `fp.ops.<fn>(x, ctx=C)`:
    * the true result is a known rational (exp 0, log 1, log2 2^k, pow(2,10), exp10(-1) = 1/10, tgamma(5) = 24, ...):
      decided by the mathematical special-case list `exact_case` (Lindemann-Weierstrass / Gelfond-Schneider for the
      algebraic operands a Float can hold), rounded ONCE by numspec.spec_round -> value AND inexact flag are judged;
    * otherwise a Ziv-style enclosure: f(x) is evaluated with gmpy2 at working precision w (first rung of the ladder
      64, 128, ... that is >= p + 32) rounding DOWN and UP, both ends widened by one ulp, converted to exact Fractions;
      both ends are rounded by spec_round under the target context and, in addition, under round-toward-zero; when
      both agree (value, inexact, overflow) that IS the Spec verdict (no grid point and no tie can lie between the
      ends), else w is doubled; beyond the cap the case is counted `undecided`, never as a violation.
    * constants: the enclosure is computed by a pure-integer interval evaluator written here (Machin formula, atanh
      series, integer square roots) that does not use MPFR at all; the MPFR-based enclosure is only cross-checked
      against it (they must intersect).
 2. Correspondence with the Lean model of the wrapper (`Fpy.C03.mpfrCallModel` = `gmputils.mpfr_call` precision
    selection + `_round_odd`, then the context's rounding): a NON-DYADIC rational stand-in strictly inside the final
    enclosure is rounded by the compiled model (driver line `round <ctx> Q<n/d>`, which is the wrapper on the rational's
    truncation oracle by theorem `Fpy.C03.elemEval_rat_eq_round`) and must give what the real code returned.
 3. The SHAPE of `gmp._constant_exprs` (which entries are one MPFR primitive, which are compositions) is extracted
    from the source text of /repo on every run (Python `ast`) and compared with `Fpy.C03.constTable`, parsed out of
    the source text of `lean/Fpy/Model/Elem.lean` (the table theorem `constant_shape` is about).
"""
from __future__ import annotations
import ast, math, re, time
from numgen import *   # noqa
from numspec import spec_round, judge, fmt_of, floor_log2
import gmpy2 as gmp

PROP = 'C03'

# ---------------------------------------------------------------------------
# the functions of the statement and the MPFR primitive the ORACLE uses for each

def _g_pow(x, y): return x ** y
def _g_lgamma(x): return gmp.lgamma(x)[0]

GF = {
    'acos': gmp.acos, 'acosh': gmp.acosh, 'asin': gmp.asin, 'asinh': gmp.asinh, 'atan': gmp.atan, 'atanh': gmp.atanh,
    'cos': gmp.cos, 'cosh': gmp.cosh, 'sin': gmp.sin, 'sinh': gmp.sinh, 'tan': gmp.tan, 'tanh': gmp.tanh,
    'exp': gmp.exp, 'exp2': gmp.exp2, 'exp10': gmp.exp10, 'expm1': gmp.expm1,
    'log': gmp.log, 'log2': gmp.log2, 'log10': gmp.log10, 'log1p': gmp.log1p,
    'erf': gmp.erf, 'erfc': gmp.erfc, 'tgamma': gmp.gamma, 'lgamma': _g_lgamma,
    'pow': _g_pow, 'atan2': gmp.atan2,
}
UNARY = [f for f in GF if f not in ('pow', 'atan2')]
FUNCS = UNARY + ['pow', 'atan2']
# f(±0) = ±0 (IEEE 754-2019 9.2: odd functions keep the sign of a zero operand)
ODD_ZERO = {'sin', 'tan', 'asin', 'atan', 'sinh', 'tanh', 'asinh', 'atanh', 'expm1', 'log1p', 'erf'}

CONSTS = ['pi', 'e', 'log2e', 'log10e', 'ln2', 'pi_2', 'pi_4', '1_pi', '2_pi', '2_sqrt_pi', 'sqrt2', 'sqrt1_2']
# candidate F9: the composed entries of the table whose OUTER MPFR operation alone supplies the ternary value.
# (`sqrt1_2` is composed too, but its inner operation 1/2 is exact at every precision: it is not part of the family.)
F9_FAMILY = {'pi_2', 'pi_4', '1_pi', '2_pi', '2_sqrt_pi', 'log2e', 'log10e'}

EMIN, EMAX = gmp.get_emin_min(), gmp.get_emax_max()
LADDER = [64, 128, 256, 512, 1024, 2048, 4096, 8192, 16384]

def pow2(e): return Fraction(2) ** e

# ---------------------------------------------------------------------------
# exact conversions Fraction <-> mpfr (never rounding)

def to_mpfr(q: Fraction, sign: bool):
    """dyadic q (with the sign bit for a zero) as an mpfr holding it exactly"""
    if q == 0:
        return gmp.mpfr('-0') if sign else gmp.mpfr(0)
    d = q.denominator
    assert d & (d - 1) == 0
    c, e = abs(q.numerator), -(d.bit_length() - 1)
    prec = max(2, c.bit_length())
    with gmp.context(precision=prec, emin=EMIN, emax=EMAX):
        m = gmp.mpfr(c, prec)
        m = gmp.mul_2exp(m, e) if e >= 0 else gmp.div_2exp(m, -e)
        r = -m if q < 0 else m
    assert from_mpfr(r)[0] == q
    return r

def from_mpfr(x):
    """(exact Fraction, exponent of the last place) of a finite non-zero mpfr"""
    m, e = x.as_mantissa_exp()
    m, e = int(m), int(e)
    return Fraction(m) * pow2(e), e

# ---------------------------------------------------------------------------
# mathematical special cases: results that are rational numbers (decided by number theory, not numerically)

def is_int(q: Fraction): return q.denominator == 1

def iroot_exact(m: int, k: int):
    """r with r^k == m, or None"""
    if m < 2: return m
    lo, hi = 1, 1 << (-(-m.bit_length() // k))
    while lo < hi:
        mid = (lo + hi + 1) // 2
        if mid ** k <= m: lo = mid
        else: hi = mid - 1
    return lo if lo ** k == m else None

def pow_exact(x: Fraction, y: Fraction):
    """x^y for dyadic x > 0, dyadic y, when it is rational; else None.
    x = m 2^j (m odd).  y = a / 2^k in lowest terms.  x^y is rational iff m and 2^j are perfect 2^k-th powers
    (otherwise it is an algebraic irrational: a root of an integer that is not a perfect power)."""
    if y == 0 or x == 1: return Fraction(1)
    a, K = y.numerator, y.denominator
    if K == 1:
        if abs(a) > 4096: return 'skip'
        return x ** a
    # odd part / power of two of x
    n, d = x.numerator, x.denominator
    j = -(d.bit_length() - 1)
    t = (n & -n).bit_length() - 1
    m, j = n >> t, j + t
    if j % K != 0: return None
    r0 = iroot_exact(m, K)
    if r0 is None: return None
    base = Fraction(r0) * pow2(j // K)
    if abs(a) > 4096: return 'skip'
    return base ** a

def exact_case(fn, vals, signs):
    """'skip' (outside the domain / pole / not judged), ('val', Fraction, zero_sign) when the TRUE result is that
    rational, or None (irrational or not known to be rational: the enclosure decides)"""
    x, sx = vals[0], signs[0]
    Z = lambda s: ('val', Fraction(0), s)
    V = lambda q: ('val', Fraction(q), False)
    if fn in ODD_ZERO and x == 0: return Z(sx)
    if fn in ('asin', 'acos') and abs(x) > 1: return 'skip'
    if fn == 'acos': return Z(False) if x == 1 else None
    if fn == 'acosh':
        if x < 1: return 'skip'
        return Z(False) if x == 1 else None
    if fn == 'atanh': return 'skip' if abs(x) >= 1 else None
    if fn in ('cos', 'cosh'): return V(1) if x == 0 else None
    if fn == 'exp': return V(1) if x == 0 else None
    if fn == 'exp2':
        if is_int(x): return V(pow2(int(x))) if abs(x) <= 4096 else 'skip'
        return None
    if fn == 'exp10':
        if is_int(x): return V(Fraction(10) ** int(x)) if abs(x) <= 1200 else 'skip'
        return None
    if fn in ('log', 'log2', 'log10'):
        if x <= 0: return 'skip'
        if x == 1: return Z(False)
        if fn == 'log2':
            n, d = x.numerator, x.denominator
            if n == 1: return V(-(d.bit_length() - 1))
            if d == 1 and n & (n - 1) == 0: return V(n.bit_length() - 1)
        if fn == 'log10' and is_int(x):
            n, k = int(x), 0
            while n % 10 == 0: n //= 10; k += 1
            if n == 1: return V(k)
        return None
    if fn == 'log1p': return 'skip' if x <= -1 else None
    if fn == 'erfc': return V(1) if x == 0 else None
    if fn in ('tgamma', 'lgamma'):
        if is_int(x) and x <= 0: return 'skip'                   # poles
        if fn == 'tgamma' and is_int(x):
            return V(math.factorial(int(x) - 1)) if x <= 300 else 'skip'
        if fn == 'lgamma' and x in (1, 2): return Z(False)
        return None
    if fn == 'atan2':
        y, sy, xx = vals[0], signs[0], vals[1]
        if y == 0 and xx == 0: return 'skip'
        if y == 0 and xx > 0: return Z(sy)
        return None
    if fn == 'pow':
        y = vals[1]
        if y == 0: return V(1)
        if x == 0:
            if y < 0: return 'skip'
            odd = is_int(y) and int(y) % 2 == 1
            return Z(sx and odd)
        if x < 0:
            if not is_int(y): return 'skip'
            r = pow_exact(-x, y)
            if r == 'skip': return r
            return V(-r if int(y) % 2 == 1 else r)
        r = pow_exact(x, y)
        if r == 'skip' or r is None: return r
        return V(r)
    return None

# ---------------------------------------------------------------------------
# enclosure oracle for the functions (MPFR at a higher precision, directed, widened by one ulp)

class Encl:
    """cache of enclosures of fn(args) by working precision"""
    def __init__(self, fn, vals, signs):
        self.fn = fn
        self.args = tuple(to_mpfr(v, s) for v, s in zip(vals, signs))
        self.by_w = {}
    def at(self, w):
        r = self.by_w.get(w)
        if r is None:
            r = self.by_w[w] = self._compute(w)
        return r
    def _compute(self, w):
        f = GF[self.fn]
        kw = dict(precision=w, emin=EMIN, emax=EMAX, trap_underflow=False, trap_overflow=False, trap_inexact=False,
                  trap_divzero=False, trap_invalid=False, trap_erange=False)
        with gmp.context(round=gmp.RoundDown, **kw): lo = f(*self.args)
        with gmp.context(round=gmp.RoundUp, **kw): hi = f(*self.args)
        if lo.is_nan() or hi.is_nan(): return 'nan'
        if lo.is_infinite() or hi.is_infinite(): return 'inf'
        if lo.is_zero() or hi.is_zero(): return 'zero'
        ql, el = from_mpfr(lo); qh, eh = from_mpfr(hi)
        if ql > qh: return 'disordered'
        return (ql - pow2(el), qh + pow2(eh))

def same_verdict(a, b): return a == b

def decide(d, enc_at, cap, p_hint):
    """Spec verdict from an enclosure ladder: (verdict dict | None, w used, (lo, hi))"""
    rtz = dict(d, rm='rtz')
    # a wrapping format is not monotone: the ends must also agree before the modulus is taken
    unb = mpfix(fmt_of(d).nmin, d['rm']) if d.get('ov') == 'wrap' else None
    for w in LADDER:
        if w < p_hint + 32: continue
        if w > cap: break
        e = enc_at(w)
        if isinstance(e, str): return e, w, None
        lo, hi = e
        if lo <= 0 <= hi: continue
        a, b = spec_round(d, lo, lo < 0), spec_round(d, hi, hi < 0)
        if not same_verdict(a, b): continue
        a0, b0 = spec_round(rtz, lo, lo < 0), spec_round(rtz, hi, hi < 0)
        if not same_verdict(a0, b0): continue
        if unb is not None and not same_verdict(spec_round(unb, lo, lo < 0), spec_round(unb, hi, hi < 0)): continue
        return a, w, (lo, hi)
    return None, None, None

def p_hint_of(d):
    if 'p' in d: return d['p']
    if d['fam'] in ('ieee', 'ef'): return d['nbits'] - d['es']
    return 32       # fixed point: the ladder adapts to the magnitude

# ---------------------------------------------------------------------------
# pure-integer interval evaluation of the constants (independent of MPFR).  Values are integer pairs (lo, hi) in
# units of 2^-S with lo <= true value * 2^S <= hi.

def _cdiv(a, b): return -((-a) // b)

def iv_atan_inv(n, S, hyper):
    """atan(1/n) (hyper=False, alternating) or atanh(1/n) (hyper=True) for an integer n >= 2"""
    one = 1 << S
    plo, phi = one // n, _cdiv(one, n)          # 1/n^(2k+1)
    slo, shi = 0, 0
    k = 0
    n2 = n * n
    while plo > 0:
        tlo, thi = plo // (2 * k + 1), _cdiv(phi, 2 * k + 1)
        if hyper or k % 2 == 0: slo, shi = slo + tlo, shi + thi
        else: slo, shi = slo - thi, shi - tlo
        plo, phi = plo // n2, _cdiv(phi, n2)
        k += 1
    # every omitted true term is below one unit and the tail is dominated by a geometric series of ratio <= 1/4
    return slo - 2, shi + 2

def iv_const(name, S):
    one = 1 << S
    def pi():
        a = iv_atan_inv(5, S, False); b = iv_atan_inv(239, S, False)
        return 16 * a[0] - 4 * b[1], 16 * a[1] - 4 * b[0]
    def ln2():
        a = iv_atan_inv(3, S, True)
        return 2 * a[0], 2 * a[1]
    def ln10():
        l2 = ln2(); a = iv_atan_inv(9, S, True)       # 10 = 2^3 * (1 + 1/9)/(1 - 1/9)
        return 3 * l2[0] + 2 * a[0], 3 * l2[1] + 2 * a[1]
    def inv(v, num=1): return (num * one * one) // v[1], _cdiv(num * one * one, v[0])
    def sqrt(v): return math.isqrt(v[0] << S), math.isqrt(v[1] << S) + 1
    if name == 'pi': return pi()
    if name == 'pi_2': v = pi(); return v[0] // 2, _cdiv(v[1], 2)
    if name == 'pi_4': v = pi(); return v[0] // 4, _cdiv(v[1], 4)
    if name == '1_pi': return inv(pi())
    if name == '2_pi': return inv(pi(), 2)
    if name == '2_sqrt_pi': return inv(sqrt(pi()), 2)
    if name == 'ln2': return ln2()
    if name == 'log2e': return inv(ln2())
    if name == 'log10e': return inv(ln10())
    if name == 'sqrt2': return sqrt((2 * one, 2 * one))
    if name == 'sqrt1_2': return sqrt((one // 2, one // 2))
    if name == 'e':
        tlo, thi = one, one
        slo, shi = one, one
        k = 1
        while tlo > 0:
            tlo, thi = tlo // k, _cdiv(thi, k)
            slo, shi = slo + tlo, shi + thi
            k += 1
        return slo - 1, shi + 3
    raise ValueError(name)

_const_cache = {}
def const_encl(name, w):
    key = (name, w)
    r = _const_cache.get(key)
    if r is None:
        S = w + 8
        lo, hi = iv_const(name, S)
        assert 0 < lo <= hi
        r = _const_cache[key] = (Fraction(lo, 1 << S), Fraction(hi, 1 << S))
    return r

def const_encl_mpfr(name, w):
    """MPFR-based enclosure from ONE primitive per transcendental, interval arithmetic on exact Fractions"""
    kw = dict(precision=w, emin=EMIN, emax=EMAX)
    def prim(f):
        with gmp.context(round=gmp.RoundDown, **kw): lo = f()
        with gmp.context(round=gmp.RoundUp, **kw): hi = f()
        (ql, el), (qh, eh) = from_mpfr(lo), from_mpfr(hi)
        return ql - pow2(el), qh + pow2(eh)
    def fsqrt(v):
        S = 2 * w
        return (Fraction(math.isqrt(int(v[0] * (1 << S))), 1 << (S // 2)), Fraction(math.isqrt(int(v[1] * (1 << S)) + 1) + 1, 1 << (S // 2)))
    pi = lambda: prim(gmp.const_pi)
    if name == 'pi': return pi()
    if name == 'pi_2': v = pi(); return v[0] / 2, v[1] / 2
    if name == 'pi_4': v = pi(); return v[0] / 4, v[1] / 4
    if name == '1_pi': v = pi(); return 1 / v[1], 1 / v[0]
    if name == '2_pi': v = pi(); return 2 / v[1], 2 / v[0]
    if name == '2_sqrt_pi': v = fsqrt(pi()); return 2 / v[1], 2 / v[0]
    if name == 'ln2': return prim(gmp.const_log2)
    if name == 'log2e': v = prim(gmp.const_log2); return 1 / v[1], 1 / v[0]
    if name == 'log10e': v = prim(lambda: gmp.log(10)); return 1 / v[1], 1 / v[0]
    if name == 'sqrt2': return prim(lambda: gmp.sqrt(2))
    if name == 'sqrt1_2': return prim(lambda: gmp.sqrt(gmp.mpfr(0.5)))
    if name == 'e': return prim(lambda: gmp.exp(1))
    raise ValueError(name)

# ---------------------------------------------------------------------------
# running the real code

def show(y) -> str:
    if not isinstance(y, Float): return f'err NotAFloat({type(y).__name__})'
    v = fv_of_obj(y)
    raw = f'{b01(y.s)}:{y.exp}:{y.c}' if v[0] == 'fin' else (f'i{b01(y.s)}' if v[0] == 'inf' else f'n{b01(y.s)}')
    return f'ok {canon_fv(v)} ix={b01(y.inexact)} ov={b01(y.overflow)} # raw={raw}'

def run_fn(fn, ctx, ops):
    try:
        return show(getattr(fp.ops, fn)(*[operand_obj(o) for o in ops], ctx=ctx))
    except Exception as e:   # noqa
        return 'err ' + err_name(e)

def run_const(name, ctx):
    try:
        return show(getattr(fp.ops, 'const_' + name)(ctx=ctx))
    except Exception as e:   # noqa
        return 'err ' + err_name(e)

# ---------------------------------------------------------------------------
# contexts

def mp(p, rm): return dict(fam='mp', p=p, rm=rm, k=0, en=True, ei=True, nv=None, iv=None)
def mps(p, emin, rm): return dict(fam='mps', p=p, emin=emin, rm=rm, k=0, en=True, ei=True, nv=None, iv=None)
def ieee(es, nbits, rm): return dict(fam='ieee', es=es, nbits=nbits, rm=rm, ov='overflow', k=0)
def mpfix(nmin, rm): return dict(fam='mpfix', nmin=nmin, rm=rm, k=0, nz=True, en=True, ei=True, nv=None, iv=None)
def fixed(scale, nbits, rm, ov='saturate', signed=True): return dict(fam='fixed', signed=signed, scale=scale, nbits=nbits, rm=rm, ov=ov, k=0, nv=None, iv=None)

_ctx_cache = {}
def ctx_of(d):
    key = ctx_tok(d)
    c = _ctx_cache.get(key)
    if c is None: c = _ctx_cache[key] = ctx_obj(d)
    return c

def other_contexts(R, count):
    """sampled non-MPFloat contexts: subnormal range, small and standard IEEE formats, fixed point"""
    out = []
    for _ in range(count):
        rm = R.choice(RMS)
        t = R.random()
        if t < 0.25: out.append(mps(R.randint(1, 24), R.randint(-12, 2), rm))
        elif t < 0.45:
            nbits = R.randint(3, 10); es = R.randint(1, nbits - 2)
            out.append(ieee(es, nbits, rm))
        elif t < 0.55: out.append(R.choice([ieee(5, 16, rm), ieee(8, 32, rm), ieee(11, 64, rm), ieee(15, 128, rm)]))
        elif t < 0.8: out.append(mpfix(R.randint(-40, 6), rm))
        else: out.append(fixed(R.randint(-12, 3), R.randint(2, 24), rm, R.choice(['saturate', 'wrap', 'overflow'])))
    return out

# ---------------------------------------------------------------------------
# operands

def F(q: Fraction, sign=None):
    """Float operand descriptor of the dyadic q (sign bit for zero)"""
    d = q.denominator
    assert d & (d - 1) == 0, q
    s = (q < 0) if q != 0 else bool(sign)
    return ('F', ('fin', s, -(d.bit_length() - 1), abs(q.numerator)))

def rnd_dy(R, bits, elo, ehi):
    c = R.getrandbits(R.randint(1, bits)) | 1
    v = Fraction(c) * pow2(R.randint(elo, ehi) - c.bit_length() + 1)
    return -v if R.random() < 0.5 else v

def into_domain(fn, v: Fraction):
    """map a dyadic sample into the domain of a unary function (identity when already inside)"""
    if fn in ('asin', 'acos', 'atanh'):
        while abs(v) >= 1: v /= 4
        if fn != 'atanh' and v == 0: return v
        return v
    if fn == 'acosh': return 1 + abs(v)
    if fn in ('log', 'log2', 'log10'): return abs(v) if v != 0 else Fraction(3)
    if fn == 'log1p': return v if v > -1 else -v
    if fn in ('tgamma', 'lgamma'):
        if v.denominator == 1 and v <= 0: return v - Fraction(1, 2)
        if fn == 'tgamma' and abs(v) > 150: return v / (1 << 20)
        return v
    if fn in ('exp', 'expm1', 'sinh', 'cosh'):
        while abs(v) > 600: v /= 16
        return v
    if fn == 'exp2':
        while abs(v) > 1500: v /= 16
        return v
    if fn == 'exp10':
        while abs(v) > 300: v /= 16
        return v
    if fn in ('erf', 'erfc'):
        while abs(v) > 36: v /= 8
        return v
    if fn == 'tanh':
        while abs(v) > 1000: v /= 16
        return v
    return v

def special_operands(fn):
    """operands with a rational true result (the exact-case list) + classic boundary operands"""
    Q = Fraction
    out = [Q(0)]
    if fn in ('exp2',): out += [Q(10), Q(-3), Q(1), Q(100), Q(-100), Q(1, 2), Q(-1, 2)]
    if fn == 'exp10': out += [Q(0), Q(1), Q(2), Q(3), Q(-1), Q(-2), Q(22), Q(23), Q(1, 2)]
    if fn == 'log2': out += [Q(1), Q(2), Q(1024), Q(1, 8), Q(3), pow2(-70), pow2(90)]
    if fn == 'log10': out += [Q(1), Q(10), Q(100), Q(1000), 10 ** 15, Q(2), Q(1, 2)]
    if fn == 'log': out += [Q(1), Q(2), Q(1, 2), Q(10)]
    if fn == 'acos': out += [Q(1), Q(-1), Q(1, 2), Q(-1, 2)]
    if fn == 'asin': out += [Q(1), Q(-1), Q(1, 2)]
    if fn == 'acosh': out += [Q(1), Q(2), 1 + pow2(-20), 1 + pow2(-60)]
    if fn == 'atanh': out += [Q(1, 2), 1 - pow2(-20), -1 + pow2(-50)]
    if fn == 'tgamma': out += [Q(1), Q(2), Q(3), Q(5), Q(10), Q(21), Q(1, 2), Q(-1, 2), Q(3, 2), Q(-5, 2), Q(171)]
    if fn == 'lgamma': out += [Q(1), Q(2), Q(3), Q(1, 2), Q(-1, 2), Q(-5, 2), Q(100), pow2(30)]
    if fn in ('erf', 'erfc'): out += [Q(1), Q(-1), Q(5), Q(27), Q(-6), Q(1, 2)]
    if fn in ('sin', 'cos', 'tan'): out += [Q(1), Q(3), Q(201, 64), Q(201, 128), Q(1686629713, 1 << 29), Q(1686629713, 1 << 30), pow2(40), pow2(100) * 3, Q(-7, 2)]
    if fn in ('exp', 'expm1'): out += [Q(1), Q(-1), Q(10), Q(-20), Q(1, 2), Q(100), Q(-300)]
    if fn == 'log1p': out += [Q(1), Q(-1, 2), Q(3), -1 + pow2(-30)]
    # tiny arguments: the result sits a hair from a grid point (x, 1, 1 + x, ...) at EVERY target precision
    for k in (8, 33, 70, 200):
        for sgn in (1, -1):
            out.append(sgn * pow2(-k))
    out += [1 + pow2(-30), 1 - pow2(-45), 3 * pow2(-60)]
    return out

def operands_for(R, fn, count):
    """list of operand tuples (each a tuple of operand descriptors) for fn, inside its domain"""
    out = []
    if fn == 'pow':
        Q = Fraction
        fixedc = [(Q(2), Q(10)), (Q(3), Q(5)), (Q(2), Q(-3)), (Q(3), Q(-1)), (Q(4), Q(1, 2)), (Q(9, 4), Q(3, 2)), (Q(2), Q(1, 2)),
                  (Q(16), Q(-3, 4)), (Q(81), Q(1, 4)), (Q(10), Q(-2)), (Q(0), Q(3)), (Q(0), Q(1, 2)), (Q(1), Q(7, 8)), (Q(5), Q(0)),
                  (Q(-3), Q(3)), (Q(-2), Q(-2)), (Q(-5, 2), Q(4)), (1 + pow2(-30), Q(1, 2)), (1 + pow2(-20), Q(1 << 19)),
                  (Q(3), Q(1, 4)), (Q(7, 8), Q(100)), (Q(1, 2), Q(1074)), (4 + pow2(-40), Q(1, 2)), (Q(10), Q(1, 2))]
        for (a, b) in fixedc: out.append((F(a, R.random() < 0.3 if a == 0 else None), F(b)))
        while len(out) < count + len(fixedc):
            a = abs(rnd_dy(R, 10, -3, 5)); b = rnd_dy(R, 6, -3, 4)
            if abs(b) * max(1, abs(floor_log2(a))) > 1000: continue
            out.append((F(a), F(b)))
        return out
    if fn == 'atan2':
        Q = Fraction
        fixedc = [(Q(0), Q(1)), (Q(0), Q(-1)), (Q(1), Q(0)), (Q(-1), Q(0)), (Q(1), Q(1)), (Q(-1), Q(-1)), (Q(1), pow2(40)),
                  (pow2(-40), Q(1)), (Q(3), Q(-4)), (pow2(-60), Q(-1)), (Q(1), pow2(-70))]
        for (a, b) in fixedc:
            out.append((F(a, False), F(b, False)))
            if a == 0: out.append((F(a, True), F(b, False)))
            if b == 0: out.append((F(a, False), F(b, True)))
        while len(out) < count + len(fixedc):
            a, b = rnd_dy(R, 10, -6, 6), rnd_dy(R, 10, -6, 6)
            out.append((F(a), F(b)))
        return out
    seen = set()
    for v in special_operands(fn):
        v = Fraction(v)
        w = into_domain(fn, v)
        if w in seen: continue
        seen.add(w)
        out.append((F(w, False),))
        if w == 0: out.append((F(w, True),))
    n0 = len(out)
    while len(out) < n0 + count:
        t = R.random()
        if t < 0.55: v = rnd_dy(R, 12, -6, 4)
        elif t < 0.75: v = rnd_dy(R, 24, -3, 3)
        elif t < 0.9: v = rnd_dy(R, 53, -10, 8)
        else: v = rnd_dy(R, 8, -40, 40) if fn not in ('tgamma',) else rnd_dy(R, 8, -20, 6)
        w = into_domain(fn, v)
        if w in seen: continue
        seen.add(w)
        out.append((F(w),))
    return out

# ---------------------------------------------------------------------------
# hard-case mining: operands x of a small format whose f(x) lies closest to a rounding boundary (grid point or
# midpoint) of a target precision p, by brute force over the whole small format

def mine(R, fn, px, p, keep):
    if fn in ('pow', 'atan2'):
        cands = []
        for _ in range(1 << (px + 1)):
            a, b = rnd_dy(R, px, -2, 3), rnd_dy(R, max(3, px // 2), -2, 2)
            if fn == 'pow': a = abs(a)
            cands.append((a, b))
    else:
        cands = []
        for e in (R.randint(-3, 0), R.randint(1, 3)):
            for c in range(1 << (px - 1), 1 << px):
                v = into_domain(fn, Fraction(c) * pow2(e - px + 1) * R.choice([1, -1]))
                cands.append((v,))
    scored = []
    f = GF[fn]
    with gmp.context(precision=p + 64, emin=EMIN, emax=EMAX):
        for vs in cands:
            try:
                if exact_case(fn, list(vs), [v < 0 for v in vs]) is not None: continue
                y = f(*[to_mpfr(v, v < 0) for v in vs])
            except Exception:   # noqa
                continue
            if not y.is_finite() or y.is_zero(): continue
            # position of |y| in half-ulps of the p-digit grid: distance to the nearest integer
            e, m = gmp.frexp(abs(y))                     # (exponent, m in [1/2, 1))
            t = gmp.mul_2exp(m, p + 1)
            dist = abs(t - gmp.rint_round(t))
            scored.append((dist, vs))
    scored.sort(key=lambda z: z[0])
    return [(vs, float(-gmp.log2(dist)) if dist > 0 else 999.0) for dist, vs in scored[:keep]]

# hard cases mined OFFLINE by `mine` with 2^17..2^18 candidates per (function, target precision p): operands of an 18-digit
# input format whose result has a run of >= `bits` zeros or ones right after the rounding boundary of precision p
# (64.0 = indistinguishable from a grid point at p + 64 digits, e.g. erf(8) = 1 - 1.1e-29)
HARD_CORPUS = [
    ('acos', ['-53761/262144'], 8, 20.6),
    ('acos', ['35839/65536'], 8, 20.4),
    ('acos', ['66843/131072'], 11, 21.4),
    ('acos', ['-113137/131072'], 11, 20.1),
    ('acos', ['40367/131072'], 24, 22.9),
    ('acos', ['-110263/262144'], 24, 19.0),
    ('acos', ['39639/65536'], 53, 22.2),
    ('acos', ['40871/131072'], 53, 18.2),
    ('acosh', ['1217673/1048576'], 8, 20.7),
    ('acosh', ['593897/524288'], 8, 17.3),
    ('acosh', ['17187/1024'], 11, 21.6),
    ('acosh', ['2373/1024'], 11, 18.1),
    ('acosh', ['225237/32768'], 24, 21.1),
    ('acosh', ['630913/524288'], 24, 17.5),
    ('acosh', ['231865/65536'], 53, 23.3),
    ('acosh', ['208753/65536'], 53, 17.9),
    ('asin', ['-241161/262144'], 8, 18.5),
    ('asin', ['150459/262144'], 8, 16.8),
    ('asin', ['19643/32768'], 11, 20.3),
    ('asin', ['241759/262144'], 11, 18.1),
    ('asin', ['-52717/131072'], 24, 19.8),
    ('asin', ['-70361/131072'], 24, 18.8),
    ('asin', ['-148457/524288'], 53, 17.0),
    ('asin', ['148457/524288'], 53, 17.0),
    ('asinh', ['-260133/1048576'], 8, 17.2),
    ('asinh', ['239125/16384'], 8, 16.7),
    ('asinh', ['-125191/8192'], 11, 20.0),
    ('asinh', ['114793/131072'], 11, 19.4),
    ('asinh', ['-237003/32768'], 24, 21.1),
    ('asinh', ['130773/16384'], 24, 18.9),
    ('asinh', ['-235511/262144'], 53, 18.8),
    ('asinh', ['58357/65536'], 53, 17.4),
    ('atan', ['-114457/65536'], 8, 19.5),
    ('atan', ['216959/131072'], 8, 16.4),
    ('atan', ['-180901/32768'], 11, 18.0),
    ('atan', ['-90703/16384'], 11, 17.7),
    ('atan', ['463/256'], 24, 17.2),
    ('atan', ['108935/65536'], 24, 17.0),
    ('atan', ['86745/32768'], 53, 19.9),
    ('atan', ['50489/262144'], 53, 19.4),
    ('atanh', ['-61971/131072'], 8, 18.6),
    ('atanh', ['10213/16384'], 8, 17.1),
    ('atanh', ['259341/1048576'], 11, 18.5),
    ('atanh', ['27597/131072'], 11, 17.5),
    ('atanh', ['205625/524288'], 24, 19.1),
    ('atanh', ['-147073/262144'], 24, 18.1),
    ('atanh', ['-160895/524288'], 53, 17.8),
    ('atanh', ['160895/524288'], 53, 17.8),
    ('cos', ['-205887/65536'], 8, 26.5),
    ('cos', ['3217/1024'], 8, 25.6),
    ('cos', ['257359/16384'], 11, 20.8),
    ('cos', ['-205887/16384'], 11, 19.5),
    ('cos', ['146021/524288'], 24, 20.8),
    ('cos', ['-71595/16384'], 24, 16.8),
    ('cos', ['-107917/262144'], 53, 20.0),
    ('cos', ['220555/16384'], 53, 19.9),
    ('cosh', ['-191199/16384'], 8, 18.9),
    ('cosh', ['-210889/16384'], 8, 18.3),
    ('cosh', ['80619/8192'], 11, 22.5),
    ('cosh', ['-170081/1048576'], 11, 17.8),
    ('cosh', ['201067/16384'], 24, 18.9),
    ('cosh', ['138165/131072'], 24, 18.1),
    ('cosh', ['102259/32768'], 53, 20.7),
    ('cosh', ['1501/512'], 53, 18.5),
    ('sin', ['-154281/524288'], 8, 23.2),
    ('sin', ['-206515/524288'], 8, 19.7),
    ('sin', ['-168403/1048576'], 11, 22.9),
    ('sin', ['-257359/32768'], 11, 22.8),
    ('sin', ['43971/4096'], 24, 20.9),
    ('sin', ['197981/524288'], 24, 20.2),
    ('sin', ['51669/262144'], 53, 22.8),
    ('sin', ['100435/32768'], 53, 18.3),
    ('sinh', ['-145291/32768'], 8, 17.2),
    ('sinh', ['-236429/32768'], 8, 16.1),
    ('sinh', ['148069/16384'], 11, 21.4),
    ('sinh', ['198103/131072'], 11, 18.6),
    ('sinh', ['-39713/32768'], 24, 16.8),
    ('sinh', ['31017/2048'], 24, 16.6),
    ('sinh', ['42829/16384'], 53, 19.1),
    ('sinh', ['90749/32768'], 53, 18.7),
    ('tan', ['-221741/262144'], 8, 19.9),
    ('tan', ['-243697/32768'], 8, 19.7),
    ('tan', ['80195/131072'], 11, 24.1),
    ('tan', ['42387/65536'], 11, 23.2),
    ('tan', ['57403/4096'], 24, 20.4),
    ('tan', ['-158181/131072'], 24, 19.4),
    ('tan', ['-164721/32768'], 53, 20.5),
    ('tan', ['-126799/16384'], 53, 17.6),
    ('tanh', ['-191035/65536'], 8, 25.4),
    ('tanh', ['21779/8192'], 8, 18.8),
    ('tanh', ['-191035/65536'], 11, 22.4),
    ('tanh', ['-39349/131072'], 11, 18.8),
    ('tanh', ['191131/32768'], 24, 20.1),
    ('tanh', ['234831/32768'], 24, 17.5),
    ('tanh', ['241631/16384'], 53, 19.1),
    ('tanh', ['-147767/16384'], 53, 18.9),
    ('exp', ['-9037/4096'], 8, 21.2),
    ('exp', ['169035/65536'], 8, 20.1),
    ('exp', ['162041/262144'], 11, 22.0),
    ('exp', ['39665/4096'], 11, 20.7),
    ('exp', ['154357/65536'], 24, 21.7),
    ('exp', ['-217189/65536'], 24, 19.1),
    ('exp', ['119965/65536'], 53, 19.5),
    ('exp', ['-185879/131072'], 53, 19.1),
    ('exp2', ['19901/32768'], 8, 18.7),
    ('exp2', ['-78403/32768'], 8, 18.7),
    ('exp2', ['-121061/262144'], 11, 17.7),
    ('exp2', ['224035/524288'], 11, 16.2),
    ('exp2', ['-5701/4096'], 24, 19.3),
    ('exp2', ['6587/4096'], 24, 19.3),
    ('exp2', ['46777/65536'], 53, 19.8),
    ('exp2', ['177849/65536'], 53, 19.8),
    ('exp10', ['-61537/32768'], 8, 21.4),
    ('exp10', ['-101665/32768'], 8, 18.2),
    ('exp10', ['-200517/16384'], 11, 17.7),
    ('exp10', ['-184133/16384'], 11, 17.4),
    ('exp10', ['-65385/32768'], 24, 18.6),
    ('exp10', ['111603/65536'], 24, 18.0),
    ('exp10', ['-195999/131072'], 53, 21.7),
    ('exp10', ['-161421/16384'], 53, 18.9),
    ('expm1', ['15473/32768'], 8, 19.3),
    ('expm1', ['55569/8192'], 8, 18.7),
    ('expm1', ['-77117/16384'], 11, 17.9),
    ('expm1', ['-127129/262144'], 11, 17.0),
    ('expm1', ['-216977/131072'], 24, 17.5),
    ('expm1', ['235945/131072'], 24, 17.1),
    ('expm1', ['193785/262144'], 53, 18.6),
    ('expm1', ['-74023/32768'], 53, 18.5),
    ('log', ['20681/16384'], 8, 19.3),
    ('log', ['29037/16384'], 8, 18.6),
    ('log', ['86177/65536'], 11, 19.3),
    ('log', ['55239/32768'], 11, 18.3),
    ('log', ['195963/262144'], 24, 18.2),
    ('log', ['57137/65536'], 24, 16.8),
    ('log', ['159721/131072'], 53, 19.0),
    ('log', ['240575/131072'], 53, 18.6),
    ('log2', ['252393/1048576'], 8, 15.9),
    ('log2', ['252393/32768'], 8, 15.9),
    ('log2', ['216737/16384'], 11, 20.6),
    ('log2', ['216737/524288'], 11, 19.6),
    ('log2', ['170877/524288'], 24, 19.1),
    ('log2', ['108351/262144'], 24, 19.1),
    ('log2', ['226711/65536'], 53, 18.1),
    ('log2', ['247865/65536'], 53, 18.1),
    ('log10', ['154713/65536'], 8, 19.0),
    ('log10', ['204353/131072'], 8, 17.7),
    ('log10', ['104911/32768'], 11, 16.9),
    ('log10', ['93623/32768'], 11, 16.7),
    ('log10', ['111131/262144'], 24, 21.6),
    ('log10', ['85193/32768'], 24, 20.2),
    ('log10', ['80759/8192'], 53, 20.6),
    ('log10', ['202515/16384'], 53, 18.8),
    ('log1p', ['129645/16384'], 8, 18.8),
    ('log1p', ['59865/8192'], 8, 18.5),
    ('log1p', ['108531/32768'], 11, 18.0),
    ('log1p', ['42301/16384'], 11, 17.6),
    ('log1p', ['-235485/1048576'], 24, 18.1),
    ('log1p', ['193297/32768'], 24, 16.4),
    ('log1p', ['111307/262144'], 53, 18.9),
    ('log1p', ['150319/524288'], 53, 17.9),
    ('erf', ['27241/65536'], 8, 17.7),
    ('erf', ['195139/524288'], 8, 17.6),
    ('erf', ['8/1'], 11, 64.0),
    ('erf', ['131073/16384'], 11, 64.0),
    ('erf', ['125923/16384'], 24, 64.0),
    ('erf', ['251847/32768'], 24, 64.0),
    ('erf', ['-232559/1048576'], 53, 19.2),
    ('erf', ['132307/1048576'], 53, 18.6),
    ('erfc', ['-225589/32768'], 8, 64.0),
    ('erfc', ['-112795/16384'], 8, 64.0),
    ('erfc', ['-8/1'], 11, 64.0),
    ('erfc', ['-65537/8192'], 11, 64.0),
    ('erfc', ['-31297/4096'], 24, 64.0),
    ('erfc', ['-125189/16384'], 24, 64.0),
    ('erfc', ['-145015/16384'], 53, 64.0),
    ('erfc', ['-18127/2048'], 53, 64.0),
    ('tgamma', ['-99827/16384'], 8, 20.0),
    ('tgamma', ['-167081/32768'], 8, 19.2),
    ('tgamma', ['230963/32768'], 11, 20.6),
    ('tgamma', ['-139863/32768'], 11, 18.2),
    ('tgamma', ['87997/131072'], 24, 21.0),
    ('tgamma', ['-2481/512'], 24, 19.4),
    ('tgamma', ['1137/512'], 53, 22.3),
    ('tgamma', ['-196837/65536'], 53, 19.0),
    ('lgamma', ['21099/32768'], 8, 17.4),
    ('lgamma', ['257689/65536'], 8, 17.2),
    ('lgamma', ['154697/65536'], 11, 22.1),
    ('lgamma', ['-204155/131072'], 11, 18.4),
    ('lgamma', ['-82769/262144'], 24, 20.0),
    ('lgamma', ['61363/4096'], 24, 18.3),
    ('lgamma', ['-136367/16384'], 53, 22.1),
    ('lgamma', ['-125225/8192'], 53, 20.6),
    ('pow', ['15033/4096', '-65/16'], 8, 19.1),
    ('pow', ['105/256', '99/16'], 8, 18.0),
    ('pow', ['633/256', '-35/8'], 11, 17.6),
    ('pow', ['4895/16384', '-13/4'], 11, 16.7),
    ('pow', ['27/16', '21/8'], 24, 18.7),
    ('pow', ['6577/16384', '1/2'], 24, 18.1),
    ('pow', ['4933/2048', '45/16'], 53, 16.5),
    ('pow', ['2109/256', '-11/8'], 53, 16.2),
    ('atan2', ['-21/8', '151/128'], 8, 18.4),
    ('atan2', ['120295/262144', '107/256'], 8, 17.9),
    ('atan2', ['18569/8192', '-31/8'], 11, 21.5),
    ('atan2', ['1797/2048', '-3/2'], 11, 21.5),
    ('atan2', ['6157/8192', '21/8'], 24, 17.3),
    ('atan2', ['463/512', '1/2'], 24, 17.2),
    ('atan2', ['3237/8192', '-77/16'], 53, 16.2),
    ('atan2', ['855/64', '3/2'], 53, 15.8),
]

# ---------------------------------------------------------------------------
# constant table shape: extracted from the source text of gmp.py, compared with the Lean table

def shape_of(node) -> str:
    """canonical text of a gmpy2 expression: prim(args) with `gmp.` stripped, operators as div/mul/add/sub"""
    if isinstance(node, ast.Lambda): return shape_of(node.body)
    if isinstance(node, ast.Attribute): return node.attr + '()'             # bare `gmp.const_pi` used as the callable
    if isinstance(node, ast.Call):
        fname = node.func.attr if isinstance(node.func, ast.Attribute) else node.func.id
        return fname + '(' + ','.join(shape_of(a) for a in node.args) + ')'
    if isinstance(node, ast.BinOp):
        op = {ast.Div: 'div', ast.Mult: 'mul', ast.Add: 'add', ast.Sub: 'sub'}[type(node.op)]
        return f'{op}({shape_of(node.left)},{shape_of(node.right)})'
    if isinstance(node, ast.Constant): return repr(node.value)
    raise ValueError(ast.dump(node))

def extract_constant_table():
    src = (REPO / 'fpy2' / 'number' / 'engine' / 'gmp.py').read_text()
    m = re.search(r'^_constant_exprs[^=]*=\s*(\{.*?^\})', src, re.S | re.M)
    if not m: raise ValueError('no _constant_exprs dict literal in gmp.py')
    tree = ast.parse(m.group(1), mode='eval').body
    table = {}
    for k, v in zip(tree.keys, tree.values):
        table[k.attr] = shape_of(v)
    return table

def lean_constant_table():
    """parse `def constTable` (a list of `("KEY", <CExpr term>)`) out of Fpy/Model/Elem.lean and render each entry"""
    src = strip_comments((LEAN / 'Fpy' / 'Model' / 'Elem.lean').read_text())
    m = re.search(r'def constTable\b[^=]*:=\s*\[(.*?)\]\s*(?:\n\s*\n|\Z|\nend |\n/-|\ndef )', src, re.S)
    if not m: raise ValueError('no constTable in Fpy/Model/Elem.lean')
    toks = re.findall(r'"[^"]*"|\.lit|\.call[012]|\d+|[(),]', m.group(1))
    pos = 0
    def peek(): return toks[pos] if pos < len(toks) else None
    def take(want=None):
        nonlocal pos
        t = toks[pos]; pos += 1
        if want is not None and t != want: raise ValueError(f'constTable: expected {want}, got {t}')
        return t
    def term():
        if peek() == '(':
            take('('); r = term(); take(')'); return r
        h = take()
        if h == '.lit': return take()
        if h == '.call0': return take().strip('"') + '()'
        if h == '.call1': f = take().strip('"'); return f'{f}({term()})'
        if h == '.call2': f = take().strip('"'); a = term(); b = term(); return f'{f}({a},{b})'
        raise ValueError(f'constTable: unexpected token {h}')
    table = {}
    while pos < len(toks):
        take('('); key = take().strip('"'); take(','); table[key] = term(); take(')')
        if peek() == ',': take(',')
    return table

def is_single(shape: str) -> bool:
    """one MPFR primitive applied to literals"""
    return re.fullmatch(r'\w+\((?:-?\d+(?:,-?\d+)*)?\)', shape) is not None

def check_table(rep):
    try:
        code, lean = extract_constant_table(), lean_constant_table()
    except Exception as e:   # noqa
        rep.broke('correspondence', 'C03.constant_table', f'cannot extract: {e!r}'); return {}
    if code != lean:
        diff = {k: (code.get(k), lean.get(k)) for k in set(code) | set(lean) if code.get(k) != lean.get(k)}
        rep.broke('correspondence', 'C03.constant_table', f'gmp._constant_exprs no longer matches Fpy.C03.constTable: (code, lean) = {diff}')
    rep.cov['constant_table'] = {k: {'shape': v, 'single_primitive': is_single(v)} for k, v in code.items()}
    # the engine methods must use the table entry of their own name
    src = (REPO / 'fpy2' / 'number' / 'engine' / 'gmp.py').read_text()
    for meth, key in re.findall(r'def (const_\w+)\(self.*?_mpfr_constant\(_Constant\.(\w+)', src, re.S):
        rep.count('table-entry-used:' + key)
    return code

CONST_KEY = {'pi': 'PI', 'e': 'E', 'log2e': 'LOG2E', 'log10e': 'LOG10E', 'ln2': 'LN2', 'pi_2': 'PI_2', 'pi_4': 'PI_4', '1_pi': 'M_1_PI',
             '2_pi': 'M_2_PI', '2_sqrt_pi': 'M_2_SQRTPI', 'sqrt2': 'SQRT2', 'sqrt1_2': 'SQRT1_2'}

# ---------------------------------------------------------------------------
# evaluation

class Run:
    def __init__(self, rep, tier):
        self.rep, self.tier = rep, tier
        self.cap = 4096 if tier == 'quick' else 16384
        self.lines, self.meta = [], []           # correspondence lines for the Lean model
        self.viol_per = {}
        self.n = 0

    def record_violation(self, key, what, payload):
        self.rep.count('violation:' + key)
        k = self.viol_per.get(key, 0)
        self.viol_per[key] = k + 1
        if k < 6: self.rep.violation(what, payload)

    def standin(self, sp_src, d, got, label):
        """queue a model line: the wrapper model on a rational inside the enclosure must give what the code gave"""
        if len(self.lines) >= self.max_lines: return
        if isinstance(sp_src, tuple):
            lo, hi = sp_src
            q = lo + (hi - lo) / 3
            if q.denominator & (q.denominator - 1) == 0: q = lo + (hi - lo) / 5
            if q.numerator.bit_length() > 1400: return
        else:
            q = sp_src
        self.lines.append(f'round {ctx_tok(d)} Q{q.numerator}/{q.denominator} 0 0')
        self.meta.append((label, got))

    def case_fn(self, fn, ops, d, enc, tag='sample'):
        rep = self.rep
        ctx = ctx_of(d)
        got = run_fn(fn, ctx, ops)
        self.n += 1
        rep.count('fn:' + fn); rep.count('fam:' + d['fam']); rep.count('rm:' + d['rm']); rep.count('source:' + tag)
        vals = [operand_value(o) for o in ops]; signs = [operand_sign(o) for o in ops]
        ex = exact_case(fn, vals, signs)
        label = f'{fn}({",".join(operand_tok(o) for o in ops)}) @ {ctx_tok(d)}'
        rep.distinct.add(label)
        src = None
        if ex == 'skip':
            rep.count('skipped-out-of-domain:' + fn); return
        if ex is not None:
            _, q, zs = ex
            sp = spec_round(d, q, zs if q == 0 else q < 0)
            rep.count('exact-rational-result:' + fn)
            if sp['kind'] == 'value' and not sp['inexact']: rep.count('exact-representable:' + fn)
            if q != 0: src = q
        else:
            sp, w, e = decide(d, enc.at, self.cap, p_hint_of(d))
            if isinstance(sp, str):
                rep.count(f'oracle-{sp}:' + fn); return
            if sp is None:
                rep.count('undecided:' + fn); return
            rep.count(f'decided-at-w={w}')
            src = e
        rep.count('spec:' + sp['kind'] + ('+inexact' if sp.get('inexact') else '') + ('+ovf' if sp.get('overflow') else ''))
        why = judge(sp, parse_res(got))
        if why:
            self.record_violation(fn, f'{fn}: {why}', {'fn': fn, 'x': [operand_tok(o) for o in ops], 'ctx': d, 'impl': verdict_part(got),
                                                        'spec': repr(sp), 'finding': None})
        elif src is not None and (self.n % self.stride == 0):
            self.standin(src, d, got, label)
        rep.sample({'case': label, 'impl': verdict_part(got), 'spec': repr(sp)}, cap=10)

    def case_const(self, name, d):
        rep = self.rep
        got = run_const(name, ctx_of(d))
        self.n += 1
        rep.count('const:' + name); rep.count('fam:' + d['fam']); rep.count('rm:' + d['rm'])
        label = f'const_{name} @ {ctx_tok(d)}'
        rep.distinct.add(label)
        sp, w, e = decide(d, lambda w: const_encl(name, w), self.cap, p_hint_of(d))
        if sp is None:
            rep.count('undecided:const_' + name); return
        rep.count(f'decided-at-w={w}')
        why = judge(sp, parse_res(got))
        if why:
            self.record_violation('const_' + name, f'const_{name}: {why}',
                                  {'fn': 'const_' + name, 'x': [], 'ctx': d, 'impl': verdict_part(got), 'spec': repr(sp),
                                   'finding': 'F9' if name in F9_FAMILY else None})
        elif self.n % self.stride == 0:
            self.standin(e, d, got, label)

    def flush_model(self):
        rep = self.rep
        if not self.lines: return
        model = run_driver(self.lines)
        for line, (label, got), mod in zip(self.lines, self.meta, model):
            rep.count('model-lines')
            if verdict_part(mod) != verdict_part(got):
                rep.broke('correspondence', 'C03.wrapper', f'{label}: line={line[:300]} impl={got} model={mod}')
        rep.cov['model_lines'] = len(self.lines)

def crosscheck_const_oracles(rep, maxw):
    """the integer evaluator and the MPFR-derived enclosure must intersect, and the integer one must be tight"""
    for name in CONSTS:
        for w in (64, 256, maxw):
            a, b = const_encl(name, w), const_encl_mpfr(name, w)
            rep.count('oracle-crosscheck')
            if a[0] > b[1] or b[0] > a[1]:
                rep.broke('oracle', f'const_{name}', f'integer enclosure {a} and MPFR enclosure {b} are disjoint at w={w}')
            if (a[1] - a[0]) > a[0] * pow2(-w + 8):
                rep.broke('oracle', f'const_{name}', f'integer enclosure at w={w} is wider than 2^-(w-8) relative')

# ---------------------------------------------------------------------------
# self-test: the oracle + sample must catch the classic wrapper mistakes (in-process monkeypatches, removed again)

def mutants():
    import fpy2.number.gmputils as gu
    import fpy2.number.engine.gmp as ge
    orig_call, orig_odd = gu.mpfr_call, gu._round_odd
    def one_guard(fn, args, prec=None, n=None):
        if prec is not None:
            r = gu._mpfr_call_with_prec(prec + 1, fn, args); return orig_odd(r, r.rc != 0)
        return orig_call(fn, args, prec=prec, n=n)
    def n_ignored(fn, args, prec=None, n=None):
        if prec is None:
            r = gu._mpfr_call_with_prec(4, fn, args); return orig_odd(r, r.rc != 0)
        return orig_call(fn, args, prec=prec, n=n)
    def one_digit_short(fn, args, prec=None, n=None):
        if prec is None:
            r = gu._mpfr_call_with_prec(2, fn, args)
            if r.is_nan() or r.is_infinite() or r.is_zero(): return orig_odd(r, r.rc != 0)
            e = gmp.get_exp(r) - 1
            if e <= n: return orig_odd(r, r.rc != 0)
            r = gu._mpfr_call_with_prec(e - n + 1, fn, args); return orig_odd(r, r.rc != 0)
        return orig_call(fn, args, prec=prec, n=n)
    def nearest_inside(fn, args, prec=None, n=None):
        if prec is not None:
            with gmp.context(precision=prec + 2, emin=EMIN, emax=EMAX, round=gmp.RoundToNearest):
                r = fn(*args)
            return orig_odd(r, r.rc != 0)
        return orig_call(fn, args, prec=prec, n=n)
    fixedfam = lambda d: d['fam'] in ('mpfix', 'fixed')
    return {
        'one-guard-digit (prec+1)': ([(gu, 'mpfr_call', one_guard), (ge, 'mpfr_call', one_guard)], lambda d: not fixedfam(d)),
        'sticky-bit-dropped': ([(gu, '_round_odd', lambda x, inexact: orig_odd(x, False))], None),
        'n-ignored-in-fixed-branch': ([(gu, 'mpfr_call', n_ignored), (ge, 'mpfr_call', n_ignored)], fixedfam),
        'fixed-branch-one-digit-short (e-n+1)': ([(gu, 'mpfr_call', one_digit_short), (ge, 'mpfr_call', one_digit_short)], fixedfam),
        'inner-rounding-to-nearest-instead-of-toward-zero': ([(gu, 'mpfr_call', nearest_inside), (ge, 'mpfr_call', nearest_inside)], lambda d: not fixedfam(d)),
    }

def selftest(rep, cases, budget):
    """cases: (fn, ops, d, enc)"""
    killed = {}
    for mname, (patches, flt) in mutants().items():
        sub = [c for c in cases if flt is None or flt(c[2])][:budget]
        saved = [(m, a, getattr(m, a)) for (m, a, _) in patches]
        n = tot = 0
        try:
            for (m, a, v) in patches: setattr(m, a, v)
            for (fn, ops, d, enc) in sub:
                vals = [operand_value(o) for o in ops]; signs = [operand_sign(o) for o in ops]
                ex = exact_case(fn, vals, signs)
                if ex == 'skip': continue
                if ex is not None: sp = spec_round(d, ex[1], ex[2] if ex[1] == 0 else ex[1] < 0)
                else:
                    sp, _, _ = decide(d, enc.at, 4096, p_hint_of(d))
                    if sp is None or isinstance(sp, str): continue
                tot += 1
                if judge(sp, parse_res(run_fn(fn, ctx_of(d), ops))): n += 1
        finally:
            for (m, a, v) in saved: setattr(m, a, v)
        killed[mname] = f'{n} of {tot} cases flagged'
        if n == 0:
            rep.broke('selftest', mname, f'the Spec oracle flagged none of {tot} cases under the mutant {mname}: the sample has lost its power')
    rep.cov['selftest_mutants_in_process'] = killed

# ---------------------------------------------------------------------------

def replay(rep, data):
    rc = 0
    for i, v in enumerate(data.get('violations', [])):
        d = v['ctx']
        for k in ('nv', 'iv'):
            if d.get(k) is not None: d[k] = tuple(d[k])
        fn = v['fn']
        if fn.startswith('const_'):
            name = fn[len('const_'):]
            got = run_const(name, ctx_obj(d))
            sp, w, _ = decide(d, lambda w: const_encl(name, w), 16384, p_hint_of(d))
        else:
            from c02 import parse_operand_tok
            ops = [parse_operand_tok(t) for t in v['x']]
            got = run_fn(fn, ctx_obj(d), ops)
            vals = [operand_value(o) for o in ops]; signs = [operand_sign(o) for o in ops]
            ex = exact_case(fn, vals, signs)
            if ex is not None and ex != 'skip': sp = spec_round(d, ex[1], ex[2] if ex[1] == 0 else ex[1] < 0)
            else: sp, w, _ = decide(d, Encl(fn, vals, signs).at, 16384, p_hint_of(d))
        why = judge(sp, parse_res(got)) if isinstance(sp, dict) else f'undecided ({sp})'
        print(f'[{i}] {fn}({", ".join(v["x"])}) ctx={ctx_tok(d)}\n     impl : {verdict_part(got)}\n     spec : {sp}\n     verdict: {why or "ok"}')
        if why: rc = 1
    return rc

def run(rep, tier, seed):
    R = Prng(seed, 'C03')
    quick = tier == 'quick'
    t0 = time.time()
    run_ = Run(rep, tier)
    run_.stride = 7 if quick else 23
    run_.max_lines = 6000 if quick else 30000
    check_table(rep)
    pmax_f = 64 if quick else 300
    pmax_c = 128 if quick else 300
    crosscheck_const_oracles(rep, 512 if quick else 2048)

    # ---- constants: every constant x every precision x 8 modes (MPFloat), + sampled other families
    for name in CONSTS:
        for p in range(1, pmax_c + 1):
            for rm in RMS:
                run_.case_const(name, mp(p, rm))
        for d in other_contexts(R, 40 if quick else 400):
            run_.case_const(name, d)
        for nmin in range(-8, 4):           # fixed point around the magnitude of the constants: the two-pass branch
            for rm in RMS:
                run_.case_const(name, mpfix(nmin, rm))
    t_const = time.time() - t0

    # ---- functions
    n_ops = 10 if quick else 60
    st_cases = []
    mined_bits = []
    for fn in FUNCS:
        opsl = operands_for(R, fn, n_ops)
        encs = []
        for ops in opsl:
            vals = [operand_value(o) for o in ops]; signs = [operand_sign(o) for o in ops]
            encs.append(Encl(fn, vals, signs))
        # every (precision, mode) pair of MPFloat is used with at least one operand of fn (two in thorough)
        pairs = [(p, rm) for p in range(1, pmax_f + 1) for rm in RMS]
        R.shuffle(pairs)
        for i, (p, rm) in enumerate(pairs):
            j = i % len(opsl)
            run_.case_fn(fn, opsl[j], mp(p, rm), encs[j])
            if not quick:
                j2 = R.randrange(len(opsl))
                run_.case_fn(fn, opsl[j2], mp(p, rm), encs[j2])
        # every operand under sampled contexts of the other families (subnormals, IEEE, fixed point) + small precisions
        for ops, enc in zip(opsl, encs):
            ds = other_contexts(R, 10 if quick else 40)
            ds += [mp(R.randint(1, 12), R.choice(RMS)) for _ in range(3)]
            for d in ds:
                run_.case_fn(fn, ops, d, enc)
                if len(st_cases) < 40000 and R.random() < 0.5: st_cases.append((fn, ops, d, enc))
        # mined hard cases: closest to a rounding boundary of precision p over a whole small input format
        for _ in range(1 if quick else 4):
            px = 9 if quick else 13
            p = R.randint(3, 24) if quick else R.randint(3, 60)
            for vs, bits in mine(R, fn, px, p, 3 if quick else 8):
                ops = tuple(F(v) for v in vs)
                enc = Encl(fn, list(vs), [v < 0 for v in vs])
                rep.count('mined-hard-case:' + fn)
                mined_bits.append(min(bits, 64.0))
                for rm in RMS:
                    run_.case_fn(fn, ops, mp(p, rm), enc, 'mined')
                emin = 1 - R.randint(0, 3)
                run_.case_fn(fn, ops, mps(p, emin, R.choice(RMS)), enc, 'mined')
                if p >= 2: run_.case_fn(fn, ops, mp(p - 1, R.choice(RMS)), enc, 'mined')
                st_cases.append((fn, ops, mp(p, R.choice(RMS)), enc))
    # the offline corpus: all 8 modes at the mined precision, its neighbours, and a subnormal / IEEE variant
    for (fn, xs, p, bits) in HARD_CORPUS:
        vs = [Fraction(x) for x in xs]
        ops = tuple(F(v) for v in vs)
        enc = Encl(fn, vs, [v < 0 for v in vs])
        rep.count('corpus-hard-case:' + fn)
        mined_bits.append(bits)
        for rm in RMS:
            run_.case_fn(fn, ops, mp(p, rm), enc, 'corpus')
        run_.case_fn(fn, ops, mp(p + 1, R.choice(RMS)), enc, 'corpus')
        run_.case_fn(fn, ops, mp(p - 1, R.choice(RMS)), enc, 'corpus')
        run_.case_fn(fn, ops, mps(p, R.randint(-3, 1), R.choice(RMS)), enc, 'corpus')
        if p in (8, 11, 24, 53):
            es, nb = {8: (4, 12), 11: (5, 16), 24: (8, 32), 53: (11, 64)}[p]
            run_.case_fn(fn, ops, ieee(es, nb, R.choice(RMS)), enc, 'corpus')
    run_.flush_model()
    R.shuffle(st_cases)
    selftest(rep, st_cases, 1500 if quick else 6000)
    rep.cov['evaluations'] = run_.n
    rep.cov['per_function'] = {f: {'cases': rep.hist.get('fn:' + f, 0), 'undecided': rep.hist.get('undecided:' + f, 0),
                                   'exact_rational': rep.hist.get('exact-rational-result:' + f, 0),
                                   'exact_representable_unflagged': rep.hist.get('exact-representable:' + f, 0),
                                   'violations': rep.hist.get('violation:' + f, 0)} for f in FUNCS}
    rep.cov['per_constant'] = {c: {'cases': rep.hist.get('const:' + c, 0), 'undecided': rep.hist.get('undecided:const_' + c, 0),
                                   'violations': rep.hist.get('violation:const_' + c, 0)} for c in CONSTS}
    if mined_bits:
        rep.cov['mined_hard_cases'] = {'count': len(mined_bits), 'extra_zero_or_one_bits_beyond_the_boundary': {
            'min': round(min(mined_bits), 1), 'mean': round(sum(mined_bits) / len(mined_bits), 1), 'max': round(max(mined_bits), 1)}}
    rep.cov['undecided_total'] = sum(v for k, v in rep.hist.items() if k.startswith('undecided:'))
    rep.cov['seconds_constants'] = round(t_const, 1)
    rep.cov['rule'] = (f'constants: all 12 x precisions 1..{pmax_c} x 8 modes under MPFloat, + MPFixed nmin -8..3 x 8 modes + sampled MPSFloat / IEEE (small, '
                       f'binary16..128) / MPFixed / Fixed(saturate, wrap) contexts.  functions: all 26 (24 unary, pow with real exponent, atan2); operands = exact-case list '
                       f'(exp 0, log 1, log2 2^k, log10 10^k, exp2/exp10 of integers, tgamma n, pow perfect powers, ...), tiny arguments +-2^-8..2^-200 and 1 +- 2^-k '
                       f'(result a hair from a grid point at every precision), {n_ops} seeded dyadics per function (1..53 digit significands, large arguments for the '
                       f'periodic functions), operands MINED by brute force over a whole small input format for closeness of f(x) to a grid point or midpoint (fresh each run), '
                       f'and a corpus of {len(HARD_CORPUS)} operands mined offline over 18-digit formats (16..64 zeros/ones after the boundary) at p = 8, 11, 24, 53; '
                       f'every (precision 1..{pmax_f}, mode) pair is used with at least one operand of every function, every operand under sampled subnormal / IEEE / '
                       f'fixed-point contexts; distinct = distinct (function, operand, context)')
    rep.assumptions += [
        'functions: the enclosure [RNDD - 1ulp, RNDU + 1ulp] computed by MPFR 4.2.1 (gmpy2 2.2) at working precision w >= p + 32 contains the true value: MPFR documents correct '
        'rounding in the directed modes for every function used (exp, log, trigonometric, hyperbolic, inverse, pow, atan2, erf, erfc, gamma, lgamma); the extra ulp on each side '
        'also covers a faithful (<= 1 ulp) but not correctly rounded directed result.  A defect of MPFR common to the precision used by fpy (p + 2, toward zero) and to w (>= p + 32, '
        'down/up) would not be seen',
        'constants: judged by a pure-integer interval evaluator (Machin formula, atanh series, integer square roots; this file), independent of MPFR; cross-checked against MPFR',
        'a true result is taken to be irrational (never exactly representable) unless the special-case list says it is rational; the list rests on Lindemann-Weierstrass / '
        'Gelfond-Schneider for dyadic operands; for erf, erfc, gamma, lgamma outside the list no theorem is needed: a grid point inside the enclosure leaves the case undecided',
        'sign of a zero result: IEEE 754-2019 9.2 (odd functions keep the sign of a zero operand; log 1, acos 1, acosh 1, lgamma 1, lgamma 2 are +0)',
        'operands outside the domain, poles and non-finite operands are not generated (the statement is about finite operands in the domain)',
        'stochastic contexts (num_randbits > 0) are not generated here; the widening of round_params by the random bits is covered by C16/C17',
        'the MPFR exponent range (|e| < 2^62 as configured by fpy) is not approached: generated results have |exponent| < 5000',
    ]
