"""C04 — programs evaluate by the documented context-scoped semantics.

Every program is FPy SOURCE TEXT.  It is (1) given to the real front end + interpreter, (2) translated by an
independent front end written from the language reference (c04front: Python `ast` -> S-expression, builtins resolved
by name from its own tables) and run on the Lean evaluator (Fpy.Lang.evalE/evalS/evalB, fuel big-step, heap of lists,
contexts as evaluator argument), and (3) exported from the AST the REAL parser built (langexport, ext mode): texts (2)
and (3) must be equal function by function — the parser's operator tables / literal folding / scoping are checked
without running anything.  Value (structural, sign of zero) or error KIND of (1) and (2) must agree on every input.

Program sources: a hand-written corpus pinning documented rules at their edges (corpus/c04_corpus.py), the first
generation type-directed generator (proggen.Gen, which also prints its own S-expression: a third opinion), and the
coverage-driven second generation (c04gen.Gen4).  MPFR-valued operations, which the Lean model cannot decide, are
checked for DISPATCH: the interpreter running `fp.<op>(x)` under context C against `fpy2.ops.<op>(x, ctx=C)` called
directly by name (and dim/size/logb against an exact Spec computed here).  `BytecodeInterpreter.eval_expr` is checked
against the model on expression-only programs.

Set VERIF_COVERAGE=1 to measure branch coverage of the code under test during the real-interpreter calls (slow:
single process); the per-file percentages and the list of never-executed functions / lines go to rep.cov.
"""
from __future__ import annotations
import shutil, importlib.util, os, sys, io, contextlib, traceback, tempfile, json, time
from fractions import Fraction
from proggen import Gen, src_func, sx_func
from common import Prng, run_driver, DRV
from langexport import export_program, eval_line, Unsupported, show_val, val_sexp, ctx_sexp, PY_ERRS
from numcanon import err_name
import c04gen, c04front
import fpy2 as fp

PROP = 'C04'

REALS = [1.5, -2.25, 0.1, 3.0, 1e-3, 100.0, -0.0, 0.0, float('inf'), float('-inf'), float('nan'), 1e300, -7.0, 0.3, 65504.0, 2.0 ** -30, 5, -3, 2.0 ** 20, 2.0 ** 100, -(2.0 ** -26)]
CALL_CTXS = c04gen.CALL_CTXS
NWORKERS = int(os.environ.get('VERIF_WORKERS', '12'))
COV_INCLUDE = ['fpy2/interpret/*', 'fpy2/ops.py', 'fpy2/frontend/parser.py', 'fpy2/frontend/__init__.py', 'fpy2/ast/fpyast.py', 'fpy2/decorator.py',
               'fpy2/function.py', 'fpy2/primitive.py', 'fpy2/analysis/syntax_check.py']

# the model has no RuntimeError kind: `ops.nearbyint` under the real context (a RuntimeError in the code) is its AssertionError
ERR_CANON = {'err RuntimeError': 'err AssertionError'}

def canon(got: str) -> str: return ERR_CANON.get(got, got)

def guarded(thunk, timeout_s=4) -> str:
    """run `thunk()` (a call into the real interpreter) under an alarm; canonical outcome line.  The alarm handler is
    disarmed before anything outside the guarded region runs (a late SIGALRM on a loaded machine must not escape)."""
    import signal
    armed = [True]; fired = [False]
    def on_alarm(signum, frame):
        if armed[0]:
            armed[0] = False; fired[0] = True
            raise TimeoutError('timeout')
    old = signal.signal(signal.SIGALRM, on_alarm)
    signal.alarm(timeout_s)
    try:
        try:
            v = thunk()
            armed[0] = False
        except TimeoutError:
            return 'timeout'
        except Exception as e:   # noqa
            armed[0] = False
            if fired[0]: return 'timeout'      # the alarm went off inside a C extension call (surfaces as SystemError or a wrapped error)
            n = err_name(e)
            return 'err ' + PY_ERRS.get(n, n)
        try:
            return 'ok ' + show_val4(v)
        except Unsupported as e:
            return f'unsupported {e}'
    finally:
        armed[0] = False
        signal.alarm(0); signal.signal(signal.SIGALRM, old)

def copy_arg(x):
    """containers are rebuilt (the interpreter must not be handed the harness's own lists), scalars and contexts are shared
    (`fp.REAL` is recognised by identity: a deep copy of it is a different context)"""
    if isinstance(x, list): return [copy_arg(y) for y in x]
    if isinstance(x, tuple): return tuple(copy_arg(y) for y in x)
    return x

def show_val4(v) -> str:
    """`show_val`, with an opaque constant (a string, None) printed as the placeholder the model carries for it"""
    if v is None or isinstance(v, str): return '(b 1)'
    if isinstance(v, list): return '(l ' + ' '.join(show_val4(x) for x in v) + ')' if v else '(l )'
    if isinstance(v, tuple): return '(t ' + ' '.join(show_val4(x) for x in v) + ')' if v else '(t )'
    return show_val(v)

def run_real(fn, args, ctx=None, timeout_s=4) -> str:
    a = [copy_arg(x) for x in args]
    return guarded((lambda: fn(*a, ctx=ctx)) if ctx is not None else (lambda: fn(*a)), timeout_s)

def top_level(sx: str) -> list[str]:
    """the top-level items of '( … )' (function definitions of a program)"""
    out, depth, cur = [], 0, ''
    for ch in sx[1:-1]:
        if ch == '(': depth += 1
        if depth > 0: cur += ch
        if ch == ')':
            depth -= 1
            if depth == 0: out.append(cur); cur = ''
    return out

_FRONTS: dict = {}    # path -> c04front.Front (per process)
_MODS: dict = {}      # modules loaded by the parent before the workers fork (the corpus)

def load_one(path, tag=''):
    if path in _MODS: return _MODS[path]
    name = 'fpyverif_c04_' + tag + os.path.basename(os.path.dirname(path)) + '_' + os.path.basename(path)[:-3]
    spec = importlib.util.spec_from_file_location(name, path)
    mod = importlib.util.module_from_spec(spec)
    sys.modules[spec.name] = mod
    spec.loader.exec_module(mod)
    return mod

def arg_kinds(fn) -> list[str]:
    """argument types of a corpus function from its annotations: R / B / L / LL / P / C"""
    from fpy2.ast import fpyast as A
    out = []
    for a in fn.ast.args:
        t = a.type
        if isinstance(t, A.ListTypeAnn): out.append('LL' if isinstance(t.elt, A.ListTypeAnn) else 'L')
        elif isinstance(t, A.BoolTypeAnn): out.append('B')
        elif isinstance(t, A.TupleTypeAnn): out.append('P')
        else: out.append('R')
    return out

def ev(src):
    return None if src is None else c04gen.eval_input(src)

def node_kinds(fn, acc: dict):
    """class names of the AST nodes of a real FPy function (mechanical walk over __slots__)"""
    from fpy2.ast import fpyast as A
    seen = set()
    def walk(x):
        if isinstance(x, A.Ast):
            if id(x) in seen: return
            seen.add(id(x))
            acc[type(x).__name__] = acc.get(type(x).__name__, 0) + 1
            for cls in type(x).__mro__:
                for s in getattr(cls, '__slots__', ()):
                    if s in ('_loc', 'fn', '_meta'): continue
                    try: walk(getattr(x, s))
                    except AttributeError: pass
        elif isinstance(x, (list, tuple)):
            for y in x: walk(y)
    walk(fn.ast)

# ------------------------------------------------------------------------------------------------ one program (worker side)

def run_program(job: dict) -> dict:
    """import the program, translate it twice, run every input on the real interpreter.  Pure function of `job`."""
    res = {'id': job['id'], 'kind': job['kind'], 'counts': {}, 'notes': [], 'broke': [], 'runs': [], 'front': None, 'kinds': {}}
    cnt = res['counts']
    def count(k, n=1): cnt[k] = cnt.get(k, 0) + n
    try:
        with contextlib.redirect_stdout(io.StringIO()):
            mod = job.get('_mod') or load_one(job['path'], job['kind'])
    except Exception as e:   # the front end rejected a program the generator believes well-formed
        count('frontend-rejected:' + type(e).__name__)
        res['notes'].append(f"front end rejected program {job['id']}: {type(e).__name__}: {str(e)[:200]}")
        return res
    fn = getattr(mod, job['entry'])
    twins = {k: getattr(mod, v) for k, v in (getattr(mod, 'C04_TWINS', {}) or {}).items()}
    # (2) the independent front end
    front = None
    try:
        _, front = c04front.front_program(job['path'], mod, job['entry'], _FRONTS)
    except Unsupported as e:
        count('front-unsupported:' + str(e)[:60])
    except Exception as e:
        res['broke'].append(('harness', 'c04front', f"{job['id']}: {traceback.format_exc()[-1500:]}"))
    # (3) the real parser's AST in the same notation
    exported = None
    try:
        _, exported = export_program(fn, ext=True, twins=twins)
        node_kinds(fn, res['kinds'])
    except Unsupported as e:
        count('export-unsupported:' + str(e)[:60])
    except Exception as e:
        res['broke'].append(('harness', 'langexport', f"{job['id']}: {traceback.format_exc()[-1500:]}"))
    if front is None and exported is None:
        # a construct the model cannot decide: the two front ends are still compared as TEXT (opaque operators), nothing is evaluated
        try:
            _, tf = c04front.front_program(job['path'], mod, job['entry'], _FRONTS, lenient=True)
            _, te = export_program(fn, ext=True, twins=twins, lenient=True)
            node_kinds(fn, res['kinds'])
            count('text-only-programs')
            if tf != te:
                a, b = top_level(tf), top_level(te)
                d = next(((x, y) for x, y in zip(a, b) if x != y), (f'{len(a)} functions', f'{len(b)} functions'))
                count('parser-vs-source-differs')
                res['broke'].append(('correspondence', 'C04.parser', f"program {job['id']} ({job['path']}): the AST produced by the real parser differs from the source text "
                                     f"as the language reference reads it\nsource text : {d[0][:1500]}\nreal parser : {d[1][:1500]}"))
        except Unsupported as e:
            count('text-unsupported:' + str(e)[:60])
        except Exception:
            res['broke'].append(('harness', 'c04front-lenient', f"{job['id']}: {traceback.format_exc()[-1500:]}"))
    if front is not None and exported is not None and front != exported:
        # C04-F2 (known): the parser reads a decimal literal through a Python float
        try:
            _, front_q = c04front.Front(job['path'], mod, quirks={'literal-via-float'}).program(job['entry'])
        except Exception:
            front_q = None
        if front_q == exported:
            a, b = top_level(front), top_level(exported)
            d = next(((x, y) for x, y in zip(a, b) if x != y), ('', ''))
            res['f2'] = literal_diff(d[0], d[1])
            count('parser-vs-source-differs:C04-F2')
            exported = front
    if front is not None and exported is not None and front != exported:
        a, b = top_level(front), top_level(exported)
        diff = [(x, y) for x, y in zip(a, b) if x != y]
        d = diff[0] if diff else (f'{len(a)} functions', f'{len(b)} functions')
        count('parser-vs-source-differs')
        res['broke'].append(('correspondence', 'C04.parser', f"program {job['id']} ({job['path']}): the AST produced by the real parser differs from the source text "
                             f"as the language reference reads it\nsource text : {d[0][:1500]}\nreal parser : {d[1][:1500]}"))
    if job.get('gen_sx') and front is not None:
        # first-generation programs: the generator's own S-expression is a third opinion
        if not set(top_level(front)) <= set(top_level(job['gen_sx'])):
            count('generator-vs-source-differs')
            res['broke'].append(('correspondence', 'C04.parser', f"program {job['id']}: independent front end and generator printer disagree\nfront:{front[:1500]}\ngen:  {job['gen_sx'][:1500]}"))
    res['front'] = front if front is not None else exported        # what the evaluator runs (the source-text reading when available)
    res['front_is'] = 'source' if front is not None else ('parser' if exported is not None else None)
    count('programs')
    if res['front'] is None:
        return res
    for args_src, ctx_src in job['inputs']:
        try:
            args = tuple(ev(a) for a in args_src)
            ctx = ev(ctx_src)
        except Exception as e:
            res['runs'].append(None); count('skipped:bad-input'); continue
        before = [show_arg(a) for a in args]
        with contextlib.redirect_stdout(io.StringIO()):
            got = run_real(fn, args, ctx)
        if got.startswith(('timeout', 'unsupported')):
            count('skipped:' + got.split()[0]); res['runs'].append(None)
            if got.startswith('timeout') and len(res['notes']) < 2: res['notes'].append(f"timeout: {job['id']} args={args_src} ctx={ctx_src}")
            continue
        try:
            line = eval_line(job['entry'], res['front'], args, ctx, fuel=100000)
        except Unsupported as e:
            count('skipped:input-' + str(e)[:30]); res['runs'].append(None); continue
        mutated = [show_arg(a) for a in args] != before          # `run_real` hands the callee a deep copy: never true; kept as a guard
        res['runs'].append({'args': list(args_src), 'ctx': ctx_src, 'got': got, 'line': line, 'mutated': mutated})
    return res

def literal_diff(a: str, b: str) -> str:
    """the first `(num …)` token on which two program texts differ"""
    ta, tb = a.split(), b.split()
    for x, y in zip(ta, tb):
        if x != y: return f'{x.rstrip(")")} (source text) vs {y.rstrip(")")} (real parser)'
    return ''

def show_arg(a) -> str:
    try: return val_sexp(a)
    except Exception: return repr(a)

# ------------------------------------------------------------------------------------------------ MPFR-valued operations: dispatch

MPFR_UNARY = ['acos', 'asin', 'atan', 'cos', 'sin', 'tan', 'acosh', 'asinh', 'atanh', 'cosh', 'sinh', 'tanh', 'exp', 'exp2', 'expm1', 'log', 'log10',
              'log1p', 'log2', 'erf', 'erfc', 'lgamma', 'tgamma', 'logb', 'isnormal', 'cbrt', 'sqrt']
MPFR_BINARY = ['atan2', 'pow', 'hypot', 'fmod', 'remainder', 'copysign', 'fdim']
MPFR_CONSTS = ['const_pi', 'const_e', 'const_log2e', 'const_log10e', 'const_ln2', 'const_pi_2', 'const_pi_4', 'const_1_pi', 'const_2_pi', 'const_2_sqrt_pi',
               'const_sqrt2', 'const_sqrt1_2', 'nan', 'inf']

def dispatch_source() -> str:
    out = ['import fpy2 as fp', '']
    for n in MPFR_UNARY:
        out += ['@fp.fpy', f'def d1_{n}(x):', f'    return fp.{n}(x)', '',
                '@fp.fpy', f'def d1w_{n}(x, c):', '    with fp.MPFloatContext(2, fp.RM.RTZ):', '        with c:', f'            y = fp.{n}(x)', '        z = x * 1', '    return (y, z)', '']
    for n in MPFR_BINARY:
        out += ['@fp.fpy', f'def d2_{n}(x, y):', f'    return fp.{n}(x, y)', '',
                '@fp.fpy', f'def d2w_{n}(x, y, c):', '    with c:', f'        r = [fp.{n}(a, y) for a in [x, y]]', '    return r', '']
    for n in MPFR_CONSTS:
        out += ['@fp.fpy', f'def d0_{n}():', f'    return fp.{n}()', '',
                '@fp.fpy', f'def d0w_{n}(c):', '    with fp.MPFloatContext(2, fp.RM.RTZ):', '        with c:', f'            y = fp.{n}()', f'        z = fp.{n}()', '    return (y, z)', '']
    out += ['@fp.fpy', 'def dop_pow(x, y):', '    return x ** y', '', '@fp.fpy', 'def dop_pow_half(x):', '    return (x ** 0.5, x ** 1.5, x ** -0.5, fp.pow(x, 0.5), 2 ** x)', '',
            '@fp.fpy', 'def dop_mod(x, y):', '    return (x % y, fp.fmod(x, y), fp.remainder(x, y))', '']
    out += ['@fp.fpy', 'def d_dim(xs, c):', '    with c:', '        r = (fp.dim(xs), fp.size(xs, 0), len(xs))', '    return r', '',
            '@fp.fpy', 'def d_size1(xss, c):', '    with c:', '        r = fp.size(xss, 1)', '    return r', '']
    return '\n'.join(out)

def as_value(x):
    """a Python argument as the FPy value the boundary makes of it (documented: int/float are exact, nothing rounds)"""
    from fpy2.number import Float
    if isinstance(x, bool) or isinstance(x, (Fraction, Float)): return x
    if isinstance(x, int): return Float.from_int(x, ctx=fp.INTEGER, checked=False)
    if isinstance(x, float): return Float.from_float(x, ctx=fp.FP64, checked=False)
    return x

def direct(name, args, ctx):
    """`fpy2.ops.<name>(*args, ctx=ctx)` called directly, as a canonical outcome line"""
    import fpy2.ops as ops
    try:
        return 'ok ' + show_val(getattr(ops, name)(*[as_value(a) for a in args], ctx=ctx))
    except Exception as e:
        from numcanon import err_name
        return 'err ' + err_name(e)

def run_dispatch(rep, R, tmp, tier):
    """interpreter(fp.op(x) under C)  ==  ops.op(x, ctx=C)  for every operation the Lean model does not decide"""
    path = os.path.join(tmp, 'dispatch.py')
    with open(path, 'w') as fh: fh.write(dispatch_source())
    mod = load_one(path, 'dispatch')
    ctxs = ['fp.FP64', 'fp.FP32', 'fp.MPFloatContext(3, fp.RM.RTP)', 'fp.IEEEContext(5, 16, fp.RM.RTZ)', 'fp.FixedContext(True, -4, 12, fp.RM.RNE, fp.OV.SATURATE)',
            'fp.MPFixedContext(-3, fp.RM.RTN)', 'fp.MPFloatContext(1, fp.RM.RNE)', 'fp.MPSFloatContext(5, -3, fp.RM.RAZ)']
    xs = [0.5, 1.0, 2.5, -0.75, 0.0, -0.0, 1e-3, 10.0, float('inf'), float('-inf'), float('nan'), 3, Fraction(1, 3), 0.1, -2.0, 1e-310, 700.0]
    n = 3 if tier == 'quick' else 12
    FP64 = fp.FP64
    def check(what, got, want, replay):
        rep.cov['evaluations'] += 1
        rep.count('dispatch:' + what.split('(')[0].split('_')[0])
        if got != want:
            rep.violation(f'{what}: the interpreter returns {got[:90]} but the operation the node denotes, applied under the active context, gives {want[:90]}',
                          dict(replay, impl=got, documented_semantics=want, finding=None, oracle='dispatch'))
    for name in MPFR_UNARY:
        for _ in range(n):
            x = R.choice(xs); cs = R.choice(ctxs); c = ev(cs)
            got = run_real(getattr(mod, f'd1_{name}'), (x,), c)
            check(f'fp.{name}({x!r}) under {cs}', got, direct(name, (x,), c), {'program': f'd1_{name}', 'args': repr((x,)), 'ctx': cs})
            got = run_real(getattr(mod, f'd1w_{name}'), (x, c), None)
            y = direct(name, (x,), c); z = direct('mul', (x, 1), fp.MPFloatContext(2, fp.RM.RTZ))
            want = f'ok (t {y[3:]} {z[3:]})' if y.startswith('ok') and z.startswith('ok') else (y if y.startswith('err') else z)
            check(f'with C: fp.{name}({x!r}) then the outer context, C = {cs}', got, want, {'program': f'd1w_{name}', 'args': repr((x, cs)), 'ctx': None})
    for name in MPFR_BINARY:
        for _ in range(n):
            x, y = R.choice(xs), R.choice(xs); cs = R.choice(ctxs); c = ev(cs)
            got = run_real(getattr(mod, f'd2_{name}'), (x, y), c)
            check(f'fp.{name}({x!r}, {y!r}) under {cs}', got, direct(name, (x, y), c), {'program': f'd2_{name}', 'args': repr((x, y)), 'ctx': cs})
            got = run_real(getattr(mod, f'd2w_{name}'), (x, y, c), None)
            a, b = direct(name, (x, y), c), direct(name, (y, y), c)
            want = f'ok (l {a[3:]} {b[3:]})' if a.startswith('ok') and b.startswith('ok') else (a if a.startswith('err') else b)
            check(f'[fp.{name}(a, {y!r}) for a in [{x!r}, {y!r}]] under {cs}', got, want, {'program': f'd2w_{name}', 'args': repr((x, y, cs)), 'ctx': None})
    for name in MPFR_CONSTS:
        for cs in R.sample(ctxs, min(n, len(ctxs))):
            c = ev(cs)
            got = run_real(getattr(mod, f'd0_{name}'), (), c)
            check(f'fp.{name}() under {cs}', got, direct(name, (), c), {'program': f'd0_{name}', 'args': '()', 'ctx': cs})
            got = run_real(getattr(mod, f'd0w_{name}'), (c,), None)
            y = direct(name, (), c); z = direct(name, (), fp.MPFloatContext(2, fp.RM.RTZ))
            want = f'ok (t {y[3:]} {z[3:]})' if y.startswith('ok') and z.startswith('ok') else (y if y.startswith('err') else z)
            check(f'with C: fp.{name}() then the outer context, C = {cs}', got, want, {'program': f'd0w_{name}', 'args': repr((cs,)), 'ctx': None})
    # operator spellings of undecided operations: `x ** y` with a non-integer exponent is the operation pow, not a rewrite of it
    def tup(*parts):
        return 'ok (t ' + ' '.join(q[3:] for q in parts) + ')' if all(q.startswith('ok') for q in parts) else next(q for q in parts if q.startswith('err'))
    half, three_half, mhalf = Fraction(1, 2), Fraction(3, 2), Fraction(-1, 2)
    for x in xs:      # (every special value: a rewrite of `**` for one exponent shows only at a few operands, e.g. -0.0 ** 0.5)
        y = R.choice(xs); cs = R.choice(ctxs); c = ev(cs)
        check(f'{x!r} ** {y!r} under {cs}', run_real(mod.dop_pow, (x, y), c), direct('pow', (x, y), c), {'program': 'dop_pow', 'args': repr((x, y)), 'ctx': cs})
        want = tup(direct('pow', (x, half), c), direct('pow', (x, three_half), c), direct('pow', (x, mhalf), c), direct('pow', (x, half), c), direct('pow', (Fraction(2), x), c))
        check(f'(x ** 0.5, x ** 1.5, x ** -0.5, fp.pow(x, 0.5), 2 ** x) at x = {x!r} under {cs}', run_real(mod.dop_pow_half, (x,), c), want, {'program': 'dop_pow_half', 'args': repr((x,)), 'ctx': cs})
        want = tup(direct('mod', (x, y), c), direct('fmod', (x, y), c), direct('remainder', (x, y), c))
        check(f'(x % y, fmod, remainder) at ({x!r}, {y!r}) under {cs}', run_real(mod.dop_mod, (x, y), c), want, {'program': 'dop_mod', 'args': repr((x, y)), 'ctx': cs})
    # logb against its definition: the exponent e with 2**e <= |x| < 2**(e+1), rounded under the context (an exact integer otherwise)
    for x in xs + [Fraction(1, 10), Fraction(3, 7), Fraction(-5, 3), 12.0, 0.75, 1e-300, Fraction(1, 1024), Fraction(7, 1024), Fraction(2, 3), Fraction(1, 100), Fraction(100, 3)]:
        cs = R.choice(ctxs); c = ev(cs)
        got = run_real(getattr(mod, 'd1_logb'), (x,), c)
        try:
            from fpy2.number import Float, RealFloat
            if isinstance(x, float) and x != x: want = 'ok ' + show_val(c.round(Float(isnan=True)))
            elif isinstance(x, float) and x in (float('inf'), float('-inf')): want = 'ok ' + show_val(c.round(Float(isinf=True)))
            elif x == 0: want = 'ok ' + show_val(c.round(Float(s=True, isinf=True)))
            else:
                q = abs(Fraction(x)); e = q.numerator.bit_length() - q.denominator.bit_length()
                if q < Fraction(2) ** e: e -= 1
                assert Fraction(2) ** e <= q < Fraction(2) ** (e + 1)
                want = 'ok ' + show_val(c.round(RealFloat.from_int(e)))
        except Exception as ex:
            want = 'err ' + err_name(ex)
        check(f'fp.logb({x!r}) under {cs} (definition: floor(log2|x|))', got, want, {'program': 'd1_logb', 'args': repr((x,)), 'ctx': cs})
    # dim / size / len: "exact integer counts, no rounding" (derived-semantics.rst, Lists)
    for it in range(2 * n):
        cs = R.choice(ctxs); c = ev(cs)
        k = R.choice([0, 1, 2, 3, 5, 9])
        nested = R.random() < 0.4
        if it == 0: cs, k, nested = 'fp.MPFloatContext(1, fp.RM.RNE)', 3, False; c = ev(cs)      # (the known C04-F1 reproduces on every run)
        xs_ = [[1.0, 2.0, 3.0][:R.choice([1, 2, 3])] for _ in range(k)] if nested and k > 0 else [float(i) for i in range(k)]
        got = run_real(mod.d_dim, (xs_, c), None)
        want = 'ok ' + show_val((2 if nested and k > 0 else 1, k, k))
        rep.cov['evaluations'] += 1; rep.count('dispatch:dim-size-len')
        if got != want:
            fid = None
            # C04-F1: the count is rounded under the active context (differs exactly when the count is not representable there)
            try:
                rounded = 'ok ' + show_val((c.round(2 if nested and k > 0 else 1), c.round(k), Fraction(k)))
                if got == rounded: fid = 'C04-F1'
            except Exception: pass
            rep.violation(f'(fp.dim(xs), fp.size(xs, 0), len(xs)) for a list of {k} elements under {cs} is {got[:80]}; the reference says exact integer counts, no rounding: {want[:60]}',
                          {'program': 'd_dim', 'args': repr((xs_, cs)), 'ctx': None, 'impl': got, 'documented_semantics': want, 'finding': fid, 'oracle': 'spec-counts'})
    for _ in range(n):
        cs = R.choice(ctxs); c = ev(cs)
        rows, cols = R.choice([1, 2, 3]), R.choice([0, 1, 2, 5])
        xss = [[float(i) for i in range(cols)] for _ in range(rows)]
        got = run_real(mod.d_size1, (xss, c), None)
        want = 'ok ' + show_val(cols)
        rep.cov['evaluations'] += 1; rep.count('dispatch:size-inner')
        if got != want:
            fid = None
            try:
                if got == 'ok ' + show_val(c.round(cols)): fid = 'C04-F1'
            except Exception: pass
            rep.violation(f'fp.size(xss, 1) for {rows}x{cols} under {cs} is {got[:80]}; the reference says exact integer counts, no rounding: {want[:60]}',
                          {'program': 'd_size1', 'args': repr((xss, cs)), 'ctx': None, 'impl': got, 'documented_semantics': want, 'finding': fid, 'oracle': 'spec-counts'})
    return mod

# ------------------------------------------------------------------------------------------------ eval_expr

def run_eval_expr(rep, R, tmp, tier, lines, meta):
    """`BytecodeInterpreter.eval_expr(e, env, ctx)` against the model on expression-only programs (the model runs `return e`)"""
    from fpy2.interpret import get_default_interpreter
    from fpy2.utils import NamedId
    n = 60 if tier == 'quick' else 400
    src = ['import fpy2 as fp', '']
    for i in range(n):
        g = c04gen.Gen4(Prng(R.getrandbits(32), 'expr'), f'x{i}', risk=0.1)
        env = {'a0': 'R', 'a1': 'R', 'a2': 'L'}
        kind = R.choice(['R', 'R', 'B', 'L'])
        e = g.real(env, 3) if kind == 'R' else (g.boolean(env, 3) if kind == 'B' else g.lst(env, 2))
        src += ['@fp.fpy', f'def ex{i}(a0, a1, a2):', f'    return {e}', '']
    path = os.path.join(tmp, 'exprs.py')
    with open(path, 'w') as fh: fh.write('\n'.join(src))
    with contextlib.redirect_stdout(io.StringIO()):
        mod = load_one(path, 'exprs')
    rt = get_default_interpreter()
    cache = {}
    for i in range(n):
        fn = getattr(mod, f'ex{i}')
        try:
            _, prog = c04front.front_program(path, mod, f'ex{i}', cache)
        except Unsupported as e:
            rep.count('front-unsupported:' + str(e)[:60]); continue
        expr = fn.ast.body.stmts[-1].expr
        for _ in range(3 if tier == 'quick' else 6):
            args_src = [c04gen.input_src(R, 'R'), c04gen.input_src(R, 'R'), c04gen.input_src(R, 'L')]
            cs = R.choice([c for c in CALL_CTXS if c is not None])
            args = [ev(a) for a in args_src]; ctx = ev(cs)
            env_ = {NamedId('a0'): args[0], NamedId('a1'): args[1], NamedId('a2'): args[2]}
            got = guarded(lambda: rt.eval_expr(expr, env_, ctx))
            if got.startswith(('timeout', 'unsupported')): continue
            lines.append(eval_line(f'ex{i}', prog, args, ctx, fuel=100000))
            meta.append({'kind': 'eval_expr', 'id': f'ex{i}', 'path': path, 'entry': f'ex{i}', 'args': args_src, 'ctx': cs, 'got': got})
            rep.count('eval_expr-evaluations')

# ------------------------------------------------------------------------------------------------ expected errors

EXPECT_SRC = '''import fpy2 as fp

@fp.fpy
def e_helper(x):
    return x + 1

@fp.fpy
def e_kwargs_to_fpy(x):
    return e_helper(x=x)

@fp.fpy
def e_call_python(x):
    return float(x)

@fp.fpy
def e_ctx_unknown_keyword(x):
    with fp.IEEEContext(5, 16, bogus=1):
        y = x + 1
    return y

@fp.fpy_primitive
def e_prim(x: fp.Float) -> fp.Float:
    return x

@fp.fpy
def e_kwargs_to_primitive(x):
    return e_prim(x=x)

@fp.fpy
def e_kwargs_to_python(x):
    return float(x=x)

@fp.fpy
def e_ctx_maxval_not_finite(x):
    with fp.MPBFloatContext(4, -5, x * fp.inf()):
        y = x + 1
    return y

@fp.fpy
def e_ctx_maxval_not_dyadic(x):
    with fp.MPBFloatContext(4, -5, x / 3 + fp.rational(1, 7)):
        y = x + 1
    return y

@fp.fpy
def e_fp_neg_is_not_an_fpy_operation(x):
    return fp.neg(x)

@fp.fpy
def e_branch_on_foreign(x):
    s = None
    if s:
        y = 1
    else:
        y = 2
    return y
'''
EXPECT = [('e_kwargs_to_fpy', 'RuntimeError'), ('e_call_python', 'RuntimeError'), ('e_ctx_unknown_keyword', 'TypeError'), ('e_kwargs_to_primitive', 'RuntimeError'),
          ('e_branch_on_foreign', 'TypeError'), ('e_kwargs_to_python', 'RuntimeError'), ('e_ctx_maxval_not_finite', 'ValueError'),
          ('e_ctx_maxval_not_dyadic', 'TypeError'), ('e_fp_neg_is_not_an_fpy_operation', 'RuntimeError')]

def run_expected(rep, tmp):
    path = os.path.join(tmp, 'expected.py')
    with open(path, 'w') as fh: fh.write(EXPECT_SRC)
    mod = load_one(path, 'expected')
    for name, kind in EXPECT:
        for x in (1.5, Fraction(1, 3)):
            got = run_real(getattr(mod, name), (x,), None)
            rep.cov['evaluations'] += 1; rep.count('expected-error')
            if got != 'err ' + kind:
                rep.violation(f'{name}({x!r}) gives {got[:80]}; the reference refuses this program with {kind}',
                              {'program': EXPECT_SRC, 'entry': name, 'args': repr((x,)), 'ctx': None, 'impl': got, 'documented_semantics': 'err ' + kind, 'finding': None, 'oracle': 'expected-error'})

# ------------------------------------------------------------------------------------------------ equivalent formulations (constructs the model has no node for)

EQUIV_SRC = '''import fpy2 as fp

# attributes of run-time values (`_eval_attribute`): a native number read from a context is an exact numerical value
@fp.fpy
def q_attr(x):
    with fp.IEEEContext(5, 16, fp.RM.RTZ) as c:
        y = x * 1.1
    with fp.MPFloatContext(2, fp.RM.RNE):
        with fp.MPFloatContext(c.es + 3, c.rm):
            z = x / 3
        w = c.nbits / 3
    return (y, z, w, c.es, c.nbits + 0.5)

@fp.fpy
def q_attr_plain(x):
    with fp.IEEEContext(5, 16, fp.RM.RTZ):
        y = x * 1.1
    with fp.MPFloatContext(2, fp.RM.RNE):
        with fp.MPFloatContext(5 + 3, fp.RM.RTZ):
            z = x / 3
        w = 16 / 3
    return (y, z, w, 5, 16 + 0.5)

# two different functions with the same name (one per factory): each call runs ITS body
def _mk_a():
    @fp.fpy
    def kernel(x):
        return x * 3
    return kernel

def _mk_b():
    @fp.fpy
    def kernel(x):
        return x + 100
    return kernel

kernel_a = _mk_a()
kernel_b = _mk_b()

@fp.fpy
def q_same_name_a(x):
    return x * 3

@fp.fpy
def q_same_name_b(x):
    return x + 100
'''
EQUIV = [('q_attr', 'q_attr_plain'), ('kernel_a', 'q_same_name_a'), ('kernel_b', 'q_same_name_b'), ('kernel_a', 'q_same_name_a')]

def run_equiv(rep, R, tmp, tier):
    """pairs of programs that must agree on every input (the right-hand one uses modelled constructs only and is itself
    checked against the Lean evaluator as an ordinary program)"""
    path = os.path.join(tmp, 'equiv.py')
    with open(path, 'w') as fh: fh.write(EQUIV_SRC)
    mod = load_one(path, 'equiv')
    jobs = []
    for a, b in EQUIV:
        for _ in range(4 if tier == 'quick' else 20):
            x = ev(c04gen.input_src(R, 'R')); cs = R.choice(CALL_CTXS); c = ev(cs)
            ga, gb = run_real(getattr(mod, a), (x,), c), run_real(getattr(mod, b), (x,), c)
            rep.cov['evaluations'] += 1; rep.count('equiv-pairs')
            if ga.startswith('timeout') or gb.startswith('timeout'): continue
            if ga != gb:
                rep.violation(f'{a}({x!r}) gives {ga[:90]} but the equivalent program {b} gives {gb[:90]}',
                              {'program': EQUIV_SRC, 'entry': a, 'args': repr((x,)), 'ctx': cs, 'impl': ga, 'documented_semantics': gb, 'finding': None, 'oracle': 'equivalent-formulation'})
    inputs = [([c04gen.input_src(R, 'R')], R.choice(CALL_CTXS)) for _ in range(6)]
    return [{'id': f'equiv:{n}', 'kind': 'equiv', 'path': path, 'entry': n, 'inputs': inputs} for n in ('q_attr_plain', 'q_same_name_a', 'q_same_name_b')]

# ------------------------------------------------------------------------------------------------ programs the front end must refuse

REFUSED = {
    'slice-step': 'def f(xs):\n    return xs[0:2:1]',
    'comprehension-if': 'def f(xs):\n    return [x for x in xs if x > 0]',
    'while-else': 'def f(x):\n    while x > 0:\n        x = x - 1\n    else:\n        x = 0\n    return x',
    'for-else': 'def f(xs):\n    s = 0\n    for x in xs:\n        s = s + x\n    else:\n        s = 0\n    return s',
    'multiple-targets': 'def f(x):\n    a = b = x\n    return a',
    'star-kwargs': 'def f(x):\n    d = x\n    return fp.MPFloatContext(**d)',
    'lambda': 'def f(x):\n    g = lambda y: y\n    return x',
    'bare-return': 'def f(x):\n    return',
    'two-with-items': 'def f(x):\n    with fp.FP32, fp.FP64:\n        y = x\n    return y',
    'with-tuple-target': 'def f(x):\n    with fp.FP32 as (a, b):\n        y = x\n    return y',
    'augassign-subscript': 'def f(xs):\n    xs[0] += 1\n    return xs',
    'annassign-subscript': 'def f(xs):\n    xs[0]: fp.Real = 1\n    return xs',
    'attribute-target': 'def f(x):\n    x.y = 1\n    return x',
    'starred-target': 'def f(xs):\n    a, *b = xs\n    return a',
    'bitwise-operator': 'def f(x):\n    return x | x',
    'floor-division': 'def f(x):\n    return x // 2',
    'matmul': 'def f(x):\n    return x @ x',
    'invert': 'def f(x):\n    return ~x',
    'is-comparator': 'def f(x):\n    return x is x',
    'in-comparator': 'def f(x, xs):\n    return x in xs',
    'dict-literal': 'def f(x):\n    return {1: x}',
    'set-comprehension': 'def f(xs):\n    return {x for x in xs}',
    'generator-expression': 'def f(xs):\n    return sum(x for x in xs)',
    'fstring': 'def f(x):\n    return f"{x}"',
    'complex-constant': 'def f(x):\n    return 1j',
    'unbound-variable': 'def f(x):\n    return y',
    'bound-on-one-path': 'def f(x):\n    if x > 0:\n        y = 1\n    return y',
    'loop-variable-after-loop': 'def f(xs):\n    for e in xs:\n        pass\n    return e',
    'wildcard-read': 'def f(x):\n    _ = x\n    return _',
    'varargs': 'def f(*xs):\n    return 0',
    'kwargs-parameter': 'def f(**kw):\n    return 0',
    'break': 'def f(xs):\n    for x in xs:\n        break\n    return 0',
    'continue': 'def f(xs):\n    for x in xs:\n        continue\n    return 0',
    'nested-def': 'def f(x):\n    def g(y):\n        return y\n    return x',
    'try': 'def f(x):\n    try:\n        y = x\n    finally:\n        y = x\n    return y',
    'unreachable-statement': 'def f(x):\n    return x\n    x = 1',
    'fallthrough': 'def f(x):\n    if x > 0:\n        return x',
    'keyword-to-builtin': 'def f(x):\n    return fp.sqrt(x=x)',
    'extra-keyword-to-builtin': 'def f(x):\n    return fp.sqrt(x, y=x)',
    'keyword-to-range': 'def f(x):\n    return range(x, step=1)',
    'keyword-to-min': 'def f(x):\n    return min(x, x, key=x)',
    'hexfloat-arity': "def f(x):\n    return fp.hexfloat('0x1p0', 2)",
    'rational-arity': 'def f(x):\n    return fp.rational(1)',
    'rational-denominator-non-literal': 'def f(x):\n    return fp.rational(1, x)',
    'digits-arity': 'def f(x):\n    return fp.digits(1, 2)',
    'digits-mantissa-non-literal': 'def f(x):\n    return fp.digits(x, 1, 2)',
    'digits-base-non-literal': 'def f(x):\n    return fp.digits(1, 1, x)',
    'annotation-without-value': 'def f(x):\n    y: fp.Real\n    return x',
    'subscript-of-call-target': 'def f(xs):\n    len(xs)[0] = 1\n    return xs',
    'underscore-callee': 'def f(x):\n    return _(x)',
    'augassign-underscore': 'def f(x):\n    _ += 1\n    return x',
    'attribute-of-undefined': 'def f(x):\n    return nowhere.sqrt(x)',
    'wrong-arity-builtin': 'def f(x):\n    return fp.sqrt(x, x)',
    'range-arity': 'def f(x):\n    return range(x, x, x, x)',
    'min-no-argument': 'def f(x):\n    return min()',
    'empty-no-argument': 'def f(x):\n    return fp.empty()',
    'hexfloat-non-string': 'def f(x):\n    return fp.hexfloat(x)',
    'rational-non-literal': 'def f(x):\n    return fp.rational(x, 2)',
    'digits-non-literal': 'def f(x):\n    return fp.digits(1, x, 2)',
    'call-of-subscript': 'def f(xs):\n    return xs[0](1)',
    'undefined-callee': 'def f(x):\n    return undefined_function(x)',
    'unknown-attribute': 'def f(x):\n    return fp.no_such_thing(x)',
    'attribute-of-call-in-callee-position': 'def f(x):\n    return fp.MPFloatContext(3).round(x)',
    'walrus': 'def f(x):\n    return (y := x)',
    'global-statement': 'def f(x):\n    global G\n    return x',
    'delete': 'def f(x):\n    del x\n    return 0',
    'raise': 'def f(x):\n    raise ValueError',
    'import': 'def f(x):\n    import math\n    return x',
    'await': 'async def f(x):\n    return x',
    'yield': 'def f(x):\n    yield x',
    'ellipsis-constant': 'def f(x):\n    return ...',
    'bytes-constant': "def f(x):\n    return b'ab'",
}

def run_refused(rep, tmp):
    """every program of REFUSED must be rejected when it is decorated (a parser / syntax-check error), not accepted with
    some other meaning"""
    for name, body in REFUSED.items():
        path = os.path.join(tmp, f'refused_{name.replace("-", "_")}.py')
        with open(path, 'w') as fh: fh.write('import fpy2 as fp\n\n@fp.fpy\n' + body + '\n')
        rep.cov['evaluations'] += 1; rep.count('refused-programs')
        try:
            with contextlib.redirect_stdout(io.StringIO()):
                load_one(path, 'refused')
        except Exception as e:
            rep.count('refused:' + type(e).__name__); continue
        rep.violation(f'the front end accepts a program the language reference excludes ({name}):\n{body}',
                      {'program': '@fp.fpy\n' + body, 'entry': 'f', 'args': None, 'ctx': None, 'impl': 'accepted', 'documented_semantics': 'refused by the front end', 'finding': None, 'oracle': 'refused'})

# ------------------------------------------------------------------------------------------------ known findings

def classify_all(mism: list[dict]) -> list:
    """attach a finding id to exactly the shapes of the known defects of /repo: the mismatch must DISAPPEAR when the
    source text is re-read with that one quirk of the implementation (c04front `quirks`), everything else unchanged.
    `mism`: [{'src', 'm', 'got'}]; returns the finding id (or None) of each, one driver batch per quirk set"""
    import ast as pyast
    out = [None] * len(mism)
    fronts: dict = {}
    def front(path, quirks):
        k = (path, tuple(sorted(quirks)))
        if k not in fronts:
            with contextlib.redirect_stdout(io.StringIO()):
                mod = load_one(path, 'classify')
            fronts[k] = c04front.Front(path, mod, quirks=quirks)
        return fronts[k]
    todo = []
    for i, x in enumerate(mism):
        src, m, got = x['src'], x['m'], x['got']
        if got == 'err SyntaxError':
            # C04-F4: a comparison chain of 3+ operands inside the iterable of a comprehension (walrus in a comprehension iterable)
            try:
                for n in pyast.walk(pyast.parse(src)):
                    if isinstance(n, pyast.ListComp):
                        for g in n.generators:
                            if any(isinstance(k, pyast.Compare) and len(k.ops) >= 2 for k in pyast.walk(g.iter)): out[i] = 'C04-F4'
            except Exception:
                pass
            continue
        if got == 'err KeyError':
            # C04-F3: a comprehension inside an assert message (ReachingDefs never visits the message)
            try:
                for n in pyast.walk(pyast.parse(src)):
                    if isinstance(n, pyast.Assert) and n.msg is not None and any(isinstance(k, pyast.ListComp) for k in pyast.walk(n.msg)):
                        out[i] = 'C04-F3'
            except Exception:
                pass
            continue
        todo.append(i)
    cands = [('C04-F1', {'size-rounds'}), ('C04-F2', {'literal-via-float'}), ('C04-F1', {'size-rounds', 'literal-via-float'})]
    for fid, quirks in cands:
        lines, idx = [], []
        for i in todo:
            if out[i] is not None: continue
            src, m = mism[i]['src'], mism[i]['m']
            if 'size-rounds' in quirks and 'fp.size(' not in src: continue
            try:
                _, prog = front(m['path'], quirks).program(m['entry'])
                lines.append(eval_line(m['entry'], prog, tuple(ev(a) for a in m['args']), ev(m['ctx']), fuel=100000)); idx.append(i)
            except Exception:
                continue
        if not lines: continue
        try: res = run_driver_robust(lines)
        except Exception: continue
        for i, r in zip(idx, res):
            if canon(r) == mism[i]['got']: out[i] = fid
    return out

# ------------------------------------------------------------------------------------------------ coverage of the code under test

def ranges(ls: list[int]) -> str:
    out = []; i = 0
    while i < len(ls):
        j = i
        while j + 1 < len(ls) and ls[j + 1] == ls[j] + 1: j += 1
        out.append(str(ls[i]) if i == j else f'{ls[i]}-{ls[j]}'); i = j + 1
    return ','.join(out)

def coverage_report(cov) -> dict:
    import ast as pyast
    out = {}
    data = cov.get_data()
    tot_s = tot_m = 0
    for f in sorted(data.measured_files()):
        try:
            _, stmts, _, missing, _ = cov.analysis2(f)
        except Exception:
            continue
        if not stmts: continue
        ana = cov._analyze(f)
        nb = ana.numbers
        miss = set(missing)
        # statements inside function bodies only: the module was imported before tracing started, so `import` / `def` /
        # table lines would all count as missing although they ran
        never, partial = [], []
        body_all: set = set()
        try:
            tree = pyast.parse(open(f).read())
            for node in pyast.walk(tree):
                if isinstance(node, (pyast.FunctionDef,)):
                    body_lines = {n.lineno for b in node.body for n in pyast.walk(b) if isinstance(n, pyast.stmt)} & set(stmts)
                    if not body_lines: continue
                    body_all |= body_lines
                    if body_lines <= miss: never.append(node.name)
                    elif body_lines & miss: partial.append(f'{node.name}:{",".join(str(l) for l in sorted(body_lines & miss)[:12])}')
        except Exception:
            pass
        short = f.split('/fpy2/')[-1]
        bm = body_all & miss
        out[short] = {'body_statements': len(body_all), 'body_missing': len(bm), 'body_cover_pct': round(100.0 * (len(body_all) - len(bm)) / max(len(body_all), 1), 1),
                      'branches': nb.n_branches, 'partial_branches': nb.n_partial_branches,
                      'never_executed_functions': never, 'partially_executed': partial[:80], 'missing_body_lines': ranges(sorted(bm))}
        tot_s += len(body_all); tot_m += len(bm)
    out['TOTAL'] = {'body_statements': tot_s, 'body_missing': tot_m, 'body_cover_pct': round(100.0 * (tot_s - tot_m) / max(tot_s, 1), 1)}
    return out

# ------------------------------------------------------------------------------------------------ main

def build_jobs(R, tier, tmp):
    """all program jobs (sources written to `tmp`), deterministic in R"""
    jobs = []
    here = os.path.dirname(os.path.abspath(__file__))
    # corpus
    cpath = os.path.join(here, 'corpus', 'c04_corpus.py')
    with contextlib.redirect_stdout(io.StringIO()):
        corp = load_one(cpath, 'corpus')
    _MODS[cpath] = corp
    ncorp = 12 if tier == 'quick' else 60
    for fn in corp.ALL:
        kinds = corp.KINDS.get(fn.name) if hasattr(corp, 'KINDS') else None
        if kinds is None: kinds = arg_kinds(fn)
        inputs = []
        fixed = list(getattr(corp, 'INPUTS', {}).get(fn.name, []))
        for args_src in fixed:
            for cs in (None, R.choice(CALL_CTXS)):
                inputs.append((list(args_src), cs))
        for _ in range(ncorp):
            inputs.append(([c04gen.input_src(R, k) for k in kinds], R.choice(CALL_CTXS)))
        jobs.append({'id': f'corpus:{fn.name}', 'kind': 'corpus', 'path': cpath, 'entry': fn.name, 'inputs': inputs})
    # first generation (its own S-expression printer: a third opinion)
    G = Gen(R)
    n1 = 50 if tier == 'quick' else 400
    for pi in range(n1):
        funcs = G.program(pi)
        path = os.path.join(tmp, f'p{pi}.py')
        with open(path, 'w') as fh:
            fh.write('import fpy2 as fp\n\n' + '\n'.join(src_func(f) for f in funcs))
        inputs = []
        for _ in range(5 if tier == 'quick' else 8):
            xs = [repr_in(R.choice(REALS)) for _ in range(R.choice([0, 1, 2, 3, 3]))]
            inputs.append(([repr_in(R.choice(REALS)), repr_in(R.choice(REALS)), '[' + ', '.join(xs) + ']'], R.choice(CALL_CTXS)))
        jobs.append({'id': f'gen1:p{pi}', 'kind': 'gen1', 'path': path, 'entry': funcs[-1]['name'], 'inputs': inputs,
                     'gen_sx': '(' + ' '.join(sx_func(f) for f in funcs) + ')'})
    stats1 = dict(G.stats)
    # second generation
    n2 = 400 if tier == 'quick' else 3000
    stats2: dict[str, int] = {}
    for pi in range(n2):
        g = c04gen.Gen4(Prng(R.getrandbits(48), 'gen4'), str(pi))
        p = g.program()
        path = os.path.join(tmp, f'q{pi}.py')
        with open(path, 'w') as fh: fh.write(p['source'])
        inputs = []
        for _ in range(6 if tier == 'quick' else 10):
            inputs.append(([c04gen.input_src(R, t) for t in p['ptys']], R.choice(CALL_CTXS)))
        jobs.append({'id': f'gen4:q{pi}', 'kind': 'gen4', 'path': path, 'entry': p['entry'], 'inputs': inputs})
        for k, v in g.stats.items(): stats2[k] = stats2.get(k, 0) + v
    with open(os.path.join(tmp, 'equiv.py'), 'w') as fh: fh.write(EQUIV_SRC)
    for n in ('q_attr_plain', 'q_same_name_a', 'q_same_name_b'):
        jobs.append({'id': f'equiv:{n}', 'kind': 'equiv', 'path': os.path.join(tmp, 'equiv.py'), 'entry': n,
                     'inputs': [([c04gen.input_src(R, 'R')], R.choice(CALL_CTXS)) for _ in range(6)]})
    only = os.environ.get('VERIF_C04_ONLY')
    if only: jobs = [j for j in jobs if j['kind'] in only.split(',')]
    return jobs, stats1, stats2

def repr_in(x) -> str:
    if isinstance(x, float):
        if x != x: return "float('nan')"
        if x in (float('inf'), float('-inf')): return "float('inf')" if x > 0 else "float('-inf')"
    return repr(x)

def execute(jobs, use_cov):
    """run every job on the real side; forked workers unless coverage is being traced"""
    if use_cov or NWORKERS <= 1:
        return [run_program(j) for j in jobs]
    import multiprocessing as mp, gc
    ctx = mp.get_context('fork')
    # the parent's heap is frozen before forking: a collection in a child would otherwise touch (and copy, page by page)
    # every object inherited from the parent — measured 8x slower workers
    gc.collect(); gc.freeze()
    try:
        with ctx.Pool(NWORKERS) as pool:
            return pool.map(run_program, jobs, chunksize=2)
    finally:
        gc.unfreeze()

def run_driver_robust(lines: list[str]) -> list[str]:
    """`run_driver`, surviving a driver that dies on one line (the compiled model panics on an astronomically large
    exponent, `Nat.pow exponent is too big`): that line is answered `model-crash` and the rest is resumed after it"""
    import subprocess
    out: list[str] = []
    i = 0
    while i < len(lines):
        p = subprocess.run([str(DRV)], input='\n'.join(lines[i:]) + '\n', capture_output=True, text=True, timeout=3000)
        got = p.stdout.split('\n')
        if got and got[-1] == '': got.pop()
        out += got
        i += len(got)
        if i < len(lines):
            out.append('model-crash ' + p.stderr.strip()[-80:])
            i += 1
    return out[:len(lines)]

def run_lean(lines: list[str]) -> list[str]:
    """the Lean evaluator on every line; several driver processes side by side"""
    if len(lines) < 1000 or NWORKERS <= 1: return run_driver_robust(lines)
    import concurrent.futures as cf
    k = min(6, NWORKERS)
    step = (len(lines) + k - 1) // k
    chunks = [lines[i:i + step] for i in range(0, len(lines), step)]
    with cf.ThreadPoolExecutor(k) as ex:
        outs = list(ex.map(run_driver_robust, chunks))
    return [o for c in outs for o in c]

def run(rep, tier, seed):
    # results with million-bit significands (computed precisions) are printed by this harness, not refused:
    # CPython's int->str digit limit would otherwise surface as a ValueError that is not the interpreter's
    if hasattr(sys, 'set_int_max_str_digits'): sys.set_int_max_str_digits(0)
    R = Prng(seed, 'C04')
    tmp = tempfile.mkdtemp(prefix='fpyverif_c04_', dir='/var/tmp')
    use_cov = os.environ.get('VERIF_COVERAGE') == '1'
    cov = None
    try:
        if use_cov:
            import coverage
            repo = os.environ.get('FPY_REPO', '/repo')
            cov = coverage.Coverage(branch=True, include=[os.path.join(repo, p) for p in COV_INCLUDE], data_file=None)
            cov.start()
        t0 = time.time()
        jobs, stats1, stats2 = build_jobs(R, tier, tmp)
        rep.cov['t_generate_s'] = round(time.time() - t0, 1)
        t0 = time.time()
        results = execute(jobs, use_cov)
        lines, meta = [], []
        mod_dispatch = run_dispatch(rep, R, tmp, tier)
        run_expected(rep, tmp)
        run_refused(rep, tmp)
        run_equiv(rep, R, tmp, tier)
        run_eval_expr(rep, R, tmp, tier, lines, meta)
        if cov is not None:
            cov.stop()
            rep.cov['interpreter_coverage'] = coverage_report(cov)
        rep.cov['t_real_s'] = round(time.time() - t0, 1)
        kinds: dict[str, int] = {}
        srcs = {}
        for job, res in zip(jobs, results):
            for k, v in res['counts'].items(): rep.count(k, v)
            for nt in res['notes']:
                if len(rep.notes) < 8: rep.notes.append(nt)
            for b in res['broke']: rep.broke(*b)
            if res.get('f2'):
                rep.violation(f"program {job['id']}: a numeric literal does not denote the number it spells: {res['f2'][:300]}",
                              {'program': open(job['path']).read() if job['kind'] != 'corpus' else f"corpus program {job['entry']}", 'entry': job['entry'], 'args': None, 'ctx': None,
                               'impl': res['f2'], 'documented_semantics': 'numerical constants are interpreted as-is (E-Val: the exact real the literal denotes)', 'finding': 'C04-F2', 'oracle': 'parser-text'})
            for k, v in res['kinds'].items(): kinds[k] = kinds.get(k, 0) + v
            rep.count('programs:' + job['kind'], 1)
            for r in res['runs']:
                if r is None: continue
                lines.append(r['line'])
                meta.append({'kind': job['kind'], 'id': job['id'], 'path': job['path'], 'entry': job['entry'], 'args': r['args'], 'ctx': r['ctx'], 'got': r['got'],
                             'front_is': res.get('front_is')})
        if os.environ.get('VERIF_C04_DUMP'):
            with open(os.environ['VERIF_C04_DUMP'], 'w') as fh: json.dump({'lines': lines, 'meta': meta}, fh)
        t0 = time.time()
        model = run_lean(lines)
        rep.cov['t_lean_s'] = round(time.time() - t0, 1)
        rep.cov['evaluations'] += len(lines)
        mism = []
        for line, m, mod_out in zip(lines, meta, model):
            rep.distinct.add(line)
            got = canon(m['got'])
            if mod_out.startswith('model-crash'):
                rep.count('skipped:model-crash'); continue
            rep.count('outcome:' + (got.split()[1] if got.startswith('err') else 'ok'))
            rep.count('callctx:' + str(m['ctx']))
            if got != mod_out:
                src = srcs.get(m['path'])
                if src is None: src = srcs[m['path']] = open(m['path']).read()
                mism.append({'src': src, 'm': m, 'got': got, 'mod_out': mod_out, 'line': line})
            if len(rep.cov['samples']) < 4 and m['kind'] == 'gen4':
                rep.sample({'source': open(m['path']).read(), 'args': m['args'], 'ctx': m['ctx'], 'impl': got, 'model': mod_out})
        fids = classify_all(mism) if mism else []
        for x, fid in zip(mism, fids):
            # the Lean evaluator is the independent reading of the documented semantics the property asks for:
            # a run on which the implementation returns something else is a failing input of the property itself
            m, got, mod_out, src = x['m'], x['got'], x['mod_out'], x['src']
            what = 'BytecodeInterpreter.eval_expr' if m['kind'] == 'eval_expr' else 'the interpreter'
            rep.violation(f'{what} returns {got[:90]} but the documented semantics (Lean evaluator) gives {mod_out[:90]}',
                          {'program': src if m['kind'] != 'corpus' else f'corpus program {m["entry"]} of {m["path"]}', 'path': m['path'] if m['kind'] == 'corpus' else None,
                           'entry': m['entry'], 'args': m['args'], 'ctx': m['ctx'], 'impl': got, 'documented_semantics': mod_out, 'line': x['line'], 'finding': fid,
                           'oracle': m['kind']})
        for k, v in stats1.items(): rep.count('gen:' + k, v)
        for k, v in stats2.items(): rep.count('gen4:' + k, v)
        rep.cov['features_never_generated'] = [f for f in c04gen.FEATURES if f not in stats2]
        rep.cov['ast_node_kinds'] = node_kind_table(kinds)
    finally:
        if cov is not None:
            try: cov.stop()
            except Exception: pass
        shutil.rmtree(tmp, ignore_errors=True)
    rep.cov['rule'] = ('FPy source text from (a) a hand-written corpus, (b) the first-generation type-directed generator, (c) the coverage-driven second generation '
                       '(every statement / expression node kind, every operator name of the interpreter tables the model decides, all literal spellings, every context '
                       'constructor with positional / keyword / computed arguments, captured free variables, nested and multi-index lists, aliasing through callees and results, '
                       'comprehensions with several generators and tuple targets incl. shadowing, slices with every bound combination, zip/enumerate/range in every arity incl. '
                       'negative steps, min/max/sum on empty and one-element lists, unguarded error paths); each program is run on the real interpreter and, translated by an '
                       'independent front end, on the Lean evaluator; the real parser\'s AST must print to the same text; inputs: floats incl. specials, ints, Fractions, Float/RealFloat '
                       'objects, nested lists, tuples, contexts, bools; call ctx in {absent, FP32, REAL, narrow float / fixed}; MPFR-valued operations are checked for dispatch against '
                       'a direct call of fpy2.ops by name; eval_expr against the model; distinct = distinct (program, input, ctx) lines; verdict = equality of value (structural, sign of zero) or error kind')
    rep.assumptions += ['the Lean evaluator was written from docs/source/dev/semantics.rst + derived-semantics.rst; it is the independent evaluator the property asks for',
                        'the source-text front end (harness/c04front.py) is the harness\'s own reading of the language reference; desugarings into modelled constructs are listed in its header',
                        'MPFR-valued operations / constants, isnormal, logb: only the dispatch (which operation, under which context) is checked, against fpy2.ops called directly',
                        'contexts returned as values are compared as opaque (c)']

# every concrete Expr / Stmt class of fpy2/ast/fpyast.py -> the template(s) that exercise it
TEMPLATES = {
    'Var': 'every program', 'BoolVal': 'gen4 boolean const; corpus literal_spellings', 'ForeignVal': 'corpus statements_misc, assert_messages, free_variables (G_TEXT); gen4 assert-msg',
    'Decnum': 'gen4 LITS; corpus literal_spellings / literal_signs', 'Hexnum': 'gen4 LITS hexfloat; corpus literal_spellings', 'Integer': 'gen4 LITS; corpus literal_signs',
    'Rational': 'gen4 LITS rational; corpus literal_spellings', 'Digits': 'gen4 LITS digits; corpus literal_spellings',
    'ConstNan': 'gen4 nullary (desugars to the NaN literal); dispatch d0_nan', 'ConstInf': 'gen4 nullary (desugars to the +inf literal); dispatch d0_inf',
    'Add': 'gen4 BINARY', 'Sub': 'gen4 BINARY', 'Mul': 'gen4 BINARY', 'Div': 'gen4 BINARY', 'Mod': 'gen4 mod (%), augassign %=', 'Pow': 'gen4 pow (** and fp.pow, literal integer exponents)',
    'Abs': 'gen4 UNARY abs/fp.fabs', 'Sqrt': 'gen4 UNARY', 'Cbrt': 'gen4 UNARY', 'Neg': 'gen4 UNARY; corpus neg_abs_narrow_range', 'Fma': 'gen4 fma', 'Copysign': 'gen4 named-binary',
    'Fdim': 'gen4 named-binary', 'Hypot': 'gen4 named-binary', 'Fmod': 'gen4 named-binary', 'Remainder': 'gen4 named-binary', 'Max': 'gen4 minmax (max / fp.fmax, 2-4 operands)',
    'Min': 'gen4 minmax (min / fp.fmin)', 'AMax': 'gen4 minmax-list; corpus minmax_list', 'AMin': 'gen4 minmax-list; corpus minmax_list', 'Sum': 'gen4 sum-list; corpus reductions',
    'Ceil': 'gen4 UNARY', 'Floor': 'gen4 UNARY', 'Trunc': 'gen4 UNARY', 'RoundInt': 'gen4 UNARY', 'NearbyInt': 'gen4 UNARY', 'Round': 'gen4 UNARY', 'RoundAt': 'gen4 round_at (via the operator table)',
    'Cast': 'gen4 cast (fp.cast / fp.round_exact); corpus casts', 'IsFinite': 'gen4 PREDS', 'IsInf': 'gen4 PREDS', 'IsNan': 'gen4 PREDS', 'Signbit': 'gen4 PREDS',
    'Not': 'gen4 boolean', 'And': 'gen4 boolean; corpus short_circuits', 'Or': 'gen4 boolean; corpus short_circuits', 'AnyOf': 'gen4 anyall; corpus reductions, bool_lists', 'AllOf': 'gen4 anyall',
    'Len': 'gen4 len', 'Size': 'gen4 size (size(xs, 0) = len(xs); C04-F1); dispatch d_dim, d_size1', 'Range1': 'gen4 range_expr', 'Range2': 'gen4 range2', 'Range3': 'gen4 range3 / neg-step',
    'Fst': 'gen4 fst-snd (M-Tuple through a one-element comprehension)', 'Snd': 'gen4 fst-snd', 'Empty': 'gen4 empty; corpus empty_and_size', 'Zip': 'gen4 zipcomp / zip3 / for zip; corpus zips',
    'Enumerate': 'gen4 enumcomp / for enum; corpus zips', 'Call': 'gen4 helper calls, context constructors, print; corpus primitives (twin)', 'Attribute': 'gen4 contexts (fp.FP32, fp.RM.RNE …)',
    'Compare': 'gen4 cmp / chain / eq-mixed; corpus structural_equality', 'TupleExpr': 'gen4 pair / tuple returns', 'ListExpr': 'gen4 lst lit', 'ListComp': 'gen4 comp / comp2 / zipcomp',
    'ListRef': 'gen4 index / index2', 'ListSlice': 'gen4 slice-forms; corpus slices', 'IfExpr': 'gen4 ite', 'Assign': 'gen4 assign / tuplepat / augassign / annassign',
    'IndexedAssign': 'gen4 iassign / multi-index-assign', 'If1Stmt': 'gen4 if1', 'IfStmt': 'gen4 if / elif', 'WhileStmt': 'gen4 while', 'ForStmt': 'gen4 for (list, range, enumerate, zip, rows, pairs)',
    'ContextStmt': 'gen4 with / withas', 'AssertStmt': 'gen4 assert / assert-msg', 'EffectStmt': 'gen4 effect / print / callmut', 'ReturnStmt': 'every program', 'PassStmt': 'gen4 pass',
}
DISPATCH_ONLY = {'Acos', 'Asin', 'Atan', 'Cos', 'Sin', 'Tan', 'Acosh', 'Asinh', 'Atanh', 'Cosh', 'Sinh', 'Tanh', 'Exp', 'Exp2', 'Expm1', 'Log', 'Log10', 'Log1p', 'Log2',
                 'Erf', 'Erfc', 'Lgamma', 'Tgamma', 'Atan2', 'Logb', 'IsNormal', 'Dim', 'ConstPi', 'ConstE', 'ConstLog2E', 'ConstLog10E', 'ConstLn2', 'ConstPi_2',
                 'ConstPi_4', 'Const1_Pi', 'Const2_Pi', 'Const2_SqrtPi', 'ConstSqrt2', 'ConstSqrt1_2'}

def node_kind_table(kinds: dict) -> dict:
    """every concrete Expr / Stmt class of fpy2/ast/fpyast.py (mechanical walk of the module) -> how this run covered it"""
    from fpy2.ast import fpyast as A
    import inspect as ins
    abstract = {'Expr', 'Stmt', 'ValueExpr', 'RealVal', 'RationalVal', 'NaryExpr', 'NullaryOp', 'UnaryOp', 'NamedUnaryOp', 'BinaryOp', 'NamedBinaryOp', 'TernaryOp',
                'NamedTernaryOp', 'NaryOp', 'NamedNaryOp'}
    out = {}
    for name, cls in sorted(vars(A).items()):
        if not (ins.isclass(cls) and issubclass(cls, (A.Expr, A.Stmt)) and name not in abstract): continue
        if name in DISPATCH_ONLY:
            out[name] = 'not modelled (MPFR-valued, or depends on the context a value remembers): dispatch template d0_/d1_/d2_<op> — interpreter under C vs fpy2.ops.<op>(…, ctx=C) by name'
        elif kinds.get(name):
            out[name] = f'modelled, covered by {TEMPLATES.get(name, "?")}: {kinds[name]} nodes in this run (real interpreter vs Lean evaluator)'
        else:
            out[name] = f'NOT EXECUTED in this run (template: {TEMPLATES.get(name, "none")})'
    return out

# ------------------------------------------------------------------------------------------------ replay

def replay(rep, data):
    """re-run the recorded failing inputs: the program text, the arguments and the evaluator line are in the replay file"""
    if hasattr(sys, 'set_int_max_str_digits'): sys.set_int_max_str_digits(0)
    from common import finish
    tmp = tempfile.mkdtemp(prefix='fpyverif_c04r_', dir='/var/tmp')
    rep.seed = data.get('seed', 0); rep.tier = data.get('tier', 'quick')
    try:
        todo = [v for v in data.get('violations', []) if v.get('line') and v.get('entry')]
        if not todo:
            # nothing replayable input by input (oracles without an evaluator line): deterministic re-run of the recorded seed / tier
            run(rep, rep.tier, rep.seed)
        for i, v in enumerate(todo):
            if v.get('path'): path = v['path']
            else:
                path = os.path.join(tmp, f'r{i}.py')
                with open(path, 'w') as fh: fh.write(v['program'])
            with contextlib.redirect_stdout(io.StringIO()):
                mod = load_one(path, f'replay{i}')
            fn = getattr(mod, v['entry'])
            args = tuple(ev(a) for a in v['args']); ctx = ev(v['ctx'])
            if v.get('oracle') == 'eval_expr':
                from fpy2.interpret import get_default_interpreter
                from fpy2.utils import NamedId
                try: got = 'ok ' + show_val(get_default_interpreter().eval_expr(fn.ast.body.stmts[-1].expr, {NamedId(f'a{j}'): a for j, a in enumerate(args)}, ctx))
                except Exception as e:
                    from numcanon import err_name
                    got = 'err ' + err_name(e)
            else:
                with contextlib.redirect_stdout(io.StringIO()):
                    got = run_real(fn, args, ctx)
            got = canon(got)
            mod_out = run_driver([v['line']])[0]
            rep.cov['evaluations'] += 1
            print(f"replay {i}: {v['entry']} args={v['args']} ctx={v['ctx']}\n   interpreter: {got[:200]}\n   documented : {mod_out[:200]}")
            if got != mod_out:
                rep.violation(f'the interpreter returns {got[:90]} but the documented semantics (Lean evaluator) gives {mod_out[:90]}', dict(v, impl=got, documented_semantics=mod_out))
    finally:
        shutil.rmtree(tmp, ignore_errors=True)
    code = finish(rep, {'obligations': 1, 'discharged': 0, 'checker_cmd': 'skipped (replay)', 'trusted_base': []})
    sys.exit(code)
