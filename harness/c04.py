"""C04 — programs evaluate by the documented context-scoped semantics.
Generated programs are printed twice (FPy source for the real front end + interpreter,
S-expression for the Lean evaluator written from the semantics documents) and run on the same inputs."""
from __future__ import annotations
import shutil, importlib.util, os, traceback
from proggen import *   # noqa
from langexport import export_program, eval_line, run_real, Unsupported, show_val
import fpy2 as fp

PROP = 'C04'

REALS = [1.5, -2.25, 0.1, 3.0, 1e-3, 100.0, -0.0, 0.0, float('inf'), float('-inf'), float('nan'), 1e300, -7.0, 0.3, 65504.0, 2.0 ** -30, 5, -3, 2.0 ** 20, 2.0 ** 100, -(2.0 ** -26)]
CALL_CTXS = [None, None, None, 'fp.FP32', 'fp.REAL', 'fp.IEEEContext(5, 16, fp.RM.RTZ)', 'fp.MPFloatContext(4, fp.RM.RNA)', 'fp.FixedContext(True, -4, 16, fp.RM.RNE, fp.OV.SATURATE)']

def top_level(sx: str) -> list[str]:
    """the top-level items of '( … )' (function definitions of a program)"""
    out, depth, cur = [], 0, ''
    for ch in sx[1:-1]:
        if ch == '(': depth += 1
        if depth > 0: cur += ch
        if ch == ')':
            depth -= 1
            if depth == 0: out.append(cur); cur = ''
    return out

def load_one(path):
    spec = importlib.util.spec_from_file_location('fpyverif_' + os.path.basename(os.path.dirname(path)) + '_' + os.path.basename(path)[:-3], path)
    mod = importlib.util.module_from_spec(spec)
    import sys
    sys.modules[spec.name] = mod
    spec.loader.exec_module(mod)
    return mod

def run(rep, tier, seed):
    # results with million-bit significands (computed precisions) are printed by this harness, not refused:
    # CPython's int->str digit limit would otherwise surface as a ValueError that is not the interpreter's
    if hasattr(sys, 'set_int_max_str_digits'): sys.set_int_max_str_digits(0)
    R = Prng(seed, 'C04')
    nprog = 120 if tier == 'quick' else 1500
    ninputs = 5 if tier == 'quick' else 8
    G = Gen(R)
    tmp = tempfile.mkdtemp(prefix='fpyverif_c04_', dir='/var/tmp')
    lines, meta = [], []
    try:
        # corpus first: hand-written programs pinning documented rules at their edges
        from xform import load_module, arg_kinds, gen_inputs
        corp = load_module(os.path.join(os.path.dirname(__file__), 'corpus', 'c04_corpus.py'), 'fpyverif_C04_corpus')
        CORPUS_REALS = [1.5, 0.1, 3.0, 2.0, 2.0 ** 11, 2.0 ** -30, 100.0, -7.0, 4.0, 1.0, 5.0, float('inf'), -0.0, 0.0, -0.0]
        for fn in corp.ALL:
            try:
                entry, prog = export_program(fn)
            except Unsupported as e:
                rep.count('corpus-export-unsupported:' + str(e)[:40]); continue
            rep.count('programs')
            kinds = arg_kinds(fn)
            for ii in range(10 if tier == 'quick' else 40):
                args = tuple([R.choice(CORPUS_REALS) for _ in range(R.choice([0, 1, 2, 3, 4]))] if k == 'L' else R.choice(CORPUS_REALS) for k in kinds)
                cs = R.choice(CALL_CTXS)
                ctx = None if cs is None else eval(cs, {'fp': fp})
                got = run_real(fn, args, ctx)
                if got.startswith(('timeout', 'unsupported')): continue
                lines.append(eval_line(entry, prog, args, ctx, fuel=100000))
                meta.append((-1, corp.__file__, args, cs, got))
        for pi in range(nprog):
            funcs = G.program(pi)
            path = os.path.join(tmp, f'p{pi}.py')
            with open(path, 'w') as fh:
                fh.write('import fpy2 as fp\n\n' + '\n'.join(src_func(f) for f in funcs))
            try:
                mod = load_one(path)
            except Exception as e:   # the front end rejected a program the generator believes well-formed
                rep.count('frontend-rejected:' + type(e).__name__)
                rep.notes.append(f'front end rejected generated program p{pi}: {type(e).__name__}: {str(e)[:200]}') if len(rep.notes) < 5 else None
                continue
            main = funcs[-1]
            fn = getattr(mod, main['name'])
            prog = '(' + ' '.join(sx_func(f) for f in funcs) + ')'
            # the same program as the real parser produced it (parser operator tables in the loop)
            try:
                _, prog_ast = export_program(fn)
            except Unsupported as e:
                prog_ast = None; rep.count('export-unsupported')
            rep.count('programs')
            if prog_ast is not None:
                if not set(top_level(prog_ast)) <= set(top_level(prog)):   # (the export holds only the functions main reaches)
                    rep.count('parser-vs-generator-ast-differs')
                    rep.broke('correspondence', 'C04.parser', f'program p{pi}: AST produced by the real parser differs from the program text the generator wrote\nreal:{prog_ast}\ngen: {prog}')
            for ii in range(ninputs):
                xs = [R.choice(REALS) for _ in range(R.choice([0, 1, 2, 3, 3]))]
                args = (R.choice(REALS), R.choice(REALS), xs)
                cs = R.choice(CALL_CTXS)
                ctx = None if cs is None else eval(cs, {'fp': fp})
                got = run_real(fn, args, ctx)
                if got.startswith(('timeout', 'unsupported')):
                    rep.count('skipped:' + got.split()[0]); continue
                lines.append(eval_line(main['name'], prog, args, ctx, fuel=100000))
                meta.append((pi, path, args, cs, got))
        model = run_driver(lines)
        rep.cov['evaluations'] = len(lines)
        for line, (pi, path, args, cs, got), mod_out in zip(lines, meta, model):
            rep.distinct.add(line)
            rep.count('outcome:' + (got.split()[1] if got.startswith('err') else 'ok'))
            rep.count('callctx:' + str(cs))
            if got != mod_out:
                # the Lean evaluator is the independent reading of the documented semantics the property asks for:
                # a run on which the implementation returns something else is a failing input of the property itself
                src = open(path).read()
                rep.violation(f'the interpreter returns {got[:90]} but the documented semantics (Lean evaluator) gives {mod_out[:90]}',
                              {'program': src if pi >= 0 else f'corpus program run by line: {line[:200]}', 'args': repr(args), 'ctx': cs,
                               'impl': got, 'documented_semantics': mod_out, 'line': line, 'finding': None})
            if len(rep.cov['samples']) < 4:
                rep.sample({'source': open(path).read(), 'args': repr(args), 'ctx': cs, 'impl': got, 'model': mod_out})
        for k, v in G.stats.items(): rep.count('gen:' + k, v)
    finally:
        shutil.rmtree(tmp, ignore_errors=True)
    rep.cov['rule'] = ('type-directed random programs (nested/sequential with, loops, branches, early returns, helper calls with/without declared context, '
                       'list aliasing + mutation through aliases and callees, comprehensions, zip/enumerate/range/slices, min/max/sum/any/all, chained comparisons) '
                       'printed as FPy source AND as S-expression; inputs from a pool incl. specials and unrepresentable values; call ctx in {absent, FP32, REAL, narrow}; '
                       'distinct = distinct (program, input, ctx) lines; the verdict is equality of the returned value (structural, sign of zero) or error kind')
    rep.assumptions += ['the Lean evaluator was written from docs/source/dev/semantics.rst + derived-semantics.rst; it is the independent evaluator the property asks for',
                        'static context constructor expressions are evaluated by the harness (langexport.static_py) when exporting the real AST']
