"""
Coverage of the code under check by the C10 harness (coverage.py, branch coverage): which functions / `case` arms / branches
of the lowering passes and of the analyses they consult the run executed.  Workers start a tracer each and save their data
in a common directory; the parent combines and summarises.  fpy2 is imported before the tracers start, so module-level
lines (imports, `def` lines, class bodies) are never seen: only code INSIDE functions is counted.
"""
from __future__ import annotations
import ast, json, os

ANCHORS = ['transform/unfold_special.py', 'transform/unfold_overflow.py', 'transform/unfold_neg_zero.py', 'transform/float_to_fixed.py',
           'transform/rescale_fixed.py', 'transform/round_elim.py', 'transform/round_insert.py',
           'analysis/format_infer/analysis.py', 'analysis/format_infer/format.py', 'analysis/value_class.py', 'analysis/partial_eval.py']

def anchor_paths():
    import fpy2
    root = os.path.dirname(os.path.abspath(fpy2.__file__))
    return [os.path.join(root, a) for a in ANCHORS]

_cov = None

def start(datadir):
    """start tracing in this (worker) process"""
    global _cov
    import coverage
    _cov = coverage.Coverage(data_file=os.path.join(datadir, 'cov'), data_suffix=True, branch=True, include=anchor_paths(), config_file=False)
    _cov.start()

def stop():
    global _cov
    if _cov is not None:
        _cov.stop(); _cov.save(); _cov = None

def _arms(path):
    """line of the first body statement of every `case` arm and of every if/elif/else arm -> description"""
    src = open(path).read()
    tree = ast.parse(src)
    lines = src.splitlines()
    out = {}
    for node in ast.walk(tree):
        if isinstance(node, ast.Match):
            for c in node.cases:
                out[c.body[0].lineno] = ('case', lines[c.pattern.lineno - 1].strip()[:90], c.pattern.lineno)
    return out

def summarize(datadir, max_list=400):
    """combine the workers' data; {percent, per_file, never_executed_functions, unexecuted_case_arms, partial_functions}"""
    import coverage
    paths = anchor_paths()
    c = coverage.Coverage(data_file=os.path.join(datadir, 'cov'), branch=True, include=paths, config_file=False)
    c.combine([datadir], strict=False)
    out_json = os.path.join(datadir, 'cov.json')
    try:
        c.json_report(outfile=out_json, ignore_errors=True)
    except Exception as e:   # no data at all
        return {'error': f'{type(e).__name__}: {e}'}
    data = json.load(open(out_json))
    tot_s = tot_c = tot_b = tot_bc = 0
    per_file, never, partial, arms = {}, [], [], []
    for f, fd in data['files'].items():
        rel = f.split('fpy2' + os.sep, 1)[-1]
        missing = set(fd['missing_lines'])
        fs = fc = fb = fbc = 0
        for name, reg in fd.get('functions', {}).items():
            if name == '': continue          # module level: executed at import, before the tracer started
            sm = reg['summary']
            n, cov_n = sm['num_statements'], sm['covered_lines']
            nb, cb = sm.get('num_branches', 0), sm.get('covered_branches', 0)
            fs += n; fc += cov_n; fb += nb; fbc += cb
            if n and cov_n == 0:
                never.append(f'{rel}:{name} ({n} statements)')
            elif n and (cov_n < n or cb < nb):
                partial.append((n - cov_n + nb - cb, f'{rel}:{name} missing {n - cov_n}/{n} statements, {nb - cb}/{nb} branches; lines {_ranges(reg["missing_lines"])}'))
        for ln, (kind, text, pl) in sorted(_arms(f).items()):
            if ln in missing:
                arms.append(f'{rel}:{pl} `{text}`')
        per_file[rel] = {'statements': fs, 'covered': fc, 'branches': fb, 'covered_branches': fbc,
                         'percent': round(100.0 * (fc + fbc) / max(fs + fb, 1), 1)}
        tot_s += fs; tot_c += fc; tot_b += fb; tot_bc += fbc
    partial.sort(reverse=True)
    return {'percent': round(100.0 * (tot_c + tot_bc) / max(tot_s + tot_b, 1), 1),
            'statements': tot_s, 'covered_statements': tot_c, 'branches': tot_b, 'covered_branches': tot_bc,
            'per_file': per_file, 'never_executed_functions': sorted(never)[:max_list],
            'unexecuted_case_arms': arms[:max_list], 'partially_executed_functions': [p for _, p in partial][:max_list],
            'note': 'code inside functions only (module-level lines run at import, before the tracers start); statements + branches'}

def _ranges(lines):
    lines = sorted(lines); out = []; i = 0
    while i < len(lines):
        j = i
        while j + 1 < len(lines) and lines[j + 1] == lines[j] + 1: j += 1
        out.append(str(lines[i]) if i == j else f'{lines[i]}-{lines[j]}'); i = j + 1
    return ','.join(out[:30])
