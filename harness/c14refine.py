"""C14 (c') — branch refinement, systematically.

Programs whose conditions run over every comparison operator x {literal, variable, expression}
operands, comparison chains, isnan/isinf tests and `and`/`or`/`not` nests up to depth 3, in every
statement shape that can carry a refinement: if/else and if/elif/else arms that read AND re-assign the
tested variables, one-armed ifs, ifs inside loops, while conditions, early returns, if-expressions.
Inputs are a grid around every literal the condition mentions (below / at / above), zeros of both signs,
large values, infinities and NaN, for each variable independently: every arm is reached in every way the
operands allow (for `a and b` false: a false only, b false only, both), which is measured with an
independent evaluator of the condition and reported as coverage.  Every read in every arm is checked
against the format inferred for that read (c14prog.check_function: gamma-membership, real interpreter).
"""
from __future__ import annotations
import itertools, math, tempfile, shutil
from fractions import Fraction
import c14prog
from c14prog import check_function, load_generated, fmt_desc

# ---------------------------------------------------------------------------
# conditions: a small AST with source text and an independent evaluator (Python floats: all
# values involved are small dyadics, +-inf or nan, so float arithmetic is exact)

OPS = {'<': lambda a, b: a < b, '<=': lambda a, b: a <= b, '>': lambda a, b: a > b,
       '>=': lambda a, b: a >= b, '==': lambda a, b: a == b, '!=': lambda a, b: a != b}

class T:
    """term: ('var', name) | ('lit', text, value) | ('expr', text, fn)"""
    def __init__(self, kind, text, fn, lit=None):
        self.kind, self.text, self.fn, self.lit = kind, text, fn, lit
    def ev(self, env): return self.fn(env)

def var(n): return T('var', n, lambda env: env[n])
def lit(text): return T('lit', text, lambda env, v=float(Fraction(text)): v, lit=Fraction(text))

def _sub(a, b):
    return a - b
EXPRS = {
    'x + 1': lambda e: e['x'] + 1, 'x * 2': lambda e: e['x'] * 2, '-x': lambda e: -e['x'], 'abs(x)': lambda e: abs(e['x']),
    'y - x': lambda e: _sub(e['y'], e['x']), 'x + y': lambda e: e['x'] + e['y'], 'abs(y)': lambda e: abs(e['y']), 'y * 2': lambda e: e['y'] * 2,
}
def expr(text): return T('expr', text, EXPRS[text])

class Cnd:
    pass

class Cmp(Cnd):
    """comparison chain t0 op0 t1 op1 t2 ..."""
    def __init__(self, terms, ops): self.terms, self.ops = terms, ops
    def src(self):
        out = self.terms[0].text
        for o, t in zip(self.ops, self.terms[1:]): out += f' {o} {t.text}'
        return out
    def ev(self, env):
        vs = [t.ev(env) for t in self.terms]
        return all(OPS[o](a, b) for o, a, b in zip(self.ops, vs, vs[1:]))
    def kids(self): return []
    def lits(self): return [t.lit for t in self.terms if t.kind == 'lit']

class Pred(Cnd):
    def __init__(self, name, v): self.name, self.v = name, v
    def src(self): return f'fp.{self.name}({self.v})'
    def ev(self, env):
        x = env[self.v]
        return math.isnan(x) if self.name == 'isnan' else math.isinf(x)
    def kids(self): return []
    def lits(self): return []

class Not(Cnd):
    def __init__(self, a): self.a = a
    def src(self): return f'not ({self.a.src()})'
    def ev(self, env): return not self.a.ev(env)
    def kids(self): return [self.a]
    def lits(self): return self.a.lits()

class Bin(Cnd):
    def __init__(self, op, args): self.op, self.args = op, args
    def src(self): return '(' + f' {self.op} '.join(a.src() for a in self.args) + ')'
    def ev(self, env):
        vs = [a.ev(env) for a in self.args]
        return all(vs) if self.op == 'and' else any(vs)
    def kids(self): return self.args
    def lits(self): return [l for a in self.args for l in a.lits()]

def walk(c):
    yield c
    for k in c.kids(): yield from walk(k)

def depth(c): return 0 if not c.kids() else 1 + max(depth(k) for k in c.kids())

LITS = ['8', '0', '-3', '2.5', '4', '-8', '100', '0.1', '-0.5', '1']

def atoms_systematic(R):
    """every comparison operator x operand shape (variable/literal, literal/variable, variable/variable,
    expression/literal, variable/expression), literals drawn so that every literal appears"""
    out = []
    k = 0
    for op in OPS:
        for shape in range(5):
            l = lit(LITS[k % len(LITS)]); k += 1
            v = var(R.choice(['x', 'y']))
            if shape == 0: out.append(Cmp([v, l], [op]))
            elif shape == 1: out.append(Cmp([l, v], [op]))
            elif shape == 2: out.append(Cmp([var('x'), var('y')], [op]))
            elif shape == 3: out.append(Cmp([expr(R.choice(list(EXPRS))), l], [op]))
            else: out.append(Cmp([var('y'), expr(R.choice(['x + 1', 'x * 2', '-x', 'abs(x)']))], [op]))
    return out

def rand_atom(R):
    r = R.random()
    if r < 0.55:      # the refinable shape: variable against a literal, either side
        v, l, op = var(R.choice(['x', 'y'])), lit(R.choice(LITS)), R.choice(list(OPS))
        return Cmp([v, l], [op]) if R.random() < 0.7 else Cmp([l, v], [op])
    if r < 0.65: return Cmp([var('x'), var('y')], [R.choice(list(OPS))])
    if r < 0.75: return Cmp([expr(R.choice(list(EXPRS))), lit(R.choice(LITS))], [R.choice(list(OPS))])
    if r < 0.87:      # chains
        lo, hi = sorted(R.sample(LITS[:8], 2), key=Fraction)
        v = var(R.choice(['x', 'y']))
        o1, o2 = R.choice(['<', '<=']), R.choice(['<', '<='])
        if R.random() < 0.3: return Cmp([var('x'), var('y'), lit(hi)], [o1, o2])
        if R.random() < 0.3: return Cmp([lit(hi), v, lit(lo)], [R.choice(['>', '>=']), R.choice(['>', '>='])])
        return Cmp([lit(lo), v, lit(hi)], [o1, o2])
    return Pred(R.choice(['isnan', 'isinf']), R.choice(['x', 'y']))

REFINABLE = [('x', '>=', '8'), ('y', '>=', '8'), ('x', '<', '8'), ('y', '<=', '4'), ('x', '>', '-3'), ('y', '>=', '-8'),
             ('x', '<=', '2.5'), ('y', '<', '100'), ('x', '>', '0'), ('y', '<', '0'), ('x', '<', '1'), ('y', '>', '-0.5')]

def refinable_atom(R):
    """a comparison of a variable with a dyadic literal in a direction the analysis can state, itself or negated"""
    v, op, l = R.choice(REFINABLE)
    if R.random() < 0.3:
        flip = {'<': '>', '<=': '>=', '>': '<', '>=': '<='}
        return Cmp([lit(l), var(v)], [flip[op]])
    return Cmp([var(v), lit(l)], [op])

# connective skeletons, depth <= 3; letters are atoms
SKELETONS = [
    'a and b', 'a or b', 'not a', 'not (a and b)', 'not (a or b)', 'a and b and c', 'a or b or c',
    'a and (b or c)', 'a or (b and c)', '(not a) and b', '(not a) or b', 'not (a and (b or c))', 'not (a or (b and c))',
    '(a and b) or (c and d)', '(a or b) and (c or d)', 'not ((not a) or b) and c', 'a and not (b and not c)',
    'not (not (a and b))', '(a or not b) and (not a or c)',
]

def build(skel, R, atom=None):
    import ast as pyast
    atom = atom or rand_atom
    env = {}
    def conv(n):
        if isinstance(n, pyast.Name):
            if n.id not in env: env[n.id] = atom(R)
            return env[n.id]
        if isinstance(n, pyast.UnaryOp): return Not(conv(n.operand))
        if isinstance(n, pyast.BoolOp): return Bin('and' if isinstance(n.op, pyast.And) else 'or', [conv(v) for v in n.values])
        raise ValueError(n)
    return conv(pyast.parse(skel, mode='eval').body)

# ---------------------------------------------------------------------------
# statement shapes; {COND}, {COND2} conditions, {C1} a rounding context for some arm operations

SHAPES = [
    ('if-else-read-reassign', '''    with fp.REAL:
        if {COND}:
            a = x
            b = y
            x = x + 1
            c = x
        else:
            a = y
            b = x
            y = y - 1
            c = y
        d = x + y
    return d
'''),
    ('if-else-arm-rounds', '''    with fp.REAL:
        if {COND}:
            with {C1}:
                a = x * y
            y = x
        else:
            with {C1}:
                a = x + y
            x = y
        d = a + x + y
    return d
'''),
    ('if1-then-read-after', '''    with fp.REAL:
        t = 0
        if {COND}:
            t = x * y
            x = t
        u = x + t
        v = y
    return u
'''),
    ('elif-chain', '''    with fp.REAL:
        if {COND}:
            a = x
            b = y
        elif {COND2}:
            a = y
            b = x
            x = -x
        else:
            a = x + y
            b = x
        d = a + b + x
    return d
'''),
    ('nested-if', '''    with fp.REAL:
        a = 0
        if {COND}:
            if {COND2}:
                a = x
            else:
                a = y
            b = x
        else:
            if {COND2}:
                a = y
                b = y
            else:
                b = x
        d = a + b
    return d
'''),
    ('if-in-for', '''    with fp.REAL:
        a = 0
        b = 0
        c = 0
        for i in range(3):
            if {COND}:
                a = x
                x = x + y
            else:
                a = y
                y = y + 1
            b = x
            c = y
        d = a + b + c
    return d
'''),
    ('while-cond', '''    with fp.REAL:
        n = 0
        a = 0
        while n < 4 and {COND}:
            a = x
            b = y
            x = x - 1
            y = y + x
            n = n + 1
        d = x + y + a
    return d
'''),
    ('while-not-cond-then-if', '''    with fp.REAL:
        n = 0
        while n < 3 and not ({COND}):
            x = x + x
            n = n + 1
        if {COND}:
            a = x
        else:
            a = y
        d = a + x
    return d
'''),
    ('early-return', '''    with fp.REAL:
        if {COND}:
            return x
        a = x
        b = y
        if {COND2}:
            return a + b
        c = x + y
    return c
'''),
    ('early-return-else', '''    with fp.REAL:
        if {COND}:
            a = y
        else:
            return x + y
        b = x
        d = a + b
    return d
'''),
    ('ifexpr', '''    with fp.REAL:
        t = (x if {COND} else y)
        u = (x + 1 if {COND2} else y - 1)
        d = t + u
    return d
'''),
    ('if-then-ctx-round', '''    if {COND}:
        with {C1}:
            a = fp.round(x)
    else:
        with {C1}:
            a = fp.round(y)
    with fp.REAL:
        d = a + x
    return d
'''),
]

ARG_CTXS = ['H', 'H', 'H', 'F', 'F', 'MB', 'I', 'S8']
ARM_CTXS = ['E6', 'H', 'MB', 'MS', 'S8', 'FX', 'MBF']
BASE_VALUES = ['z+', 'z-', '100', '-100', '1000', '-1000', 'pinf', 'ninf', 'nan', '1/2', '-1/4']

def grid(C, ctx, lits, R, cap):
    """values of the argument format: first every literal of the condition itself and its nearest neighbours
    below and above, then both zeros, large values, infinities and NaN, then further points around the literals"""
    fmt = ctx.format()
    d = fmt_desc(fmt)
    def ok(v):
        try:
            if not fmt.representable_in(C.v_float(v)): return False
        except Exception: return False   # noqa
        return not (isinstance(d, tuple) and not C.spec_member(d, v))
    def val(q): return ('z', False) if q == 0 else q
    tier1, tier3 = [], []
    for l in lits:
        if l.denominator & (l.denominator - 1):      # non-dyadic literal: its dyadic neighbours at 2^-4
            f = Fraction(math.floor(l * 16), 16)
            tier1 += [val(f), val(f + Fraction(1, 16))]
            continue
        tier1.append(val(l))
        for step in (Fraction(1, 4), Fraction(1)):      # nearest representable neighbours on each side
            lo, hi = val(l - step), val(l + step)
            if ok(lo) and ok(hi):
                tier1 += [lo, hi]; break
        tier3 += [val(l + dl) for dl in (Fraction(-1), Fraction(-1, 2), Fraction(1, 2), Fraction(1), Fraction(2), Fraction(-2))]
    tier2 = [('z', False), ('z', True), 'pinf', 'ninf', 'nan', Fraction(1000), Fraction(-1000), Fraction(100), Fraction(-100),
             Fraction(1, 2), Fraction(-1, 4)]
    out = []
    for v in tier1 + tier2 + tier3:
        if v not in out and ok(v): out.append(v)
    return out[:cap]

def pyval(v):
    if v == 'nan': return math.nan
    if v == 'pinf': return math.inf
    if v == 'ninf': return -math.inf
    if isinstance(v, tuple): return -0.0 if v[1] else 0.0
    return float(v)

def stage_refinement(rep, R, tier, C):
    tmp = tempfile.mkdtemp(prefix='c14ref_', dir='/var/tmp')
    try:
        _stage(rep, R, tier, C, tmp)
    finally:
        shutil.rmtree(tmp, ignore_errors=True)

def _stage(rep, R, tier, C, tmp):
    quick = tier == 'quick'
    plan = []      # (cond, cond2, shape index)
    # 1. every systematic atom, plain and negated, in the read-and-reassign if/else
    for a in atoms_systematic(R):
        plan.append((a, rand_atom(R), 0))
        plan.append((Not(a), rand_atom(R), R.randrange(len(SHAPES))))
    # 2. every skeleton in the if/else shape and in two other shapes
    for sk in SKELETONS:
        plan.append((build(sk, R), rand_atom(R), 0))
        for _ in range(2 if quick else 6):
            plan.append((build(sk, R), build(R.choice(SKELETONS), R) if R.random() < 0.4 else rand_atom(R), R.randrange(len(SHAPES))))
    # 2b. every skeleton over REFINABLE atoms only (each operand states something in one truth value and nothing in the
    #     other), in the arms-read-and-reassign if/else, the elif chain and the nested if
    for k, sk in enumerate(SKELETONS):
        for j in range(2 if quick else 5):
            plan.append((build(sk, R, refinable_atom), build(R.choice(SKELETONS[:5]), R, refinable_atom), (0, 3, 4, 5, 6, 8)[(k + j) % 6]))
    # 3. every shape with simple refinable conditions and with chains / predicates
    for si in range(len(SHAPES)):
        for _ in range(2 if quick else 8):
            plan.append((rand_atom(R), rand_atom(R), si))
        plan.append((build(R.choice(SKELETONS), R), rand_atom(R), si))
    src = [c14prog.HEADER]
    progs = []
    for i, (c1, c2, si) in enumerate(plan):
        kind, body = SHAPES[si]
        arm = R.choice(ARM_CTXS)
        acs = [R.choice(ARG_CTXS), R.choice(ARG_CTXS)]
        name = f'r{i}'
        src.append(f'\n@fp.fpy\ndef {name}(x: fp.Real, y: fp.Real):\n' + body.format(COND=c1.src(), COND2=c2.src(), C1=arm))
        progs.append((name, kind, c1, c2, arm, acs))
    mod = load_generated(rep, tmp, 'c14refgen', ''.join(src))
    if mod is None: return
    ctxs = {k: getattr(mod, k) for k in c14prog.CTX_SRC}
    nprog = nrun = nchk = 0
    cases_reached = 0; cases_possible = 0; arms_unreached = 0; one_sided = []
    for (name, kind, c1, c2, arm, acs) in progs:
        f = getattr(mod, name)
        lits = list(dict.fromkeys(c1.lits() + c2.lits()))
        cap = 16 if quick else 22
        gx, gy = grid(C, ctxs[acs[0]], lits, R, cap), grid(C, ctxs[acs[1]], lits, R, cap)
        combos = list(itertools.product(gx, gy))
        # coverage of the condition's cases, by the independent evaluator, on the INITIAL values
        seen = {}
        for (vx, vy) in combos:
            env = {'x': pyval(vx), 'y': pyval(vy)}
            for cnd in (c1, c2):
                for node in walk(cnd):
                    if isinstance(node, Bin):
                        seen.setdefault(id(node), set()).add(tuple(bool(a.ev(env)) for a in node.args))
                    elif isinstance(node, (Cmp, Pred)):
                        seen.setdefault(id(node), set()).add(bool(node.ev(env)))
        for cnd in (c1, c2):
            for node in walk(cnd):
                got = seen.get(id(node), set())
                if isinstance(node, Bin):
                    cases_reached += len(got); cases_possible += 2 ** len(node.args)
                    rep.count(f'refine:{node.op}:operand-truth-vectors-reached:{len(got)}/{2 ** len(node.args)}')
                elif isinstance(node, (Cmp, Pred)):
                    cases_reached += len(got); cases_possible += 2
                    if len(got) < 2:
                        arms_unreached += 1
                        if len(one_sided) < 12: one_sided.append(node.src() + ' @ args ' + '/'.join(acs))
        rep.count('refine:shape:' + kind)
        rep.count('refine:depth:' + str(max(depth(c1), depth(c2))))
        a, b, c = check_function(rep, C, name, 'refine:' + kind, f, ctxs['R'], tuple(ctxs[k].format() for k in acs), ctxs['R'], combos,
                                 {'args': [c14prog.CTX_SRC[k] for k in acs], 'arm_ctx': c14prog.CTX_SRC[arm], 'cond': c1.src(), 'cond2': c2.src()})
        nprog += a; nrun += b; nchk += c
    rep.cov['evaluations'] += nchk
    rep.cov['refine_programs'] = nprog
    rep.cov['refine_runs'] = nrun
    rep.cov['refine_value_checks'] = nchk
    rep.cov['refine_condition_cases_reached'] = f'{cases_reached}/{cases_possible}'
    rep.cov['refine_atoms_with_a_truth_value_never_taken'] = arms_unreached
    rep.cov['refine_atoms_one_sided_examples'] = one_sided      # infeasible in the argument format (isnan of an integer, x == 0.1, ...)
    rep.cov['refine_rule'] = (
        'conditions: 6 comparison operators x 5 operand shapes (var/lit, lit/var, var/var, expr/lit, var/expr) plain and negated, comparison chains, '
        'isnan/isinf, 19 and/or/not skeletons of depth <= 3 over random atoms; statement shapes: if/else reading and re-assigning the tested variables, '
        'arms rounding under a context, one-armed if, elif chain, nested ifs, if inside a for loop, while condition, while then if, early returns, '
        'if-expressions, if around context rounding; inputs: for x and y independently every value of the argument format at -1, -1/2, -1/4, 0, +1/4, '
        '+1/2, +1 around each literal of the condition, both zeros, +-100, +-1000, +-inf, NaN (all pairs); condition cases reached = operand truth '
        'vectors of every connective and truth values of every atom, by an independent evaluator')
