"""
Spec oracle for the number layer, written from the published description of each
format with exact rational arithmetic.  It does NOT call the model or the code's
rounding: it enumerates the two neighbours of the operand in the representable
set and applies the mode.  Used to decide whether a behaviour of the real code
violates the property (independently of the Lean model).
"""
from __future__ import annotations
from fractions import Fraction
from numcanon import *  # noqa

def floor_log2(q: Fraction) -> int:
    """floor(log2 q) for q > 0, exactly"""
    assert q > 0
    e = q.numerator.bit_length() - q.denominator.bit_length()
    # 2^e <= q ?
    if (Fraction(2) ** e) > q: e -= 1
    elif (Fraction(2) ** (e + 1)) <= q: e += 1
    assert Fraction(2) ** e <= q < Fraction(2) ** (e + 1)
    return e

# --- first-principles EFloat layout decoder (sign | exponent | mantissa) ------
def efloat_layout_decode(es, nbits, inf, kind, eoff, bits):
    """value of a bit pattern: Fraction | ('inf', s) | ('nan',) — from the published layout"""
    p = nbits - es
    m = p - 1
    s = (bits >> (nbits - 1)) & 1
    ebits = (bits >> m) & ((1 << es) - 1)
    mbits = bits & ((1 << m) - 1)
    mag = bits & ((1 << (nbits - 1)) - 1)
    allones = (1 << (nbits - 1)) - 1
    bias = 0 if es == 0 else (1 << (es - 1)) - 1
    # special codes
    if kind == 'ieee':
        if ebits == (1 << es) - 1:
            if inf and mbits == 0: return ('inf', s)
            return ('nan',)
    elif kind == 'maxval':
        if mag == allones: return ('nan',)
        if inf and mag == allones - 1: return ('inf', s)
    else:
        if inf and mag == allones: return ('inf', s)
        if kind == 'negzero' and mag == 0 and s == 1: return ('nan',)
    if ebits == 0:
        v = Fraction(mbits) * Fraction(2) ** (1 - bias + eoff - m)
    else:
        v = (Fraction(1) + Fraction(mbits, 1 << m)) * Fraction(2) ** (ebits - bias + eoff) if m > 0 else Fraction(2) ** (ebits - bias + eoff)
    return -v if s else v

def efloat_finite_set(es, nbits, inf, kind, eoff):
    vals = set()
    for b in range(1 << nbits):
        v = efloat_layout_decode(es, nbits, inf, kind, eoff, b)
        if isinstance(v, Fraction): vals.add(v)
    return vals

class Fmt:
    """representable set description: precision p (or None), least position nmin (or None),
    bounds pos/neg (Fractions or None), and which specials exist"""
    def __init__(self, p=None, nmin=None, pos=None, neg=None, negzero=True, has_inf=True, has_nan=True):
        self.p, self.nmin, self.pos, self.neg = p, nmin, pos, neg
        self.negzero, self.has_inf, self.has_nan = negzero, has_inf, has_nan
        self.exp_min = None
    def ulp_exp(self, ax: Fraction, n=None) -> int:
        """exponent u such that the neighbours of |x| are floor(|x|/2^u)*2^u and +2^u"""
        u = None
        if self.p is not None:
            u = floor_log2(ax) - self.p + 1
        if self.nmin is not None:
            u = self.nmin + 1 if u is None else max(u, self.nmin + 1)
        if n is not None:
            u = n + 1 if u is None else max(u, n + 1)
        return u
    def member(self, q: Fraction) -> bool:
        if q == 0: return True
        ax = abs(q)
        if self.p is not None or self.nmin is not None:
            u = self.ulp_exp(ax)
            if (ax / Fraction(2) ** u).denominator != 1: return False
        if q > 0 and self.pos is not None and q > self.pos: return False
        if q < 0 and self.neg is not None and q < self.neg: return False
        return True

def rfq(x):  # (s,exp,c) -> Fraction
    q = Fraction(x[2]) * Fraction(2) ** x[1]
    return -q if x[0] else q

def fmt_of(d) -> Fmt:
    f = d['fam']
    if f == 'real': return Fmt()
    if f == 'mp': return Fmt(p=d['p'], has_inf=d['ei'], has_nan=d['en'])
    if f == 'mps': return Fmt(p=d['p'], nmin=d['emin'] - d['p'], has_inf=d['ei'], has_nan=d['en'])
    if f == 'mpb': return Fmt(p=d['p'], nmin=d['emin'] - d['p'], pos=rfq(d['pos']), neg=rfq(d['neg']), has_inf=d['ei'], has_nan=d['en'])
    if f in ('ef', 'ieee'):
        es, nbits = d['es'], d['nbits']
        inf, kind, eoff = (True, 'ieee', 0) if f == 'ieee' else (d['inf'], d['kind'], d['eoff'])
        p = nbits - es
        bias = 0 if es == 0 else (1 << (es - 1)) - 1
        emin = 1 - bias + eoff
        # largest finite value: scan magnitudes downward from the all-ones code (the layout is monotone in the magnitude field)
        mx = Fraction(0)
        mag = (1 << (nbits - 1)) - 1
        if kind == 'ieee':   # the whole top exponent code is special in the IEEE layout
            mag = (((1 << es) - 2) << (p - 1)) | ((1 << (p - 1)) - 1)
        while mag >= 0:
            v = efloat_layout_decode(es, nbits, inf, kind, eoff, mag)
            if isinstance(v, Fraction):
                mx = v; break
            mag -= 1
        return Fmt(p=p, nmin=emin - p, pos=mx, neg=-mx, negzero=(kind != 'negzero'), has_inf=inf, has_nan=(kind != 'none'))
    if f == 'mpfix': return Fmt(nmin=d['nmin'], negzero=d['nz'], has_inf=d['ei'], has_nan=d['en'])
    if f == 'mpbfix': return Fmt(nmin=d['nmin'], pos=rfq(d['pos']), neg=rfq(d['neg']), negzero=d['nz'], has_inf=d['ei'], has_nan=d['en'])
    if f == 'fixed':
        sc, nb = d['scale'], d['nbits']
        if d['signed']:
            return Fmt(nmin=sc - 1, pos=Fraction((1 << (nb - 1)) - 1) * Fraction(2) ** sc, neg=-Fraction(1 << (nb - 1)) * Fraction(2) ** sc,
                       negzero=False, has_inf=False, has_nan=False)
        return Fmt(nmin=sc - 1, pos=Fraction((1 << nb) - 1) * Fraction(2) ** sc, neg=Fraction(0), negzero=False, has_inf=False, has_nan=False)
    if f == 'smfixed':
        sc, nb = d['scale'], d['nbits']
        mx = Fraction((1 << (nb - 1)) - 1) * Fraction(2) ** sc
        return Fmt(nmin=sc - 1, pos=mx, neg=-mx, negzero=True, has_inf=False, has_nan=False)
    if f == 'exp':
        nb = d['nbits']; emax = ((1 << (nb - 1)) - 1) + d['eoff']; emin = 1 - ((1 << (nb - 1)) - 1) + d['eoff'] - 1
        fm = Fmt(p=1, pos=Fraction(2) ** emax, neg=None, negzero=False, has_inf=False, has_nan=True)
        fm.exp_min = Fraction(2) ** emin
        return fm
    raise ValueError(f)

def prescribed(rm: str, neg: bool, lo: int, exact_frac: Fraction) -> int:
    """|x| = (lo + exact_frac) * 2^u with 0 < exact_frac < 1: returns lo or lo+1 (magnitude in ulps)
    according to the mode as named (tie parity = parity of the candidate in ulps)."""
    half = Fraction(1, 2)
    if rm in ('rne', 'rna'):
        if exact_frac < half: return lo
        if exact_frac > half: return lo + 1
        if rm == 'rna': return lo + 1
        return lo if lo % 2 == 0 else lo + 1
    if rm == 'rtz': return lo
    if rm == 'raz': return lo + 1
    if rm == 'rtp': return lo if neg else lo + 1
    if rm == 'rtn': return lo + 1 if neg else lo
    if rm == 'rte': return lo if lo % 2 == 0 else lo + 1
    if rm == 'rto': return lo if lo % 2 == 1 else lo + 1
    raise ValueError(rm)

def spec_round_unbounded(fmt: Fmt, rm: str, x: Fraction, n=None):
    """round non-zero x in the format ignoring the bounds: (result Fraction, inexact)"""
    ax = abs(x); neg = x < 0
    u = fmt.ulp_exp(ax, n)
    if u is None: return x, False
    t = ax / Fraction(2) ** u
    lo = t.numerator // t.denominator
    fr = t - lo
    if fr == 0: return x, False
    k = prescribed(rm, neg, lo, fr)
    r = Fraction(k) * Fraction(2) ** u
    return (-r if neg else r), True

AWAY = {  # does an overflow go to infinity (True) or to the largest finite value (False)?
    # nearest modes and away-type directions overflow to infinity; toward-zero-type stay at maxval
    ('rne', False): True, ('rne', True): True, ('rna', False): True, ('rna', True): True,
    ('rtp', False): True, ('rtp', True): False, ('rtn', False): False, ('rtn', True): True,
    ('rtz', False): False, ('rtz', True): False, ('raz', False): True, ('raz', True): True,
    ('rto', False): True, ('rto', True): True, ('rte', False): True, ('rte', True): True,
}

def spec_round(d, x, sign: bool, n=None):
    """Spec verdict for rounding operand value x (Fraction | 'inf' | '-inf' | 'nan') with sign bit `sign`.
    Returns a dict describing the allowed outcome:
      {'kind': 'value', 'q': Fraction, 'zero_sign': bool|None, 'inexact': b, 'overflow': b}
      {'kind': 'inf', 's': bool, 'inexact': True, 'overflow': True/False}
      {'kind': 'nan'} | {'kind': 'subst'} (option-determined substitute or error; not judged further)
      {'kind': 'error', 'name': ...}
    """
    fmt = fmt_of(d)
    if d['fam'] == 'real':
        # a non-dyadic rational has no Float representation: the real context may only refuse it
        if isinstance(x, Fraction) and x.denominator & (x.denominator - 1): return {'kind': 'error', 'name': 'ValueError'}
        if x == 'nan': return {'kind': 'nan'}
        if x in ('inf', '-inf'): return {'kind': 'inf', 's': x == '-inf', 'inexact': False, 'overflow': False}
        return {'kind': 'value', 'q': x, 'zero_sign': sign if x == 0 else None, 'inexact': False, 'overflow': False}
    if d['fam'] == 'exp':
        # powers of two in [2^emin, 2^emax] plus NaN; zero, negatives and out-of-range values become what the
        # context's options say (NaN / smallest / largest): judged only on membership and on the flags
        if x == 'nan': return {'kind': 'nan'}
        if x in ('inf', '-inf'): return {'kind': 'subst'}
        if x <= 0: return {'kind': 'nan'}
        r, inexact = spec_round_unbounded(fmt, d['rm'], x, n)
        if r == 0: return {'kind': 'nan'}      # (round_at above the operand) zero is not a power of two: NaN, as for a zero operand
        if fmt.exp_min <= r <= fmt.pos:
            return {'kind': 'value', 'q': r, 'zero_sign': None, 'inexact': inexact, 'overflow': False}
        if d['ov'] == 'assert': return {'kind': 'error', 'name': 'ValueError'}
        return {'kind': 'exp-range', 'lo': fmt.exp_min, 'hi': fmt.pos, 'below': r < fmt.exp_min}
    if x == 'nan':
        return {'kind': 'nan'} if fmt.has_nan else {'kind': 'subst'}
    if x in ('inf', '-inf'):
        return {'kind': 'inf', 's': x == '-inf', 'inexact': False, 'overflow': False} if fmt.has_inf else {'kind': 'subst'}
    if x == 0:
        return {'kind': 'value', 'q': Fraction(0), 'zero_sign': (sign and fmt.negzero), 'inexact': False, 'overflow': False}
    r, inexact = spec_round_unbounded(fmt, d['rm'], x, n)
    neg = x < 0
    over = (r > fmt.pos) if (not neg and fmt.pos is not None) else ((r < fmt.neg) if (neg and fmt.neg is not None) else False)
    if not over:
        zs = None
        if r == 0: zs = neg and fmt.negzero
        return {'kind': 'value', 'q': r, 'zero_sign': zs, 'inexact': inexact, 'overflow': False}
    ov = d['ov']
    mx = fmt.neg if neg else fmt.pos
    if ov == 'assert': return {'kind': 'error', 'name': 'OverflowError'}
    if ov == 'saturate':
        return {'kind': 'value', 'q': mx, 'zero_sign': None, 'inexact': True, 'overflow': True}
    if ov == 'overflow':
        if AWAY[(d['rm'], neg)]:
            if fmt.has_inf: return {'kind': 'inf', 's': neg, 'inexact': True, 'overflow': True}
            return {'kind': 'subst', 'overflow': True}
        return {'kind': 'value', 'q': mx, 'zero_sign': None, 'inexact': True, 'overflow': True}
    if ov == 'wrap':
        # modulus over the ordinals (fixed-point families): values are k * 2^u, k in [lo, hi]
        u = fmt.nmin + 1
        lo = fmt.neg / Fraction(2) ** u; hi = fmt.pos / Fraction(2) ** u
        k = r / Fraction(2) ** u
        assert lo.denominator == 1 and hi.denominator == 1 and k.denominator == 1
        tot = int(hi) - int(lo) + 1
        w = (int(k) - int(lo)) % tot + int(lo)
        return {'kind': 'value', 'q': Fraction(w) * Fraction(2) ** u, 'zero_sign': None, 'inexact': True, 'overflow': True}
    raise ValueError(ov)

def judge(spec: dict, got) -> str | None:
    """compare the implementation's parsed result with the Spec; returns a description of the violation or None"""
    k = spec['kind']
    if k == 'subst':
        # substitute value or error is option-determined; only the overflow flag is judged
        if got[0] == 'ok' and spec.get('overflow') and not got[3]: return 'overflow flag not set on an overflowing operand'
        return None
    if k == 'exp-range':
        if got[0] == 'err': return f'unexpected error {got[1]} for an out-of-range operand'
        val, _ = canon_value(got[1])
        end = spec['lo'] if spec['below'] else spec['hi']
        if val != 'nan' and val != end: return f'out-of-range operand became {got[1]}, neither NaN nor the range end {end}'
        if not got[3]: return 'overflow flag not set although the range was exceeded'
        if not got[2]: return 'inexact flag not set although the value changed'
        return None
    if k == 'error':
        if got[0] == 'err' and got[1] == spec['name']: return None
        return f'expected {spec["name"]}, got {got}'
    if got[0] == 'err':
        return f'unexpected error {got[1]} (Spec: {spec})'
    val, sgn = canon_value(got[1])
    if k == 'nan':
        return None if val == 'nan' else f'expected NaN, got {got[1]}'
    if k == 'inf':
        want = '-inf' if spec['s'] else 'inf'
        if val != want: return f'expected {want}, got {got[1]}'
    else:
        if val != spec['q']: return f'expected value {spec["q"]}, got {got[1]}'
        if spec['q'] == 0 and spec['zero_sign'] is not None and sgn != spec['zero_sign']:
            return f'expected zero with sign {spec["zero_sign"]}, got {got[1]}'
    if got[2] != spec['inexact']: return f'inexact flag is {got[2]}, Spec says {spec["inexact"]} (value {got[1]})'
    if got[3] != spec['overflow']: return f'overflow flag is {got[3]}, Spec says {spec["overflow"]} (value {got[1]})'
    return None
