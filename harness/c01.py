"""C01 — rounding under any context is correct rounding: correspondence + Spec oracle."""
from __future__ import annotations
from numgen import *   # noqa
from numspec import spec_round, judge

PROP = 'C01'
EXTRA_PROPS = ['C01v']   # value-level theorems (Fpy/Props/C01v.lean), audited together with C01

def classify_finding(d, op, got, why):
    """map a Spec violation to a listed known finding id, if it has exactly that shape"""
    return None

def one_case(d, ctx, o, n=None):
    """run the real code"""
    try:
        y = ctx.round(operand_obj(o)) if n is None else ctx.round_at(operand_obj(o), n)
        return show_res(y)
    except Exception as e:   # noqa
        return 'err ' + err_name(e)

def cases_for(R, d, per_ctx, with_round_at=True):
    cases = []
    vals = breakpoints(R, d, count=per_ctx)
    R.shuffle(vals)
    for x in vals[: per_ctx * 6]:
        encs = encodings(R, x, x < 0)
        for o in (encs if R.random() < 0.15 else [R.choice(encs)]):
            cases.append((o, None))
            if with_round_at and d['fam'] != 'real' and R.random() < 0.25:
                cases.append((o, R.randint(-6, 4)))
    for o in SPECIALS:
        if R.random() < 0.5: cases.append((o, None))
    return cases

def run(rep, tier, seed):
    R = Prng(seed, 'C01')
    nctx = 160 if tier == 'quick' else 1500
    per_ctx = 6 if tier == 'quick' else 10
    ctxs = []
    # corpus first: formats that broke something in the past / degenerate shapes
    corpus = [
        dict(fam='fixed', signed=False, scale=0, nbits=8, rm='rne', ov='saturate', k=0, nv=None, iv=None),
        dict(fam='fixed', signed=True, scale=-2, nbits=4, rm='rtz', ov='wrap', k=0, nv=None, iv=None),
        dict(fam='ef', es=2, nbits=3, inf=True, kind='maxval', eoff=0, rm='rne', ov='overflow', k=0, nv=None, iv=None),
        dict(fam='ef', es=0, nbits=2, inf=False, kind='none', eoff=0, rm='rna', ov='saturate', k=0, nv=None, iv=None),
        dict(fam='ieee', es=5, nbits=16, rm='rne', ov='overflow', k=0),
        dict(fam='ieee', es=8, nbits=32, rm='rtp', ov='overflow', k=0),
        dict(fam='ieee', es=11, nbits=64, rm='rne', ov='overflow', k=0),
        dict(fam='mp', p=1, rm='rne', k=0, en=True, ei=True, nv=None, iv=None),
        dict(fam='real'),
    ]
    ctxs.extend(corpus)
    for _ in range(nctx):
        ctxs.append(add_substitutes(R, rand_ctx(R)))
    if tier == 'thorough':
        for d in all_efloat_formats(6, eoffs=(0, -2, 3)):
            for rm in RMS:
                ctxs.append(dict(d, rm=rm, ov=R.choice(['overflow', 'saturate']), k=0, nv=None, iv=None))
    lines, meta = [], []
    for d in ctxs:
        try:
            ctx = ctx_obj(d)
        except Exception as e:   # invalid parameter combination: the real constructor refuses it
            rep.count('ctx-rejected')
            continue
        rep.count('fam:' + d['fam'])
        ct = ctx_tok(d)
        for (o, n) in cases_for(R, d, per_ctx):
            got = one_case(d, ctx, o, n)
            if n is None: lines.append(f'round {ct} {operand_tok(o)} 0 0')
            else: lines.append(f'round_at {ct} {operand_tok(o)} {n} 0 0')
            meta.append((d, o, n, got))
            # two-step: re-round the Float an earlier rounding returned (it carries that rounding's context and
            # flags) under a sibling context of the same format — the flags must describe THIS rounding
            if n is None and R.random() < 0.12 and d['fam'] not in ('real',):
                try:
                    y = ctx.round(operand_obj(o))
                except Exception:
                    continue
                d2 = dict(d)
                if R.random() < 0.5: d2['rm'] = R.choice(RMS)
                try:
                    ctx2 = ctx_obj(d2)
                    got2 = show_res(ctx2.round(y))
                except Exception as e:
                    got2 = 'err ' + err_name(e)
                o2 = ('F', fv_of_obj(y))
                lines.append(f'round {ctx_tok(d2)} {operand_tok(o2)} 0 0')
                meta.append((d2, o2, None, got2))
                rep.count('two-step (operand = result of an earlier rounding)')
    model = run_driver(lines)
    rep.cov['evaluations'] = len(lines)
    drift = 0
    for line, (d, o, n, got), mod in zip(lines, meta, model):
        rep.distinct.add(verdict_part(line) if False else line)
        rep.count('operand:' + o[0]); rep.count('rm:' + d.get('rm', '-'))
        gp = parse_res(got)
        rep.count('outcome:' + (gp[1] if gp[0] == 'err' else gp[1].split()[0] + ('+ovf' if gp[3] else '') + ('+inexact' if gp[2] else '')))
        # 1. Spec oracle (property verdict), for deterministic rounding on the listed families
        x = operand_value(o)
        sp = spec_round(d, x, operand_sign(o), n) if not (d['fam'] == 'real' and n is not None) else None
        if sp is not None:
            why = judge(sp, gp)
            if why:
                rep.violation(why, {'ctx': d, 'operand': repr(o), 'round_at_n': n, 'impl': got, 'spec': repr(sp), 'line': line,
                                    'finding': classify_finding(d, o, gp, why)})
        # 2. correspondence with the Lean model
        if verdict_part(mod) != verdict_part(got):
            rep.broke('correspondence', 'C01.round', f'line={line} impl={got} model={mod}')
        elif mod != got:
            drift += 1
        rep.sample({'line': line, 'impl': got, 'model': mod})
    rep.cov['informational_drift_raw_encoding_or_tiny_flags'] = drift
    rep.cov['rule'] = ('contexts: seeded random small parameters over all families + fixed corpus (+ every EFloat format with nbits<=6 x 8 modes in thorough); '
                       'operands: breakpoints of each format (grid points, 1/4, 1/2, 3/4 points, half +- tiny, non-dyadic near ties, subnormal seam, maxval neighbourhood, beyond range) '
                       'in all operand types and redundant encodings, plus specials; distinct = distinct (context, operand, position) lines')
    rep.assumptions += ['Spec oracle (harness/numspec.py) states the property in exact rational arithmetic',
                        'sign of option-determined substitutes and NaN sign are compared model-vs-code only']
