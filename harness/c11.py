"""C11 — compiled C++ agrees bit for bit with the interpreter (PARTIAL for proof).

What is PROVED (Lean, `Fpy/Props/C11.lean`): the decision logic of the backend -- the storage
ladder of `storage.choose_storage_scalar` (`storage_sound`: every value of the inferred format is
a value of the chosen machine type, hence `narrow_id`), the ladder order, and the op-table
contract (`dispatch_contract`) under the explicit hypothesis that the hardware operation is the
IEEE correctly rounded one.  The model of the ladder is tied to the real
`choose_storage_scalar` here, part (a).

What is TESTED, not proved, part (b): the emitter + the C++ toolchain.  Generated programs that the
real `CppCompiler` accepts are compiled under EVERY combination of its options
(`optimize` x `unbox` in {NEVER, ALLOW, STRICT} x `arrays`), wrapped in a driver `main`, built with
`g++ -O2 -std=c++17`, run on a table of argument vectors and compared with the interpreter
(`f(*args, ctx=…)`) in a canonical exact form: IEEE bits of every float/double (sign of zero kept,
NaN == NaN), integers, booleans, list lengths + elements, tuple fields; also the `fegetround()` mode
after the call (a kernel must restore what it found) and the caller's own list arguments after the
call (must not depend on the option set).
"""
from __future__ import annotations
import hashlib, importlib.util, itertools, math, os, re, shutil, signal, struct, subprocess, sys, tempfile, time, traceback
from concurrent.futures import ThreadPoolExecutor
from fractions import Fraction
from common import *   # noqa
import fpy2 as fp
from fpy2.backend.cpp.compiler import CppCompiler, CppCompileError
from fpy2.backend.cpp.unbox import UnboxMode
from fpy2.backend.cpp.types import CppList, CppScalar, CppTuple
from fpy2.module import Module
from fpy2.types import BoolType, ListType, RealType, TupleType

PROP = 'C11'
LEVEL = 'proof'

CXX = shutil.which('g++') or shutil.which('c++')
CXXFLAGS = ['-O2', '-std=c++17', '-w']
CACHE = os.environ.get('C11_CACHE', '/var/tmp/fpyverif_c11_cache')

# violation kind -> id in known_findings.json (filled in when a finding is registered; None = unlisted)
# 'does-not-compile' (C11-F1: abs() under an unsigned context) is repaired in /repo: unlisted, a recurrence is a violation.
# 'fenv-optimised' (C11-F2: the -O0 build of a kernel that calls fesetround agrees with the interpreter and the -O2 build of the
# same text does not) is a recorded finding; a kernel whose -O0 build disagrees is never classified this way.
FINDING_OF_KIND: dict = {'zero-sign': 'C11-F3', 'sign-only': 'C11-F3', 'neg-zero-integer-storage': 'F29', 'fenv-optimised': 'C11-F2',
                         'list-arg-elt-mismatch': 'C11-F4', 'undeclared-rebound-name': 'C11-F5', 'signed-overflow-ub': 'C11-F6', 'minmax-literal-zero': 'C11-F7', 'float-op-double-literal': 'C11-F8'}
MINMAX_LIT_ZERO = re.compile(r'\b(?:min|max)\((?:[^()]|\([^()]*\))*?(?<![\w.])-?0(?:\.0)?(?![\w.])')
F32_DOUBLE_TOKEN = re.compile(r'(?<!static_cast<float>\()(?:\((?:[A-Za-z_]\w*|\([^()]*\)) [-+*/] \d+\.\d+(?:e[-+]?\d+)?\)|\(\d+\.\d+(?:e[-+]?\d+)? [-+*/] (?:[A-Za-z_]\w*|\([^()]*\))\))')
PER_SHAPE = int(os.environ.get('C11_PER_SHAPE', '2'))   # replay records kept per (kind, template); all are counted

OPTION_COMBOS = [(o, u, a) for o in (True, False) for u in (UnboxMode.NEVER, UnboxMode.ALLOW, UnboxMode.STRICT) for a in (True, False)]

def b01(b): return "1" if b else "0"

def combo_name(c):
    return f'optimize={c[0]},unbox={c[1].name},arrays={c[2]}'

# ---------------------------------------------------------------------------
# C++ side of the driver: build a value of any emitted storage type from a stream of 64-bit
# words, print any value canonically.

PRELUDE = r'''
#include <cstdio>
#include <cstring>
#include <cstdlib>
#include <type_traits>
#include <utility>
namespace vh {
template <class T, class = void> struct Mk;
template <> struct Mk<bool> { static bool get(const uint64_t*& p) { return *p++ != 0; } };
template <> struct Mk<double> { static double get(const uint64_t*& p) { double d; uint64_t b = *p++; std::memcpy(&d, &b, 8); return d; } };
template <> struct Mk<float> { static float get(const uint64_t*& p) { float f; uint32_t b = (uint32_t)*p++; std::memcpy(&f, &b, 4); return f; } };
template <class T> struct Mk<T, typename std::enable_if<std::is_integral<T>::value && !std::is_same<T, bool>::value>::type> {
  static T get(const uint64_t*& p) { return (T)(int64_t)*p++; } };
template <class T> struct Mk<std::vector<T>> { static std::vector<T> get(const uint64_t*& p) {
  size_t n = (size_t)*p++; std::vector<T> v; v.reserve(n); for (size_t i = 0; i < n; ++i) v.push_back(Mk<T>::get(p)); return v; } };
template <class T, size_t N> struct Mk<std::array<T, N>> { static std::array<T, N> get(const uint64_t*& p) {
  size_t n = (size_t)*p++; if (n != N) { std::printf("!badlen\n"); std::exit(3); }
  std::array<T, N> v{}; for (size_t i = 0; i < N; ++i) v[i] = Mk<T>::get(p); return v; } };
template <class T> struct Mk<std::shared_ptr<T>> { static std::shared_ptr<T> get(const uint64_t*& p) { return std::make_shared<T>(Mk<T>::get(p)); } };
template <class... Ts> struct Mk<std::tuple<Ts...>> { static std::tuple<Ts...> get(const uint64_t*& p) {
  return std::tuple<Ts...>{Mk<Ts>::get(p)...}; } };   // braced init: left-to-right evaluation

inline void pr(bool b) { std::printf(" b%d", b ? 1 : 0); }
inline void pr(double d) { uint64_t b; std::memcpy(&b, &d, 8); std::printf(" d%016llx", (unsigned long long)b); }
inline void pr(float f) { uint32_t b; std::memcpy(&b, &f, 4); std::printf(" f%08lx", (unsigned long)b); }
template <class T> typename std::enable_if<std::is_integral<T>::value && std::is_signed<T>::value>::type pr(T v) { std::printf(" i%lld", (long long)v); }
template <class T> typename std::enable_if<std::is_integral<T>::value && !std::is_signed<T>::value && !std::is_same<T, bool>::value>::type pr(T v) { std::printf(" u%llu", (unsigned long long)v); }
template <class T> void pr(const std::vector<T>& v);
template <class T, size_t N> void pr(const std::array<T, N>& v);
template <class T> void pr(const std::shared_ptr<T>& p);
template <class... Ts> void pr(const std::tuple<Ts...>& t);
template <class T> void pr(const std::vector<T>& v) { std::printf(" [%zu", v.size()); for (size_t i = 0; i < v.size(); ++i) { T e = v[i]; pr(e); } std::printf(" ]"); }
template <class T, size_t N> void pr(const std::array<T, N>& v) { std::printf(" [%zu", N); for (size_t i = 0; i < N; ++i) pr(v[i]); std::printf(" ]"); }
template <class T> void pr(const std::shared_ptr<T>& p) { if (!p) std::printf(" null"); else pr(*p); }
template <class Tup, size_t... I> void pr_tuple(const Tup& t, std::index_sequence<I...>) { int d[] = {0, (pr(std::get<I>(t)), 0)...}; (void)d; }
template <class... Ts> void pr(const std::tuple<Ts...>& t) { std::printf(" ("); pr_tuple(t, std::index_sequence_for<Ts...>{}); std::printf(" )"); }
inline const char* rmname(int m) { return m == FE_TONEAREST ? "RNE" : m == FE_TOWARDZERO ? "RTZ" : m == FE_UPWARD ? "RTP" : m == FE_DOWNWARD ? "RTN" : "??"; }
}
'''

FE = {'RNE': 'FE_TONEAREST', 'RTZ': 'FE_TOWARDZERO', 'RTP': 'FE_UPWARD', 'RTN': 'FE_DOWNWARD'}

# ---------------------------------------------------------------------------
# argument types.  descriptor: 'f64' | 'f32' | 'int' | 's8'.. | 'u8'.. | 'bool' | 'cnt' (a small
# non-negative integer-valued double: loop bounds) | ('L', elt, length|None) | ('T', [elts])

INT_CTX = {'int': 'INTEGER', 's8': 'SINT8', 's16': 'SINT16', 's32': 'SINT32', 's64': 'SINT64',
           'u8': 'UINT8', 'u16': 'UINT16', 'u32': 'UINT32', 'u64': 'UINT64'}
INT_RANGE = {'s8': (-2 ** 7, 2 ** 7 - 1), 's16': (-2 ** 15, 2 ** 15 - 1), 's32': (-2 ** 31, 2 ** 31 - 1), 's64': (-2 ** 63, 2 ** 63 - 1),
             'u8': (0, 2 ** 8 - 1), 'u16': (0, 2 ** 16 - 1), 'u32': (0, 2 ** 32 - 1), 'u64': (0, 2 ** 64 - 1), 'int': (-2 ** 15, 2 ** 15)}

def fpy_type(d):
    if d in ('f64', 'cnt'): return RealType(fp.FP64)
    if d == 'f32': return RealType(fp.FP32)
    if d in INT_CTX: return RealType(getattr(fp, INT_CTX[d]))
    if d == 'bool': return BoolType()
    if d[0] == 'L': return ListType(fpy_type(d[1]), d[2])
    if d[0] == 'T': return TupleType(*[fpy_type(x) for x in d[1]])
    raise ValueError(d)

def ann(d):
    if d == 'bool': return 'bool'
    if isinstance(d, str): return 'fp.Real'
    if d[0] == 'L': return f'list[{ann(d[1])}]'
    return 'tuple[' + ', '.join(ann(x) for x in d[1]) + ']'

def f32r(x: float) -> float:
    return struct.unpack('<f', struct.pack('<f', x))[0]

INF, NAN = float('inf'), float('nan')
def bits64(b): return struct.unpack('<d', struct.pack('<Q', b))[0]
def bits32(b): return struct.unpack('<f', struct.pack('<I', b))[0]

F64_POOL = [0.0, -0.0, 1.0, -1.0, 2.0, 3.0, -7.0, 0.5, -0.25, 2.5, -3.5, 0.1, 1 / 3, -2 / 3, 1e-3, 100.0, 1e16,
            1.0 + 2.0 ** -30, 1.0 + 2.0 ** -52, 16777217.0, 4294967297.0, 2.0 ** 53 + 2, 1e22, 1e300, -1e300, 1.7976931348623157e308,
            2.0 ** 1023, 2.2250738585072014e-308, 2.225073858507201e-308, 5e-324, -5e-324, 1e-310, 3e-320, 2.0 ** -1022 * 1.5,
            INF, -INF, NAN, 65504.0, 0.3, 6.0, 1.5, 1e-160, -1e-170, 3.4028234663852886e38, 3.4028235677973366e38, 1e-45, 7.006492321624085e-46]
F32_POOL = [0.0, -0.0, 1.0, -1.0, 2.0, 3.0, -7.0, 0.5, -0.25, 2.5, f32r(0.1), f32r(1 / 3), f32r(-2 / 3), 100.0, 16777216.0, 16777215.0,
            1.0 + 2.0 ** -23, bits32(0x7f7fffff), bits32(0x00800000), bits32(0x007fffff), bits32(0x00000001), -bits32(0x00000001), bits32(0x00000003),
            f32r(1e30), f32r(-1e30), f32r(1e-30), f32r(1e-40), INF, -INF, NAN, 65504.0, f32r(0.3), 6.0, 1.5, f32r(1e20), f32r(3e-39)]
SMALL_INTS = [0, 1, 2, 3, -1, -2, 5, 7, -13, 10, 100, 255, 256, -128, 127, 1000, 32767, -32768]

def gen_value(R, d, L=None):
    """a Python value of argument type d (the same object is handed to the interpreter and encoded for C++)"""
    if d == 'f64':
        r = R.random()
        if r < 0.75: return R.choice(F64_POOL)
        if r < 0.9: return float(R.randint(-20, 20)) / R.choice([1, 2, 4, 8])
        while True:
            x = bits64(R.getrandbits(64))
            if x == x: return x
    if d == 'f32':
        r = R.random()
        if r < 0.75: return R.choice(F32_POOL)
        if r < 0.9: return float(R.randint(-20, 20)) / R.choice([1, 2, 4, 8])
        while True:
            x = bits32(R.getrandbits(32))
            if x == x: return x
    if d == 'cnt': return float(R.choice([0, 1, 2, 3, 3, 4, 5]))
    if d == 'bool': return R.random() < 0.5
    if d in INT_CTX:
        lo, hi = INT_RANGE[d]
        r = R.random()
        if d == 'int':
            return R.choice([v for v in SMALL_INTS if lo <= v <= hi]) if r < 0.7 else R.randint(lo, hi)
        if r < 0.45: return R.choice([v for v in SMALL_INTS if lo <= v <= hi])
        if r < 0.75: return R.choice([lo, hi, lo + 1, hi - 1, hi // 2, hi // 2 + 1, lo // 2])
        return R.randint(lo, hi)
    if d[0] == 'L':
        n = d[2] if d[2] is not None else (L if L is not None else R.choice([0, 1, 2, 3, 4]))
        return [gen_value(R, d[1], L) for _ in range(n)]
    if d[0] == 'T': return tuple(gen_value(R, x, L) for x in d[1])
    raise ValueError(d)

# ---------------------------------------------------------------------------
# canonical values.  number: ('nan',) | ('inf', s) | ('z', s) | ('q', Fraction);  bool: ('b', v);
# list: ('L', [..]);  tuple: ('T', [..])

def canon_num(v):
    if isinstance(v, bool): return ('b', v)
    if isinstance(v, fp.Float):
        if v.isnan: return ('nan',)
        if v.isinf: return ('inf', bool(v.s))
        if v.c == 0: return ('z', bool(v.s))
        q = Fraction(v.c) * Fraction(2) ** v.exp
        return ('q', -q if v.s else q)
    if isinstance(v, float):
        if v != v: return ('nan',)
        if math.isinf(v): return ('inf', v < 0)
        if v == 0: return ('z', math.copysign(1.0, v) < 0)
        return ('q', Fraction(v))
    if isinstance(v, int): return ('z', False) if v == 0 else ('q', Fraction(v))
    if isinstance(v, Fraction): return ('z', False) if v == 0 else ('q', v)
    if hasattr(v, 'c') and hasattr(v, 'exp') and hasattr(v, 's'):   # RealFloat
        if v.c == 0: return ('z', bool(v.s))
        q = Fraction(v.c) * Fraction(2) ** v.exp
        return ('q', -q if v.s else q)
    raise ValueError(f'cannot canonicalise {v!r}')

def canon(v):
    if isinstance(v, list): return ('L', [canon(x) for x in v])
    if isinstance(v, tuple): return ('T', [canon(x) for x in v])
    return canon_num(v)

def show_canon(c) -> str:
    """canonical text: the IEEE double bits when the value is a double, else the exact rational"""
    k = c[0]
    if k == 'b': return 'true' if c[1] else 'false'
    if k == 'nan': return 'nan'
    if k == 'inf': return '-inf' if c[1] else '+inf'
    if k == 'z': return '-0' if c[1] else '+0'
    if k == 'q':
        q = c[1]
        try:
            x = float(q)
            if Fraction(x) == q: return f'{struct.unpack("<Q", struct.pack("<d", x))[0]:016x}({x!r})'
        except OverflowError: pass
        return f'{q.numerator}/{q.denominator}'
    if k == 'L': return '[' + ', '.join(show_canon(x) for x in c[1]) + ']'
    if k == 'T': return '(' + ', '.join(show_canon(x) for x in c[1]) + ')'
    return repr(c)

def parse_tokens(toks, pos=0):
    """tokens printed by vh::pr -> canonical value"""
    t = toks[pos]
    if t[0] == 'b': return ('b', t[1] == '1'), pos + 1
    if t[0] == 'd': return canon_num(bits64(int(t[1:], 16))), pos + 1
    if t[0] == 'f': return canon_num(bits32(int(t[1:], 16))), pos + 1
    if t[0] in 'iu': return canon_num(int(t[1:])), pos + 1
    if t[0] == '[':
        n = int(t[1:]); pos += 1; out = []
        while toks[pos] != ']':
            v, pos = parse_tokens(toks, pos); out.append(v)
        if len(out) != n: raise ValueError('list length token mismatch')
        return ('L', out), pos + 1
    if t == '(':
        pos += 1; out = []
        while toks[pos] != ')':
            v, pos = parse_tokens(toks, pos); out.append(v)
        return ('T', out), pos + 1
    raise ValueError(f'bad token {t!r}')

def leaf_kinds(toks, pos=0):
    """the storage kind ('d', 'f', 'i', 'u', 'b') of every leaf printed by vh::pr, in the shape of the value"""
    t = toks[pos]
    if t[0] in 'bdfiu' and t not in ('(', ')'): return t[0], pos + 1
    if t[0] == '[' or t == '(':
        close = ']' if t[0] == '[' else ')'
        pos += 1; out = []
        while toks[pos] != close:
            v, pos = leaf_kinds(toks, pos); out.append(v)
        return out, pos + 1
    raise ValueError(f'bad token {t!r}')

def diff_leaves(want, got, kinds, out):
    """collect (interpreter leaf, compiled leaf, storage kind) where the two canonical values differ"""
    if want[0] in ('L', 'T') and got[0] == want[0] and len(want[1]) == len(got[1]) and isinstance(kinds, list) and len(kinds) == len(want[1]):
        for w, g, k in zip(want[1], got[1], kinds): diff_leaves(w, g, k, out)
    elif want != got:
        out.append((want, got, kinds))

def classify_value_diff(want, got, kinds) -> str:
    """'neg-zero-integer-storage': the interpreter has -0 where an integer storage holds 0;
    'zero-sign': the two sides differ only in the sign of a floating zero; 'value' otherwise"""
    out = []
    diff_leaves(want, got, kinds, out)
    if out and all(w == ('z', True) and g == ('z', False) and k in ('i', 'u') for w, g, k in out): return 'neg-zero-integer-storage'
    if out and all(w[0] == 'z' and g[0] == 'z' for w, g, k in out): return 'zero-sign'
    def neg(c): return ('z', not c[1]) if c[0] == 'z' else ('inf', not c[1]) if c[0] == 'inf' else ('q', -c[1]) if c[0] == 'q' else None
    if out and all(neg(w) == g for w, g, k in out): return 'sign-only'
    return 'value'

def encode_arg(v, cty) -> list[int] | None:
    """words for vh::Mk<cty>; None when the value has no representation at that storage"""
    M = (1 << 64) - 1
    if isinstance(cty, CppList):
        if not isinstance(v, list): return None
        if cty.size is not None and len(v) != cty.size: return None
        out = [len(v)]
        for x in v:
            e = encode_arg(x, cty.elt)
            if e is None: return None
            out += e
        return out
    if isinstance(cty, CppTuple):
        if not isinstance(v, tuple) or len(v) != len(cty.elts): return None
        out = []
        for x, t in zip(v, cty.elts):
            e = encode_arg(x, t)
            if e is None: return None
            out += e
        return out
    if cty is CppScalar.BOOL: return [1 if v else 0] if isinstance(v, bool) else None
    if isinstance(v, bool): return None
    if cty is CppScalar.F64: return [struct.unpack('<Q', struct.pack('<d', float(v)))[0]]
    if cty is CppScalar.F32:
        x = float(v)
        if x == x and not math.isinf(x):
            try:
                if f32r(x) != x: return None
            except OverflowError: return None
        return [struct.unpack('<I', struct.pack('<f', x))[0]]
    # integer storage
    if isinstance(v, float):
        if v != v or math.isinf(v) or v != int(v) or (v == 0 and math.copysign(1.0, v) < 0): return None
        v = int(v)
    bits = {'U8': 8, 'U16': 16, 'U32': 32, 'U64': 64, 'S8': 8, 'S16': 16, 'S32': 32, 'S64': 64}[cty.name]
    lo, hi = (0, 2 ** bits - 1) if cty.name[0] == 'U' else (-2 ** (bits - 1), 2 ** (bits - 1) - 1)
    if not lo <= v <= hi: return None
    return [v & M]

# ---------------------------------------------------------------------------
# programs.  A program = dict(src=..., entry=name, args=[descriptors], ctx='fp.FP64' (source text
# of the call/compile context), tag=...)

TEMPLATES: list[dict] = []
def T(tag, entry, args, src, ctx='fp.FP64', rm='RNE', pinned=()):
    TEMPLATES.append(dict(tag=tag, entry=entry, args=args, src=src, ctx=ctx, rm=rm, pinned=[list(v) for v in pinned]))

HDR = '''import fpy2 as fp
RTZ64 = fp.IEEEContext(11, 64, fp.RM.RTZ)
RTP64 = fp.IEEEContext(11, 64, fp.RM.RTP)
RTN64 = fp.IEEEContext(11, 64, fp.RM.RTN)
RTZ32 = fp.IEEEContext(8, 32, fp.RM.RTZ)
RTP32 = fp.IEEEContext(8, 32, fp.RM.RTP)
RTN32 = fp.IEEEContext(8, 32, fp.RM.RTN)
'''
CTX_SRC = {('d', 'RNE'): 'fp.FP64', ('d', 'RTZ'): 'RTZ64', ('d', 'RTP'): 'RTP64', ('d', 'RTN'): 'RTN64',
           ('f', 'RNE'): 'fp.FP32', ('f', 'RTZ'): 'RTZ32', ('f', 'RTP'): 'RTP32', ('f', 'RTN'): 'RTN32'}

for _a in (['f64', 'f64'], ['f32', 'f32']):
    T('arith', 't_arith', _a, '''
@fp.fpy
def t_arith(x: fp.Real, y: fp.Real):
    with fp.FP64:
        a = x + y
        b = x - y
        c = x * y
        d = x / y
        e = fp.sqrt(abs(x))
        g = fp.fma(x, y, a)
        h = -x
        m = min(x, y)
        n = max(x, y)
    return (a, b, c, d, e, g, h, m, n)
''')
T('arith32', 't_arith32', ['f32', 'f32'], '''
@fp.fpy
def t_arith32(x: fp.Real, y: fp.Real):
    with fp.FP32:
        a = x + y
        b = x - y
        c = x * y
        d = x / y
        e = fp.sqrt(abs(x))
        g = fp.fma(x, y, a)
        h = -x
        m = min(x, y)
        n = max(x, y)
    return (a, b, c, d, e, g, h, m, n)
''')
T('round32', 't_round32', ['f64', 'f64'], '''
@fp.fpy
def t_round32(x: fp.Real, y: fp.Real):
    with fp.FP32:
        a = fp.round(x)
        b = fp.round(y)
        c = a * b + a
        d = fp.fma(a, b, a)
        e = fp.sqrt(abs(b))
    with fp.FP64:
        f = c + x
        g = fp.fma(a, b, y)
    return (a, b, c, d, e, f, g)
''')
for _k, _c in (('d', 'f64'), ('f', 'f32')):
    T('modes-' + _k, 't_modes', [_c, _c], f'''
@fp.fpy
def t_modes(x: fp.Real, y: fp.Real):
    with {CTX_SRC[(_k, 'RTZ')]}:
        a = x / y
        a2 = x * y + x
    with {CTX_SRC[(_k, 'RTP')]}:
        b = x / y
        b2 = fp.sqrt(abs(y))
    with {CTX_SRC[(_k, 'RTN')]}:
        c = x / y
        c2 = fp.fma(x, y, x)
    with {CTX_SRC[(_k, 'RNE')]}:
        d = x / y
        d2 = x - y
    return (a, a2, b, b2, c, c2, d, d2)
''')
T('modes-nested', 't_nest', ['f64', 'f64'], '''
@fp.fpy
def t_nest(x: fp.Real, y: fp.Real):
    with RTZ64:
        a = x / y
        with RTP64:
            b = x / y
            with fp.FP64:
                c = x / y
            d = x + y
        e = x * y
    f = x / y
    return (a, b, c, d, e, f)
''')
T('modes-return-inside', 't_retin', ['f64', 'f64'], '''
@fp.fpy
def t_retin(x: fp.Real, y: fp.Real):
    with RTP64:
        if x < y:
            with RTN64:
                return x / y
        z = x / y
    return z * 3.0
''')
T('modes-loop', 't_mloop', ['f64', 'cnt'], '''
@fp.fpy
def t_mloop(x: fp.Real, n: fp.Real):
    with fp.FP64:
        i = 0.0
        acc = x
        while i < n:
            with RTN64:
                acc = acc / 3.0
            with RTP64:
                acc = acc * 3.0
                if acc > 100.0:
                    acc = acc - 100.0
            i = i + 1.0
        return (acc, i)
''')
T('return-in-loop', 't_retloop', ['f64', 'cnt'], '''
@fp.fpy
def t_retloop(x: fp.Real, n: fp.Real):
    with fp.FP64:
        i = 0.0
        acc = x
        while i < n:
            acc = acc * 3.0
            if acc > 100.0:
                return (acc, i)
            i = i + 1.0
        return (acc, i)
''')
for _rm in ('RTZ', 'RTP', 'RTN'):
    T('entry-mode-' + _rm, 't_entry', ['f64', 'f64'], '''
@fp.fpy
def t_entry(x: fp.Real, y: fp.Real):
    a = x / y
    b = x * y + a
    with fp.FP64:
        c = x / y
    d = fp.sqrt(abs(y))
    return (a, b, c, d)
''', ctx=f'fp.IEEEContext(11, 64, fp.RM.{_rm})', rm=_rm)
for _k, _c in (('d', 'f64'), ('f', 'f32')):
    T('zero-sum-' + _k, 't_zsum', [_c, _c], f'''
@fp.fpy
def t_zsum(x: fp.Real, y: fp.Real):
    with {CTX_SRC[(_k, 'RTN')]}:
        a = x - x
        b = x + y
        c = fp.fma(x, y, x)
        d = x * y
    with {CTX_SRC[(_k, 'RTP')]}:
        e = x - x
        f = x + y
    with {CTX_SRC[(_k, 'RTZ')]}:
        g = x - x
        h = y - y
    return (a, b, c, d, e, f, g, h)
''', pinned=[(1.0, -1.0), (0.0, -0.0), (2.5, 3.0)])   # C11-F3: x - x, (+0) + (-0), fma with an exact zero result, under RTN
T('modes-repeat', 't_mrep', ['f64', 'f64'], '''
@fp.fpy
def t_mrep(x: fp.Real, y: fp.Real):
    with RTZ64:
        a = x / y
    with RTZ64:
        b = x * y + x
    with RTP64:
        c = x / y
        with RTP64:
            d = x * y + x
        e = x - y * x
    with fp.FP64:
        f = x / y
    with RTP64:
        g = x / y + x
    return (a, b, c, d, e, f, g)
''', pinned=[(1.0, 3.0), (0.1, 0.7), (1e300, 3.0)])
T('round32-modes', 't_r32m', ['f64', 'f64'], '''
@fp.fpy
def t_r32m(x: fp.Real, y: fp.Real):
    with RTZ32:
        a = fp.round(x)
        a2 = fp.round(x) * fp.round(y)
    with RTP32:
        b = fp.round(x)
        b2 = fp.round(y) + a
    with RTN32:
        c = fp.round(x)
        c2 = fp.sqrt(abs(fp.round(y)))
    with fp.FP32:
        d = fp.round(x)
    with fp.FP64:
        e = a + b + c + d
    return (a, a2, b, b2, c, c2, d, e)
''', pinned=[(0.1, 0.3), (-0.1, 1e-50), (1e39, -1e39), (16777217.0, 3.0)])
T('call-two-specs', 't_two', ['f32', 'f64', ('L', 'f64', None)], '''
@fp.fpy
def h_sq(v: fp.Real, w: fp.Real) -> fp.Real:
    with fp.FP64:
        return v * w + v

@fp.fpy
def h_len(zs: list[fp.Real], v: fp.Real) -> fp.Real:
    with fp.FP64:
        acc = v
        for z in zs:
            acc = acc * 0.5 + z
        return acc + fp.round(len(zs))

@fp.fpy
def t_two(a: fp.Real, b: fp.Real, xs: list[fp.Real]):
    with fp.FP64:
        p = h_sq(a, a)
        q = h_sq(b, b)
        r = h_sq(a, b)
        u = h_len([b, b, b], b)
        v = h_len([b, p], q)
        w = h_len(xs, b)
    with fp.FP32:
        s = h_sq(a, a)
    return (p, q, r, s, u, v, w)
''', pinned=[(0.1, 0.1, [1.0, 2.0]), (1.5, 1e300, [])])
T('call-returns-alias', 't_cra', ['f64', 'f64'], '''
@fp.fpy
def h_same(zs: list[fp.Real], v: fp.Real) -> list[fp.Real]:
    with fp.FP64:
        zs[0] = zs[0] + v
        return zs

@fp.fpy
def h_pair(v: fp.Real, w: fp.Real) -> tuple[list[fp.Real], fp.Real]:
    with fp.FP64:
        ys = [v, w, v * w]
        return (ys, v + w)

@fp.fpy
def t_cra(x: fp.Real, y: fp.Real):
    with fp.FP64:
        xs = [x, y]
        ys = h_same(xs, y)
        ys[1] = 7.0
        zs, t = h_pair(x, y)
        zs[0] = t
        ws = h_same(zs, t)
    return (xs, ys, zs, ws, t)
''', pinned=[(1.0, 2.0)])
T('static-array-callee-write', 't_saw', ['f64', 'f64'], '''
@fp.fpy
def h_w3(zs: list[fp.Real], v: fp.Real) -> fp.Real:
    with fp.FP64:
        zs[2] = zs[0] * v
        zs[0] = zs[1] - v
        return zs[2] + zs[0]

@fp.fpy
def t_saw(x: fp.Real, y: fp.Real):
    with fp.FP64:
        xs = [x, y, x + y]
        a = h_w3(xs, y)
        ys = [y, y, y]
        b = h_w3(ys, a)
        c = h_w3(xs, b)
        zs = xs if x < y else ys
        zs[1] = c
    return (a, b, c, xs, ys, zs)
''', pinned=[(1.0, 2.0), (2.0, 1.0)])
T('loop-modes-list', 't_lml', [('L', 'f64', None), 'f64'], '''
@fp.fpy
def t_lml(xs: list[fp.Real], k: fp.Real):
    with fp.FP64:
        ys = [x for x in xs]
        for i in range(len(xs)):
            with RTN64:
                xs[i] = xs[i] / k
            with RTP64:
                ys[i] = ys[i] / k
        acc = 0.0
        for i in range(len(xs)):
            acc = acc + (ys[i] - xs[i])
    return (xs, ys, acc)
''', pinned=[([1.0, 2.0, 0.1], 3.0)])
T('round-int-ctx', 't_rictx', ['f64', 's32'], '''
@fp.fpy
def t_rictx(x: fp.Real, k: fp.Real):
    with fp.SINT64:
        a = k * k
        b = a - k
    with fp.FP32:
        c = fp.round(a)
        d = fp.round(k) * 0.5
    with fp.FP64:
        e = c + x
        f = fp.round(b) * 0.25
    return (a, b, c, d, e, f)
''', pinned=[(0.1, 2147483647), (1.0, -2147483648), (1.0, 16777217)])
T('share-two-owners', 't_s2o', ['f64', 'f64'], '''
@fp.fpy
def t_s2o(x: fp.Real, y: fp.Real):
    with fp.FP64:
        row = [x, y]
        xss = [row, [y, x]]
        row[0] = x + y
        a = xss[0][0]
        p = [y, x]
        t = (p, x)
        p[1] = a
        q, r = t
        b = q[1] + r
        us = [x, x]
        vs = us
        us = [y, y]
        vs[0] = 5.0
        c = us[0] + vs[0]
    return (xss, row, a, b, c, us, vs, p)
''', pinned=[(1.0, 2.0)])
T('share-two-owners-b', 't_s2b', ['f64', 'f64'], '''
@fp.fpy
def t_s2b(x: fp.Real, y: fp.Real):
    with fp.FP64:
        row = [x, y]
        xss = [row, [y, x]]
        row[0] = x + y
        a = xss[0][0]
    return (a, row[0])
''', pinned=[(1.0, 2.0)])
T('share-tuple-field', 't_stf', ['f64', 'f64'], '''
@fp.fpy
def t_stf(x: fp.Real, y: fp.Real):
    with fp.FP64:
        p = [y, x]
        t = (p, x)
        p[1] = x * y
        q, r = t
        b = q[1] + r
    return (b, p[1])
''', pinned=[(3.0, 2.0)])
T('share-rebind-alias', 't_sra', ['f64', 'f64'], '''
@fp.fpy
def t_sra(x: fp.Real, y: fp.Real):
    with fp.FP64:
        us = [x, x]
        vs = us
        if x < y:
            us = [y, y]
        vs[0] = 5.0
        c = us[0] + vs[0]
    return (c, us[0], vs[1])
''', pinned=[(1.0, 2.0), (2.0, 1.0)])
T('rebind-both-branches', 't_rbb', ['f64', 'f64'], '''
@fp.fpy
def t_rbb(a0: fp.Real, a1: fp.Real):
    with fp.FP64:
        if a1 > a0:
            a0 = a1 * 2.0
        else:
            a0 = -a1
        t = a0 + a1
        if t > 1.0:
            t = t * 0.5
        elif t < -1.0:
            t = -t
        else:
            t = t + 1.0
        xs = [a0, a1]
        if a0 < a1:
            xs = [t, t, t]
        else:
            xs = [a1]
    return (a0, t, xs)
''', pinned=[(1.0, 2.0), (2.0, 1.0)])   # C11-F5: a name bound before and rebound in both branches
T('int-wrap-overflow', 't_iwo', ['s64', 's64'], '''
@fp.fpy
def t_iwo(x: fp.Real, y: fp.Real):
    with fp.SINT64:
        v0 = -y
        v1 = x - x
        c = v1 < v0
        d = x + 1 > x
        m = x * y
        e = m / 2 < y
    return (v0, v1, c, d, m, e)
''', pinned=[(5, -9223372036854775808), (9223372036854775807, 3), (-9223372036854775808, -9223372036854775808)])   # C11-F6: signed overflow where the context wraps
T('int-wrap-overflow-32', 't_iwo32', ['s32', 's32'], '''
@fp.fpy
def t_iwo32(x: fp.Real, y: fp.Real):
    with fp.SINT32:
        v0 = -y
        c = 0 < v0
        d = x + 1 > x
        m = x * y
        e = abs(m) < 0
    return (v0, c, d, m, e)
''', pinned=[(5, -2147483648), (2147483647, 3), (65536, 65536)])
T('int-wrap-overflow-u16', 't_iwo16', ['u16', 'u16'], '''
@fp.fpy
def t_iwo16(x: fp.Real, y: fp.Real):
    with fp.UINT16:
        m = x * y
        c = m < x
        d = m / y
    return (m, c, d)
''', pinned=[(65535, 65535), (65535, 2), (256, 256)])
T('lossy-must-be-refused', 't_lossy', ['f64', 'f64', 's32'], '''
@fp.fpy
def t_lossy(x: fp.Real, y: fp.Real, k: fp.Real):
    with fp.FP32:
        a = x + y
        b = x * y
        c = k + x
    return (a, b, c)
''', pinned=[(1.0000000596046448, 5.9604644775390625e-08, 16777217), (0.1, 0.2, 33554435)])   # refused today (lossy implicit casts); if it is ever accepted the operands are rounded twice
T('minmax-literal-zero', 't_mlz', ['f64', 'f64'], '''
@fp.fpy
def t_mlz(v: fp.Real, a0: fp.Real):
    with fp.FP64:
        a = max(v, 0.0)
        b = min(v, a0)
        c = b + a
        d = max(v, a0 * 0.0)
        e = max(0.0, v)
        f = min(0.0, v)
        g = min(v, 0.0)
        h = max(v, -0.0)
        i = min(0, v, 1)
    return (a, b, c, d, e, f, g, h, i)
''', pinned=[(-0.0, 1.0), (-0.0, -0.0), (0.0, -1.0)])   # C11-F7: a literal zero in min/max
T('f32-literal-subexpr', 't_f32lit', ['f32', 'f32'], '''
@fp.fpy
def t_f32lit(a: fp.Real, b: fp.Real):
    with fp.FP32:
        v = (a + 1.5) - b
        w = (a * 0.75) * b
        u = (2.5 - a) / (b + 0.25)
        t = fp.sqrt(abs(a + 0.5)) + b
    with RTZ32:
        s = (a + 1.5) - b
    return (v, w, u, t, s)
''', pinned=[(3.1177140868976494e-08, 1.5), (1.0000001192092896, 3.0), (16777216.0, 0.3333333432674408)])   # C11-F8: a double literal token inside a float expression
T('cmp', 't_cmp', ['f64', 'f64'], '''
@fp.fpy
def t_cmp(x: fp.Real, y: fp.Real):
    with fp.FP64:
        r = (x < y, x <= y, x == y, x != y, x > y, x >= y, x < y < 3.0, not (x < y), x < y or y < 0.0, x > 0.0 and y > 0.0)
    return r
''')
T('cmp-mixed', 't_cmpm', ['f32', 'f64'], '''
@fp.fpy
def t_cmpm(x: fp.Real, y: fp.Real):
    with fp.FP64:
        r = (x < y, x == y, x >= y, fp.isnan(x), fp.isinf(y), fp.isfinite(y), fp.signbit(x), fp.signbit(y))
    return r
''')
T('ifelse', 't_if', ['f64', 'f64'], '''
@fp.fpy
def t_if(x: fp.Real, y: fp.Real):
    with fp.FP64:
        if x < y:
            z = x * 2.0
            w = 1.0
        else:
            z = y - 1.0
            w = -0.0
        if z > 0.0:
            z = z + 1.0
        elif z < -5.0:
            z = -z
        v = x if x > y else y
        return (z, w, v)
''')
T('ifexpr-zero', 't_ifz', ['f64', 'bool'], '''
@fp.fpy
def t_ifz(x: fp.Real, c: bool):
    with fp.FP64:
        s = -0.0 if c else 0.0
        t = 1 if c else 0
        u = x * s
    return (s, t, u, c)
''')
T('while', 't_while', ['f64', 'cnt'], '''
@fp.fpy
def t_while(x: fp.Real, n: fp.Real):
    with fp.FP64:
        i = 0.0
        acc = x
        while i < n:
            acc = acc * 0.5 + 1.0
            i = i + 1.0
        return (acc, i)
''')
T('for-sumsq', 't_for', [('L', 'f64', None)], '''
@fp.fpy
def t_for(xs: list[fp.Real]):
    with fp.FP64:
        acc = 0.0
        for x in xs:
            acc = acc + x * x
        n = len(xs)
        return (acc, n)
''')
T('for-sumsq-static', 't_for3', [('L', 'f64', 3)], '''
@fp.fpy
def t_for3(xs: list[fp.Real]):
    with fp.FP64:
        acc = 0.0
        for x in xs:
            acc = acc + x * x
        ys = [x + 1.0 for x in xs]
        return (acc, ys, xs[2], len(xs))
''')
T('for-range', 't_range', [('L', 'f64', None), 'f64'], '''
@fp.fpy
def t_range(xs: list[fp.Real], k: fp.Real):
    with fp.FP64:
        acc = 0.0
        for i in range(len(xs)):
            xs[i] = xs[i] * k
            acc = acc + xs[i]
        return (acc, xs)
''')
T('for-range-const', 't_rangec', ['f64'], '''
@fp.fpy
def t_rangec(x: fp.Real):
    with fp.FP64:
        acc = x
        for i in range(4):
            acc = acc * 1.5 + i
        t = 0.0
        for j in range(1, 7, 2):
            t = t + j
        return (acc, t)
''')
T('list-alias', 't_list', ['f64', 'f64'], '''
@fp.fpy
def t_list(x: fp.Real, y: fp.Real):
    with fp.FP64:
        xs = [x, y, x + y]
        ys = xs
        ys[0] = 7.0
        n = len(xs)
        zs = xs[1:3]
        zs[0] = -1.0
    return (xs, n, zs, xs[0], ys[1])
''')
T('list-noalias', 't_listv', ['f64', 'f64'], '''
@fp.fpy
def t_listv(x: fp.Real, y: fp.Real):
    with fp.FP64:
        xs = [x, y, x + y, x * y]
        xs[1] = xs[0] + xs[3]
        t = xs[1] * 2.0
        ws = xs[1:]
        vs = xs[:2]
    return (xs, t, len(xs), ws, vs)
''')
T('list-f32', 't_listf', ['f32', 'f32'], '''
@fp.fpy
def t_listf(x: fp.Real, y: fp.Real):
    with fp.FP32:
        xs = [x, y, x + y]
        xs[2] = xs[0] * xs[1]
    with fp.FP64:
        s = xs[0] + xs[1] + xs[2]
    return (xs, s)
''')
T('nested', 't_nested', ['f64', 'f64'], '''
@fp.fpy
def t_nested(x: fp.Real, y: fp.Real):
    with fp.FP64:
        xss = [[x, y], [y, x]]
        row = xss[0]
        row[1] = 3.0
        xss[1][0] = x * y
        n = len(xss)
        m = len(xss[1])
    return (xss, n, m, row)
''')
T('nested-arg', 't_nestarg', [('L', ('L', 'f64', None), None)], '''
@fp.fpy
def t_nestarg(xss: list[list[fp.Real]]):
    with fp.FP64:
        acc = 0.0
        for row in xss:
            for v in row:
                acc = acc + v
        for i in range(len(xss)):
            for j in range(len(xss[i])):
                xss[i][j] = xss[i][j] * 2.0
    return (acc, xss, len(xss))
''')
T('nested-share', 't_share', ['f64', 'f64'], '''
@fp.fpy
def t_share(x: fp.Real, y: fp.Real):
    with fp.FP64:
        row = [x, y]
        xss = [row, row]
        xss[0][0] = 9.0
        a = xss[1][0]
        row[1] = x + y
    return (xss, a, row)
''')
T('call-mutate', 't_call', [('L', 'f64', None), 'f64'], '''
@fp.fpy
def h_mut(zs: list[fp.Real], v: fp.Real) -> fp.Real:
    with fp.FP64:
        if len(zs) > 0:
            zs[0] = v + 1.0
        return v * 2.0

@fp.fpy
def t_call(xs: list[fp.Real], v: fp.Real):
    with fp.FP64:
        a = h_mut(xs, v)
        b = len(xs)
        ys = [v, v]
        c = h_mut(ys, a)
    return (a, b, xs, ys, c)
''')
T('call-mutate-alias', 't_calla', ['f64', 'f64'], '''
@fp.fpy
def h_mut2(zs: list[fp.Real], ws: list[fp.Real], v: fp.Real) -> fp.Real:
    with fp.FP64:
        zs[0] = v
        ws[1] = zs[0] + ws[0]
        return ws[0] * 2.0

@fp.fpy
def t_calla(x: fp.Real, y: fp.Real):
    with fp.FP64:
        xs = [x, y]
        r = h_mut2(xs, xs, x * y)
        ys = [y, x]
        q = h_mut2(xs, ys, r)
    return (xs, ys, r, q)
''')
T('call-chain', 't_chain', [('L', 'f64', None)], '''
@fp.fpy
def g_mutates(zs: list[fp.Real]) -> fp.Real:
    with fp.FP64:
        if len(zs) > 0:
            zs[0] = zs[0] + 1.0
        return zs[0] * 0.5 if len(zs) > 0 else 1.0

@fp.fpy
def g_fresh(n: fp.Real) -> list[fp.Real]:
    with fp.FP64:
        return [n, n + 1.0]

@fp.fpy
def g_middle(ws: list[fp.Real]) -> fp.Real:
    with fp.FP64:
        a = g_mutates(ws)
        bs = g_fresh(a)
        c = g_mutates(bs)
        return bs[0] + c

@fp.fpy
def t_chain(vs: list[fp.Real]):
    with fp.FP64:
        r = g_middle(vs) + g_mutates(vs)
    return (r, vs)
''')
T('call-nested-mutate', 't_callnest', [('L', ('L', 'f64', None), None)], '''
@fp.fpy
def g_nm(mss: list[list[fp.Real]]) -> fp.Real:
    with fp.FP64:
        if len(mss) > 0:
            if len(mss[0]) > 0:
                mss[0][0] = 2.0
        return mss[0][0] + 1.0 if len(mss) > 0 and len(mss[0]) > 0 else 1.0

@fp.fpy
def t_callnest(mss: list[list[fp.Real]]):
    with fp.FP64:
        r = g_nm(mss)
    return (r, mss)
''')
T('call-widen-elt', 't_cwe', ['f32', 'f64'], '''
@fp.fpy
def h_wide(zs: list[fp.Real], v: fp.Real) -> fp.Real:
    with fp.FP64:
        zs[0] = zs[0] + v
        return zs[0] * 2.0

@fp.fpy
def t_cwe(a: fp.Real, b: fp.Real):
    with fp.FP64:
        xs = [a]
        r = h_wide(xs, b)
    return (r, xs)
''', pinned=[(0.5, 0.1)])   # C11-F4: the callee stores a double into the caller's list of floats
T('call-modes', 't_callm', ['f64', 'f64'], '''
@fp.fpy
def h_dn(x: fp.Real, y: fp.Real) -> fp.Real:
    with RTN64:
        return x / y

@fp.fpy
def t_callm(x: fp.Real, y: fp.Real):
    with RTP64:
        a = h_dn(x, y)
        b = x / y
    with fp.FP64:
        c = h_dn(x, y) + 0.0
    return (a, b, c)
''')
T('rebind-param', 't_rebind', [('L', 'f64', None), 'f64'], '''
@fp.fpy
def h_wr(xs: list[fp.Real], c: fp.Real) -> fp.Real:
    with fp.FP64:
        if len(xs) > 0:
            xs[0] = 99.0
        if c > 0:
            xs = [7.0, 8.0]
        if len(xs) > 1:
            xs[1] = 5.0
        return xs[0] if len(xs) > 0 else 0.0

@fp.fpy
def t_rebind(xs: list[fp.Real], c: fp.Real):
    with fp.FP64:
        r = h_wr(xs, c)
    return (r, xs)
''')
T('tuples', 't_tup', ['f64', 'f64'], '''
@fp.fpy
def t_tup(x: fp.Real, y: fp.Real):
    with fp.FP64:
        t = (x + y, x < y, [x, y])
        a, b, c = t
        u = (t, a)
        p, q = (y, x)
    return (u, b, c, p, q)
''')
T('tuple-arg', 't_tuparg', [('T', ('f64', 'bool')), ('L', ('T', ('f64', 'f64')), None)], '''
@fp.fpy
def t_tuparg(t: tuple[fp.Real, bool], ps: list[tuple[fp.Real, fp.Real]]):
    with fp.FP64:
        a, b = t
        acc = a
        for p, q in ps:
            acc = acc + p * q
    return (acc, b, len(ps))
''')
for _c, _a in (('INTEGER', 'int'), ('INTEGER', 's32'), ('SINT32', 's32'), ('SINT32', 's8'), ('SINT8', 's8'), ('UINT8', 'u8'), ('UINT32', 'u32'),
               ('SINT16', 's16'), ('UINT16', 'u16'), ('SINT64', 's64'), ('UINT64', 'u64'), ('SINT64', 's32'), ('UINT16', 'u8')):
    T(f'int-{_c}-{_a}', 't_int', [_a, _a], f'''
@fp.fpy
def t_int(x: fp.Real, y: fp.Real):
    with fp.{_c}:
        a = x + y
        b = x * y
        c = x - y
        d = -x
        e = abs(y)
    return (a, b, c, d, e, x < y, x == y)
''')
for _c, _a in (('INTEGER', 'int'), ('SINT32', 's32'), ('UINT8', 'u8'), ('SINT8', 's8'), ('SINT64', 's64')):
    T(f'intdiv-{_c}', 't_idiv', [_a, _a], pinned={'SINT32': [(-2147483648, -1)], 'SINT64': [(-9223372036854775808, -1)], 'SINT8': [(-128, -1)]}.get(_c, []), src=f'''
@fp.fpy
def t_idiv(x: fp.Real, y: fp.Real):
    with fp.{_c}:
        if y != 0:
            q = x / y
        else:
            q = 0
        m = min(x, y)
        n = max(x, y)
    return (q, m, n)
''')
for _a in ('s8', 'u8', 's16', 's32', 'f32'):
    T('exact-' + _a, 't_exact', [_a, _a], pinned=([(-128, 0), (0, 5)] if _a == 's8' else [(0, 10)] if _a == 'u8' else []), src='''
@fp.fpy
def t_exact(x: fp.Real, y: fp.Real):
    with fp.REAL:
        a = x + y
        b = x * y
        c = x - y
        d = -x
    return (a, b, c, d)
''' if _a != 'f32' else '''
@fp.fpy
def t_exact(x: fp.Real, y: fp.Real):
    with fp.REAL:
        a = -x
        b = abs(y)
        m = min(x, y)
    return (a, b, m)
''')
T('int-loop', 't_iloop', ['int', 'int'], '''
@fp.fpy
def t_iloop(x: fp.Real, y: fp.Real):
    with fp.INTEGER:
        acc = 0
        i = 0
        while i < 5:
            acc = acc + x * i - y
            i = i + 1
        xs = [x, y, acc]
        xs[0] = xs[1] + xs[2]
    return (acc, i, xs, len(xs))
''')
T('int-float-mix', 't_mix', ['s32', 'f64'], '''
@fp.fpy
def t_mix(k: fp.Real, x: fp.Real):
    with fp.FP64:
        a = k + x
        b = k * 0.5
    with fp.SINT64:
        c = k * k
    with fp.FP64:
        d = c + x
    return (a, b, c, d)
''')
T('round-to-int', 't_rint', ['f64'], '''
@fp.fpy
def t_rint(x: fp.Real):
    with fp.FP64:
        a = fp.floor(x)
        b = fp.ceil(x)
        c = fp.trunc(x)
        d = fp.nearbyint(x)
        e = fp.roundint(x)
    return (a, b, c, d, e)
''')
T('literals', 't_lit', ['f64'], '''
@fp.fpy
def t_lit(x: fp.Real):
    with fp.FP64:
        a = x + 0.1
        b = x * 1e300
        c = x - 3
        d = fp.round(0.1) + x
        e = x + 4294967296
    with fp.FP32:
        f = fp.round(0.1)
        g = fp.round(x) + 0.5
        h = fp.round(16777217)
    return (a, b, c, d, e, f, g, h)
''')
T('minmax-nan-zero', 't_mm', ['f64', 'f64', 'f64'], '''
@fp.fpy
def t_mm(x: fp.Real, y: fp.Real, z: fp.Real):
    with fp.FP64:
        a = min(x, y, z)
        b = max(x, y, z)
        c = min(x, -x)
        d = max(y, -y)
    return (a, b, c, d)
''', pinned=[(0.0, -0.0, 1.0), (-0.0, 0.0, -0.0), (NAN, 1.0, -0.0)])
T('sum-list', 't_sum', [('L', 'f64', None)], '''
@fp.fpy
def t_sum(xs: list[fp.Real]):
    with fp.FP64:
        s = sum(xs)
        ys = [x * 0.5 for x in xs]
        t = sum(ys)
    return (s, t, ys)
''')
T('bool-list', 't_bl', [('L', 'f64', None)], '''
@fp.fpy
def t_bl(xs: list[fp.Real]):
    with fp.FP64:
        bs = [x > 0.0 for x in xs]
        n = 0.0
        for b in bs:
            if b:
                n = n + 1.0
    return (bs, n)
''')
T('shadow-rebind', 't_shadow', ['f64', 'f32'], '''
@fp.fpy
def t_shadow(x: fp.Real, y: fp.Real):
    with fp.FP32:
        t = y * y
    with fp.FP64:
        t = t + x
        t = t * t
    with fp.FP32:
        u = fp.round(t)
        t = u + y
    return (t, u)
''')
T('phi-widen', 't_phi', ['f32', 'f64', 'bool'], '''
@fp.fpy
def t_phi(x: fp.Real, y: fp.Real, c: bool):
    with fp.FP64:
        if c:
            t = x
        else:
            t = y
        k = 1
        if c:
            k = 300
        z = 0
        if c:
            z = -0.0
    return (t, k, z)
''')
T('zip-enum', 't_zip', [('L', 'f64', None), ('L', 'f64', None)], '''
@fp.fpy
def t_zip(xs: list[fp.Real], ys: list[fp.Real]):
    with fp.FP64:
        acc = 0.0
        for x, y in zip(xs, ys):
            acc = acc + x * y
        t = 0.0
        for i, x in enumerate(xs):
            t = t + i * x
        zs = [x + y for x, y in zip(xs, ys)]
    return (acc, t, zs)
''')

# ---------------------------------------------------------------------------
# structured families: small grids of programs, each with pinned witness inputs

def _nested_ty(d, elt='f64', n=None):
    t = elt
    for _ in range(d): t = ('L', t, n)
    return t

def _nested_ann(d):
    a = 'fp.Real'
    for _ in range(d): a = f'list[{a}]'
    return a

def _nested_val(d, base=1.0, width=2):
    """a width^d nested list with pairwise distinct, order-revealing leaves"""
    if d == 0: return base
    return [_nested_val(d - 1, base + i * (width ** (d - 1)) * 1.0, width) for i in range(width)]

def _nested_lit(d, names, width=2):
    """source text of a nested list literal over scalar expressions (cycled)"""
    cnt = [0]
    def go(k):
        if k == 0:
            cnt[0] += 1
            return f'({names[cnt[0] % len(names)]} + {cnt[0]}.0)'
        return '[' + ', '.join(go(k - 1) for _ in range(width)) + ']'
    return go(d)

def family_nested():
    """lists nested 1..4 deep; a store at every depth k (a list when k < d, a scalar when k = d), written as a swap of two
    sibling slots through a name bound to the slot BEFORE the store and read AFTER it, a second name bound after the
    store, a deep scalar store through that name; the container is a parameter or a local literal"""
    for d in (1, 2, 3, 4):
        for k in range(1, d + 1):
            for local in (False, True):
                ix0 = '[0]' * k; ix1 = '[0]' * (k - 1) + '[1]'
                rest = '[0]' * (d - k)                                # from the depth-k slot down to a leaf
                rest1 = '[0]' * (d - k - 1) + ('[1]' if d > k else '')
                name = f'nst_d{d}k{k}{"l" if local else "p"}'
                params = ('x: fp.Real, y: fp.Real' if local else f'b: {_nested_ann(d)}, x: fp.Real')
                body = []
                if local: body.append(f'        b = {_nested_lit(d, ["x", "y"])}')
                body += [f'        t = b{ix0}',                       # bound before the store
                         f'        b{ix0} = b{ix1}',
                         f'        b{ix1} = t',
                         f'        u = b{ix1}',                       # bound after the store
                         f'        r0 = b{ix0}{rest}',
                         f'        r1 = b{ix1}{rest}',
                         f'        r2 = t{rest}']
                if d > k:
                    body += [f'        u{rest1} = x * 3.0',            # a scalar store at full depth through the late name
                             f'        w = b{ix0}',
                             f'        b{ix1}{rest} = r0 + x',          # ... and through the container
                             f'        r3 = t{rest1} + u{rest} + w{rest}']
                else:
                    body += [f'        b{ix0} = r1 + x', f'        r3 = t + u + b{ix0}']
                src = (f'\n@fp.fpy\ndef {name}({params}):\n    with fp.FP64:\n' + '\n'.join(body) + '\n    return (r0, r1, r2, r3, b)\n')
                if local:
                    T(f'nested-d{d}-k{k}-local', name, ['f64', 'f64'], src, pinned=[(1.0, 10.0), (0.1, -0.0)])
                else:
                    T(f'nested-d{d}-k{k}-param', name, [_nested_ty(d), 'f64'], src, pinned=[(_nested_val(d), 0.5), (_nested_val(d, -0.0), 0.1)])

_MODES = ('RNE', 'RTZ', 'RTP', 'RTN')

def family_scopes():
    """rounding scopes whose bodies are calls only / operations only / both, under each hardware mode, directly under the
    entry context or nested in each other mode, with a context-less helper (specialised per calling context) and a helper
    that carries its own context; binary64 and binary32"""
    for fk, ty in (('d', 'f64'), ('f', 'f32')):
        helpers = ('\n@fp.fpy\ndef sc_ratio(a: fp.Real, b: fp.Real) -> fp.Real:\n    return a / b\n'
                   '\n@fp.fpy\ndef sc_ratio2(a: fp.Real, b: fp.Real) -> fp.Real:\n    t = a / b\n    return t * b\n'
                   f'\n@fp.fpy\ndef sc_own(a: fp.Real, b: fp.Real) -> fp.Real:\n    with {CTX_SRC[(fk, "RTZ")]}:\n        return a / b\n'
                   '\n@fp.fpy\ndef sc_mid(a: fp.Real, b: fp.Real) -> fp.Real:\n    return sc_ratio(a, b)\n')
        for outer in (None,) + _MODES:
            lines, rets = [], []
            ind = '    ' if outer is None else '        '
            if outer is not None: lines.append(f'    with {CTX_SRC[(fk, outer)]}:')
            for m in _MODES:
                c = CTX_SRC[(fk, m)]
                q = m.lower()
                lines += [f'{ind}with {c}:', f'{ind}    c_{q} = sc_ratio(x, y)',                      # calls only, context-less helper
                          f'{ind}with {c}:', f'{ind}    o_{q} = x / y',                                # operations only
                          f'{ind}with {c}:', f'{ind}    m_{q} = sc_ratio(x, y) * y',                  # mixed
                          f'{ind}with {c}:', f'{ind}    w_{q} = sc_own(x, y)',                         # calls only, helper with its own context
                          f'{ind}with {c}:', f'{ind}    k_{q} = sc_mid(x, y)', f'{ind}    j_{q} = sc_ratio2(y, x)']   # two calls, one through a chain
                rets += [f'c_{q}', f'o_{q}', f'm_{q}', f'w_{q}', f'k_{q}', f'j_{q}']
            if outer is not None:
                lines += [f'{ind}z0 = sc_ratio(x, y)', f'{ind}z1 = x / y']; rets += ['z0', 'z1']
            name = f'sc_{fk}_{(outer or "top").lower()}'
            src = helpers + f'\n@fp.fpy\ndef {name}(x: fp.Real, y: fp.Real):\n' + '\n'.join(lines) + '\n    return (' + ', '.join(rets) + ')\n'
            ent = 'fp.FP64' if fk == 'd' else 'fp.FP32'
            T(f'scopes-{fk}-{(outer or "top").lower()}', name, [ty, ty], src, ctx=ent,
              pinned=[(1.0, 10.0), (-1.0, 3.0), (2.0, 3.0)] + ([(1e-320, 3.0)] if fk == 'd' else [(bits32(0x00000003), 7.0)]))
        # a function-level context (no `with` at all in the entry): only calls / only ops / both
        for m in _MODES[1:]:
            for kind, bodysrc in (('calls', '    a = sc_ratio(x, y)\n    b = sc_mid(y, x)\n'), ('ops', '    a = x / y\n    b = y / x\n'),
                                  ('mixed', '    a = sc_ratio(x, y)\n    b = y / x\n')):
                name = f'sce_{fk}_{m.lower()}_{kind}'
                src = helpers + f'\n@fp.fpy\ndef {name}(x: fp.Real, y: fp.Real):\n' + bodysrc + '    return (a, b)\n'
                T(f'scopes-entry-{fk}-{m.lower()}-{kind}', name, [ty, ty], src,
                  ctx=f'fp.IEEEContext({"11, 64" if fk == "d" else "8, 32"}, fp.RM.{m})', rm=m, pinned=[(1.0, 10.0), (-1.0, 3.0)])

def family_helpers():
    """one helper with a mix of parameter kinds (real, bool, list, tuple), called from two sites of one context whose
    arguments have different formats (binary32 / binary64 values, lists of different lengths), in both orders"""
    KINDS = {   # parameter kind -> (annotation, use in the helper, argument at the narrow site, argument at the wide site)
        'r': ('fp.Real', 'r = r + {p} * 0.5', 'lo', 'x'),
        'b': ('bool', 'if {p}:\n        r = -r', 'True', 'False'),
        'l': ('list[fp.Real]', 'r = r + {p}[0] + fp.round(len({p})) * 0.25', '[lo, lo]', '[x, x, x]'),
        't': ('tuple[fp.Real, fp.Real]', 'ta, tc = {p}\n    r = r + ta - tc * 0.5', '(lo, lo)', '(x, y)'),
        'tb': ('tuple[fp.Real, bool]', 'q0, q1 = {p}\n    if q1:\n        r = r + q0', '(lo, True)', '(x, False)'),
    }
    KINDS['c'] = ('fp.Context', 'with {p}:\n        r = r / 3.0', 'RTN64', 'RTP64')   # (the backend refuses a context parameter today: counted)
    SIGS = [('r',), ('r', 'b'), ('b', 'r'), ('r', 'r', 'b'), ('r', 'l'), ('l', 'b'), ('r', 't'), ('t', 'b'), ('tb',), ('r', 'b', 'l', 't'), ('r', 'c'), ('l', 't', 'b')]
    for si, sig in enumerate(SIGS):
        ps = [f'p{i}' for i in range(len(sig))]
        uses = '\n    '.join(KINDS[k][1].format(p=p) for k, p in zip(sig, ps))
        helper = (f'\n@fp.fpy\ndef hk{si}(' + ', '.join(f'{p}: {KINDS[k][0]}' for k, p in zip(sig, ps)) + ') -> fp.Real:\n'
                  '    r = 0.0\n    ' + uses + '\n    return r\n')
        for order in ('narrow-first', 'wide-first'):
            narrow = f'hk{si}(' + ', '.join(KINDS[k][2] for k in sig) + ')'
            wide = f'hk{si}(' + ', '.join(KINDS[k][3] for k in sig) + ')'
            first, second = (narrow, wide) if order == 'narrow-first' else (wide, narrow)
            name = f'hke{si}{order[0]}'
            src = helper + (f'\n@fp.fpy\ndef {name}(x: fp.Real, y: fp.Real):\n    with fp.FP32:\n        lo = fp.round(x)\n'
                            f'    a = {first}\n    b = {second}\n    c = a + b\n    return (a, b, c, lo)\n')
            T(f'helper-kinds-{"+".join(sig)}-{order}', name, ['f64', 'f64'], src, pinned=[(0.1, 0.3), (1e300, -1e300), (1.0000000001, 3.0)])

family_nested(); family_scopes(); family_helpers()

# ---------------------------------------------------------------------------
# restricted random generator: straight-line code + branches + counted loops over scalars of the
# two hardware formats under the eight hardware contexts, integer contexts, lists with aliasing and
# in-place writes, nested lists, slices, a helper that mutates a list argument.

class PGen:
    def __init__(self, R, uid):
        self.R = R; self.uid = uid; self.n = 0
        self.lines: list[str] = []
        self.helpers: list[str] = []
        self.gnames: list[str] = []
        self.cnames: list[str] = []

    def fresh(self, p='v'):
        self.n += 1
        return f'{p}{self.n}'

    LITS_D = ['0.5', '2.0', '3.0', '0.25', '1.5', '10.0', '1.0', '-1.0', '0.0', '-0.0', '7.0', '0.125', '1e10', '3', '1']

    def operand(self, env, fmt):
        """an expression usable under a context of format fmt ('d'|'f') without an implicit lossy cast"""
        R = self.R
        vs = [(v, f) for v, f in env['S'].items()]
        if vs and R.random() < 0.8:
            v, f = R.choice(vs)
            if fmt == 'f' and f == 'd': return f'fp.round({v})'
            return v
        ls = [(l, n, f) for l, (n, f) in env['L'].items() if n > 0]
        if ls and R.random() < 0.5:
            l, n, f = R.choice(ls)
            e = f'{l}[{R.randrange(n)}]'
            return f'fp.round({e})' if (fmt == 'f' and f == 'd') else e
        return R.choice(self.LITS_D)

    def expr(self, env, fmt, d=2):
        R = self.R
        if d == 0 or R.random() < 0.25: return self.operand(env, fmt)
        k = R.choice(['add', 'sub', 'mul', 'div', 'add', 'mul', 'sqrt', 'fma', 'abs', 'neg', 'min', 'max', 'ite'])
        a = lambda: self.expr(env, fmt, d - 1)   # noqa
        if k in ('add', 'sub', 'mul', 'div'): return f'({a()} {dict(add="+", sub="-", mul="*", div="/")[k]} {a()})'
        if k == 'sqrt': return f'fp.sqrt(abs({a()}))'
        if k == 'fma': return f'fp.fma({a()}, {a()}, {a()})'
        if k == 'abs': return f'abs({a()})'
        if k == 'neg': return f'(-{self.operand(env, fmt)})'
        if k in ('min', 'max'): return f'{k}({a()}, {a()})'
        return f'({a()} if {self.cond(env, fmt)} else {a()})'

    def cond(self, env, fmt):
        R = self.R
        c = f'{self.operand(env, fmt)} {R.choice(["<", "<=", ">", ">=", "==", "!="])} {self.operand(env, fmt)}'
        r = R.random()
        if r < 0.15: return f'not ({c})'
        if r < 0.3: return f'({c}) {R.choice(["and", "or"])} ({self.operand(env, fmt)} < {self.operand(env, fmt)})'
        return c

    def block(self, env, ind, fmt, rm, depth, n):
        R = self.R; pad = '    ' * ind
        n0 = len(self.lines)
        self.block_(env, ind, fmt, rm, depth, n)
        if len(self.lines) == n0:     # every drawn statement was inapplicable: keep the block non-empty
            v = self.fresh(); self.lines.append(f'{pad}{v} = {self.expr(env, fmt, 1)}'); env['S'][v] = fmt

    def block_(self, env, ind, fmt, rm, depth, n):
        R = self.R; pad = '    ' * ind
        for _ in range(n):
            kinds = ['assign'] * 4 + ['reassign'] * 2 + ['list', 'iassign', 'alias', 'slice', 'tuple']
            if depth > 0: kinds += ['if', 'if', 'with', 'with', 'while', 'for', 'forrange', 'call', 'nested', 'ifboth', 'callg', 'withcall', 'deep3', 'deepswap']
            k = R.choice(kinds)
            if k == 'assign':
                v = self.fresh(); self.lines.append(f'{pad}{v} = {self.expr(env, fmt)}'); env['S'][v] = fmt
            elif k == 'reassign':
                cands = [v for v, f in env['S'].items() if f == fmt and v not in env['ro']]
                if not cands: continue
                v = R.choice(cands); self.lines.append(f'{pad}{v} = {self.expr(env, fmt)}')
            elif k == 'list':
                l = self.fresh('l'); n_ = R.randint(1, 4)
                self.lines.append(f'{pad}{l} = [' + ', '.join(self.expr(env, fmt, 1) for _ in range(n_)) + ']'); env['L'][l] = (n_, fmt)
            elif k == 'iassign':
                cands = [(l, n_) for l, (n_, f) in env['L'].items() if f == fmt and n_ > 0]
                if not cands: continue
                l, n_ = R.choice(cands); self.lines.append(f'{pad}{l}[{R.randrange(n_)}] = {self.expr(env, fmt, 1)}')
            elif k == 'alias':
                cands = list(env['L'].items())
                if not cands: continue
                l, (n_, f) = R.choice(cands); m = self.fresh('l'); self.lines.append(f'{pad}{m} = {l}'); env['L'][m] = (n_, f)
            elif k == 'slice':
                cands = [(l, n_, f) for l, (n_, f) in env['L'].items() if n_ >= 2]
                if not cands: continue
                l, n_, f = R.choice(cands); a = R.randrange(n_); b = R.randint(a + 1, n_); m = self.fresh('l')
                self.lines.append(f'{pad}{m} = {l}[{a}:{b}]'); env['L'][m] = (b - a, f)
            elif k == 'tuple':
                a, b = self.fresh(), self.fresh()
                self.lines.append(f'{pad}{a}, {b} = ({self.expr(env, fmt, 1)}, {self.expr(env, fmt, 1)})'); env['S'][a] = fmt; env['S'][b] = fmt
            elif k == 'nested':
                cands = [(l, n_) for l, (n_, f) in env['L'].items() if f == fmt and n_ > 0]
                if len(cands) < 1: continue
                (l1, n1) = R.choice(cands); (l2, n2) = R.choice(cands)
                m = self.fresh('m'); self.lines.append(f'{pad}{m} = [{l1}, {l2}]')
                self.lines.append(f'{pad}{m}[{R.randrange(2)}][0] = {self.expr(env, fmt, 1)}')
                env['N'][m] = fmt
            elif k == 'if':
                self.lines.append(f'{pad}if {self.cond(env, fmt)}:')
                e1 = self.fork(env); self.block(e1, ind + 1, fmt, rm, depth - 1, R.randint(1, 2))
                if R.random() < 0.6:
                    self.lines.append(f'{pad}else:')
                    e2 = self.fork(env); self.block(e2, ind + 1, fmt, rm, depth - 1, R.randint(1, 2))
            elif k == 'withcall':
                # a scope of another mode whose body is nothing but calls of a helper that has no context of its own
                if fmt != 'd': continue
                if not self.cnames:
                    g = f'c{self.uid}'
                    self.helpers.append(f'@fp.fpy\ndef {g}(v: fp.Real, w: fp.Real) -> fp.Real:\n    return v {R.choice(["/", "*", "+"])} w\n')
                    self.cnames.append(g)
                rm2 = R.choice([m for m in ('RNE', 'RTZ', 'RTP', 'RTN') if m != rm])
                v = self.fresh()
                self.lines.append(f'{pad}with {CTX_SRC[("d", rm2)]}:')
                self.lines.append(f'{pad}    {v} = {self.cnames[0]}({self.operand(env, "d")}, {R.choice(["3.0", "10.0", "7.0"])})'); env['S'][v] = 'd'
            elif k == 'deep3':
                cands = [(l, n_) for l, (n_, f) in env['L'].items() if f == fmt and n_ > 0]
                if not cands: continue
                rows = [R.choice(cands)[0] for _ in range(4)]
                m = self.fresh('q'); self.lines.append(f'{pad}{m} = [[{rows[0]}, {rows[1]}], [{rows[2]}, {rows[3]}]]'); env['D3'][m] = fmt
            elif k == 'deepswap':
                if not env['D3']: continue
                m = R.choice(list(env['D3'])); i = R.randrange(2); t = self.fresh('l')
                if R.random() < 0.5:
                    self.lines += [f'{pad}{t} = {m}[{i}][0]', f'{pad}{m}[{i}][0] = {m}[{i}][1]', f'{pad}{m}[{i}][1] = {t}']
                    v = self.fresh(); self.lines.append(f'{pad}{v} = {t}[0] + {m}[{i}][0][0]'); env['S'][v] = fmt
                else:
                    self.lines += [f'{pad}{t} = {m}[0]', f'{pad}{m}[0] = {m}[1]', f'{pad}{m}[1] = {t}']
                    v = self.fresh(); self.lines.append(f'{pad}{v} = {t}[{i}][0] + {m}[0][{i}][0]'); env['S'][v] = fmt
            elif k == 'ifboth':
                # a name bound before the branch and rebound in both arms
                cands = [v for v, f in env['S'].items() if f == fmt and v not in env['ro']]
                if not cands: continue
                v = R.choice(cands)
                self.lines.append(f'{pad}if {self.cond(env, fmt)}:')
                self.lines.append(f'{pad}    {v} = {self.expr(env, fmt, 1)}')
                self.lines.append(f'{pad}else:')
                self.lines.append(f'{pad}    {v} = {self.expr(env, fmt, 1)}')
            elif k == 'callg':
                # a scalar helper, called with whatever formats the operands have: one specialisation per format vector
                if fmt != 'd': continue
                if not any(h.startswith('g') for h in self.gnames):
                    g = f'g{self.uid}'
                    rmg = R.choice(['RNE', 'RTZ', 'RTP', 'RTN'])
                    self.helpers.append(f'@fp.fpy\ndef {g}(v: fp.Real, w: fp.Real) -> fp.Real:\n    with {CTX_SRC[("d", rmg)]}:\n        return v {R.choice(["+", "*", "/", "-"])} w + v\n')
                    self.gnames.append(g)
                v = self.fresh()
                self.lines.append(f'{pad}{v} = {self.gnames[0]}({self.operand(env, "d")}, {self.operand(env, "d")})'); env['S'][v] = 'd'
            elif k == 'with':
                f2 = R.choice(['d', 'd', 'f']); rm2 = R.choice(['RNE', 'RNE', 'RTZ', 'RTP', 'RTN'])
                self.lines.append(f'{pad}with {CTX_SRC[(f2, rm2)]}:')
                e1 = self.fork(env, keep=True); self.block(e1, ind + 1, f2, rm2, depth - 1, R.randint(1, 3))
                # names bound in the body stay bound (Python scoping)
                for key in ('S', 'L', 'N', 'D3'): env[key].update(e1[key])
            elif k == 'while':
                i = self.fresh('k'); self.lines.append(f'{pad}{i} = 0.0' if fmt == 'd' else f'{pad}{i} = fp.round(0.0)')
                env['S'][i] = fmt; env['ro'].add(i)
                self.lines.append(f'{pad}while {i} < {R.choice(["1.0", "2.0", "3.0"])}:')
                e1 = self.fork(env); self.block(e1, ind + 1, fmt, rm, depth - 1, R.randint(1, 2))
                self.lines.append(f'{pad}    {i} = {i} + 1.0')
            elif k == 'for':
                cands = [(l, f) for l, (n_, f) in env['L'].items() if not (fmt == 'f' and f == 'd')]
                if not cands: continue
                l, f = R.choice(cands); x = self.fresh('e')
                self.lines.append(f'{pad}for {x} in {l}:')
                e1 = self.fork(env); e1['S'][x] = f; e1['ro'].add(x); self.block(e1, ind + 1, fmt, rm, depth - 1, R.randint(1, 2))
            elif k == 'forrange':
                cands = [(l, n_) for l, (n_, f) in env['L'].items() if f == fmt and n_ > 0]
                if not cands: continue
                l, n_ = R.choice(cands); i = self.fresh('i')
                self.lines.append(f'{pad}for {i} in range({n_}):')
                self.lines.append(f'{pad}    {l}[{i}] = {l}[{i}] {R.choice(["+", "*", "-"])} {self.expr(env, fmt, 1)}')
            elif k == 'call':
                cands = [(l, n_) for l, (n_, f) in env['L'].items() if f == 'd' and n_ > 0]
                if fmt != 'd' or not cands: continue
                l, n_ = R.choice(cands); v = self.fresh()
                h = self.helper(n_)
                self.lines.append(f'{pad}{v} = {h}({l}, {self.operand(env, "d")})'); env['S'][v] = 'd'

    def helper(self, n_):
        R = self.R
        h = f'h{self.uid}_{len(self.helpers)}'
        rm = R.choice(['RNE', 'RNE', 'RTZ', 'RTP', 'RTN'])
        i = R.randrange(n_); j = R.randrange(n_)
        body = [f'@fp.fpy', f'def {h}(zs: list[fp.Real], v: fp.Real) -> fp.Real:', f'    with {CTX_SRC[("d", rm)]}:',
                f'        zs[{i}] = zs[{j}] {R.choice(["+", "*", "/", "-"])} v']
        if R.random() < 0.4: body += [f'        ws = zs', f'        ws[{j}] = v / 3.0']
        body += [f'        return zs[{i}] {R.choice(["+", "*", "/"])} {R.choice(["3.0", "v", "0.1"]) if False else R.choice(["3.0", "v", "7.0"])}']
        self.helpers.append('\n'.join(body) + '\n')
        return h

    @staticmethod
    def fork(env, keep=False):
        return {'S': dict(env['S']), 'L': dict(env['L']), 'N': dict(env['N']), 'D3': dict(env['D3']), 'ro': set(env['ro'])}

    def program(self):
        R = self.R
        shape = R.choice(['dd', 'dd', 'ff', 'df', 'dl', 'dl', 'fl'])
        args, params, env = [], [], {'S': {}, 'L': {}, 'N': {}, 'D3': {}, 'ro': set()}
        for i, c in enumerate(shape):
            nm = f'a{i}'
            if c == 'l':
                n_ = R.choice([2, 3, 4])
                elt = 'f32' if shape[0] == 'f' else 'f64'
                args.append(('L', elt, n_)); params.append(f'{nm}: list[fp.Real]'); env['L'][nm] = (n_, 'f' if elt == 'f32' else 'd')
            else:
                args.append('f64' if c == 'd' else 'f32'); params.append(f'{nm}: fp.Real'); env['S'][nm] = c
        name = f'r{self.uid}'
        fmt0 = 'd'
        self.lines = [f'    with fp.FP64:']
        self.block(env, 2, fmt0, 'RNE', 2, R.randint(3, 6))
        rets = sorted(env['S']) + sorted(env['L']) + sorted(env['N']) + sorted(env['D3'])
        self.lines.append('    return (' + ', '.join(rets) + (',' if len(rets) == 1 else '') + ')')
        src = ''.join(self.helpers) + '\n@fp.fpy\n' + f'def {name}(' + ', '.join(params) + '):\n' + '\n'.join(self.lines) + '\n'
        return dict(tag='random', entry=name, args=args, src=src, ctx='fp.FP64', rm='RNE')


class IGen:
    """random integer-context programs (fixed-width wrap-around contexts and INTEGER)"""
    def __init__(self, R, uid):
        self.R = R; self.uid = uid

    def program(self):
        R = self.R
        a = R.choice(['s8', 'u8', 's16', 'u16', 's32', 'u32', 's64', 'u64', 'int'])
        ctx = INT_CTX[a] if R.random() < 0.7 else R.choice(['SINT32', 'SINT64', 'INTEGER', 'UINT32', 'SINT16'])
        vs = ['x', 'y']; lines = []
        for i in range(R.randint(2, 5)):
            v = f'v{i}'
            k = R.choice(['add', 'sub', 'mul', 'neg', 'abs', 'min', 'max', 'lit'])
            p, q = R.choice(vs), R.choice(vs)
            if k in ('add', 'sub', 'mul'): e = f'{p} {dict(add="+", sub="-", mul="*")[k]} {q}'
            elif k == 'neg': e = f'-{p}'
            elif k == 'abs': e = f'abs({p})'
            elif k in ('min', 'max'): e = f'{k}({p}, {q})'
            else: e = f'{p} + {R.choice([0, 1, 2, 100, 127, 255])}'
            lines.append(f'        {v} = {e}'); vs.append(v)
        name = f'q{self.uid}'
        src = (f'\n@fp.fpy\ndef {name}(x: fp.Real, y: fp.Real):\n    with fp.{ctx}:\n' + '\n'.join(lines) +
               f'\n        c = {R.choice(vs)} < {R.choice(vs)}\n    return (' + ', '.join(vs[2:]) + ', c)\n')
        return dict(tag='random-int', entry=name, args=[a, a], src=src, ctx='fp.FP64', rm='RNE')

# ---------------------------------------------------------------------------
# compile / build / run

class Timeout(Exception):
    pass

def interp(fn, args, ctx, seconds=6.0):
    def h(sig, frm): raise Timeout()
    old = signal.signal(signal.SIGALRM, h)
    signal.setitimer(signal.ITIMER_REAL, seconds)
    try:
        return fn(*args, ctx=ctx)
    finally:
        signal.setitimer(signal.ITIMER_REAL, 0)
        signal.signal(signal.SIGALRM, old)

def deep_copy(v):
    if isinstance(v, list): return [deep_copy(x) for x in v]
    if isinstance(v, tuple): return tuple(deep_copy(x) for x in v)
    return v

def load_module(path, name):
    spec = importlib.util.spec_from_file_location(name, path)
    mod = importlib.util.module_from_spec(spec)
    sys.modules[name] = mod
    spec.loader.exec_module(mod)
    return mod

def strip_decl(fmt: str) -> str:
    return fmt

def kernel_cpp(kid: int, body: str, entry: str, params, rm: str, nvec: int, words: list[int]) -> str:
    """one kernel: the emitted translation unit in its own namespace + a runner over the argument table"""
    decl = []
    for i, p in enumerate(params):
        decl.append(f'      {p.format()} a{i} = vh::Mk<{p.format()}>::get(p);')
    pa = ''.join(f' vh::pr(a{i});' for i in range(len(params)))
    data = ', '.join(f'0x{w:x}ull' for w in words) or '0'
    return f'''namespace K{kid} {{
{body}
static void run(int first) {{
  static const uint64_t D[] = {{ {data} }};
  const uint64_t* p = D;
  for (int i = 0; i < {nvec}; ++i) {{
{chr(10).join(decl)}
      if (i < first) continue;
      std::fesetround({FE[rm]});
      auto r = {entry}({', '.join(f'a{i}' for i in range(len(params)))});
      int m = std::fegetround();
      std::fesetround(FE_TONEAREST);
      std::printf("R {kid} %d %s |", i, vh::rmname(m)); vh::pr(r); std::printf(" |");{pa} std::printf("\\n"); std::fflush(stdout);
  }}
}}
}}
'''

def tu_text(headers: str, kernels: list[tuple[int, str]]) -> str:
    ids = [k for k, _ in kernels]
    return (headers + PRELUDE + '\n'.join(t for _, t in kernels) +
            '\nint main(int argc, char** argv) {\n  int lo = std::atoi(argv[1]); int first = std::atoi(argv[2]);\n  switch (lo) {\n' +
            ''.join(f'    case {k}: K{k}::run(first); first = 0;\n' for k in ids) + '    default: break;\n  }\n  return 0;\n}\n')

def build(text: str, workdir: str, flags: list[str]) -> tuple[str | None, str, float, bool]:
    """(exe path | None, compiler stderr, seconds, cache hit)"""
    key = hashlib.sha256((' '.join([CXX] + flags) + '\0' + text).encode()).hexdigest()[:32]
    os.makedirs(CACHE, exist_ok=True)
    exe = os.path.join(CACHE, key + '.exe')
    if os.path.exists(exe): return exe, '', 0.0, True
    src = os.path.join(workdir, key + '.cpp')
    with open(src, 'w') as fh: fh.write(text)
    t0 = time.time()
    tmp_exe = os.path.join(workdir, key + '.exe')
    p = subprocess.run([CXX, *flags, '-o', tmp_exe, src], capture_output=True, text=True)
    dt = time.time() - t0
    if p.returncode != 0: return None, p.stderr, dt, False
    try:
        shutil.move(tmp_exe, exe)
    except OSError:
        exe = tmp_exe
    return exe, p.stderr, dt, False

def prune_cache(limit=400):
    try:
        fs = sorted((os.path.join(CACHE, f) for f in os.listdir(CACHE)), key=os.path.getmtime)
        for f in fs[:-limit]: os.remove(f)
    except OSError:
        pass

def run_exe(exe: str, kids: list[int], timeout: float, nvec: dict | None = None) -> tuple[dict, list]:
    """run all kernels of a translation unit; returns ({(kid, i): line}, [(kid, i, how)] crashes).
    `nvec[kid]` = number of argument vectors of a kernel (to attribute a crash that follows a kernel's last line to the next kernel)"""
    out: dict = {}; crashes = []
    pos = 0; first = 0; guard = 0
    while pos < len(kids) and guard < 400:
        guard += 1
        try:
            p = subprocess.run([exe, str(kids[pos]), str(first)], capture_output=True, text=True, timeout=timeout)
            rc, so, how = p.returncode, p.stdout, None
        except subprocess.TimeoutExpired as e:
            rc, so, how = -999, (e.stdout.decode() if isinstance(e.stdout, bytes) else (e.stdout or '')), 'timeout'
        last = None
        for line in so.splitlines():
            if line.startswith('R '):
                f = line.split(' ', 4)
                out[(int(f[1]), int(f[2]))] = line; last = (int(f[1]), int(f[2]))
        if rc == 0: break
        # a kernel died: on the input after the last printed one
        if last is None: k, i = kids[pos], first
        else: k, i = last[0], last[1] + 1
        while nvec is not None and i >= nvec.get(k, 1 << 30):      # that kernel was finished: the next one died on its first input
            nxt = kids.index(k) + 1
            if nxt >= len(kids): return out, crashes                 # (died after the last kernel: at exit)
            k, i = kids[nxt], 0
        crashes.append((k, i, how or f'exit {rc}'))
        pos = kids.index(k); first = i + 1
        while nvec is not None and first >= nvec.get(kids[pos], 1 << 30):
            pos += 1; first = 0
            if pos >= len(kids): break
    return out, crashes


def run(rep, tier, seed):
    R = Prng(seed, 'C11')
    t_start = time.time()
    storage_correspondence(rep, R, tier)
    if CXX is None:
        rep.broke('harness', 'C11.toolchain', 'no g++ found'); return
    quick = tier == 'quick'
    n_random = int(os.environ.get('C11_NRANDOM', 20 if quick else 250))
    n_int = int(os.environ.get('C11_NINT', 8 if quick else 80))
    n_vec = 10 if quick else 24
    progs = [dict(t) for t in TEMPLATES]
    only = os.environ.get('C11_ONLY')
    if only: progs = [p for p in progs if any(p['tag'].startswith(o) for o in only.split(','))]
    for u in range(n_random): progs.append(PGen(R, u).program())
    for u in range(n_int): progs.append(IGen(R, u).program())
    tmp = tempfile.mkdtemp(prefix='fpyverif_c11_', dir='/var/tmp')
    try:
        differential(rep, R, progs, n_vec, tmp, quick)
    finally:
        shutil.rmtree(tmp, ignore_errors=True)
        prune_cache()
    rep.cov['wall_differential_s'] = round(time.time() - t_start, 1)
    rep.cov['explanation'] = (
        'PARTIAL for proof. PROVED in Lean (Props/C11): the storage ladder (storage_sound / narrow_id / ladder_monotone) and the op-table '
        'contract (dispatch_contract, under the stated hardware hypothesis); the ladder model is tied to the real choose_storage_scalar on a grid of '
        'formats (cov.storage_grid). NOT proved: the emitter and the C++ toolchain -- these are covered by differential compile-and-run '
        '(real CppCompiler, every option combination, g++ -O2 -std=c++17, bit-for-bit comparison with the interpreter), which is testing, not proof.')
    rep.cov['rule'] = (
        'hand-written templates (arithmetic/sqrt/fma/min/max/abs/neg under FP64 and FP32, the four hardware rounding modes incl. nested scopes, return from inside a scope, '
        'loops and entry contexts; comparisons; if/else + phi widening; while/for/range; lists: construction, indexing, len, indexed assignment, aliasing, slices, comprehensions, '
        'nested and shared rows; tuples; helper calls where the callee writes a list argument, an aliased pair, a nested list, or rebinds its parameter; integer contexts '
        'INTEGER/SINTn/UINTn incl. wrap-around and the overflow cases (MIN / -1, x + 1 > x); exact arithmetic under REAL; repeated and nested scopes of the same mode, narrowing under the four modes, one helper specialised '
        'for several argument formats and lengths, helpers returning an alias of their argument, lists shared through a nested list / a tuple field / a rebound alias, names rebound in both branches; '
        'pinned argument vectors reproduce every known finding deterministically) + a restricted random generator of float programs + random integer programs; each accepted program '
        'x 12 option combinations (identical emitted text is built once) x a table of argument vectors (specials, signed zeros, subnormals, double-vs-float rounding witnesses, '
        'extremes, random bit patterns, lists of length 0..4); distinct = distinct (emitted text, argument vector) pairs executed')
    rep.assumptions += [
        'C11 is PARTIAL for proof: the Lean theorems cover the storage ladder and the op-dispatch contract only; the emitter (3.8k lines) and the C++ toolchain are NOT modelled -- '
        'their agreement with the interpreter is established by differential compile-and-run testing on generated programs, which can miss defects',
        'dispatch_contract assumes (as an explicit structure-valued hypothesis, not an axiom) that the hardware/libm +,-,*,/,sqrt,fma are the IEEE-754 correctly rounded operations '
        'in the current fesetround mode',
        'g++ -O2 -std=c++17 on x86-64 (SSE2 arithmetic, glibc libm) is the toolchain under test; a kernel whose text calls fesetround is additionally built at -O0 to '
        'separate emitter defects from the optimiser moving floating-point operations across fesetround calls; a kernel with 32/64-bit signed arithmetic whose -O2 result differs is rebuilt with -fwrapv '
        'to recognise undefined signed overflow',
        'INTEGER (unbounded) values are drawn small enough that no int64 overflow occurs: the backend documents that overflow as the user\'s problem (unsafe_cast_int=True)',
    ]




# ---------------------------------------------------------------------------
# per-program work (runs in a forked worker): import, interpret, compile under every option set

def reject_kind(msg: str) -> str:
    m = msg.lower()
    for key, k in (('strict unboxing', 'strict-unboxing'), ('unconstrained real', 'storage:real-format'), ('no storage type on the ladder', 'storage:no-rung'),
                   ('storage selection', 'storage:other'), ('lossy', 'lossy-implicit-cast'), ('unsupported literal', 'literal'),
                   ('no matching signature', 'no-op-signature'), ('unsupported', 'unsupported-construct'), ('specialization failed', 'specialization')):
        if key in m: return k
    return 'other'

def work_program(job):
    pi, p, vecs, tmp = job
    out = {'pi': pi, 'status': 'ok', 'combos': {}, 'expected': [], 'note': None}
    path = os.path.join(tmp, f'c11p_{pi}.py')
    with open(path, 'w') as fh: fh.write(HDR + p['src'])
    try:
        mod = load_module(path, f'c11p_{os.path.basename(tmp)}_{pi}')
        fn = getattr(mod, p['entry'])
    except Exception as e:   # noqa
        out['status'] = 'frontend-rejected'; out['note'] = f'{type(e).__name__}: {str(e)[:300]}'
        return out
    ctx = eval(p['ctx'], {'fp': fp})
    at = [fpy_type(d) for d in p['args']]
    # interpreter (the reference)
    for args in vecs:
        try:
            r = interp(fn, deep_copy(args), ctx)
            out['expected'].append(('ok', canon(r)))
        except Timeout:
            out['expected'].append(('skip', 'timeout'))
        except Exception as e:   # noqa
            out['expected'].append(('skip', type(e).__name__))
    # compiler, every option set
    for c in OPTION_COMBOS:
        cn = combo_name(c)
        try:
            cc = CppCompiler(optimize=c[0], unbox=c[1], arrays=c[2])
            m = Module(); m.add(fn, ctx=ctx, arg_types=at)
            text = cc.compile_module(m)
            params, ret = cc.signature(fn, ctx=ctx, arg_types=at, module=m)
            headers = '\n'.join(cc.headers()) + '\n' + cc.helpers() + '\n'
        except CppCompileError as e:
            out['combos'][cn] = ('rej', reject_kind(str(e)), str(e)[:400]); continue
        except Exception as e:   # noqa  -- the compiler itself failed: neither accepted nor refused
            out['combos'][cn] = ('crash', type(e).__name__, traceback.format_exc()[-1500:]); continue
        words, used = [], []
        for vi, args in enumerate(vecs):
            if out['expected'][vi][0] != 'ok': continue
            w = []
            for a, pty in zip(args, params):
                e = encode_arg(a, pty)
                if e is None: w = None; break
                w += e
            if w is None: continue
            words += w; used.append(vi)
        out['combos'][cn] = ('ok', text, [q.format() for q in params], ret.format(), words, used, headers)
    return out


def differential(rep, R, progs, n_vec, tmp, quick, fixed=None):
    from concurrent.futures import ProcessPoolExecutor
    import multiprocessing as mp
    # argument vectors (drawn in the parent: one PRNG)
    jobs = []
    for pi, p in enumerate(progs):
        vecs = []
        for k in range(n_vec):
            L = R.choice([0, 1, 2, 3, 4])
            vecs.append([gen_value(R, d, L) for d in p['args']])
        vecs = [list(v) for v in p.get('pinned', [])] + vecs
        if fixed is not None: vecs = fixed[pi]
        jobs.append((pi, p, vecs, tmp))
    t0 = time.time()
    # 'spawn': a forked worker pays ~10 CPU-seconds of copy-on-write faults on its first program
    nproc = min(10, os.cpu_count() or 4)
    with ProcessPoolExecutor(max_workers=nproc, mp_context=mp.get_context('spawn')) as ex:
        results = list(ex.map(work_program, jobs, chunksize=1))
    rep.cov['compile_wall_s'] = round(time.time() - t0, 1)

    # unique kernels: identical (text, parameter types, entry mode, argument words) is built and run once
    kernels: dict = {}     # key -> dict(kid, text, params, rm, words, used, users=[(pi, combo)])
    headers = None
    n_accept = n_reject = 0
    for res in results:
        p = progs[res['pi']]
        if res['status'] != 'ok':
            rep.count('program:' + res['status'])
            if len(rep.notes) < 6: rep.notes.append(f"front end rejected `{p['tag']}`: {res['note']}")
            continue
        rep.count('programs')
        rep.count('programs:' + p['tag'].split('-')[0])
        for vi, e in enumerate(res['expected']):
            rep.count('interp:' + (e[0] if e[0] == 'ok' else 'skip-' + e[1]))
        acc = 0
        for cn, c in res['combos'].items():
            if c[0] == 'rej':
                n_reject += 1; rep.count('rejected:' + c[1]); continue
            if c[0] == 'crash':
                rep.count('compiler-internal-error:' + c[1])
                if len(rep.notes) < 12: rep.notes.append(f"CppCompiler raised {c[1]} (not CppCompileError) on `{p['tag']}` [{cn}]: {c[2][-300:]}")
                rep.cov.setdefault('compiler_internal_errors', []).append({'source': p['src'], 'options': cn, 'error': c[2][-800:]}) if len(rep.cov.get('compiler_internal_errors', [])) < 5 else None
                continue
            _, text, params, ret, words, used, hdr = c
            headers = headers or hdr
            n_accept += 1; acc += 1
            rep.count('accepted:' + cn)
            key = hashlib.sha256(repr((text, params, p['rm'], p['entry'], words)).encode()).hexdigest()
            k = kernels.get(key)
            if k is None:
                k = kernels[key] = dict(kid=len(kernels), text=text, params=params, ret=ret, rm=p['rm'], entry=p['entry'], words=words, used=used,
                                        users=[], pi=res['pi'], fenv='fesetround' in text)
            k['users'].append((res['pi'], cn))
        rep.count('programs-accepted-by-some-option-set' if acc else 'programs-rejected-by-every-option-set')
    rep.cov['programs'] = rep.hist.get('programs', 0)
    rep.cov['option_combinations'] = len(OPTION_COMBOS)
    rep.cov['program_x_options_accepted'] = n_accept
    rep.cov['program_x_options_rejected'] = n_reject
    rep.cov['unique_kernels'] = len(kernels)
    if not kernels:
        rep.broke('harness', 'C11.differential', 'no program was accepted by the backend'); return
    expected = {res['pi']: res['expected'] for res in results}
    vecs_of = {j[0]: j[2] for j in jobs}

    # translation units: kernels batched; kernels that switch the rounding mode are built at -O0 as well
    ks = sorted(kernels.values(), key=lambda k: k['kid'])
    def cpp_of(k):
        class _P:   # parameter type with a .format()
            def __init__(s, f): s.f = f
            def format(s): return s.f
        return kernel_cpp(k['kid'], k['text'], k['entry'], [_P(f) for f in k['params']], k['rm'], len(k['used']), k['words'])
    per_tu = 24 if quick else 40
    tus = []
    for i in range(0, len(ks), per_tu):
        tus.append(('O2', CXXFLAGS, ks[i:i + per_tu]))
    fenv = [k for k in ks if k['fenv']]
    for i in range(0, len(fenv), per_tu * 2):
        tus.append(('O0', ['-O0', '-std=c++17', '-w'], fenv[i:i + per_tu * 2]))
    t0 = time.time()
    def do_build(tu):
        lvl, flags, kk = tu
        text = tu_text(headers, [(k['kid'], cpp_of(k)) for k in kk])
        exe, err, dt, hit = build(text, tmp, flags)
        return tu, text, exe, err, dt, hit
    with ThreadPoolExecutor(max_workers=min(10, os.cpu_count() or 4)) as ex:
        built = list(ex.map(do_build, tus))
    rep.cov['build'] = {'translation_units': len(tus), 'wall_s': round(time.time() - t0, 1), 'cache_hits': sum(1 for b in built if b[5]),
                        'cpu_s': round(sum(b[4] for b in built), 1), 'flags': ' '.join([CXX] + CXXFLAGS)}

    not_built: set = set()
    def kernel_violation(k, what, kind, extra):
        pi, cn = k['users'][0]
        p = progs[pi]
        if kind == 'does-not-compile': not_built.add(k['kid'])
        if kind == 'does-not-compile' and re.search(r'invalid initialization of reference of type .*std::(vector|array)<', extra.get('compiler_output', '')):
            kind = 'list-arg-elt-mismatch'   # a list argument whose element storage differs from the callee's parameter
        if kind == 'does-not-compile' and re.search(r"‘\w+_\d+’ was not declared in this scope", extra.get('compiler_output', '')):
            kind = 'undeclared-rebound-name'   # a name bound before an if/else and rebound in both branches is declared inside the first
        rep.count(f'violation:{kind}:{p["tag"]}')
        if rep.hist[f'violation:{kind}:{p["tag"]}'] > PER_SHAPE: return
        rep.violation(what, {'kind': kind, 'source': p['src'], 'entry': p['entry'], 'arg_types': repr(p['args']), 'ctx': p['ctx'], 'rm': p['rm'], 'tag': p['tag'],
                             'options': [u[1] for u in k['users'] if u[0] == pi], 'cpp': k['text'][:6000], 'finding': FINDING_OF_KIND.get(kind), **extra})

    # a build failure of an accepted program is a violation.  The culprit kernels are read off the
    # line numbers in the compiler output (fallback: every kernel of the unit is built alone).
    runnable = []
    retry = []
    for tu, text, exe, err, dt, hit in built:
        if exe is not None:
            runnable.append((tu, exe)); continue
        starts = []      # (first line, kernel)
        for k in tu[2]:
            marker = f'namespace K{k["kid"]} {{'
            starts.append((text[:text.index(marker)].count('\n') + 1, k))
        def owner(line):
            best = None
            for st, k in starts:
                if st <= line: best = k
            return best
        main_line = text[:text.index('\nint main(int argc')].count('\n') + 1
        culprits = {}
        for m in re.finditer(r'\.cpp:(\d+):\d+: error', err):
            ln = int(m.group(1))
            if ln >= main_line: continue
            k = owner(ln)
            if k is not None: culprits.setdefault(k['kid'], k)
        if culprits:
            for k in culprits.values():
                rep.count('does-not-compile')
                errs = [l for l in err.splitlines() if 'error' in l and any(f'.cpp:{ln}:' in l for ln in range(*[(st, st + cpp_of(k).count(chr(10)) + 1) for st, kk in starts if kk is k][0]))]
                kernel_violation(k, 'the C++ emitted for an ACCEPTED program does not build', 'does-not-compile',
                                 {'compiler_output': '\n'.join(errs)[:2500] or err[-2500:], 'flags': ' '.join(tu[1])})
            rest = [k for k in tu[2] if k['kid'] not in culprits]
            if rest: retry.append((tu[0], tu[1], rest))
        else:
            for k in tu[2]: retry.append((tu[0], tu[1], [k]))
    if retry:
        with ThreadPoolExecutor(max_workers=min(10, os.cpu_count() or 4)) as ex:
            rebuilt = list(ex.map(do_build, retry))
        for tu, text, exe, err, dt, hit in rebuilt:
            if exe is not None:
                runnable.append((tu, exe)); continue
            if len(tu[2]) == 1:
                rep.count('does-not-compile')
                kernel_violation(tu[2][0], 'the C++ emitted for an ACCEPTED program does not build', 'does-not-compile', {'compiler_output': err[-2500:], 'flags': ' '.join(tu[1])})
            else:   # still failing after removing the identified culprits: one by one
                with ThreadPoolExecutor(max_workers=min(10, os.cpu_count() or 4)) as ex:
                    for tu1, text1, exe1, err1, _, _ in ex.map(do_build, [(tu[0], tu[1], [k]) for k in tu[2]]):
                        if exe1 is not None: runnable.append((tu1, exe1))
                        else:
                            rep.count('does-not-compile')
                            kernel_violation(tu1[2][0], 'the C++ emitted for an ACCEPTED program does not build', 'does-not-compile', {'compiler_output': err1[-2500:], 'flags': ' '.join(tu1[1])})

    # run + compare
    t0 = time.time()
    def do_run(item):
        tu, exe = item
        return item, run_exe(exe, [k['kid'] for k in tu[2]], timeout=60 if quick else 300, nvec={k['kid']: len(k['used']) for k in tu[2]})
    with ThreadPoolExecutor(max_workers=8) as ex:
        ran = list(ex.map(do_run, runnable))
    rep.cov['run_wall_s'] = round(time.time() - t0, 1)
    by_kid = {k['kid']: k for k in ks}
    verdict: dict = {}      # (kid, level) -> {vi: (ok?, got_text, mode, post)}
    for (tu, exe), (lines, crashes) in ran:
        lvl = tu[0]
        for (kid, i, how) in crashes:
            k = by_kid[kid]
            if i >= len(k['used']): continue
            vi = k['used'][i]
            verdict.setdefault((kid, lvl), {})[vi] = ('crash', how, None, None)
        for (kid, i), line in lines.items():
            k = by_kid[kid]; vi = k['used'][i]
            f = line.split(' | ')
            head = f[0].split()
            mode = head[3]
            try:
                got, _ = parse_tokens(f[1].split())
                kinds, _ = leaf_kinds(f[1].split())
                post = (f[2].split() if len(f) > 2 else []) + ['#', kinds]
            except Exception as e:   # noqa
                verdict.setdefault((kid, lvl), {})[vi] = ('crash', f'unparsable output {line[:200]!r}', None, None); continue
            verdict.setdefault((kid, lvl), {})[vi] = ('ran', got, mode, post)
    # signed-overflow check: a kernel with 32/64-bit signed (or uint16, which promotes to int) arithmetic whose -O2 result differs is
    # rebuilt with -fwrapv (signed overflow wraps instead of being undefined); agreement there pins the difference on the overflow
    suspects = []
    for k in ks:
        if k['fenv'] or not re.search(r'\b(int32_t|int64_t|uint16_t)\b', k['text']): continue
        v2 = verdict.get((k['kid'], 'O2'), {})
        if any(v2.get(vi) is not None and (v2[vi][0] != 'ran' or v2[vi][1] != expected[k['pi']][vi][1]) for vi in k['used']): suspects.append(k)
    if suspects:
        tu, text, exe, err, dt, hit = do_build(('WRAPV', CXXFLAGS + ['-fwrapv'], suspects[:60]))
        if exe is not None:
            lines, crashes = run_exe(exe, [k['kid'] for k in tu[2]], timeout=120, nvec={k['kid']: len(k['used']) for k in tu[2]})
            for (kid, i), line in lines.items():
                k = by_kid[kid]; vi = k['used'][i]
                try:
                    got, _ = parse_tokens(line.split(' | ')[1].split())
                    verdict.setdefault((kid, 'WRAPV'), {})[vi] = got
                except Exception:   # noqa
                    pass
        rep.cov['wrapv_rebuilt_kernels'] = len(suspects)
    n_eval = 0
    lost: list = []          # a built kernel without an output line: must not happen (every crash is attributed)
    post_state: dict = {}   # (pi, vi) -> {post tokens: [combos]}
    for k in ks:
        pi = k['pi']; p = progs[pi]
        for vi in k['used']:
            want = expected[pi][vi][1]
            res2 = verdict.get((k['kid'], 'O2'), {}).get(vi)
            res0 = verdict.get((k['kid'], 'O0'), {}).get(vi) if k['fenv'] else None
            if res2 is None:
                rep.count('no-output')
                if k['kid'] not in not_built: lost.append((k['kid'], vi))
                continue
            n_eval += len(k['users'])
            rep.distinct.add((k['kid'], vi))
            args = vecs_of[pi][vi]
            def judge(res):
                if res[0] == 'crash':
                    # SIGFPE in a kernel with 32/64-bit signed arithmetic: INT_MIN / -1 (the context wraps, the machine division traps)
                    trap = res[1] == 'exit -8' and re.search(r'\b(int32_t|int64_t)\b', k['text']) is not None
                    return ('signed-overflow-ub' if trap or verdict.get((k['kid'], 'WRAPV'), {}).get(vi) == want else 'crash'), res[1]
                if res[1] != want:
                    kd = classify_value_diff(want, res[1], res[3][-1])
                    if kd in ('zero-sign', 'sign-only') and 'FE_DOWNWARD' not in k['text']:
                        # a literal zero as a direct argument of min/max (C11-F7), else unexplained
                        kd = 'minmax-literal-zero' if MINMAX_LIT_ZERO.search(p['src']) else 'value'
                    if verdict.get((k['kid'], 'WRAPV'), {}).get(vi) == want: kd = 'signed-overflow-ub'
                    if kd == 'value' and F32_DOUBLE_TOKEN.search(k['text']) and re.search(r'\bfloat\b', k['text']): kd = 'float-op-double-literal'
                    return kd, show_canon(res[1])
                if res[2] != k['rm']: return 'mode', f'fegetround() after the call is {res[2]}, was {k["rm"]} at entry'
                return None, None
            bad2, got2 = judge(res2)
            bad0, got0 = judge(res0) if res0 is not None else (None, None)
            rep.count('verdict:' + ('agree' if bad2 is None else 'differ-' + bad2))
            if res2[0] == 'ran':
                for u in k['users']:
                    post_state.setdefault((u[0], vi), {}).setdefault(' '.join(res2[3][:-2]), []).append(u[1])
            if bad2 is None and bad0 is None: continue
            base = {'args': repr(args), 'interp': show_canon(want)}
            WHAT = {'crash': 'the compiled program dies (assertion/signal/timeout) on an input the interpreter evaluates',
                    'value': 'compiled result differs from the interpreter',
                    'zero-sign': 'compiled result differs from the interpreter in the sign of a floating-point zero',
                    'sign-only': 'compiled result differs from the interpreter only in the sign of some values (zeros, infinities or numbers of equal magnitude)',
                    'neg-zero-integer-storage': 'the interpreter returns -0 where the compiled code holds the value in an integer type (which has no -0)',
                    'signed-overflow-ub': 'compiled result differs from the interpreter at -O2 and agrees when the same text is built with -fwrapv: the context wraps, the emitted signed C++ arithmetic overflows (undefined behaviour the optimiser assumes away)',
                    'minmax-literal-zero': 'min/max with a literal zero operand: the interpreter returns its first operand on a +0/-0 tie, the compiled code applies the IEEE order -0 < +0',
                    'float-op-double-literal': 'a non-integer literal operand of + - * / under an FP32 context is spelled as a double token: the operation runs in double and, inside a larger expression, the FP32 rounding of the intermediate is skipped',
                    'mode': 'the compiled kernel returns with a different rounding mode than it was entered with'}
            if res0 is not None:
                # a kernel that switches the rounding mode: the -O0 build shows what the emitted text means; the -O2 build
                # is compared with it separately (the optimiser may move operations across fesetround)
                if bad0 is not None:
                    rep.count('class:' + bad0)
                    kernel_violation(k, WHAT[bad0], bad0, {**base, 'compiled': got0, 'flags': '-O0 -std=c++17'})
                if res2[0] != res0[0] or res2[1] != res0[1] or res2[2] != res0[2]:
                    rep.count('class:differs-only-when-optimised(fesetround)')
                    kernel_violation(k, 'the compiled result at g++ -O2 differs from the same text built at -O0: the kernel switches the rounding mode with fesetround '
                                        'and the optimiser moved/merged floating-point operations across the call',
                                     'fenv-optimised', {**base, 'compiled': got2 if bad2 else show_canon(res2[1]), 'compiled_O0': show_canon(res0[1]) if res0[0] == 'ran' else str(res0[1]),
                                                        'flags': ' '.join(CXXFLAGS)})
            else:
                rep.count('class:' + bad2)
                kernel_violation(k, WHAT[bad2], bad2, {**base, 'compiled': got2, 'flags': ' '.join(CXXFLAGS)})
    if lost:
        rep.broke('harness', 'C11.run', f'{len(lost)} (kernel, input) pairs of built kernels produced no output line, e.g. {lost[:5]}')
    # the caller's own argument storage after the call must not depend on the option set
    for (pi, vi), d in post_state.items():
        if len(d) > 1:
            p = progs[pi]
            rep.count('class:caller-state-depends-on-options')
            rep.count(f'violation:caller-state:{p["tag"]}')
            if rep.hist[f'violation:caller-state:{p["tag"]}'] > PER_SHAPE: continue
            rep.violation("the caller's argument storage after the call depends on the compiler options",
                          {'kind': 'caller-state', 'tag': p['tag'], 'source': p['src'], 'entry': p['entry'], 'arg_types': repr(p['args']), 'ctx': p['ctx'], 'rm': p['rm'], 'args': repr(vecs_of[pi][vi]),
                           'states': {s: cs for s, cs in d.items()}, 'finding': FINDING_OF_KIND.get('caller-state')})
    rep.cov['evaluations'] = n_eval
    rep.cov['kernel_runs'] = len(rep.distinct)
    for k in ks[:3] + ks[len(ks) // 2: len(ks) // 2 + 2]:
        pi = k['pi']; p = progs[pi]
        if not k['used']: continue
        vi = k['used'][0]
        r2 = verdict.get((k['kid'], 'O2'), {}).get(vi)
        rep.sample({'source': p['src'], 'options': [u[1] for u in k['users']], 'args': repr(vecs_of[pi][vi]), 'interp': show_canon(expected[pi][vi][1]),
                    'compiled': show_canon(r2[1]) if r2 and r2[0] == 'ran' else str(r2), 'cpp': k['text'][:1500]})



# ---------------------------------------------------------------------------
# (a) the Lean model of the decision logic vs the real functions

def _bound_line(bound):
    """driver line for the model of choose_storage_scalar on a real FormatBound (the isinstance tests of the
    function are replayed here; `_to_abstract` is the real one)"""
    from fpy2.analysis.format_infer import AbstractableFormat, SetFormat, is_bottom
    from fpy2.analysis.format_infer.analysis import _to_abstract
    from fpy2.number.context.real import REAL_FORMAT
    from fpy2.number.context.mp_fixed import MPFixedFormat
    from c14 import af_tok, af_desc
    if bound is None: return 'storage none'
    if bound == REAL_FORMAT: return 'storage real'
    if not isinstance(bound, AbstractableFormat | SetFormat): return 'storage other'
    if is_bottom(bound): return 'storage bottom'
    af = _to_abstract(bound)
    if af is None: return 'storage other'
    try:
        tok = af_tok(af_desc(af))
    except ValueError:
        return None
    if isinstance(bound, MPFixedFormat): return f'storage {tok} mpfixed {bound.expmin}'
    return f'storage {tok}'

def replay(rep, data):
    """re-run the recorded programs on the recorded argument vectors (every option set)"""
    progs, fixed = [], []
    env = {'nan': NAN, 'inf': INF}
    for v in data.get('violations', []):
        if 'source' not in v or 'entry' not in v or 'arg_types' not in v: continue
        progs.append(dict(tag=v.get('tag', 'replay'), entry=v['entry'], args=eval(v['arg_types']), src=v['source'], ctx=v.get('ctx', 'fp.FP64'),
                          rm=v.get('rm', 'RNE')))
        fixed.append([eval(v['args'], env)] if v.get('args') else [[gen_value(Prng(0, 'C11r'), d) for d in progs[-1]['args']]])
    rep2 = Report(PROP, data.get('tier', 'quick'), int(data.get('seed', 0)))
    tmp = tempfile.mkdtemp(prefix='fpyverif_c11_', dir='/var/tmp')
    try:
        if progs: differential(rep2, Prng(0, 'C11r'), progs, 1, tmp, True, fixed=fixed)
    finally:
        shutil.rmtree(tmp, ignore_errors=True)
    for v in rep2.violations:
        print('VIOLATION-REPLAYED', v.get('kind'), v.get('tag'), v.get('what'), 'args=', v.get('args'), 'interp=', v.get('interp'), 'compiled=', v.get('compiled'))
    print(f'replayed {len(progs)} record(s): violations={len(rep2.violations)} broken={len(rep2.broken)}')
    return 1 if (rep2.violations or rep2.broken) else 0


def storage_correspondence(rep, R, tier):
    from fpy2.backend.cpp import storage as st
    from fpy2.backend.cpp.target import make_op_table
    from fpy2.analysis.format_infer import AbstractFormat, SetFormat
    from fpy2.analysis.format_infer.analysis import NEG_ZERO, Special
    from fpy2.number.context.real import REAL_FORMAT
    from fpy2.ast import fpyast as A
    import c14
    INFTY = float('inf')
    RFl = fp.RealFloat
    bounds = [None, REAL_FORMAT, SetFormat.bottom(), fp.INTEGER.format()]
    for v in [0, 1, -1, 127, 128, -128, -129, 255, 256, 65535, 65536, -32768, -32769, 2 ** 24, 2 ** 24 + 1, 2 ** 31 - 1, 2 ** 31, -2 ** 31, -2 ** 31 - 1,
              2 ** 32 - 1, 2 ** 32, 2 ** 53, 2 ** 53 + 1, 2 ** 63 - 1, 2 ** 63, -2 ** 63, -2 ** 63 - 1, 2 ** 64 - 1, 2 ** 64, 2 ** 200, 2 ** 1024]:
        bounds.append(SetFormat.from_value(Fraction(v)))
    for q in [Fraction(1, 2), Fraction(-3, 8), Fraction(1, 3), Fraction(1, 2 ** 149), Fraction(1, 2 ** 150), Fraction(1, 2 ** 1074), Fraction(1, 2 ** 1075), Fraction(2 ** 24 + 1, 2)]:
        bounds.append(SetFormat.from_value(q))
    bounds += [SetFormat.from_value(NEG_ZERO), SetFormat(frozenset({Fraction(1), NEG_ZERO})), SetFormat(frozenset({Fraction(0), Fraction(300)})),
               SetFormat(frozenset({Fraction(-1), Fraction(70000)})), SetFormat(frozenset({Fraction(1, 4), Fraction(5)}))]
    for sp in Special:
        bounds.append(SetFormat.from_value(sp)); bounds.append(SetFormat(frozenset({Fraction(3), sp})))
    for cn in ('SINT8', 'SINT16', 'SINT32', 'SINT64', 'UINT8', 'UINT16', 'UINT32', 'UINT64', 'FP16', 'FP32', 'FP64', 'TF32', 'BF16', 'MX_E5M2', 'MX_E4M3', 'MX_E2M1', 'REAL', 'INTEGER'):
        c = getattr(fp, cn, None)
        if c is not None: bounds.append(c.format())
    for es, nb in [(8, 32), (11, 64), (8, 33), (9, 32), (11, 65), (12, 64), (15, 128), (5, 16), (8, 31), (2, 4)]:
        bounds.append(fp.IEEEContext(es, nb).format())
    for nmin in (-4, -2, -1, 0, 1, 5):
        for (en, ei, ez) in [(False, False, False), (True, False, False), (False, True, False), (False, False, True), (True, True, True)]:
            bounds.append(fp.MPFixedContext(nmin, fp.RM.RTZ, enable_nan=en, enable_inf=ei, enable_neg_zero=ez).format())
    for p in (1, 11, 24, 25, 53, 54):
        bounds.append(fp.MPFloatContext(p).format())
        bounds.append(fp.MPSFloatContext(p, -149).format()); bounds.append(fp.MPSFloatContext(p, -1074).format())
    for signed in (True, False):
        for scale in (-2, -1, 0, 1, 3):
            for nbits in (1, 7, 8, 9, 15, 16, 17, 24, 25, 31, 32, 33, 53, 54, 63, 64, 65):
                try: bounds.append(fp.FixedContext(signed, scale, nbits).format())
                except Exception: pass   # noqa
    # integer ranges around every rung boundary, with and without the special values
    P = [0, 1, 127, 128, 255, 256, 32767, 32768, 65535, 65536, 2 ** 24, 2 ** 24 + 1, 2 ** 31 - 1, 2 ** 31, 2 ** 32 - 1, 2 ** 32, 2 ** 53, 2 ** 53 + 1,
         2 ** 63 - 1, 2 ** 63, 2 ** 64 - 1, 2 ** 64]
    N = [0, 1, 128, 129, 32768, 32769, 2 ** 24, 2 ** 24 + 1, 2 ** 31, 2 ** 31 + 1, 2 ** 53, 2 ** 53 + 1, 2 ** 63, 2 ** 63 + 1]
    descs = []
    for pv in P:
        for nv in N:
            fl = R.choice(c14.FLAGSETS) if R.random() < 0.3 else (False, False, False, False)
            for e in (0, 0, R.choice([-1, 1, 2])):
                descs.append((None, e, ('fin', False, 0, pv), ('fin', nv != 0, 0, nv), fl))
    # float-shaped formats around the two floating rungs
    for p in (23, 24, 25, 52, 53, 54):
        for e in (-1075, -1074, -150, -149, -148, -10, 0):
            for (qe, qc) in [(104, 2 ** 24 - 1), (104, 2 ** 24), (105, 2 ** 23), (971, 2 ** 53 - 1), (971, 2 ** 53), (0, 1000)]:
                fl = R.choice(c14.FLAGSETS)
                descs.append((p, e, ('fin', False, qe, qc), ('fin', True, qe, qc), fl))
    fin = c14.finite_grid()
    nf = 400 if tier == 'quick' else len(fin)
    for f in R.sample(fin, min(nf, len(fin))):
        descs.append(f + (R.choice(c14.FLAGSETS),))
    for d in descs:
        try:
            bounds.append(c14.af_obj(d).format())
        except Exception:   # noqa  (ill-formed descriptor for the constructor / format())
            rep.count('storage-grid:format()-raised')
    lines, meta = [], []
    for b in bounds:
        try:
            line = _bound_line(b)
        except Exception as e:   # noqa
            rep.count('storage-grid:to_abstract-raised:' + type(e).__name__); continue
        if line is None:
            rep.count('storage-grid:unmodelled-bound'); continue
        try:
            got = 'ok ' + st.choose_storage_scalar(b).name
        except st.StorageSelectionError:
            got = 'err'
        except Exception as e:   # noqa
            got = 'raised ' + type(e).__name__
        lines.append(line); meta.append((got, repr(b)[:300]))
    # the ladder itself, scalar_fits_in, scalar_sup
    from fpy2.backend.cpp.types import CppScalar
    lines.append('ladder'); meta.append(('ok ' + ' '.join(f'{ty.name}={c14.af_tok(c14.af_desc(af))}' for ty, af in st._LADDER), '_LADDER'))
    tys = list(CppScalar)
    for a in tys:
        for b in tys:
            lines.append(f'fitsin {a.name} {b.name}'); meta.append(('ok ' + b01(st.scalar_fits_in(a, b)), f'scalar_fits_in({a},{b})'))
    groups = [[a, b] for a in tys for b in tys] + [[R.choice(tys) for _ in range(3)] for _ in range(60)]
    for g in groups:
        try: got = 'ok ' + st.scalar_sup(list(g)).name
        except st.StorageSelectionError: got = 'err'
        lines.append('sup ' + ' '.join(t.name for t in g)); meta.append((got, f'scalar_sup({g})'))
    # the op table and phases (1), (2) of _dispatch (replayed with the real table, the real `matches`, the real scalar_fits_in)
    table = make_op_table()
    NODES = {'add': (A.Add, table.binary), 'sub': (A.Sub, table.binary), 'mul': (A.Mul, table.binary), 'div': (A.Div, table.binary),
             'neg': (A.Neg, table.unary), 'abs': (A.Abs, table.unary), 'sqrt': (A.Sqrt, table.unary), 'fma': (A.Fma, table.ternary)}
    RMS = {'rne': fp.RM.RNE, 'rtz': fp.RM.RTZ, 'rtp': fp.RM.RTP, 'rtn': fp.RM.RTN}
    ctxs = {}
    for r, rm in RMS.items():
        ctxs[f'fp32:{r}'] = fp.IEEEContext(8, 32, rm); ctxs[f'fp64:{r}'] = fp.IEEEContext(11, 64, rm)
    for n in (8, 16, 32, 64):
        ctxs[f'sint{n}'] = getattr(fp, f'SINT{n}'); ctxs[f'uint{n}'] = getattr(fp, f'UINT{n}')
    ctxs['integer'] = fp.INTEGER
    def ctx_tok(c):
        for k, v in ctxs.items():
            if v == c: return k
        return '?' + repr(c)
    def show_sig(s): return f'{s.name} {",".join(t.name for t in s.in_tys)} {ctx_tok(s.out_ctx)}'
    for nd, (cls, tab) in NODES.items():
        lines.append(f'sigs {nd}'); meta.append(('ok ' + ' | '.join(show_sig(s) for s in tab[cls]), f'make_op_table()[{cls.__name__}]'))
    for k, c in ctxs.items():
        lines.append(f'ctxty {k}'); meta.append(('ok ' + st.choose_storage_scalar(c.format()).name, f'_ty_of({k})'))
    num_tys = [t for t in tys if t is not CppScalar.BOOL]
    def real_dispatch(cls, tab, in_tys, active):
        sigs = tab[cls]
        for s in sigs:
            if s.matches(tuple(in_tys), active): return s
        try: target = st.choose_storage_scalar(active.format())
        except st.StorageSelectionError: target = None
        if target is not None:
            want = (target,) * len(in_tys)
            for s in sigs:
                if s.in_tys == want and s.out_ctx == active:
                    if all(h == target or st.scalar_fits_in(h, target) for h in in_tys): return s
                    return None
        return None
    for nd, (cls, tab) in NODES.items():
        ar = {'neg': 1, 'abs': 1, 'sqrt': 1, 'fma': 3}.get(nd, 2)
        combos = list(itertools.product(num_tys, repeat=ar)) if ar < 3 else [tuple(R.choice(num_tys) for _ in range(3)) for _ in range(60)] + [(t, t, t) for t in num_tys]
        for k, c in ctxs.items():
            for in_tys in (combos if ar == 1 or tier != 'quick' else R.sample(combos, min(len(combos), 30)) + [(t,) * ar for t in num_tys]):
                s = real_dispatch(cls, tab, in_tys, c)
                lines.append(f'cdispatch {nd} {k} ' + ' '.join(t.name for t in in_tys)); meta.append(('ok ' + show_sig(s) if s is not None else 'err', f'_dispatch({nd},{in_tys},{k})'))
    # the interpreter context each native context is modelled by (NativeCtx.toCtx, Node.toOp): real fp.ops vs opEval
    from numcanon import canon_fv, fv_of_obj, err_name
    OPN = {'add': 'add', 'sub': 'sub', 'mul': 'mul', 'div': 'div', 'neg': 'neg', 'abs': 'fabs', 'sqrt': 'sqrt', 'fma': 'fma'}
    for k, c in ctxs.items():
        isfp = k.startswith('fp')
        pool = (F32_POOL if k.startswith('fp32') else F64_POOL) if isfp else None
        for nd in (NODES if isfp else ('add', 'sub', 'mul', 'neg', 'abs', 'div')):
            ar = {'neg': 1, 'abs': 1, 'sqrt': 1, 'fma': 3}.get(nd, 2)
            for _ in range(4 if tier == 'quick' else 40):
                if isfp:
                    xs = [R.choice(pool) for _ in range(ar)]
                    toks = ['D' + str(struct.unpack('<Q', struct.pack('<d', x))[0]) for x in xs]
                    args = [fp.Float.from_float(x) for x in xs]
                else:
                    lo, hi = INT_RANGE['int' if k == 'integer' else ('s' if k.startswith('sint') else 'u') + k[4:]]
                    xs = [gen_value(R, 'int' if k == 'integer' else ('s' if k.startswith('sint') else 'u') + k[4:]) for _ in range(ar)]
                    if nd == 'div' and xs[1] == 0: xs[1] = 3
                    toks = ['I' + str(x) for x in xs]
                    args = [fp.Float.from_int(x) for x in xs]
                try:
                    y = getattr(fp.ops, OPN[nd])(*args, ctx=c)
                    got = 'ok ' + canon_fv(fv_of_obj(y))
                except Exception as e:   # noqa
                    got = 'err ' + err_name(e)
                lines.append(f'cop {nd} {k} ' + ' '.join(toks)); meta.append((got, f'fp.ops.{OPN[nd]}({xs}, ctx={k})'))
    model = run_driver(lines)
    n_bad = 0
    for line, (got, what), mod in zip(lines, meta, model):
        if line.startswith('cop '): mod = mod.split(' # ')[0]
        rep.count('storage-grid:' + line.split()[0] + ':' + got.split()[0] + (':' + got.split()[1] if line.startswith('storage') and got.startswith('ok') else ''))
        if got != mod:
            n_bad += 1
            if n_bad <= 10:
                rep.broke('correspondence', 'C11.storage', f'{what}\nline ={line}\nimpl ={got}\nmodel={mod}')
    rep.cov['storage_grid'] = {'lines': len(lines), 'bounds': len(bounds), 'disagreements': n_bad}
