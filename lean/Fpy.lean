import Fpy.Model.Num.RealFloat
import Fpy.Model.Num.Round
import Fpy.Model.Num.Float
import Fpy.Model.Num.Ctx
