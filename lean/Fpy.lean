-- all modules of the library (regenerate with tools/mkroot.py)
import Fpy.Model.Lang.Core
import Fpy.Model.Num.Ctx
import Fpy.Model.Num.Engine
import Fpy.Model.Num.Float
import Fpy.Model.Num.RealFloat
import Fpy.Model.Num.Round
import Fpy.Proof.Round
import Fpy.Proof.Stochastic
import Fpy.Props.C01
import Fpy.Props.C04
import Fpy.Props.C17
import Fpy.Spec.Rounding
