/- Line-protocol handlers for C13: value-class transfer tables and the union-find model. -/
import Driver.Parse
import Fpy.Model.VClass
import Fpy.Model.UnionFind
namespace Fpy.Drv
open Fpy Fpy.C13

def pVC : P VC := do
  let n ← pNat
  if n < 16 then pure (VC.ofBits n) else throw s!"vc:{n}"

def showVC (a : VC) : String := toString a.toBits
def showOptVC : Option VC → String | none => "-" | some a => showVC a

def pCmpOp : P CmpOp := do
  let t ← tok
  match t with
  | "lt" => pure .lt | "le" => pure .le | "ge" => pure .ge | "gt" => pure .gt
  | "eq" => pure .eq | "ne" => pure .ne
  | _ => throw s!"cmpop:{t}"

def pLit : P Lit := do
  let t ← tok
  match t with
  | "notlit" => pure .notLit | "zero" => pure .zero | "nonzero" => pure .nonzero
  | _ => throw s!"lit:{t}"

def clsName : Cls → String
  | .nan => "nan" | .inf => "inf" | .zero => "zero" | .fin => "finite"

def natSort (l : List Nat) : List Nat := (l.toArray.qsort (· < ·)).toList
def showNats (l : List Nat) : String := ",".intercalate (l.map toString)

/-- parse `a,b` -/
def nat2 (t : String) : Option (Nat × Nat) :=
  match t.splitOn "," with
  | [a, b] => match a.toNat?, b.toNat? with
    | some a, some b => some (a, b)
    | _, _ => none
  | _ => none

/-- one union-find operation token: `a<x>` add, `f<x>` find, `g<x>` get, `u<x>,<y>` union,
`c<x>` component, `i` items, `r` representatives, `n` len, `m<x>` contains;
prints the canonical result and returns the new state -/
def ufOp (u : UF) (t : String) : Except String (UF × String) :=
  let body := (t.drop 1).toString
  let nat : Except String Nat := match body.toNat? with | some n => .ok n | none => .error s!"ufop:{t}"
  if t.startsWith "a" then do
    let x ← nat; let (u', r) := u.add x; pure (u', toString r)
  else if t.startsWith "f" then do
    let x ← nat
    match u.find x with
    | none => pure (u, "KeyError")
    | some (u', r) => pure (u', toString r)
  else if t.startsWith "g" then do
    let x ← nat
    let (u', r) := u.get x
    pure (u', match r with | none => "None" | some r => toString r)
  else if t.startsWith "u" then
    match nat2 body with
    | none => .error s!"ufop:{t}"
    | some (x, y) =>
      match u.union x y with
      | none => pure (u, "KeyError")
      | some (u', r) => pure (u', toString r)
  else if t.startsWith "c" then do
    let x ← nat
    match u.component x with
    | none => pure (u, "KeyError")
    | some (u', ms) => pure (u', "{" ++ showNats (natSort ms) ++ "}")
  else if t == "i" then
    pure (u, "[" ++ " ".intercalate (u.items.map (fun p => s!"{p.1}:{p.2}")) ++ "]")
  else if t == "r" then
    pure (u, "{" ++ showNats (natSort u.representatives) ++ "}")
  else if t == "n" then
    pure (u, toString u.dom.length)
  else if t.startsWith "m" then do
    let x ← nat; pure (u, b01 (u.contains x))
  else .error s!"ufop:{t}"

def handleAnalysis (op : String) : Option (P String) :=
  match op with
  | "vclass" => some do
      let what ← tok
      match what with
      | "add" => do let a ← pVC; let b ← pVC; pure (showVC (exactAdd a b))
      | "mul" => do let a ← pVC; let b ← pVC; pure (showVC (exactMul a b))
      | "logb" => do let a ← pVC; pure (showVC (mapTable logbTable a))
      | "pow" => do let a ← pVC; pure (showVC (mapTable powPosBaseTable a))
      | "join" => do let a ← pVC; let b ← pVC; pure (showVC (a ||| b))
      | "meet" => do let a ← pVC; let b ← pVC; pure (showVC (a &&& b))
      | "minmax" => do
          let rest ← get
          let mut as : List VC := []
          for _ in rest do
            let a ← pVC
            as := as ++ [a]
          pure (showVC (minMax as))
      | "repr" => do let C ← pCtx; pure (showVC (representableClasses C))
      | "rounded" => do
          let a ← pVC
          let rest ← get
          match rest with
          | ["none"] => pure (showVC (rounded none a))
          | _ => do let C ← pCtx; pure (showVC (rounded (some C) a))
      | "sum" => do
          let a ← pVC
          let rest ← get
          match rest with
          | ["none"] => pure (showVC (sumRule none a))
          | _ => do let C ← pCtx; pure (showVC (sumRule (some C) a))
      | "classof" => do let v ← pFV; pure (clsName (classOf v))
      | "pred" => do
          let p ← tok; let t ← pBool
          let p' : Option Pred := match p with
            | "isnan" => some .isnan | "isinf" => some .isinf | "isfinite" => some .isfinite
            | "isnormal" => some .isnormal | _ => none
          match p' with
          | none => throw s!"pred:{p}"
          | some p' => pure (showOptVC (impliedPred p' t))
      | "linkT" => do let o ← pCmpOp; let l ← pLit; pure (showOptVC (impliedLinkTrue o l))
      | "linkF" => do let o ← pCmpOp; let l ← pLit; pure (showOptVC (impliedLinkFalse o l))
      | _ => throw s!"vclass:{what}"
  | "uf" => some do
      let rest ← get
      set ([] : List String)
      let mut u := UF.empty
      let mut outs : List String := []
      for t in rest do
        match ufOp u t with
        | .error e => throw e
        | .ok (u', s) => u := u'; outs := outs ++ [s]
      pure (" ".intercalate outs)
  | _ => none

end Fpy.Drv
