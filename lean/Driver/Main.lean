import Driver.Num
import Driver.Lang
import Driver.Check
import Driver.Exact
import Driver.Literal
import Driver.Enc
import Driver.AbsFmt
import Driver.Cursor
import Driver.FPCore
import Driver.Storage
import Driver.Analysis
import Driver.Boundary
import Driver.Sim
import Driver.Lib
open Fpy Fpy.Drv

def handlers : List (String → Option (P String)) := [handleNum, handleCheck, handleExact, handleLiteral, handleEnc, handleAbsFmt, handleCursor, handleFPCore, handleStorage, handleAnalysis, handleBoundary, handleLib]

def handleLine (line : String) : String :=
  match handleLangLine line with
  | some out => out
  | none =>
  match handleSimLine line with
  | some out => out
  | none =>
  let toks := (line.splitOn " ").filter (· != "")
  match toks with
  | [] => "bad-op"
  | op :: rest =>
    match handlers.findSome? (· op) with
    | none => "bad-op"
    | some p =>
      match runP p rest with
      | .ok s => s
      | .error e => s!"bad-args {e}"

partial def loop (h : IO.FS.Stream) (out : IO.FS.Stream) : IO Unit := do
  let line ← h.getLine
  if line.isEmpty then return ()
  out.putStrLn (handleLine (line.trimAscii.toString))
  loop h out

def main : IO Unit := do
  let stdin ← IO.getStdin
  let stdout ← IO.getStdout
  loop stdin stdout
  stdout.flush
