/- Line-protocol handler for property C05 (exact arithmetic on the five numeric types).

`rfop <name> <operand> [<operand> | <int> ...]`, operands in the token syntax of `Driver.Parse`
(`Ff<s>:<exp>:<c>` `Fi<s>` `Fn<s>` `R<s>:<exp>:<c>` `I<int>` `D<binary64 bits>` `Q<num>/<den>`).
Unlike `pOperand`, a `D` token stays a Python `float` (type dispatch differs from `Float`). -/
import Driver.Parse
import Fpy.Model.Num.Mixed
namespace Fpy.Drv
open Fpy

def pNum : P Num := do
  let t ← tok
  let body := (t.drop 1).toString
  if t.startsWith "F" then
    match fvOfString body with | .ok v => pure (.F v) | .error e => throw e
  else if t.startsWith "R" then
    match rfOfString body with | .ok v => pure (.R v) | .error e => throw e
  else if t.startsWith "I" then
    match body.toInt? with | some i => pure (.I i) | none => throw s!"operand:{t}"
  else if t.startsWith "D" then
    match body.toNat? with | some b => pure (.D (fvOfF64Bits b)) | none => throw s!"operand:{t}"
  else if t.startsWith "Q" then
    match body.splitOn "/" with
    | [a, b] => match a.toInt?, b.toNat? with
      | some a, some b => pure (.Q a b)
      | _, _ => throw s!"operand:{t}"
    | _ => throw s!"operand:{t}"
  else throw s!"operand:{t}"

/-- result value: canonical value, result type, raw encoding -/
def showNum : Num → String
  | .F v => s!"ok {canonFV v} ty=F raw={rawFV v}"
  | .R x => s!"ok {canonRF x} ty=R raw={rawFV (.fin x)}"
  | .D v => s!"ok {canonFV v} ty=D"
  | .I i => s!"ok int {i} ty=I"
  | .Q n d => s!"ok rat {n}/{d} ty=Q"

def showE {α} (f : α → String) : Except Err α → String
  | .ok a => f a
  | .error e => s!"err {errName e}"

def showOrd : Option Ordering → String
  | none => "ok none" | some .lt => "ok lt" | some .eq => "ok eq" | some .gt => "ok gt"

def showRat (q : Rat) : String := s!"{q.num}/{q.den}"

def showKey : RF.HashKey → String
  | .nan => "ok nan"
  | .inf s => s!"ok inf {b01 s}"
  | .int i => s!"ok int {i}"
  | .frac q => s!"ok frac {showRat q}"

def showFVraw (v : FV) : String := s!"{canonFV v} raw={rawFV v}"

def handleExact (op : String) : Option (P String) :=
  match op with
  | "rfop" => some do
    let name ← tok
    match name with
    | "add" => do let a ← pNum; let b ← pNum; pure (showE showNum (Num.binop .add a b))
    | "sub" => do let a ← pNum; let b ← pNum; pure (showE showNum (Num.binop .sub a b))
    | "mul" => do let a ← pNum; let b ← pNum; pure (showE showNum (Num.binop .mul a b))
    | "pow" => do let a ← pNum; let k ← pInt; pure (showE showNum (Num.pow a k))
    | "neg" | "pos" | "abs" => do let a ← pNum; pure (showE showNum (Num.unop name a))
    | "cmp" => do let a ← pNum; let b ← pNum; pure (showE showOrd (Num.compare a b))
    | "eq" => do let a ← pNum; let b ← pNum; pure (showE (fun r => s!"ok {b01 r}") (Num.cmpOp .eq a b))
    | "lt" => do let a ← pNum; let b ← pNum; pure (showE (fun r => s!"ok {b01 r}") (Num.cmpOp .lt a b))
    | "le" => do let a ← pNum; let b ← pNum; pure (showE (fun r => s!"ok {b01 r}") (Num.cmpOp .le a b))
    | "gt" => do let a ← pNum; let b ← pNum; pure (showE (fun r => s!"ok {b01 r}") (Num.cmpOp .gt a b))
    | "ge" => do let a ← pNum; let b ← pNum; pure (showE (fun r => s!"ok {b01 r}") (Num.cmpOp .ge a b))
    | "hashkey" => do let a ← pNum; pure (showE showKey (Num.hashKey a))
    | "int" => do let a ← pNum; pure (showE (fun i => s!"ok int {i}") (Num.toInt a))
    | "float" => do let a ← pNum; pure (showE (fun v => s!"ok {canonFV v}") (Num.toFloat a))
    | "rat" => do let a ← pNum; pure (showE (fun q => s!"ok rat {showRat q}") (Num.asRational a))
    | "split" => do
      let a ← pNum; let n ← pInt
      match a with
      | .R x => let (h, l) := x.split n; pure s!"ok {showFVraw (.fin h)} | {showFVraw (.fin l)}"
      | .F v => let (h, l) := v.split n; pure s!"ok {showFVraw h} | {showFVraw l}"
      | _ => pure "err TypeError"
    | "normalize" => do
      let a ← pNum; let p ← pOptInt; let n ← pOptInt
      match a with
      | .R x => pure (showE (fun y => s!"ok {showFVraw (.fin y)}") (x.normalizeI p n))
      | .F v => pure (showE (fun y => s!"ok {showFVraw y}") (v.normalizeI p n))
      | _ => pure "err TypeError"
    | "bit" => do
      let a ← pNum; let n ← pInt
      match a with
      | .R x => pure s!"ok {b01 (x.bit n)}"
      | _ => pure "err TypeError"
    | "moresig" => do
      let a ← pNum; let n ← pInt
      match a with
      | .R x => pure s!"ok {b01 (x.isMoreSignificant n)}"
      | .F v => pure (showE (fun r => s!"ok {b01 r}") (v.isMoreSignificant? n))
      | _ => pure "err TypeError"
    | "ident" => do
      let a ← pNum; let b ← pNum
      match a, b with
      | .R x, .R y => pure s!"ok {b01 (x.isIdenticalTo y)}"
      | _, _ => pure "err TypeError"
    | _ => throw s!"rfop:{name}"
  | _ => none

end Fpy.Drv
