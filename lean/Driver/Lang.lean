/- reader/printer for core-language programs and values; op `eval` -/
import Driver.Parse
import Driver.Num
import Driver.Sexp
import Fpy.Model.Lang.Core
namespace Fpy.Drv
open Fpy Fpy.Lang

abbrev R := Except String

def atomOf : Sexp → R String
  | .atom s => .ok s
  | x => .error s!"atom expected: {x.toString}"

/-- a number inside a program or an argument list: a `Fraction` stays a `Fraction` (even when its value
is dyadic) — only `ops.*` convert it on entry (`_cvt_to_real`, modelled by `cvtReal`) -/
def nvOfTok (t : String) : R NV :=
  match runP pOperand [t] with
  | .ok (.frac n d) => .ok (NV.frac n d)
  | .ok o => .ok (operandNV o)
  | .error e => .error e

def ctxOfSexps (xs : List Sexp) : R Ctx := do
  let toks ← xs.mapM atomOf
  match runP pCtx toks with
  | .ok c => .ok c
  | .error e => .error e

def cmpOfTok : String → R CmpOp
  | "lt" => .ok .lt | "le" => .ok .le | "gt" => .ok .gt | "ge" => .ok .ge | "eq" => .ok .eq | "ne" => .ok .ne
  | t => .error s!"cmpop:{t}"

def predOfTok : String → R Pred
  | "isnan" => .ok .isnan | "isinf" => .ok .isinf | "isfinite" => .ok .isfinite | "signbit" => .ok .signbit
  | "isnormal" => .ok .isnormal
  | t => .error s!"pred:{t}"

partial def patOf : Sexp → R Pat
  | .atom "_" => .ok .wild
  | .atom x => .ok (.var x)
  | .list (.atom "tup" :: ps) => do .ok (.tup (← ps.mapM patOf))
  | x => .error s!"pat: {x.toString}"

partial def exprOf : Sexp → R Expr
  | .list [.atom "var", .atom x] => .ok (.var x)
  | .list [.atom "bool", .atom b] => .ok (.bool (b == "1"))
  | .list [.atom "num", .atom t] => do .ok (.num (← nvOfTok t))
  | .list (.atom "ctx" :: rest) => do .ok (.ctxLit (← ctxOfSexps rest))
  | .list (.atom "op" :: .atom name :: args) => do
    match opOfName name with
    | some o => .ok (.op o (← args.mapM exprOf))
    | none => .error s!"op:{name}"
  | .list [.atom "pred", .atom p, a] => do .ok (.pred (← predOfTok p) (← exprOf a))
  | .list (.atom "cmp" :: .list ops :: args) => do
    .ok (.cmp (← ops.mapM (fun o => do cmpOfTok (← atomOf o))) (← args.mapM exprOf))
  | .list [.atom "not", a] => do .ok (.not (← exprOf a))
  | .list (.atom "and" :: es) => do .ok (.and (← es.mapM exprOf))
  | .list (.atom "or" :: es) => do .ok (.or (← es.mapM exprOf))
  | .list [.atom "ite", c, t, f] => do .ok (.ite (← exprOf c) (← exprOf t) (← exprOf f))
  | .list (.atom "tuple" :: es) => do .ok (.tuple (← es.mapM exprOf))
  | .list (.atom "list" :: es) => do .ok (.list (← es.mapM exprOf))
  | .list [.atom "index", a, i] => do .ok (.index (← exprOf a) (← exprOf i))
  | .list [.atom "slice", a, s, t] => do
    let opt (x : Sexp) : R (Option Expr) := match x with | .atom "_" => .ok none | y => do .ok (some (← exprOf y))
    .ok (.slice (← exprOf a) (← opt s) (← opt t))
  | .list [.atom "comp", .list gens, elt] => do
    let pairs ← gens.mapM (fun g => match g with
      | .list [p, it] => do .ok ((← patOf p), (← exprOf it))
      | x => .error s!"gen: {x.toString}")
    .ok (.comp (pairs.map (·.1)) (pairs.map (·.2)) (← exprOf elt))
  | .list [.atom "len", a] => do .ok (.len (← exprOf a))
  | .list (.atom "range" :: es) => do .ok (.range (← es.mapM exprOf))
  | .list (.atom "zip" :: es) => do .ok (.zip (← es.mapM exprOf))
  | .list [.atom "enumerate", a] => do .ok (.enumerate (← exprOf a))
  | .list [.atom "sum", a] => do .ok (.sum (← exprOf a))
  | .list (.atom "min" :: es) => do .ok (.min (← es.mapM exprOf))
  | .list (.atom "max" :: es) => do .ok (.max (← es.mapM exprOf))
  | .list [.atom "any", a] => do .ok (.any (← exprOf a))
  | .list [.atom "all", a] => do .ok (.all (← exprOf a))
  | .list [.atom "roundat", a, n] => do .ok (.roundAt (← exprOf a) (← exprOf n))
  | .list (.atom "call" :: .atom f :: args) => do .ok (.call f (← args.mapM exprOf))
  | x => .error s!"expr: {x.toString}"

mutual
partial def stmtOf : Sexp → R Stmt
  | .list [.atom "assign", p, e] => do .ok (.assign (← patOf p) (← exprOf e))
  | .list [.atom "iassign", .atom x, .list idxs, e] => do .ok (.iassign x (← idxs.mapM exprOf) (← exprOf e))
  | .list [.atom "if", c, .list t, .list f] => do .ok (.ifte (← exprOf c) (← blockOf t) (← blockOf f))
  | .list [.atom "if1", c, .list t] => do .ok (.if1 (← exprOf c) (← blockOf t))
  | .list [.atom "while", c, .list b] => do .ok (.while (← exprOf c) (← blockOf b))
  | .list [.atom "for", p, it, .list b] => do .ok (.for (← patOf p) (← exprOf it) (← blockOf b))
  | .list [.atom "with", ce, .atom nm, .list b] => do
    .ok (.with (← exprOf ce) (if nm == "_" then none else some nm) (← blockOf b))
  | .list [.atom "assert", e] => do .ok (.assert (← exprOf e))
  | .list [.atom "effect", e] => do .ok (.effect (← exprOf e))
  | .list [.atom "return", e] => do .ok (.ret (← exprOf e))
  | .list [.atom "pass"] => .ok .pass
  | x => .error s!"stmt: {x.toString}"
partial def blockOf (xs : List Sexp) : R (List Stmt) := xs.mapM stmtOf
end

def funcOf : Sexp → R FuncDef
  | .list [.atom "func", .atom name, .list params, ctx, .list body] => do
    let ps ← params.mapM atomOf
    let c ← (match ctx with
      | .atom "_" => .ok none
      | .list xs => do .ok (some (← ctxOfSexps xs))
      | x => .error s!"ctx: {x.toString}")
    .ok { name := name, params := ps, ctx := c, body := (← blockOf body) }
  | x => .error s!"func: {x.toString}"

/-- read an argument value; lists are allocated in the heap -/
partial def valOf (μ : Heap) : Sexp → R (Val × Heap)
  | .list [.atom "b", .atom b] => .ok (.bool (b == "1"), μ)
  | .list [.atom "n", .atom t] => do .ok (.num (← nvOfTok t), μ)
  | .list (.atom "c" :: rest) => do .ok (.ctx (← ctxOfSexps rest), μ)
  | .list (.atom "t" :: vs) => do
    let mut m := μ; let mut out : Array Val := #[]
    for v in vs do
      let (x, m') ← valOf m v
      m := m'; out := out.push x
    .ok (.tuple out.toList, m)
  | .list (.atom "l" :: vs) => do
    let mut m := μ; let mut out : Array Val := #[]
    for v in vs do
      let (x, m') ← valOf m v
      m := m'; out := out.push x
    let (m', r) := alloc m out.toList
    .ok (r, m')
  | x => .error s!"val: {x.toString}"

def showNVc : NV → String
  | .fv v => canonFV v
  | .q n d => match NV.ofRat n d with | .fv v => canonFV v | .q n d => s!"frac {n}/{d}"

partial def showVal (μ : Heap) : Val → String
  | .bool b => s!"(b {b01 b})"
  | .num v => s!"(n {showNVc v})"
  | .ctx _ => "(c)"
  | .tuple vs => "(t " ++ " ".intercalate (vs.map (showVal μ)) ++ ")"
  | .list r => match μ[r]? with
    | some l => "(l " ++ " ".intercalate (l.map (showVal μ)) ++ ")"
    | none => "(l ?)"

/-- `eval <fuel> <entry> <ctx-sexp or _> (funcs…) (args…)` — everything after the op token is S-expressions -/
def handleLangLine (line : String) : Option String :=
  if !line.startsWith "eval " then none else
  some <| match readSexps (line.drop 5).toString with
  | .error e => s!"bad-args {e}"
  | .ok [.atom fuel, .atom entry, ctx, .list funcs, .list args] =>
    match (do
      let fs ← funcs.mapM funcOf
      let c ← (match ctx with | .atom "_" => .ok none | .list xs => do .ok (some (← ctxOfSexps xs)) | x => .error s!"ctx {x.toString}")
      let mut μ : Heap := []
      let mut vs : Array Val := #[]
      for a in args do
        let (v, m) ← valOf μ a
        μ := m; vs := vs.push v
      pure (fs, c, vs.toList, μ) : R _) with
    | .error e => s!"bad-args {e}"
    | .ok (fs, c, vs, μ) =>
      match callEntry ⟨fs⟩ (fuel.toNat?.getD 1000) entry vs μ c with
      | .error e => s!"err {errName e}"
      | .ok (v, μ') => s!"ok {showVal μ' v}"
  | .ok _ => "bad-args shape"

end Fpy.Drv
