/- Line-protocol handler for the `AbstractFormat` model (C14).

Format token (no spaces): `A<prec>/<exp>/<pos>/<neg>/<flags>`
  prec  = decimal | `oo`            (float('inf'))
  exp   = integer | `-oo`           (float('-inf'))
  bound = `s:exp:c` | `+oo` | `-oo` | `nan`
  flags = 4 characters 0/1: has_pos_inf has_neg_inf has_nan has_neg_zero
-/
import Driver.Parse
import Fpy.Spec.AbsFmt
namespace Fpy.Drv
open Fpy

def bndOfString (t : String) : Except String Bnd :=
  if t == "+oo" then .ok (.inf false) else if t == "-oo" then .ok (.inf true)
  else if t == "nan" then .ok .nan
  else (rfOfString t).map Bnd.fin

def flagOf (c : Char) : Except String Bool :=
  if c == '1' then .ok true else if c == '0' then .ok false else .error s!"flag:{c}"

def absFmtOfString (t : String) : Except String AbsFmt := do
  if !t.startsWith "A" then throw s!"absfmt:{t}"
  match ((t.drop 1).toString).splitOn "/" with
  | [p, e, pb, nb, fl] =>
    let prec ← (if p == "oo" then pure none else
      match p.toNat? with
      | some n => if n == 0 then throw s!"prec:{p}" else pure (some n)
      | none => throw s!"prec:{p}" : Except String (Option Nat))
    let exp ← (if e == "-oo" then pure none else
      match e.toInt? with | some n => pure (some n) | none => throw s!"exp:{e}" : Except String (Option Int))
    let pos ← bndOfString pb
    let neg ← bndOfString nb
    match fl.toList with
    | [a, b, c, d] =>
      let a ← flagOf a; let b ← flagOf b; let c ← flagOf c; let d ← flagOf d
      pure { prec := prec, exp := exp, pos := pos, neg := neg, posInf := a, negInf := b, nan := c, negZero := d }
    | _ => throw s!"flags:{fl}"
  | _ => throw s!"absfmt:{t}"

def pAbsFmt : P AbsFmt := do
  let t ← tok
  match absFmtOfString t with | .ok x => pure x | .error e => throw e

def showBnd : Bnd → String
  | .fin x => s!"{b01 x.s}:{x.exp}:{x.c}"
  | .inf false => "+oo" | .inf true => "-oo" | .nan => "nan"

def showPrec : Option Nat → String | none => "oo" | some p => toString p
def showExp : Option Int → String | none => "-oo" | some e => toString e

def showAbsFmt (a : AbsFmt) : String :=
  s!"A{showPrec a.prec}/{showExp a.exp}/{showBnd a.pos}/{showBnd a.neg}/{b01 a.posInf}{b01 a.negInf}{b01 a.nan}{b01 a.negZero}"

def showAbsRes : Except Err AbsFmt → String
  | .ok a => "ok " ++ showAbsFmt a
  | .error e => s!"err {errName e}"

def pShape : P AbsFmt.FmtShape := do
  let t ← tok
  match t with
  | "real" => pure .real
  | "fixedu" => do let e ← pInt; let p ← pRF; pure (.fixedUnsigned e p)
  | "mpbfixed" => do let e ← pInt; let p ← pRF; let n ← pRF; pure (.mpbFixed e p n)
  | "mpfixed" => do let e ← pInt; pure (.mpFixed e)
  | "exp" => do let e ← pInt; let p ← pRF; pure (.expFmt e p)
  | "mpbfloat" => do let pm ← pNat; let e ← pInt; let p ← pRF; let n ← pRF; pure (.mpbFloat pm e p n)
  | "mpsfloat" => do let pm ← pNat; let e ← pInt; pure (.mpsFloat pm e)
  | "mpfloat" => do let pm ← pNat; pure (.mpFloat pm)
  | _ => throw s!"shape:{t}"

def absFmtOp : P String := do
  let op ← tok
  match op with
  | "add" => do let a ← pAbsFmt; let b ← pAbsFmt; pure (showAbsRes (a.add b))
  | "sub" => do let a ← pAbsFmt; let b ← pAbsFmt; pure (showAbsRes (a.sub b))
  | "mul" => do let a ← pAbsFmt; let b ← pAbsFmt; pure (showAbsRes (a.mul b))
  | "and" => do let a ← pAbsFmt; let b ← pAbsFmt; pure (showAbsRes (.ok (a.inter b)))
  | "or" => do let a ← pAbsFmt; let b ← pAbsFmt; pure (showAbsRes (.ok (a.union b)))
  | "le" => do let a ← pAbsFmt; let b ← pAbsFmt; pure ("ok " ++ b01 (a.le b))
  | "lelegacy" => do let a ← pAbsFmt; let b ← pAbsFmt; pure ("ok " ++ b01 (a.leLegacy b))
  | "neg" => do let a ← pAbsFmt; pure (showAbsRes (.ok a.neg'))
  | "abs" => do let a ← pAbsFmt; pure (showAbsRes (.ok a.abs'))
  | "pos" => do let a ← pAbsFmt; pure (showAbsRes (.ok a.pos'))
  | "effprec" => do
      let a ← pAbsFmt
      match a.effectivePrec with
      | .ok p => pure ("ok " ++ showPrec p)
      | .error e => pure s!"err {errName e}"
  | "wprec" => do let a ← pAbsFmt; let d ← pInt; pure (showAbsRes (a.withPrecOffset d))
  | "wexp" => do let a ← pAbsFmt; let d ← pInt; pure (showAbsRes (.ok (a.withExpOffset d)))
  | "wscale" => do let a ← pAbsFmt; let f ← pRF; pure (showAbsRes (a.withBoundsScale f))
  | "from" => do
      let sh ← pShape; let a ← pBool; let b ← pBool; let c ← pBool; let d ← pBool
      pure (showAbsRes (.ok (AbsFmt.ofFormat sh a b c d)))
  | _ => throw s!"absfmt-op:{op}"

/-- `absfmt <op> <fmt> [<fmt>|<arg>]`, `member <fmt> <value>` -/
def handleAbsFmt (op : String) : Option (P String) :=
  match op with
  | "absfmt" => some absFmtOp
  | "member" => some do
      let a ← pAbsFmt; let v ← pFV
      pure ("ok " ++ b01 (a.member v))
  | _ => none

end Fpy.Drv
