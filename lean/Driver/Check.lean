/-
Line-protocol handlers for the language-layer checker model (property C15).

Program encoding (prefix tokens, names are naturals):
  expr  := L | V x | O <expr> <expr> | C k x1..xk <expr:iterable> <expr:element>
  block := B n <stmt>*n
  stmt  := A k x1..xk <expr>            assignment to a (flattened) tuple pattern
         | I <expr> <block> <block>      if / else
         | J <expr> <block>              one-armed if
         | W <expr> <block>              while
         | F k x1..xk <expr> <block>     for
         | X <expr> (x | -) <block>      with … [as x]
         | R <expr> | E <expr> | P       return / effect / pass
  func  := k a1..ak <block>              arguments and free variables, then the body
Ops:
  check <real|legacy|strict> <func>      → accept | reject unbound x | reject notallpaths x
                                           | reject unreachable | reject fallthrough
                                           (real = the code today; legacy = before the repair of F6)
  prepass <func>                         → ok | keyerror x          (prepass_legacy: before the repair of F21)
  exec <z:0|1> <fuel> <func> m c1..cm    → returned | felloff | unbound x | excluded | timeout   (no pre-pass)
  run  <z:0|1> <fuel> <func> m c1..cm    → same, pre-pass first     (run_legacy: with the old pre-pass)
-/
import Driver.Parse
import Fpy.Model.Skel.Check
namespace Fpy.Drv
open Fpy Fpy.Skel

def pNames : P (List Name) := do
  let k ← pNat
  let rec go : Nat → P (List Name)
    | 0 => pure []
    | n + 1 => do let x ← pNat; let xs ← go n; pure (x :: xs)
  go k

partial def pExpr : P Expr := do
  let t ← tok
  match t with
  | "L" => pure .lit
  | "V" => do let x ← pNat; pure (.var x)
  | "O" => do let a ← pExpr; let b ← pExpr; pure (.op a b)
  | "C" => do let ts ← pNames; let it ← pExpr; let b ← pExpr; pure (.comp ts it b)
  | _ => throw s!"expr:{t}"

mutual
partial def pStmt : P Stmt := do
  let t ← tok
  match t with
  | "A" => do let ts ← pNames; let e ← pExpr; pure (.assign ts e)
  | "I" => do let c ← pExpr; let a ← pBlock; let b ← pBlock; pure (.ite c a b)
  | "J" => do let c ← pExpr; let a ← pBlock; pure (.if1 c a)
  | "W" => do let c ← pExpr; let a ← pBlock; pure (.while c a)
  | "F" => do let ts ← pNames; let it ← pExpr; let a ← pBlock; pure (.for ts it a)
  | "X" => do
      let e ← pExpr
      let n ← tok
      let as ← (if n == "-" then pure none else
        match n.toNat? with | some x => pure (some x) | none => throw s!"asname:{n}")
      let a ← pBlock
      pure (.with e as a)
  | "R" => do let e ← pExpr; pure (.ret e)
  | "E" => do let e ← pExpr; pure (.eff e)
  | "P" => pure .pass
  | _ => throw s!"stmt:{t}"
partial def pBlock : P Block := do
  let t ← tok
  if t != "B" then throw s!"block:{t}"
  let n ← pNat
  let rec go : Nat → P (List Stmt)
    | 0 => pure []
    | k + 1 => do let s ← pStmt; let ss ← go k; pure (s :: ss)
  let ss ← go n
  pure (Block.ofList ss)
end

def pFunc : P Func := do
  let args ← pNames
  let body ← pBlock
  pure ⟨args, body⟩

def pMode : P Mode := do
  let t ← tok
  match t with
  | "real" => pure Mode.real
  | "legacy" => pure Mode.legacy
  | "strict" => pure Mode.strict
  | _ => throw s!"mode:{t}"

def showReject : Reject → String
  | .unbound x => s!"reject unbound {x}"
  | .notAllPaths x => s!"reject notallpaths {x}"
  | .unreachable => "reject unreachable"
  | .fallthrough => "reject fallthrough"

def showFinal : Final → String
  | .returned => "returned"
  | .fellOff => "felloff"
  | .unbound x => s!"unbound {x}"
  | .excluded => "excluded"
  | .timeout => "timeout"

def handleCheck (op : String) : Option (P String) :=
  match op with
  | "check" => some do
      let m ← pMode; let p ← pFunc
      match frontend m p with
      | .ok _ => pure "accept"
      | .error r => pure (showReject r)
  | "prepass" => some do
      let p ← pFunc
      match prepass p with
      | .ok _ => pure "ok"
      | .error x => pure s!"keyerror {x}"
  | "prepass_legacy" => some do
      let p ← pFunc
      match prepassLegacy p with
      | .ok _ => pure "ok"
      | .error x => pure s!"keyerror {x}"
  | "run_legacy" => some do
      let z ← pBool; let fuel ← pNat; let p ← pFunc; let ch ← pNames
      pure (showFinal (runLegacy z fuel p ch))
  | "exec" => some do
      let z ← pBool; let fuel ← pNat; let p ← pFunc; let ch ← pNames
      pure (showFinal (call z fuel p ch))
  | "run" => some do
      let z ← pBool; let fuel ← pNat; let p ← pFunc; let ch ← pNames
      pure (showFinal (run z fuel p ch))
  | _ => none

end Fpy.Drv
