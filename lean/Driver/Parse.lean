/- Token-level parsing helpers for the line protocol (core Lean only). -/
import Fpy.Model.Num.Ctx
namespace Fpy.Drv
open Fpy

abbrev P := StateT (List String) (Except String)

def tok : P String := do
  match (← get) with
  | [] => throw "eol"
  | t :: ts => set ts; pure t

def pInt : P Int := do
  let t ← tok
  match t.toInt? with | some i => pure i | none => throw s!"int:{t}"

def pNat : P Nat := do
  let t ← tok
  match t.toNat? with | some i => pure i | none => throw s!"nat:{t}"

def pBool : P Bool := do
  let t ← tok
  match t with | "0" => pure false | "1" => pure true | _ => throw s!"bool:{t}"

def pOptNat : P (Option Nat) := do
  let t ← tok
  if t == "N" then pure none else
  match t.toNat? with | some i => pure (some i) | none => throw s!"optnat:{t}"

def pOptInt : P (Option Int) := do
  let t ← tok
  if t == "N" then pure none else
  match t.toInt? with | some i => pure (some i) | none => throw s!"optint:{t}"

def rfOfString (t : String) : Except String RF :=
  match t.splitOn ":" with
  | [s, e, c] =>
    match e.toInt?, c.toNat? with
    | some e, some c => .ok ⟨s == "1", e, c⟩
    | _, _ => .error s!"rf:{t}"
  | _ => .error s!"rf:{t}"

def pRF : P RF := do
  let t ← tok
  match rfOfString t with | .ok x => pure x | .error e => throw e

def fvOfString (t : String) : Except String FV :=
  if t.startsWith "f" then (rfOfString (t.drop 1).toString).map FV.fin
  else if t == "i0" then .ok (.inf false) else if t == "i1" then .ok (.inf true)
  else if t == "n0" then .ok (.nan false) else if t == "n1" then .ok (.nan true)
  else .error s!"fv:{t}"

def pFV : P FV := do
  let t ← tok
  match fvOfString t with | .ok x => pure x | .error e => throw e

def pOptFV : P (Option FV) := do
  let t ← tok
  if t == "-" then pure none else
  match fvOfString t with | .ok x => pure (some x) | .error e => throw e

def pRM : P RM := do
  let t ← tok
  match t with
  | "rne" => pure .rne | "rna" => pure .rna | "rtp" => pure .rtp | "rtn" => pure .rtn
  | "rtz" => pure .rtz | "raz" => pure .raz | "rto" => pure .rto | "rte" => pure .rte
  | _ => throw s!"rm:{t}"

def pOV : P OV := do
  let t ← tok
  match t with
  | "overflow" => pure .overflow | "saturate" => pure .saturate | "wrap" => pure .wrap | "assert" => pure .assert
  | _ => throw s!"ov:{t}"

def pKind : P NanKind := do
  let t ← tok
  match t with
  | "ieee" => pure .ieee | "maxval" => pure .maxVal | "negzero" => pure .negZero | "none" => pure .none
  | _ => throw s!"kind:{t}"

def pOpts : P Opts := do
  let en ← pBool; let ei ← pBool; let nv ← pOptFV; let iv ← pOptFV
  pure { enableNan := en, enableInf := ei, nanValue := nv, infValue := iv }

def pCtx : P Ctx := do
  let t ← tok
  match t with
  | "real" => pure .real
  | "mp" => do let p ← pNat; let rm ← pRM; let k ← pOptNat; let o ← pOpts; pure (.mp p rm k o)
  | "mps" => do let p ← pNat; let em ← pInt; let rm ← pRM; let k ← pOptNat; let o ← pOpts; pure (.mps p em rm k o)
  | "mpb" => do
    let p ← pNat; let em ← pInt; let pm ← pRF; let nm ← pRF; let rm ← pRM; let ov ← pOV; let k ← pOptNat; let o ← pOpts
    pure (.mpb { p := p, emin := em, posMax := pm, negMax := nm, rm := rm, ov := ov, k := k, o := o })
  | "ef" => do
    let es ← pNat; let nb ← pNat; let inf ← pBool; let kind ← pKind; let eo ← pInt
    let rm ← pRM; let ov ← pOV; let k ← pOptNat; let nv ← pOptFV; let iv ← pOptFV
    pure (.efloat { es := es, nbits := nb, inf := inf, kind := kind, eoff := eo, rm := rm, ov := ov, k := k, nanValue := nv, infValue := iv })
  | "mpfix" => do let n ← pInt; let rm ← pRM; let k ← pOptNat; let nz ← pBool; let o ← pOpts; pure (.mpfix n rm k nz o)
  | "mpbfix" => do
    let n ← pInt; let pm ← pRF; let nm ← pRF; let rm ← pRM; let ov ← pOV; let k ← pOptNat; let nz ← pBool; let o ← pOpts
    pure (.mpbfix { nmin := n, posMax := pm, negMax := nm, rm := rm, ov := ov, k := k, negZero := nz, o := o })
  | "fixed" => do
    let sg ← pBool; let sc ← pInt; let nb ← pNat; let rm ← pRM; let ov ← pOV; let k ← pOptNat; let nv ← pOptFV; let iv ← pOptFV
    pure (Ctx.fixed sg sc nb rm ov k nv iv)
  | "smfixed" => do
    let sc ← pInt; let nb ← pNat; let rm ← pRM; let ov ← pOV; let k ← pOptNat; let nv ← pOptFV; let iv ← pOptFV
    pure (Ctx.smfixed sc nb rm ov k nv iv)
  | "exp" => do
    let nb ← pNat; let eo ← pInt; let rm ← pRM; let ov ← pOV; let iv ← pOptFV
    pure (.exp { nbits := nb, eoff := eo, rm := rm, ov := ov, infValue := iv })
  | _ => throw s!"ctx:{t}"

/-- decode an IEEE binary64 bit pattern as `Float.from_float` does -/
def fvOfF64Bits (b : Nat) : FV :=
  let s := b / 2 ^ 63 % 2 == 1
  let ebits : Nat := b / 2 ^ 52 % 2 ^ 11
  let mbits : Nat := b % 2 ^ 52
  if ebits == 0 then .fin ⟨s, -1074, mbits⟩
  else if ebits == 2047 then (if mbits == 0 then .inf s else .nan s)
  else .fin ⟨s, -1074 + ((ebits : Int) - 1), 2 ^ 52 + mbits⟩

def pOperand : P Operand := do
  let t ← tok
  let body := (t.drop 1).toString
  if t.startsWith "F" then
    match fvOfString body with | .ok v => pure (.flt v) | .error e => throw e
  else if t.startsWith "R" then
    match rfOfString body with | .ok v => pure (.real v) | .error e => throw e
  else if t.startsWith "I" then
    match body.toInt? with | some i => pure (.int i) | none => throw s!"operand:{t}"
  else if t.startsWith "D" then
    match body.toNat? with | some b => pure (.flt (fvOfF64Bits b)) | none => throw s!"operand:{t}"
  else if t.startsWith "Q" then
    match body.splitOn "/" with
    | [a, b] => match a.toInt?, b.toNat? with
      | some a, some b => pure (.frac a b)
      | _, _ => throw s!"operand:{t}"
    | _ => throw s!"operand:{t}"
  else throw s!"operand:{t}"

def b01 (b : Bool) : String := if b then "1" else "0"

/-- canonical value: odd significand (value-level), zero keeps its sign -/
def canonRF (x : RF) : String :=
  if x.c = 0 then s!"zero {b01 x.s}"
  else
    -- strip trailing zeros
    let rec go (fuel : Nat) (c : Nat) (e : Int) : Nat × Int :=
      match fuel with
      | 0 => (c, e)
      | fuel + 1 => if c % 2 == 0 && c != 0 then go fuel (c / 2) (e + 1) else (c, e)
    let (c, e) := go (x.c.log2 + 1) x.c x.exp
    s!"fin {b01 x.s} {c} {e}"

def canonFV : FV → String
  | .fin x => canonRF x
  | .inf s => s!"inf {b01 s}"
  | .nan _ => "nan"

def rawFV : FV → String
  | .fin x => s!"{b01 x.s}:{x.exp}:{x.c}"
  | .inf s => s!"i{b01 s}"
  | .nan s => s!"n{b01 s}"

def errName : Err → String
  | .valueError => "ValueError" | .typeError => "TypeError" | .overflowError => "OverflowError"
  | .notImplemented => "NotImplementedError" | .zeroDivision => "ZeroDivisionError"
  | .indexError => "IndexError" | .assertion => "AssertionError" | .unbound => "Unbound"
  | .outOfFuel => "OutOfFuel"

def showRes : Except Err Res → String
  | .error e => s!"err {errName e}"
  | .ok r => s!"ok {canonFV r.v} ix={b01 r.fl.inexact} ov={b01 r.fl.overflow} # raw={rawFV r.v} tp={b01 r.fl.tinyPre} tq={b01 r.fl.tinyPost} cy={b01 r.fl.carry}"

def runP {α} (p : P α) (toks : List String) : Except String α :=
  match p.run toks with
  | .ok (a, _) => .ok a
  | .error e => .error e

end Fpy.Drv
