/- Line-protocol handler for the Python-boundary state machine (C18): op `boundary`.

`boundary <fuel> [current|legacy] (func…) ((name val)…) (op…)` with
  op ::= (call <name> <ctx|_> (arg…)) | (callt <j> <ctx|_> (arg…)) | (transform <name>) | (mutate <k> <i> (n <num>))
`val`/`arg` are the value S-expressions of `eval` (`(n …) (b …) (t …) (l …)`); `callt j` calls the j-th
transformed copy.  Output: the observations of the calls, in order, joined by ` | `. -/
import Driver.Lang
import Fpy.Model.Boundary
namespace Fpy.Drv.C18
open Fpy Fpy.Drv Fpy.Lang Fpy.C18

partial def treeOf : Sexp → R Tree
  | .list [.atom "b", .atom b] => .ok (.bool (b == "1"))
  | .list [.atom "n", .atom t] => do .ok (.num (← nvOfTok t))
  | .list (.atom "c" :: rest) => do .ok (.ctx (← ctxOfSexps rest))
  | .list (.atom "t" :: vs) => do .ok (.tuple (← vs.mapM treeOf))
  | .list (.atom "l" :: vs) => do .ok (.list (← vs.mapM treeOf))
  | x => .error s!"tree: {x.toString}"

partial def showTree : Tree → String
  | .bool b => s!"(b {b01 b})"
  | .num v => s!"(n {showNVc v})"
  | .ctx _ => "(c)"
  | .tuple ts => "(t " ++ " ".intercalate (ts.map showTree) ++ ")"
  | .list ts => "(l " ++ " ".intercalate (ts.map showTree) ++ ")"

def optCtxOf : Sexp → R (Option Ctx)
  | .atom "_" => .ok none
  | .list xs => do .ok (some (← ctxOfSexps xs))
  | x => .error s!"ctx {x.toString}"

def opOf (defs : List FuncDef) : Sexp → R Fpy.C18.Op
  | .list [.atom "call", .atom f, ctx, .list args] => do
    match defs.findIdx? (·.name == f) with
    | none => .error s!"unknown function {f}"
    | some i => .ok (.call i (← args.mapM treeOf) (← optCtxOf ctx))
  | .list [.atom "callt", .atom j, ctx, .list args] => do
    .ok (.call (defs.length + j.toNat?.getD 0) (← args.mapM treeOf) (← optCtxOf ctx))
  | .list [.atom "transform", .atom f] =>
    match defs.findIdx? (·.name == f) with
    | none => .error s!"unknown function {f}"
    | some i => .ok (.transform i)
  | .list [.atom "mutate", .atom k, .atom i, .list [.atom "n", .atom t]] => do
    .ok (.mutateResult (k.toNat?.getD 0) (i.toNat?.getD 0) (← nvOfTok t))
  | x => .error s!"op: {x.toString}"

def showObs : Obs → Option String
  | none => none
  | some (.ok t) => some s!"ok {showTree t}"
  | some (.error e) => some s!"err {errName e}"

def boundaryRun (fuel : String) (π : Policy) (funcs globs ops : List Sexp) : String :=
  match (do
    let fs ← funcs.mapM funcOf
    let mut μ : Heap := []
    let mut env : Array (String × Val) := #[]
    for g in globs do
      match g with
      | .list [.atom x, v] =>
        let (w, m) ← valOf μ v
        μ := m; env := env.push (x, w)
      | y => throw s!"global: {y.toString}"
    let os ← ops.mapM (opOf fs)
    pure (fs, env.toList, μ, os) : R _) with
  | .error e => s!"bad-args {e}"
  | .ok (fs, env, μ, os) =>
    let P : Prog := { defs := fs, globals := env, pyHeap := μ, policy := π }
    " | ".intercalate ((observe P (fuel.toNat?.getD 1000) State.init os).filterMap showObs)

/-- `boundary <fuel> [current|legacy] (func…) ((name val)…) (op…)`; without a policy word the model's claim
about the code as it is (`Policy.current`) is used -/
def boundaryLine (s : String) : String :=
  match readSexps s with
  | .error e => s!"bad-args {e}"
  | .ok [.atom fuel, .list funcs, .list globs, .list ops] => boundaryRun fuel Policy.current funcs globs ops
  | .ok [.atom fuel, .atom pol, .list funcs, .list globs, .list ops] =>
    boundaryRun fuel (if pol == "legacy" then Policy.legacy else Policy.current) funcs globs ops
  | .ok _ => "bad-args shape"

end Fpy.Drv.C18
namespace Fpy.Drv
open Fpy.Drv.C18

def handleBoundary (op : String) : Option (P String) :=
  if op == "boundary" then some (do
    let toks ← get
    set ([] : List String)
    pure (boundaryLine (" ".intercalate toks)))
  else none

end Fpy.Drv
