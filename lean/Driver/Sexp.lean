/- minimal S-expression reader (atoms without spaces/parentheses) -/
namespace Fpy.Drv

inductive Sexp
  | atom (s : String)
  | list (xs : List Sexp)
deriving Repr, Inhabited

partial def Sexp.toString : Sexp → String
  | .atom s => s
  | .list xs => "(" ++ " ".intercalate (xs.map Sexp.toString) ++ ")"

/-- tokenise: parentheses are their own tokens -/
def sexpTokens (s : String) : List String := Id.run do
  let mut out : Array String := #[]
  let mut cur : String := ""
  for c in s.toList do
    if c == '(' || c == ')' then
      if cur != "" then out := out.push cur; cur := ""
      out := out.push (String.singleton c)
    else if c == ' ' || c == '\t' || c == '\n' then
      if cur != "" then out := out.push cur; cur := ""
    else cur := cur.push c
  if cur != "" then out := out.push cur
  return out.toList

/-- parse a sequence of S-expressions from tokens -/
partial def parseSexps (toks : List String) : Except String (List Sexp × List String) :=
  match toks with
  | [] => .ok ([], [])
  | ")" :: rest => .ok ([], ")" :: rest)
  | "(" :: rest =>
    match parseSexps rest with
    | .error e => .error e
    | .ok (inner, ")" :: rest') =>
      match parseSexps rest' with
      | .error e => .error e
      | .ok (more, rest'') => .ok (Sexp.list inner :: more, rest'')
    | .ok (_, _) => .error "unbalanced ("
  | t :: rest =>
    match parseSexps rest with
    | .error e => .error e
    | .ok (more, rest') => .ok (Sexp.atom t :: more, rest')

def readSexps (s : String) : Except String (List Sexp) :=
  match parseSexps (sexpTokens s) with
  | .error e => .error e
  | .ok (xs, []) => .ok xs
  | .ok (_, _) => .error "unbalanced )"

end Fpy.Drv
