/- Line-protocol handlers for the literal model (property C06).
A spelling is one token `s<cp>,<cp>,…` (decimal code points; `s` alone = empty string). -/
import Driver.Parse
import Fpy.Model.Literal
namespace Fpy.Drv
open Fpy Fpy.Lit

def pSpelling : P (List Char) := do
  let t ← tok
  if !t.startsWith "s" then throw s!"spelling:{t}"
  let body := (t.drop 1).toString
  if body.isEmpty then pure [] else
  let parts := body.splitOn ","
  let mut out : List Char := []
  for p in parts do
    match p.toNat? with
    | some n => out := Char.ofNat n :: out
    | none => throw s!"spelling:{t}"
  pure out.reverse

def lerrName : LErr → String
  | .value => "ValueError" | .type => "TypeError" | .zeroDiv => "ZeroDivisionError"
  | .parse => "FPyParserError" | .syntax => "SyntaxError"

def showRatL (r : Rat) : String := s!"{r.num}/{r.den}"

def showLitVal : LitVal → String
  | .negZero => "0/1 nz=1"
  | .rat r => s!"{showRatL r} nz=0"

def showText (cs : List Char) : String := "s" ++ ",".intercalate (cs.map (fun c => toString c.toNat))

def showNode : Node → String
  | .integer v => s!"Integer:{v}"
  | .decnum s => s!"Decnum:{showText s}"
  | .hexnum s => s!"Hexnum:{showText s}"
  | .rational p q => s!"Rational:{p}:{q}"
  | .digits m e b => s!"Digits:{m}:{e}:{b}"
  | .neg a => s!"Neg({showNode a})"

/-- prefix notation: `num S | hexfloat S | rational E E | digits E E E | neg E | pos E` -/
partial def pSrc : P Src := do
  let t ← tok
  match t with
  | "num" => do pure (.num (← pSpelling))
  | "hexfloat" => do pure (.hexfloat (← pSpelling))
  | "rational" => do let p ← pSrc; let q ← pSrc; pure (.rational p q)
  | "digits" => do let m ← pSrc; let e ← pSrc; let b ← pSrc; pure (.digits m e b)
  | "neg" => do pure (.neg (← pSrc))
  | "pos" => do pure (.pos (← pSrc))
  | _ => throw s!"src:{t}"

def showLit (n : Node) : String :=
  match n.asReal with
  | .ok v => s!"ok {showLitVal v}"
  | .error e => s!"err {lerrName e}"

def f64Bits : FV → String
  | .nan _ => "nan"
  | .inf s => if s then "-inf" else "inf"
  | .fin x => canonRF x

def handleLiteral (op : String) : Option (P String) :=
  match op with
  | "lit" => some do
      let kind ← tok
      match kind with
      | "dec" => do pure (showLit (.decnum (← pSpelling)))
      | "hex" => do pure (showLit (.hexnum (← pSpelling)))
      | "digits" => do let m ← pInt; let e ← pInt; let b ← pInt; pure (showLit (.digits m e b))
      | "rational" => do let p ← pInt; let q ← pInt; pure (showLit (.rational p q))
      | _ => throw s!"kind:{kind}"
  | "litfront" => some do
      let e ← pSrc
      match parseExpr e with
      | .error er => pure s!"err {lerrName er}"
      | .ok n =>
        match n.evalReal with
        | .error er => pure s!"err {lerrName er} node={showNode n}"
        | .ok v => pure s!"ok {showLitVal v} node={showNode n}"
  | "litround" => some do     -- `round(<literal expression>)` under a context (literal nodes only)
      let C ← pCtx
      let e ← pSrc
      match parseExpr e with
      | .error er => pure s!"err {lerrName er}"
      | .ok n =>
        match roundLit C n with
        | .litErr er => pure s!"err {lerrName er}"
        | .res r => pure (showRes r)
  | "litrepr" => some do      -- str(float) of a positive finite binary64 given as c exp
      let c ← pNat; let e ← pInt
      pure s!"ok {String.ofList (reprFloat (.fin ⟨false, e, c⟩))}"
  | "litf64" => some do       -- float(<python literal>)
      let s ← pSpelling
      match pyNumber s with
      | .ok (.float ip fp ex) => pure s!"ok float {f64Bits (floatValue ip fp ex)}"
      | .ok (.int n) => pure s!"ok int {n}"
      | .ok .imag => pure "ok imag"
      | .error er => pure s!"err {lerrName er}"
  | _ => none

end Fpy.Drv
