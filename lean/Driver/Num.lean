import Driver.Parse
namespace Fpy.Drv
open Fpy

/-- number-layer operations; returns `none` if the op is not handled here -/
def handleNum (op : String) : Option (P String) :=
  match op with
  | "round" => some do
      let C ← pCtx; let x ← pOperand; let exact ← pBool; let r ← pNat
      pure (showRes (C.round x exact r))
  | "round_at" => some do
      let C ← pCtx; let x ← pOperand; let n ← pInt; let exact ← pBool; let r ← pNat
      pure (showRes (C.roundAt x n exact r))
  | "rfround" => some do   -- RealFloat.round(max_p, min_n, rm, k, r, exact)
      let x ← pRF; let p ← pOptNat; let n ← pOptInt; let rm ← pRM; let k ← pOptNat; let r ← pNat; let exact ← pBool
      match x.round p n rm k r exact with
      | .error e => pure s!"err {errName e}"
      | .ok (y, fl) => pure (showRes (.ok ⟨.fin y, fl⟩))
  | _ => none

end Fpy.Drv
