import Driver.Parse
import Fpy.Model.Num.Engine
namespace Fpy.Drv
open Fpy

def operandNV : Operand → NV
  | .flt v => .fv v
  | .real x => .fv (.fin x)
  | .int i => .fv (.fin (RF.ofInt i))
  | .frac n d => NV.ofRat n d

def opOfName : String → Option Op
  | "add" => some .add | "sub" => some .sub | "mul" => some .mul | "div" => some .div
  | "fma" => some .fma | "neg" => some .neg | "fabs" => some .fabs | "sqrt" => some .sqrt
  | "copysign" => some .copysign | "fdim" => some .fdim | "fmin" => some .fmin | "fmax" => some .fmax
  | "ceil" => some .ceil | "floor" => some .floor | "trunc" => some .trunc | "roundint" => some .roundint
  | "nearbyint" => some .nearbyint | "round" => some .round | "round_exact" => some .roundExact
  | "cbrt" => some .cbrt | "hypot" => some .hypot | "mod" => some .mod | "fmod" => some .fmod
  | "remainder" => some .remainder | "pow" => some .pow | "round_at" => some .roundAt | "cast" => some .cast
  | _ => none

def showNV : Except Err NV → String
  | .error e => s!"err {errName e}"
  | .ok (.fv v) => s!"ok {canonFV v} # raw={rawFV v}"
  | .ok (.q n d) =>
    -- canonical by VALUE: a dyadic Fraction prints like the Float of the same value
    match NV.ofRat n d with
    | .fv v => s!"ok {canonFV v} # frac {n}/{d}"
    | .q n d => s!"ok frac {n}/{d} #"

/-- value + flags of an operation: `inexact`/`overflow` in the verdict part, `invalid`/`divzero` and the
raw encoding informational -/
def showNVF : Except Err (NV × Flags) → String
  | .error e => s!"err {errName e}"
  | .ok (.fv v, fl) =>
    s!"ok {canonFV v} ix={b01 fl.inexact} ov={b01 fl.overflow} # raw={rawFV v} inv={b01 fl.invalid} dz={b01 fl.divzero}"
  | .ok (.q n d, _) =>
    match NV.ofRat n d with
    | .fv v => s!"ok {canonFV v} ix=0 ov=0 # frac {n}/{d}"
    | .q n d => s!"ok frac {n}/{d} ix=0 ov=0 #"

/-- number-layer operations; returns `none` if the op is not handled here -/
def handleNum (op : String) : Option (P String) :=
  match op with
  | "round" => some do
      let C ← pCtx; let x ← pOperand; let exact ← pBool; let r ← pNat
      pure (showRes (C.round x exact r))
  | "round_at" => some do
      let C ← pCtx; let x ← pOperand; let n ← pInt; let exact ← pBool; let r ← pNat
      pure (showRes (C.roundAt x n exact r))
  | "rfround" => some do   -- RealFloat.round(max_p, min_n, rm, k, r, exact)
      let x ← pRF; let p ← pOptNat; let n ← pOptInt; let rm ← pRM; let k ← pOptNat; let r ← pNat; let exact ← pBool
      match x.round p n rm k r exact with
      | .error e => pure s!"err {errName e}"
      | .ok (y, fl) => pure (showRes (.ok ⟨.fin y, fl⟩))
  | "op" => some do   -- op <name> <ctx> <operand>*
      let name ← tok
      let C ← pCtx
      let rest ← get
      let mut args : List NV := []
      for _ in rest do
        let o ← pOperand
        args := args ++ [operandNV o]
      match opOfName name with
      | none => pure "bad-op"
      | some op => pure (showNV (opEval C op args))
  | "opf" => some do   -- opf <name> <ctx> <operand>* : like `op`, with flags
      let name ← tok
      let C ← pCtx
      let rest ← get
      let mut args : List NV := []
      for _ in rest do
        let o ← pOperand
        args := args ++ [operandNV o]
      match opOfName name with
      | none => pure "bad-op"
      | some op => pure (showNVF (opEvalFl C op args))
  | _ => none

end Fpy.Drv
