/-
Line-protocol handler for the cursor / sites model (C19).

Tokens (no spaces inside a token):
  tree    block = statements joined by `,` (`-` = empty program);
          statement = `L<tag>` | `O<tag>[block]` | `T<tag>[block|block]`
  bpath   `@` = FuncBody(), else `i.f.i.f...` root first, f ∈ {b,t,f} = body/ift/iff
  path    `i` or `i.f.i.f.i` root first (statement path); indices may be negative
  edit    `bpath/index/removed/inserted`;  log = edits joined by `;`, `-` = no edits
  cursor  `s:path` | `r:bpath:start:stop`
Ops:
  forward <src> <res> <log> <s|r> <cursor>     cursor built on the source (s) or result (r) program
  forwardx <src> <res> <log> <0|1> <paths|-> <s|r> <cursor>   same with exprs_preserved / exprs_rewritten
                                               (cursor may be `e:path`: an ExprCursor of that statement)
  chain <n> <tree0> <log1|N> <tree1> ... <logn|N> <treen> <k|x> <m> <cursor>   (logs: exprs_preserved=True)
  where <pid> <cands> <where>                  cands = `path+` / `path-` joined by `;` (`-` = none)
                                               where = N | int | c:<pid>:<bpath>:<lo>:<hi> | e:<pid> | B | O
  sites <cands>                                listing | refusals
  walk <tree>                                  visit order
  applyspec <src> <log>                        the SPEC `applyEdits` (fresh = leaves 1000+100*editpos+k)
-/
import Driver.Parse
import Fpy.Model.Cursor
import Fpy.Model.Sites
import Fpy.Spec.Cursor
namespace Fpy.Drv
open Fpy Fpy.Cursor

/-! parsing -/

partial def pStmts (cs : List Char) : Except String (List Stmt × List Char) :=
  -- parses statements until `]`, `|` or end
  let rec digits (cs : List Char) (acc : Nat) (any : Bool) : Option (Nat × List Char) :=
    match cs with
    | c :: r => if c.isDigit then digits r (acc * 10 + (c.toNat - '0'.toNat)) true else if any then some (acc, cs) else none
    | [] => if any then some (acc, []) else none
  let rec stmt (cs : List Char) : Except String (Stmt × List Char) :=
    match cs with
    | 'L' :: r =>
      match digits r 0 false with
      | some (t, r') => .ok (.leaf t, r')
      | none => .error "tree:tag"
    | 'O' :: r =>
      match digits r 0 false with
      | some (t, '[' :: r') =>
        match pStmts r' with
        | .ok (b, ']' :: r'') => .ok (.one t b, r'')
        | .ok _ => .error "tree:]"
        | .error e => .error e
      | _ => .error "tree:O"
    | 'T' :: r =>
      match digits r 0 false with
      | some (t, '[' :: r') =>
        match pStmts r' with
        | .ok (a, '|' :: r'') =>
          match pStmts r'' with
          | .ok (b, ']' :: r3) => .ok (.two t a b, r3)
          | .ok _ => .error "tree:]"
          | .error e => .error e
        | .ok _ => .error "tree:|"
        | .error e => .error e
      | _ => .error "tree:T"
    | _ => .error "tree:stmt"
  match cs with
  | [] => .ok ([], [])
  | ']' :: _ => .ok ([], cs)
  | '|' :: _ => .ok ([], cs)
  | _ =>
    match stmt cs with
    | .error e => .error e
    | .ok (s, ',' :: r) =>
      match pStmts r with
      | .ok (ss, r') => .ok (s :: ss, r')
      | .error e => .error e
    | .ok (s, r) => .ok ([s], r)

def treeOfString (t : String) : Except String Block :=
  if t == "-" then .ok [] else
  match pStmts t.toList with
  | .ok (b, []) => .ok b
  | .ok _ => .error s!"tree:{t}"
  | .error e => .error e

def pTree : P Block := do
  let t ← tok
  match treeOfString t with | .ok b => pure b | .error e => throw e

def fieldOfString : String → Except String Field
  | "b" => .ok .body | "t" => .ok .ift | "f" => .ok .iff | s => .error s!"field:{s}"

/-- root-first `i.f.i.f` → innermost-first raw steps -/
def stepsOfParts : List String → Except String (List (Int × Field))
  | [] => .ok []
  | [_] => .error "steps:odd"
  | i :: f :: r =>
    match i.toInt?, fieldOfString f, stepsOfParts r with
    | some i, .ok f, .ok rest => .ok (rest ++ [(i, f)])
    | _, _, _ => .error "steps"

def bpathOfString (t : String) : Except String (List (Int × Field)) :=
  if t == "@" then .ok [] else stepsOfParts (t.splitOn ".")

def rawPathOfString (t : String) : Except String RawPath :=
  let parts := t.splitOn "."
  match parts.getLast? with
  | none => .error "path"
  | some last =>
    match last.toInt?, stepsOfParts parts.dropLast with
    | some i, .ok st => .ok ⟨st, i⟩
    | _, _ => .error s!"path:{t}"

def rawEditOfString (t : String) : Except String RawEdit :=
  match t.splitOn "/" with
  | [bp, i, r, n] =>
    match bpathOfString bp, i.toInt?, r.toInt?, n.toInt? with
    | .ok st, some i, some r, some n => .ok ⟨st, i, r, n⟩
    | _, _, _, _ => .error s!"edit:{t}"
  | _ => .error s!"edit:{t}"

def rawLogOfString (t : String) : Except String (List RawEdit) :=
  if t == "-" then .ok [] else (t.splitOn ";").mapM rawEditOfString

def pRawLog : P (List RawEdit) := do
  let t ← tok
  match rawLogOfString t with | .ok l => pure l | .error e => throw e

/-- a cursor built on program `P` -/
def cursorOfString (P : Prog) (t : String) : Except String (Except Cursor.Err Cursor) :=
  match t.splitOn ":" with
  | ["s", p] =>
    match rawPathOfString p with
    | .ok rp => .ok (mkStmtCursorRaw P rp)
    | .error e => .error e
  | ["e", p] =>
    match rawPathOfString p with
    | .ok rp => .ok (mkExprCursorRaw P rp)
    | .error e => .error e
  | ["r", bp, a, b] =>
    match bpathOfString bp, a.toInt?, b.toInt? with
    | .ok st, some a, some b => .ok (mkRegionRaw P st a b)
    | _, _, _ => .error s!"cursor:{t}"
  | _ => .error s!"cursor:{t}"

/-! printing -/

def showField : Field → String
  | .body => "b" | .ift => "t" | .iff => "f"

def showBPath (bp : BlockPath) : String :=
  if bp.isEmpty then "@" else
  ".".intercalate (bp.reverse.map fun s => s!"{s.idx}.{showField s.field}")

def showPath (p : StmtPath) : String :=
  if p.parent.isEmpty then s!"{p.index}" else s!"{showBPath p.parent}.{p.index}"

def showCursor : Cursor → String
  | .stmt _ p => s!"s:{showPath p}"
  | .region _ bp a b => s!"r:{showBPath bp}:{a}:{b}"
  | .expr _ p => s!"e:{showPath p}"

def errKind : Cursor.Err → String
  | .badPath => "badpath" | .deleted => "deleted" | .insideRewritten => "inside"
  | .otherProgram => "other" | .emptyRegion => "empty" | .splitRegion => "split"
  | .unrelated => "unrelated" | .opaque => "opaque" | .illFormedEdit => "illedit"
  | .editRange => "editrange" | .editOverlap => "overlap"
  | .exprNotPreserved => "exprnotpreserved" | .exprRewritten => "exprrewritten"

partial def showStmt : Stmt → String
  | .leaf t => s!"L{t}"
  | .one t b => s!"O{t}[{",".intercalate (b.map showStmt)}]"
  | .two t a b => s!"T{t}[{",".intercalate (a.map showStmt)}|{",".intercalate (b.map showStmt)}]"

def showTree (b : Block) : String := if b.isEmpty then "-" else ",".intercalate (b.map showStmt)

/-- result of a forward: the cursor, the program it belongs to and the tags it resolves to there -/
def showForward (progs : List Prog) : Except Cursor.Err Cursor → String
  | .error e => s!"err {errKind e}"
  | .ok c =>
    let tags := match progs.find? (·.pid == c.pid) with
      | none => "?"
      | some P =>
        match resolveCursor P.body c with
        | .error e => s!"!{errKind e}"
        | .ok ss => ",".intercalate (ss.map fun (s : Stmt) => toString s.tag)
    s!"ok {c.pid} {showCursor c} {tags}"

def sErrKind : Sites.SErr → String
  | .typeError => "type" | .reference => "reference" | .otherProgram => "other"
  | .notAStatement => "notstmt" | .declined => "declined"

def candsOfString (t : String) : Except String (List Sites.Cand) :=
  if t == "-" then .ok [] else
  (t.splitOn ";").mapM fun c =>
    let refused := c.endsWith "-"
    let body := (c.dropEnd 1).toString
    match rawPathOfString body with
    | .ok rp =>
      match rp.validate with
      | some p => .ok ⟨p, refused⟩
      | none => .error s!"cand:{c}"
    | .error e => .error e

def whereOfString (t : String) : Except String Sites.Where :=
  if t == "N" then .ok .none else if t == "B" then .ok .bool else if t == "O" then .ok .other else
  match t.splitOn ":" with
  | ["e", pid] => match pid.toNat? with | some p => .ok (.exprCursor p) | none => .error "where"
  | ["c", pid, bp, lo, hi] =>
    match pid.toNat?, bpathOfString bp, lo.toNat?, hi.toNat? with
    | some p, .ok st, some lo, some hi =>
      match validateSteps st with
      | some b => .ok (.target p b lo hi)
      | none => .error "where:bp"
    | _, _, _, _ => .error "where"
  | _ => match t.toInt? with | some j => .ok (.index j) | none => .error s!"where:{t}"

def showPaths (l : List StmtPath) : String := if l.isEmpty then "-" else ";".intercalate (l.map showPath)

/-- fresh statements of the SPEC run: leaves tagged by the position of the edit in the log -/
def specFresh (E : List Edit) (e : Edit) : List Stmt :=
  let pos := (E.findIdx? (· == e)).getD 0
  (List.range e.inserted).map fun k => .leaf (1000 + 100 * pos + k)

def liftE {α} (x : Except String α) : P α :=
  match x with | .ok a => pure a | .error e => throw e

def handleCursor (op : String) : Option (P String) :=
  match op with
  | "forward" => some do
      let src ← pTree; let res ← pTree; let raws ← pRawLog
      let which ← tok; let ctok ← tok
      let S : Prog := ⟨0, src⟩; let R : Prog := ⟨1, res⟩
      -- order of the real harness: edits, log, cursor, forward
      match buildLog S R raws with
      | .error e => pure s!"err {errKind e}"
      | .ok L =>
        let c ← liftE (cursorOfString (if which == "r" then R else S) ctok)
        match c with
        | .error e => pure s!"err {errKind e}"
        | .ok c => pure (showForward [S, R] (L.forward c))
  | "forwardx" => some do   -- forward with the expression claims of the log
      let src ← pTree; let res ← pTree; let raws ← pRawLog
      let pres ← pBool
      let rwtok ← tok
      let which ← tok; let ctok ← tok
      let S : Prog := ⟨0, src⟩; let R : Prog := ⟨1, res⟩
      let rw ← if rwtok == "-" then pure [] else
        liftE ((rwtok.splitOn ";").mapM fun t =>
          match rawPathOfString t with
          | .ok rp => match rp.validate with | some q => .ok q | none => .error s!"rw:{t}"
          | .error e => .error e)
      match buildLog S R raws rw pres with
      | .error e => pure s!"err {errKind e}"
      | .ok L =>
        let c ← liftE (cursorOfString (if which == "r" then R else S) ctok)
        match c with
        | .error e => pure s!"err {errKind e}"
        | .ok c => pure (showForward [S, R] (L.forward c))
  | "chain" => some do
      let n ← pNat
      let t0 ← pTree
      let mut progs : List Prog := [⟨0, t0⟩]
      let mut chain : List (Prog × Option EditLog) := [(⟨0, t0⟩, none)]
      let mut failed : Option Cursor.Err := none
      for i in [1:n+1] do
        let lt ← tok
        let ti ← pTree
        let prev := (progs.getLast?).getD ⟨0, t0⟩
        let Pi : Prog := ⟨i, ti⟩
        progs := progs ++ [Pi]
        if lt == "N" then
          chain := (Pi, none) :: chain
        else
          let raws ← liftE (rawLogOfString lt)
          match buildLog prev Pi raws [] true with
          | .error e => failed := failed.orElse fun _ => some e
                        chain := (Pi, none) :: chain
          | .ok L => chain := (Pi, some L) :: chain
      let ktok ← tok; let m ← pNat; let ctok ← tok
      match failed with
      | some e => pure s!"err {errKind e}"
      | none =>
        let base : Prog := if ktok == "x" then ⟨999, t0⟩ else
          (progs[ktok.toNat?.getD 0]?).getD ⟨0, t0⟩
        let c ← liftE (cursorOfString base ctok)
        match c with
        | .error e => pure s!"err {errKind e}"
        | .ok c =>
          -- the chain of Function m: versions m, m-1, ..., 0
          let sub := chain.drop (n - m)
          pure (showForward progs (chainForward sub c))
  | "where" => some do
      let pid ← pNat
      let cands ← liftE (candsOfString (← tok))
      let w ← liftE (whereOfString (← tok))
      match Sites.apply pid cands w with
      | .error e => pure s!"err {sErrKind e}"
      | .ok l => pure s!"ok {showPaths l}"
  | "sites" => some do
      let cands ← liftE (candsOfString (← tok))
      pure s!"{showPaths (Sites.listSites cands)} {showPaths (Sites.listRefusals cands)}"
  | "walk" => some do
      let t ← pTree
      pure (showPaths (walkStmts t))
  | "applyspec" => some do
      let src ← pTree; let raws ← pRawLog
      match buildLog ⟨0, src⟩ ⟨1, []⟩ raws with
      | .error e => pure s!"err {errKind e}"
      | .ok L => pure (showTree (Spec.applyEdits (specFresh L.edits) L.edits src))
  | _ => none

end Fpy.Drv
