/- Line-protocol handler for the C++ backend's decision logic (C11).

  storage none | real | other | bottom               -> `ok <TY>` | `err`
  storage <absfmt token> [mpfixed <expmin>]          -> `ok <TY>` | `err`      (choose_storage_scalar)
  fitsin <TY> <TY>                                   -> `ok 0|1`               (scalar_fits_in)
  sup <TY> ...                                       -> `ok <TY>` | `err`      (scalar_sup)
  ladder                                             -> the rungs with their abstract formats
  cdispatch <node> <ctx> <TY> ...                    -> `ok <name> <TY,..> <ctx>` | `err`   (make_op_table + _dispatch (1),(2))
  sigs <node>                                        -> every signature of the table for the node
  cop <node> <ctx> <operand>*                        -> `ok <canonical value>` | `err <kind>`  (opEval under NativeCtx.toCtx)
  cvalues <TY> <value>                               -> `ok 0|1` (is the value a member of the ladder format of TY)

 ctx token: `fp32:rne` … `fp64:rtn`, `sint8` … `uint64`, `integer`;  format token: see Driver/AbsFmt.lean
-/
import Driver.AbsFmt
import Driver.Num
import Fpy.Model.Storage
namespace Fpy.Drv
open Fpy Fpy.C11

def machTyOfString (t : String) : Except String MachTy :=
  match t with
  | "BOOL" => .ok .bool | "U8" => .ok .u8 | "S8" => .ok .s8 | "U16" => .ok .u16 | "S16" => .ok .s16
  | "U32" => .ok .u32 | "S32" => .ok .s32 | "F32" => .ok .f32 | "U64" => .ok .u64 | "S64" => .ok .s64 | "F64" => .ok .f64
  | _ => .error s!"machty:{t}"

def pMachTy : P MachTy := do
  let t ← tok
  match machTyOfString t with | .ok x => pure x | .error e => throw e

partial def pMachTys : P (List MachTy) := do
  match (← get) with
  | [] => pure []
  | _ => do let t ← pMachTy; let ts ← pMachTys; pure (t :: ts)

def showTyRes : Option MachTy → String
  | some T => "ok " ++ T.name
  | none => "err"

def hwRMOfString (t : String) : Except String HwRM :=
  match t with
  | "rne" => .ok .rne | "rtz" => .ok .rtz | "rtp" => .ok .rtp | "rtn" => .ok .rtn
  | _ => .error s!"hwrm:{t}"

def showHwRM : HwRM → String | .rne => "rne" | .rtz => "rtz" | .rtp => "rtp" | .rtn => "rtn"

def nativeCtxOfString (t : String) : Except String NativeCtx :=
  match t.splitOn ":" with
  | ["fp32", r] => (hwRMOfString r).map (NativeCtx.fp false)
  | ["fp64", r] => (hwRMOfString r).map (NativeCtx.fp true)
  | ["integer"] => .ok .integer
  | [s] =>
    if s.startsWith "sint" then
      match ((s.drop 4).toString).toNat? with | some n => .ok (.sint n) | none => .error s!"ctx:{t}"
    else if s.startsWith "uint" then
      match ((s.drop 4).toString).toNat? with | some n => .ok (.uint n) | none => .error s!"ctx:{t}"
    else .error s!"ctx:{t}"
  | _ => .error s!"ctx:{t}"

def showNativeCtx : NativeCtx → String
  | .fp false r => "fp32:" ++ showHwRM r
  | .fp true r => "fp64:" ++ showHwRM r
  | .sint n => s!"sint{n}" | .uint n => s!"uint{n}" | .integer => "integer"

def nodeOfString (t : String) : Except String Node :=
  match t with
  | "add" => .ok .add | "sub" => .ok .sub | "mul" => .ok .mul | "div" => .ok .div
  | "neg" => .ok .neg | "abs" => .ok .abs | "sqrt" => .ok .sqrt | "fma" => .ok .fma
  | _ => .error s!"node:{t}"

def showSig (s : Sig) : String :=
  s!"{s.name} {",".intercalate (s.inTys.map MachTy.name)} {showNativeCtx s.outCtx}"

def storageOp : P String := do
  let t ← tok
  match t with
  | "none" => pure (showTyRes (chooseStorageScalar .none))
  | "real" => pure (showTyRes (chooseStorageScalar .real))
  | "other" => pure (showTyRes (chooseStorageScalar .other))
  | "bottom" => pure (showTyRes (chooseStorageScalar .bottom))
  | _ =>
    match absFmtOfString t with
    | .error e => throw e
    | .ok a =>
      match (← get) with
      | [] => pure (showTyRes (chooseStorageScalar (.fmt a none)))
      | _ => do
        let k ← tok
        if k != "mpfixed" then throw s!"storage:{k}"
        let e ← pInt
        pure (showTyRes (chooseStorageScalar (.fmt a (some e))))

def handleStorage (op : String) : Option (P String) :=
  match op with
  | "storage" => some storageOp
  | "fitsin" => some do
      let a ← pMachTy; let b ← pMachTy
      pure ("ok " ++ b01 (scalarFitsIn a b))
  | "sup" => some do
      let ts ← pMachTys
      if ts.isEmpty then throw "sup:empty"
      pure (showTyRes (scalarSup ts))
  | "ladder" => some do
      pure ("ok " ++ " ".intercalate (ladder.map fun T => T.name ++ "=" ++ (match ladderFmt T with | some a => showAbsFmt a | none => "-")))
  | "cdispatch" => some do
      let n ← tok; let c ← tok
      let nd ← (match nodeOfString n with | .ok x => pure x | .error e => throw e : P Node)
      let cx ← (match nativeCtxOfString c with | .ok x => pure x | .error e => throw e : P NativeCtx)
      let tys ← pMachTys
      pure (match dispatch nd tys cx with | some s => "ok " ++ showSig s | none => "err")
  | "sigs" => some do
      let n ← tok
      let nd ← (match nodeOfString n with | .ok x => pure x | .error e => throw e : P Node)
      pure ("ok " ++ " | ".intercalate ((sigs nd).map showSig))
  | "ctxty" => some do
      let c ← tok
      let cx ← (match nativeCtxOfString c with | .ok x => pure x | .error e => throw e : P NativeCtx)
      pure (showTyRes cx.ty)
  | "cop" => some do   -- cop <node> <ctx> <operand>* : the interpreter's operation under the context a native context denotes
      let n ← tok; let c ← tok
      let nd ← (match nodeOfString n with | .ok x => pure x | .error e => throw e : P Node)
      let cx ← (match nativeCtxOfString c with | .ok x => pure x | .error e => throw e : P NativeCtx)
      let rest ← get
      let mut args : List NV := []
      for _ in rest do
        let o ← pOperand
        args := args ++ [operandNV o]
      pure (showNV (opEval cx.toCtx nd.toOp args))
  | "cvalues" => some do
      let T ← pMachTy; let v ← pFV
      pure (match ladderFmt T with | some a => "ok " ++ b01 (a.member v) | none => "ok 0")
  | _ => none

end Fpy.Drv
