/- op `lib <name> <ctx tokens> <operand>*`: the library functions of `Fpy/Model/Lib.lean`.
Output in the format of `Driver/Lang.lean`'s `showVal` (`ok (t (n …) (n …))`, `ok (b 1)`, `err Kind`). -/
import Driver.Parse
import Driver.Num
import Driver.Lang
import Fpy.Model.Lib
namespace Fpy.Drv
open Fpy Fpy.Lib

/-- a program-level operand: a `Fraction` stays a `Fraction` (as `nvOfTok`) -/
def libNV : Operand → NV
  | .frac n d => NV.frac n d
  | o => operandNV o

def libShowN (v : NV) : String := s!"(n {showNVc v})"
def libShowF (v : FV) : String := s!"(n {canonFV v})"

def libShowM {α} (f : α → String) : Except Err α → String
  | .error e => s!"err {errName e}"
  | .ok a => s!"ok {f a}"

def libShow2 (r : Except Err (NV × NV)) : String := libShowM (fun p => s!"(t {libShowN p.1} {libShowN p.2})") r
def libShow3 (r : Except Err (NV × NV × NV)) : String :=
  libShowM (fun p => s!"(t {libShowN p.1} {libShowN p.2.1} {libShowN p.2.2})") r
def libShow2F (r : Except Err (FV × FV)) : String := libShowM (fun p => s!"(t {libShowF p.1} {libShowF p.2})") r

def libCall (name : String) (C : Ctx) (args : List NV) : String :=
  let fl (v : NV) : Except Err FV := asFloat v
  match name, args with
  | "ideal_2sum", [a, b] => libShow2 (ideal2sum C a b)
  | "fast_2sum", [a, b] => libShow2 (fast2sum C a b)
  | "classic_2sum", [a, b] => libShow2 (classic2sum C a b)
  | "classic_2sum_legacy", [a, b] => libShow2 (classic2sumLegacy C a b)
  | "priest_2sum", [a, b] => libShow2 (priest2sum C a b)
  | "ideal_2mul", [a, b] => libShow2 (ideal2mul C a b)
  | "classic_2mul", [a, b] => libShow2 (classic2mul C a b)
  | "classic_2mul_legacy", [a, b] => libShow2 (classic2mulLegacy C a b)
  | "fast_2mul", [a, b] => libShow2 (fast2mul C a b)
  | "veltkamp_split", [x, s] => libShow2 (veltkampSplit C x s)
  | "ideal_fma", [a, b, c] => libShow2 (idealFma C a b c)
  | "classic_2fma", [a, b, c] => libShow3 (classic2fma C a b c)
  | "classic_2fma_fastlast", [a, b, c] => libShow3 (classic2fmaFastLast C a b c)
  | "classic_2fma_legacy", [a, b, c] => libShow3 (classic2fmaLegacy C a b c)
  | "split", [x, n] => libShow2F (do Lib.split C (← fl x) (← fl n))
  | "modf", [x] => libShow2F (do modf C (← fl x))
  | "frexp", [x] => libShow2F (do frexp C (← fl x))
  | "frexp_legacy", [x] => libShow2F (do frexpLegacy C (← fl x))
  | "ldexp", [x, n] => libShowM libShowN (ldexp C x n)
  | "isinteger", [x] => libShowM (fun b => s!"(b {b01 b})") (isinteger C x)
  | "isnar", [x] => s!"ok (b {b01 (isnar x)})"
  | "max_p", [] => libShowM libShowF (maxP C)
  | _, _ => "bad-args lib"

def handleLib (op : String) : Option (P String) :=
  match op with
  | "lib" => some do
      let name ← tok
      let C ← pCtx
      let rest ← get
      let mut args : List NV := []
      for _ in rest do
        let o ← pOperand
        args := args ++ [libNV o]
      pure (libCall name C args)
  | _ => none

end Fpy.Drv
