/- Line-protocol handler for the encoding/ordinal model (C16). -/
import Driver.Parse
import Fpy.Model.Enc
namespace Fpy.Drv
open Fpy Fpy.Enc

/-- format tokens:
`ef es nbits inf kind eoff` | `fixed signed scale nbits` | `smfixed scale nbits` | `exp nbits eoff` |
`mps p emin en ei` | `mpb p emin pos neg en ei` | `mpfix nmin en ei nz` | `mpbfix nmin pos neg en ei nz` -/
def pFmt : P Fmt := do
  let t ← tok
  match t with
  | "ef" => do
    let es ← pNat; let nb ← pNat; let inf ← pBool; let kind ← pKind; let eo ← pInt
    pure (.ef { es := es, nbits := nb, inf := inf, kind := kind, eoff := eo })
  | "fixed" => do let sg ← pBool; let sc ← pInt; let nb ← pNat; pure (.fixed { signed := sg, scale := sc, nbits := nb })
  | "smfixed" => do let sc ← pInt; let nb ← pNat; pure (.smfixed { scale := sc, nbits := nb })
  | "exp" => do let nb ← pNat; let eo ← pInt; pure (.exp { nbits := nb, eoff := eo })
  | "mps" => do
    let p ← pNat; let em ← pInt; let en ← pBool; let ei ← pBool
    pure (.mps { p := p, emin := em, enableNan := en, enableInf := ei })
  | "mpb" => do
    let p ← pNat; let em ← pInt; let pm ← pRF; let nm ← pRF; let en ← pBool; let ei ← pBool
    pure (.mpb { p := p, emin := em, posMax := pm, negMax := nm, enableNan := en, enableInf := ei })
  | "mpfix" => do
    let n ← pInt; let en ← pBool; let ei ← pBool; let nz ← pBool
    pure (.mpfix { nmin := n, enableNan := en, enableInf := ei, negZero := nz })
  | "mpbfix" => do
    let n ← pInt; let pm ← pRF; let nm ← pRF; let en ← pBool; let ei ← pBool; let nz ← pBool
    pure (.mpbfix { nmin := n, posMax := pm, negMax := nm, enableNan := en, enableInf := ei, negZero := nz })
  | _ => throw s!"fmt:{t}"

/-- value line: canonical value and the raw `(s:exp:c)` encoding (both compared) -/
def showFV (v : FV) : String := s!"ok {canonFV v} raw={rawFV v}"

def showEFV : Except Err FV → String
  | .error e => s!"err {errName e}"
  | .ok v => showFV v

def showENat : Except Err Nat → String
  | .error e => s!"err {errName e}"
  | .ok n => s!"ok {n}"

def showEInt : Except Err Int → String
  | .error e => s!"err {errName e}"
  | .ok n => s!"ok {n}"

def handleEnc (op : String) : Option (P String) :=
  match op with
  | "enc" => some do let F ← pFmt; let v ← pFV; pure (showENat (F.encode v))
  | "dec" => some do let F ← pFmt; let b ← pNat; pure (showEFV (F.decode b))
  | "repr" => some do let F ← pFmt; let v ← pFV; pure s!"ok {b01 (F.repr v)}"
  | "normalize" => some do let F ← pFmt; let v ← pFV; pure (showEFV (F.normalize v))
  | "ord" => some do let F ← pFmt; let v ← pFV; let iv ← pBool; pure (showEInt (F.toOrdinal v iv))
  | "unord" => some do let F ← pFmt; let k ← pInt; let iv ← pBool; pure (showEFV (F.fromOrdinal k iv))
  | "next_up" => some do let F ← pFmt; let v ← pFV; let ai ← pBool; pure (showEFV (F.nextUp v ai))
  | "next_down" => some do let F ← pFmt; let v ← pFV; let ai ← pBool; pure (showEFV (F.nextDown v ai))
  | "minval" => some do let F ← pFmt; let s ← pBool; pure (showEFV (F.minval s))
  | "maxval" => some do let F ← pFmt; let s ← pBool; pure (showEFV (F.maxval s))
  | "largest" => some do let F ← pFmt; pure (showEFV F.largest)
  | "smallest" => some do let F ← pFmt; pure (showEFV F.smallest)
  | _ => none

end Fpy.Drv
