/- reader for FPCore expressions (tagged S-expressions written by harness/c12.py from titanfp's AST);
op `fpceval <fuel> (params…) (props…) <expr> (args…)` -/
import Driver.Lang
import Fpy.Model.FPCoreLoops
import Fpy.Model.FPCoreRead
namespace Fpy.Drv.FPC
open Fpy Fpy.Lang Fpy.C12 Fpy.Drv

def rnameOf : String → R RName
  | "nearestEven" => .ok .nearestEven | "nearestAway" => .ok .nearestAway | "toPositive" => .ok .toPositive
  | "toNegative" => .ok .toNegative | "toZero" => .ok .toZero | "awayZero" => .ok .awayZero
  | t => .error s!"round:{t}"

def onameOf : String → R OName
  | "infinity" => .ok .infinity | "clamp" => .ok .clamp | "wrap" => .ok .wrap
  | t => .error s!"overflow:{t}"

def precOf : List Sexp → R Prec
  | [.atom "binary16"] => .ok .binary16 | [.atom "binary32"] => .ok .binary32 | [.atom "binary64"] => .ok .binary64
  | [.atom "binary80"] => .ok .binary80 | [.atom "binary128"] => .ok .binary128
  | [.atom "integer"] => .ok .integer | [.atom "real"] => .ok .real
  | [.atom "float", .atom es, .atom nb] =>
    match es.toNat?, nb.toNat? with | some e, some n => .ok (.float e n) | _, _ => .error "prec float"
  | [.atom "fixed", .atom sc, .atom nb] =>
    match sc.toInt?, nb.toNat? with | some s, some n => .ok (.fixed s n) | _, _ => .error "prec fixed"
  | _ => .error "prec"

def propsOf (xs : List Sexp) : R Props :=
  xs.foldlM (fun (p : Props) x =>
    match x with
    | .list (.atom "prec" :: rest) => do .ok { p with prec := some (← precOf rest) }
    | .list [.atom "round", .atom r] => do .ok { p with round := some (← rnameOf r) }
    | .list [.atom "ov", .atom o] => do .ok { p with ov := some (← onameOf o) }
    | y => .error s!"prop: {y.toString}") {}

def constOf : String → R Const
  | "TRUE" => .ok .true_ | "FALSE" => .ok .false_ | "NAN" => .ok .nan | "INFINITY" => .ok .infinity
  | t => .error s!"const:{t}"

mutual
partial def fexprOf : Sexp → R FExpr
  | .list [.atom "var", .atom x] => .ok (.var x)
  | .list [.atom "num", .atom t] => do .ok (.num (← nvOfTok t))
  | .list [.atom "const", .atom c] => do .ok (.const (← constOf c))
  | .list (.atom "op" :: .atom name :: args) => do
    match opOfName name with
    | some o => .ok (.op o (← args.mapM fexprOf))
    | none => .error s!"op:{name}"
  | .list [.atom "pred", .atom p, a] => do .ok (.pred (← predOfTok p) (← fexprOf a))
  | .list (.atom "cmp" :: .atom o :: args) => do .ok (.cmp (← cmpOfTok o) (← args.mapM fexprOf))
  | .list (.atom "and" :: es) => do .ok (.and (← es.mapM fexprOf))
  | .list (.atom "or" :: es) => do .ok (.or (← es.mapM fexprOf))
  | .list [.atom "not", a] => do .ok (.not (← fexprOf a))
  | .list [.atom "if", c, t, f] => do .ok (.ite (← fexprOf c) (← fexprOf t) (← fexprOf f))
  | .list [.atom "let", .list bs, body] => do .ok (.let_ false (← bs.mapM bindOf) (← fexprOf body))
  | .list [.atom "letstar", .list bs, body] => do .ok (.let_ true (← bs.mapM bindOf) (← fexprOf body))
  | .list [.atom "while", c, .list bs, body] => do .ok (.while_ false (← fexprOf c) (← bs.mapM bind3Of) (← fexprOf body))
  | .list [.atom "whilestar", c, .list bs, body] => do .ok (.while_ true (← fexprOf c) (← bs.mapM bind3Of) (← fexprOf body))
  | .list [.atom "for", .list ds, .list bs, body] => do
    .ok (.for_ false (← ds.mapM bindOf) (← bs.mapM bind3Of) (← fexprOf body))
  | .list [.atom "forstar", .list ds, .list bs, body] => do
    .ok (.for_ true (← ds.mapM bindOf) (← bs.mapM bind3Of) (← fexprOf body))
  | .list [.atom "tensor", .list ds, body] => do .ok (.tensor (← ds.mapM bindOf) (← fexprOf body))
  | .list (.atom "array" :: es) => do .ok (.array (← es.mapM fexprOf))
  | .list (.atom "ref" :: a :: idx) => do .ok (.ref (← fexprOf a) (← idx.mapM fexprOf))
  | .list [.atom "size", a, k] => do .ok (.size (← fexprOf a) (← fexprOf k))
  | .list [.atom "dim", a] => do .ok (.dim (← fexprOf a))
  | .list [.atom "ann", .list ps, e] => do .ok (.ann (← propsOf ps) (← fexprOf e))
  | x => .error s!"fexpr: {x.toString}"
partial def bindOf : Sexp → R (String × FExpr)
  | .list [.atom x, e] => do .ok (x, (← fexprOf e))
  | x => .error s!"binding: {x.toString}"
partial def bind3Of : Sexp → R (String × FExpr × FExpr)
  | .list [.atom x, i, u] => do .ok (x, (← fexprOf i), (← fexprOf u))
  | x => .error s!"while-binding: {x.toString}"
end

def pDesc : P CDesc := do
  let t ← tok
  match t with
  | "ieee" => do let es ← pNat; let nb ← pNat; let rm ← pRM; let ov ← pOV; let k ← pNat; pure (.ieee es nb rm ov k)
  | "mpfixed" => do let n ← pInt; let rm ← pRM; let nz ← pBool; pure (.mpfixed n rm nz)
  | "fixed" => do let sg ← pBool; let sc ← pInt; let nb ← pNat; let rm ← pRM; let ov ← pOV; pure (.fixed sg sc nb rm ov)
  | "real" => pure .real
  | "other" => pure .other
  | _ => throw s!"desc:{t}"

def showRName : RName → String
  | .nearestEven => "nearestEven" | .nearestAway => "nearestAway" | .toPositive => "toPositive"
  | .toNegative => "toNegative" | .toZero => "toZero" | .awayZero => "awayZero"

def showOName : OName → String
  | .infinity => "infinity" | .clamp => "clamp" | .wrap => "wrap"

def showPrec : Prec → String
  | .binary16 => "binary16" | .binary32 => "binary32" | .binary64 => "binary64" | .binary80 => "binary80"
  | .binary128 => "binary128" | .integer => "integer" | .real => "real"
  | .float es nb => s!"(float {es} {nb})"
  | .fixed sc nb => s!"(fixed {sc} {nb})"

def showProps (p : Props) : String :=
  let o {α} (f : α → String) : Option α → String | some x => f x | none => "-"
  s!"prec={o showPrec p.prec} round={o showRName p.round} ov={o showOName p.ov}"

/-! source programs of the loop-free subset, for the model of the compiler -/
def copOf : String → R COp
  | "lt" => .ok .lt | "le" => .ok .le | "gt" => .ok .gt | "ge" => .ok .ge
  | t => .error s!"cop:{t}"

partial def sexprOf : Sexp → R SExpr
  | .list [.atom "var", .atom x] => .ok (.var x)
  | .list [.atom "lit", .atom t] => do .ok (.lit (← nvOfTok t))
  | .list (.atom "op" :: .atom name :: args) => do
    match opOfName name with
    | some o => .ok (.op o (← args.mapM sexprOf))
    | none => .error s!"op:{name}"
  | .list [.atom "cmp", .atom o, a, b] => do .ok (.cmp (← copOf o) (← sexprOf a) (← sexprOf b))
  | x => .error s!"sexpr: {x.toString}"

def descOf (xs : List Sexp) : R CDesc := do
  let toks ← xs.mapM atomOf
  match runP pDesc toks with
  | .ok d => .ok d
  | .error e => .error e

mutual
partial def sstmtOf : Sexp → R SStmt
  | .list [.atom "assign", .atom x, e] => do .ok (.assign x (← sexprOf e))
  | .list [.atom "with", .list d, .list b] => do .ok (.with_ (← descOf d) (← sblockOf b))
  | .list [.atom "if", c, .list t, .list f] => do .ok (.ifte (← sexprOf c) (← sblockOf t) (← sblockOf f))
  | .list [.atom "return", e] => do .ok (.ret (← sexprOf e))
  | x => .error s!"sstmt: {x.toString}"
partial def sblockOf (xs : List Sexp) : R (List SStmt) := xs.mapM sstmtOf
end

/-! source programs of the subset with loops; printing of FPCore expressions -/
partial def lexprOf : Sexp → R LExpr
  | .list [.atom "var", .atom x] => .ok (.var x)
  | .list [.atom "lit", .atom t] => do .ok (.lit (← nvOfTok t))
  | .list (.atom "op" :: .atom name :: args) => do
    match opOfName name with
    | some o => .ok (.op o (← args.mapM lexprOf))
    | none => .error s!"op:{name}"
  | .list [.atom "cmp", .atom o, a, b] => do .ok (.cmp (← copOf o) (← lexprOf a) (← lexprOf b))
  | .list (.atom "tuple" :: es) => do .ok (.tuple (← es.mapM lexprOf))
  | x => .error s!"lexpr: {x.toString}"

mutual
partial def lstmtOf : Sexp → R LStmt
  | .list [.atom "assign", .atom x, e] => do .ok (.assign x (← lexprOf e))
  | .list [.atom "tassign", .list xs, e] => do .ok (.tassign (← xs.mapM atomOf) (← lexprOf e))
  | .list [.atom "with", .list d, .list b] => do .ok (.with_ (← descOf d) (← lblockOf b))
  | .list [.atom "if", c, .list t, .list f] => do .ok (.ifte (← lexprOf c) (← lblockOf t) (← lblockOf f))
  | .list [.atom "if1", c, .list t] => do .ok (.if1 (← lexprOf c) (← lblockOf t))
  | .list [.atom "while", c, .list b] => do .ok (.while_ (← lexprOf c) (← lblockOf b))
  | .list [.atom "for", .atom x, .atom n, .list b] =>
    match n.toNat? with
    | some k => do .ok (.forRange x k (← lblockOf b))
    | none => .error s!"for bound: {n}"
  | .list [.atom "return", e] => do .ok (.ret (← lexprOf e))
  | x => .error s!"lstmt: {x.toString}"
partial def lblockOf (xs : List Sexp) : R (List LStmt) := xs.mapM lstmtOf
end

def showNVq : NV → String
  | .q n d => s!"Q{n}/{d}"
  | .fv v => "F" ++ canonFV v

def showCmp : CmpOp → String
  | .lt => "lt" | .le => "le" | .gt => "gt" | .ge => "ge" | .eq => "eq" | .ne => "ne"

def showPropsX (p : Props) : String :=
  let a := match p.prec with | some x => [s!"(prec {match x with | .float es nb => s!"float {es} {nb}" | .fixed sc nb => s!"fixed {sc} {nb}" | y => showPrec y})"] | none => []
  let b := match p.round with | some r => [s!"(round {showRName r})"] | none => []
  let c := match p.ov with | some o => [s!"(ov {showOName o})"] | none => []
  "(" ++ " ".intercalate (a ++ b ++ c) ++ ")"

def opName (o : Op) : String :=
  match o with
  | .add => "add" | .sub => "sub" | .mul => "mul" | .div => "div" | .fma => "fma" | .neg => "neg" | .fabs => "fabs"
  | .sqrt => "sqrt" | .copysign => "copysign" | .fdim => "fdim" | .fmin => "fmin" | .fmax => "fmax" | .ceil => "ceil"
  | .floor => "floor" | .trunc => "trunc" | .roundint => "roundint" | .nearbyint => "nearbyint" | .round => "round"
  | .roundExact => "round_exact" | .cbrt => "cbrt" | .hypot => "hypot" | .mod => "mod" | .fmod => "fmod"
  | .remainder => "remainder" | .pow => "pow" | .roundAt => "round_at" | .cast => "cast"

/-- the tagged S-expression `harness/c12.py` writes for a titanfp core (`core_expr`) -/
partial def showF : FExpr → String
  | .var x => s!"(var {x})"
  | .num v => s!"(num {showNVq v})"
  | .const c => "(const " ++ (match c with | .true_ => "TRUE" | .false_ => "FALSE" | .nan => "NAN" | .infinity => "INFINITY") ++ ")"
  | .op o args => s!"(op {opName o} " ++ " ".intercalate (args.map showF) ++ ")"
  | .pred _ a => s!"(pred ? {showF a})"
  | .cmp o args => s!"(cmp {showCmp o} " ++ " ".intercalate (args.map showF) ++ ")"
  | .and es => "(and " ++ " ".intercalate (es.map showF) ++ ")"
  | .or es => "(or " ++ " ".intercalate (es.map showF) ++ ")"
  | .not e => s!"(not {showF e})"
  | .ite c t f => s!"(if {showF c} {showF t} {showF f})"
  | .let_ star bs body =>
    (if star then "(letstar (" else "(let (") ++ " ".intercalate (bs.map fun b => s!"({b.1} {showF b.2})") ++ s!") {showF body})"
  | .while_ star c bs body =>
    (if star then "(whilestar " else "(while ") ++ showF c ++ " (" ++
      " ".intercalate (bs.map fun b => s!"({b.1} {showF b.2.1} {showF b.2.2})") ++ s!") {showF body})"
  | .for_ star ds bs body =>
    (if star then "(forstar (" else "(for (") ++ " ".intercalate (ds.map fun b => s!"({b.1} {showF b.2})") ++ ") (" ++
      " ".intercalate (bs.map fun b => s!"({b.1} {showF b.2.1} {showF b.2.2})") ++ s!") {showF body})"
  | .tensor ds body => "(tensor (" ++ " ".intercalate (ds.map fun b => s!"({b.1} {showF b.2})") ++ s!") {showF body})"
  | .array es => "(array " ++ " ".intercalate (es.map showF) ++ ")"
  | .ref a idx => s!"(ref {showF a} " ++ " ".intercalate (idx.map showF) ++ ")"
  | .size a k => s!"(size {showF a} {showF k})"
  | .dim a => s!"(dim {showF a})"
  | .ann p e => s!"(ann {showPropsX p} {showF e})"

/-- the order table `((site (sorted names…) (order…)) …)`: what `ord` returns at the listed sites for the listed sets,
identity elsewhere -/
def ordOf (table : List (Nat × List String × List String)) (k : Nat) (l : List String) : List String :=
  match table.find? (fun e => e.1 == k && e.2.1 == l) with
  | some e => e.2.2
  | none => l

def ordTableOf (xs : List Sexp) : R (List (Nat × List String × List String)) :=
  xs.mapM fun x => match x with
    | .list [.atom k, .list a, .list b] => do .ok (k.toNat?.getD 0, (← a.mapM atomOf), (← b.mapM atomOf))
    | y => .error s!"ord entry: {y.toString}"

/-- parse `<unsafe 0|1> (ord table) (params…) <_ | (desc)> (statements…)` -/
def lprogOf : List Sexp → R (Cfg × List String × Option CDesc × List LStmt)
  | [.atom u, .list tbl, .list params, decl, .list body] => do
    let table ← ordTableOf tbl
    let ps ← params.mapM atomOf
    let d ← (match decl with
      | .atom "_" => .ok none
      | .list xs => do .ok (some (← descOf xs))
      | x => .error s!"decl: {x.toString}")
    let b ← lblockOf body
    .ok ({ unsafeInt := u == "1", ord := ordOf table }, ps, d, b)
  | _ => .error "shape"

/-- `fpceval <fuel> (params…) (props…) <expr> (args…)`; tensors are written `(t v…)`;
`fpccompile <unsafe> (ord table) (params…) <_ | (desc)> (statements…)`: the MODEL compiler's output, printed;
`fpcmodel2 <fuel> <unsafe> (ord table) (params…) <_ | (desc)> (statements…) (args…)`: … evaluated;
`fpcmodel <fuel> (params…) <_ | (context description)> (statements…) (args…)`: compile with the MODEL of the
compiler, evaluate the result with the FPCore evaluator;
`fpcprops <context description>`: the property table -/
def handle (op : String) : Option (P String) :=
  if op == "fpcprops" then some do
    let d ← pDesc
    match fromDesc d with
    | none => pure "none"
    | some p => pure s!"some {showProps p}"
  else if op == "fpccompile" then some do
    let toks ← get
    set ([] : List String)
    match readSexps (" ".intercalate toks) with
    | .error e => throw e
    | .ok xs =>
      match lprogOf xs with
      | .error e => throw e
      | .ok (cfg, ps, d, b) =>
        match compileFunL cfg ps d b with
        | none => pure "reject"
        | some core => pure s!"ok {showPropsX core.props} {showF core.body}"
  else if op == "fpcmodel2" then some do
    let toks ← get
    set ([] : List String)
    match readSexps (" ".intercalate toks) with
    | .error e => throw e
    | .ok (.atom fuel :: rest) =>
      match rest.reverse with
      | .list args :: revprog =>
        match (do
          let prog ← lprogOf revprog.reverse
          let vs ← args.mapM (fun a => do let (v, _) ← valOf [] a; pure v)
          pure (prog, vs) : R _) with
        | .error e => throw e
        | .ok ((cfg, ps, d, b), vs) =>
          match compileFunL cfg ps d b with
          | none => pure "reject"
          | some core =>
            match evalCore (fuel.toNat?.getD 1000) core vs with
            | .error e => pure s!"err {errName e}"
            | .ok v => pure s!"ok {showVal [] v}"
      | _ => throw "shape"
    | .ok _ => throw "shape"
  else if op == "fpcmodel" then some do
    let toks ← get
    set ([] : List String)
    match readSexps (" ".intercalate toks) with
    | .error e => throw e
    | .ok [.atom fuel, .list params, decl, .list body, .list args] =>
      match (do
        let ps ← params.mapM atomOf
        let d ← (match decl with
          | .atom "_" => .ok none
          | .list xs => do .ok (some (← descOf xs))
          | x => .error s!"decl: {x.toString}")
        let b ← sblockOf body
        let vs ← args.mapM (fun a => do let (v, _) ← valOf [] a; pure v)
        pure (ps, d, b, vs) : R _) with
      | .error e => throw e
      | .ok (ps, d, b, vs) =>
        match compileFun ps d b with
        | none => pure "reject"
        | some core =>
          match evalCore (fuel.toNat?.getD 1000) core vs with
          | .error e => pure s!"err {errName e}"
          | .ok v => pure s!"ok {showVal [] v}"
    | .ok _ => throw "shape"
  else if op == "fpcread" then some do
    -- `fpcread <fuel> (params…) (props…) <expr> (args…)`: the MODEL of the reader (`readFun`), the function it returns called on the arguments
    let toks ← get
    set ([] : List String)
    match readSexps (" ".intercalate toks) with
    | .error e => throw e
    | .ok [.atom fuel, .list params, .list props, body, .list args] =>
      match (do
        let ps ← params.mapM atomOf
        let pr ← propsOf props
        let e ← fexprOf body
        let vs ← args.mapM (fun a => do let (v, _) ← valOf [] a; pure v)
        pure (ps, pr, e, vs) : R _) with
      | .error e => throw e
      | .ok (ps, pr, e, vs) =>
        match readFun (fun k => s!"r{k}") "f" { params := ps, props := pr, body := e } with
        | none => pure "reject"
        | some fd =>
          match callEntry ⟨[fd]⟩ (fuel.toNat?.getD 1000) "f" vs [] none with
          | .error e => pure s!"err {errName e}"
          | .ok (v, μ) => pure s!"ok {showVal μ v}"
    | .ok _ => throw "shape"
  else if op != "fpceval" then none else
  some do
    let toks ← get
    set ([] : List String)
    match readSexps (" ".intercalate toks) with
    | .error e => throw e
    | .ok [.atom fuel, .list params, .list props, body, .list args] =>
      match (do
        let ps ← params.mapM atomOf
        let pr ← propsOf props
        let e ← fexprOf body
        let vs ← args.mapM (fun a => do let (v, _) ← valOf [] a; pure v)
        pure (ps, pr, e, vs) : R _) with
      | .error e => throw e
      | .ok (ps, pr, e, vs) =>
        match evalCore (fuel.toNat?.getD 1000) { params := ps, props := pr, body := e } vs with
        | .error e => pure s!"err {errName e}"
        | .ok v => pure s!"ok {showVal [] v}"
    | .ok _ => throw "shape"

end Fpy.Drv.FPC

namespace Fpy.Drv
def handleFPCore : String → Option (P String) := FPC.handle
end Fpy.Drv
