/- op `sim`: the verified simulation checker (Fpy.Xform.simB, soundness in Proof/LangSim.lean) on two
functions.  `sim ((x' x) …) <func'> <func>` answers `ok` when parameters and declared context coincide and
the body of `func'` is the body of `func` up to the variable correspondence (pairs: name in `func'`, name
in `func`), else `reject <what>`.  `simblock ((x' x) …) (stmts'…) (stmts…)` checks two blocks. -/
import Driver.Lang
import Fpy.Model.Lang.Vars
namespace Fpy.Drv
open Fpy Fpy.Lang Fpy.Xform

def relOf : Sexp → R VRel
  | .list ps => ps.mapM fun
    | .list [.atom a, .atom b] => .ok (a, b)
    | x => .error s!"pair: {x.toString}"
  | x => .error s!"rel: {x.toString}"

def handleSimLine (line : String) : Option String :=
  if line.startsWith "sim " then
    some <| match readSexps (line.drop 4).toString with
    | .error e => s!"bad-args {e}"
    | .ok [rel, f', f] =>
      match (do pure (← relOf rel, ← funcOf f', ← funcOf f) : R _) with
      | .error e => s!"bad-args {e}"
      | .ok (R, fd', fd) =>
        if fd'.params != fd.params then "reject params"
        else if !(decide (fd'.ctx = fd.ctx)) then "reject ctx"
        else if simB R fd'.body fd.body then "ok" else "reject body"
    | .ok _ => "bad-args shape"
  else if line.startsWith "simblock " then
    some <| match readSexps (line.drop 9).toString with
    | .error e => s!"bad-args {e}"
    | .ok [rel, .list b', .list b] =>
      match (do pure (← relOf rel, ← blockOf b', ← blockOf b) : R _) with
      | .error e => s!"bad-args {e}"
      | .ok (R, ss', ss) => if simB R ss' ss then "ok" else "reject body"
    | .ok _ => "bad-args shape"
  else none

end Fpy.Drv
