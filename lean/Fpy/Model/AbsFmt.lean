/-
Model of `fpy2/analysis/format_infer/format.py` (class `AbstractFormat`) as the code is
written today — i.e. after the repairs of F10 (`_is_contained_in`), F28 (`__abs__`) and F31
(`_bound_product` in `__mul__`); F29 (`has_neg_zero` of `__neg__`/`__mul__`) is unrepaired and
modelled as it is.  Core Lean only.

Python sentinels:
* `prec : int | float`      — `float('inf')` = unbounded   ↦ `Option Nat`, `none` = +∞
* `exp  : int | float`      — `float('-inf')` = unbounded  ↦ `Option Int`, `none` = −∞
* `pos_bound/neg_bound : RealFloat | float` — a Python float there is `±inf` (or, after an
  ill-formed `inf + -inf`, `nan`)                          ↦ `Bnd`
Operators raise where the code raises (`ValueError` from `RealFloat.normalize`,
`AssertionError` from the `assert` in `effective_prec`): results are `Except Err _`.
-/
import Fpy.Model.Num.Float
namespace Fpy

/-- a bound of an `AbstractFormat`: a `RealFloat` or a Python `float` (`±inf`, `nan`) -/
inductive Bnd
  | fin (x : RF)
  | inf (s : Bool)
  | nan
deriving DecidableEq, Repr, Inhabited

namespace RF
/-- Python `max(x, y)` on two `RealFloat`s: the first one unless the second is greater -/
def max2 (x y : RF) : RF := if y.gt x then y else x
end RF

namespace Bnd

/-- `isinstance(b, float)` -/
def isFloat : Bnd → Bool | fin _ => false | _ => true

/-- unary minus (`RealFloat.__neg__` / float negation) -/
def neg : Bnd → Bnd
  | fin x => fin x.neg | inf s => inf (!s) | nan => nan

/-- `abs(b)` -/
def abs : Bnd → Bnd
  | fin x => fin x.abs | inf _ => inf false | nan => nan

/-- `a + b`: `RealFloat.__add__/__radd__` return the float operand when it is `inf`/`nan` -/
def add : Bnd → Bnd → Bnd
  | fin x, fin y => fin (x.add y)
  | fin _, b => b
  | a, fin _ => a
  | inf s, inf t => if s == t then inf s else nan
  | _, _ => nan

/-- `a - b` = `a + (-b)` (`RealFloat.__sub__/__rsub__`, float subtraction) -/
def sub (a b : Bnd) : Bnd := add a (neg b)

/-- `a * b` on a `RealFloat` and/or a Python float: `RealFloat.__mul__` with an infinite float
gives the infinity with the XOR sign, and `nan` when the `RealFloat` is zero (`0 * inf`). -/
def mulRaw : Bnd → Bnd → Bnd
  | fin x, fin y => fin (x.mul y)
  | fin x, inf t => if x.c = 0 then nan else inf (x.s != t)
  | inf s, fin y => if y.c = 0 then nan else inf (y.s != s)
  | inf s, inf t => inf (s != t)
  | _, _ => nan

/-- `_bound_product(a, b)`: a zero `RealFloat` bound times a float bound (an unbounded side)
is zero; everything else is `a * b`. -/
def mul : Bnd → Bnd → Bnd
  | fin x, fin y => fin (x.mul y)
  | fin x, inf t => if x.c = 0 then fin (RF.ofInt 0) else inf (x.s != t)
  | fin x, nan => if x.c = 0 then fin (RF.ofInt 0) else nan
  | inf s, fin y => if y.c = 0 then fin (RF.ofInt 0) else inf (y.s != s)
  | nan, fin y => if y.c = 0 then fin (RF.ofInt 0) else nan
  | inf s, inf t => inf (s != t)
  | _, _ => nan

/-- three-way comparison; `none` = unordered (a `nan` is involved) -/
def cmp : Bnd → Bnd → Option Ordering
  | fin x, fin y => some (x.compare y)
  | fin _, inf t => some (if t then .gt else .lt)
  | inf s, fin _ => some (if s then .lt else .gt)
  | inf s, inf t => some (if s == t then .eq else if s then .lt else .gt)
  | _, _ => none

def lt (a b : Bnd) : Bool := cmp a b == some .lt
def gt (a b : Bnd) : Bool := cmp a b == some .gt

/-- Python `max(a, b)`: `b if b > a else a` -/
def max2 (a b : Bnd) : Bnd := if gt b a then b else a
/-- Python `min(a, b)`: `b if b < a else a` -/
def min2 (a b : Bnd) : Bnd := if lt b a then b else a

end Bnd

/-! `prec` (`none` = +∞) and `exp` (`none` = −∞) arithmetic -/

def precMax : Option Nat → Option Nat → Option Nat
  | some a, some b => some (max a b) | _, _ => none
def precMin : Option Nat → Option Nat → Option Nat
  | some a, some b => some (min a b) | some a, none => some a | none, b => b
/-- `a > b` -/
def precGt : Option Nat → Option Nat → Bool
  | some a, some b => decide (a > b) | none, some _ => true | _, none => false
def precAdd : Option Nat → Option Nat → Option Nat
  | some a, some b => some (a + b) | _, _ => none

def expMin : Option Int → Option Int → Option Int
  | some a, some b => some (min a b) | _, _ => none
def expMax : Option Int → Option Int → Option Int
  | some a, some b => some (max a b) | some a, none => some a | none, b => b
/-- `a > b` -/
def expGt : Option Int → Option Int → Bool
  | some a, some b => decide (a > b) | some _, none => true | none, _ => false
def expAdd : Option Int → Option Int → Option Int
  | some a, some b => some (a + b) | _, _ => none

/-- `AbstractFormat`: fields exactly as the class stores them -/
structure AbsFmt where
  prec : Option Nat
  exp : Option Int
  pos : Bnd
  neg : Bnd
  posInf : Bool := false
  negInf : Bool := false
  nan : Bool := false
  negZero : Bool := false
deriving DecidableEq, Repr, Inhabited

namespace AbsFmt

/-- `AbstractFormat(prec, exp, bound)` with `neg_bound=None`: symmetric bounds, no specials -/
def sym (prec : Option Nat) (exp : Option Int) (b : Bnd) : AbsFmt :=
  { prec := prec, exp := exp, pos := b, neg := b.neg }

/-- `__pos__` -/
def pos' (a : AbsFmt) : AbsFmt := a

/-- `__neg__` -/
def neg' (a : AbsFmt) : AbsFmt :=
  { prec := a.prec, exp := a.exp, pos := a.neg.neg, neg := a.pos.neg,
    posInf := a.negInf, negInf := a.posInf, nan := a.nan, negZero := a.negZero }

/-- `__abs__`: `pos_bound = max(pos_bound, -neg_bound)` -/
def abs' (a : AbsFmt) : AbsFmt :=
  { prec := a.prec, exp := a.exp, pos := Bnd.max2 a.pos a.neg.neg, neg := .fin (RF.ofInt 0),
    posInf := a.posInf || a.negInf, negInf := false, nan := a.nan, negZero := false }

/-- the precision computed by `__add__`/`__sub__` from the new bounds and exponent -/
def sumPrec (pos neg : Bnd) (exp : Option Int) : Except Err (Option Nat) :=
  match pos, neg, exp with
  | .fin p, .fin n, some e =>
    match (RF.max2 p n.abs).normalize none (some (e - 1)) with
    | none => .error .valueError
    | some mb => .ok (some (max mb.p 1))
  | _, _, _ => .ok none

/-- `__add__` -/
def add (a b : AbsFmt) : Except Err AbsFmt := do
  let exp := expMin a.exp b.exp
  let pos := a.pos.add b.pos
  let neg := a.neg.add b.neg
  let prec ← sumPrec pos neg exp
  pure { prec := prec, exp := exp, pos := pos, neg := neg,
         posInf := a.posInf || b.posInf, negInf := a.negInf || b.negInf,
         nan := a.nan || b.nan || (a.posInf && b.negInf) || (a.negInf && b.posInf),
         negZero := a.negZero && b.negZero }

/-- `__sub__` -/
def sub (a b : AbsFmt) : Except Err AbsFmt := do
  let exp := expMin a.exp b.exp
  let pos0 := a.pos.sub b.neg
  let neg0 := a.neg.sub b.pos
  let pos := if pos0 = .nan then .inf false else pos0
  let neg := if neg0 = .nan then .inf true else neg0
  let prec ← sumPrec pos neg exp
  pure { prec := prec, exp := exp, pos := pos, neg := neg,
         posInf := a.posInf || b.negInf, negInf := a.negInf || b.posInf,
         nan := a.nan || b.nan || (a.posInf && b.posInf) || (a.negInf && b.negInf),
         negZero := a.negZero }

/-- property `bound` -/
def bound (a : AbsFmt) : Bnd := Bnd.max2 a.pos a.neg.abs

/-- `_maxval_precision(bound, exp)` -/
def maxvalPrecision (b : RF) (e : Int) : Except Err Nat :=
  match b.normalize none (some (e - 1)) with
  | none => .error .valueError
  | some y => .ok (bitLength y.c)

/-- `effective_prec()` -/
def effectivePrec (a : AbsFmt) : Except Err (Option Nat) :=
  match a.prec, a.bound, a.exp with
  | none, .fin _, none => .error .assertion
  | none, .fin b, some e => (maxvalPrecision b e).map some
  | some p, .fin b, some e =>
    if b.lt ⟨false, e, 2 ^ p⟩ then (maxvalPrecision b e).map some else .ok (some p)
  | p, _, _ => .ok p

/-- `__mul__` -/
def mul (a b : AbsFmt) : Except Err AbsFmt := do
  let ps ← a.effectivePrec
  let po ← b.effectivePrec
  let prec := if ps == some 1 || po == some 1 then precMax ps po else precMax (precAdd ps po) (some 1)
  let infOut := (a.posInf || a.negInf) || (b.posInf || b.negInf)
  pure { prec := prec, exp := expAdd a.exp b.exp,
         pos := Bnd.max2 (a.pos.mul b.pos) (a.neg.mul b.neg),
         neg := Bnd.min2 (a.pos.mul b.neg) (a.neg.mul b.pos),
         posInf := infOut, negInf := infOut, nan := a.nan || b.nan || infOut,
         negZero := a.negZero || b.negZero }

/-- `__and__` -/
def inter (a b : AbsFmt) : AbsFmt :=
  { prec := precMin a.prec b.prec, exp := expMax a.exp b.exp,
    pos := Bnd.min2 a.pos b.pos, neg := Bnd.max2 a.neg b.neg,
    posInf := a.posInf && b.posInf, negInf := a.negInf && b.negInf,
    nan := a.nan && b.nan, negZero := a.negZero && b.negZero }

/-- `__or__` -/
def union (a b : AbsFmt) : AbsFmt :=
  { prec := precMax a.prec b.prec, exp := expMin a.exp b.exp,
    pos := Bnd.max2 a.pos b.pos, neg := Bnd.min2 a.neg b.neg,
    posInf := a.posInf || b.posInf, negInf := a.negInf || b.negInf,
    nan := a.nan || b.nan, negZero := a.negZero || b.negZero }

/-- `specials_contained_in` -/
def specialsContainedIn (a b : AbsFmt) : Bool :=
  !((a.posInf && !b.posInf) || (a.negInf && !b.negInf) || (a.nan && !b.nan) || (a.negZero && !b.negZero))

/-- the precision test of `_is_contained_in` once it has been entered:
`self.prec > other.prec` must be compensated by `self`'s range lying below the cutoff
`2^(self.exp + other.prec)` -/
def precFits (a : AbsFmt) (pb : Nat) : Bool :=
  if precGt a.prec (some pb) then
    match a.exp with
    | none => false
    | some ea =>
      let cutoff : Bnd := .fin ⟨false, ea, 2 ^ pb⟩
      if a.pos.isFloat || Bnd.gt a.pos cutoff then false
      else if a.neg.isFloat || Bnd.gt a.neg.abs cutoff then false
      else true
  else true

/-- `_is_contained_in` (= `__le__`, `contained_in`): the precision test is entered whenever
`other.prec` is finite. -/
def le (a b : AbsFmt) : Bool :=
  if !specialsContainedIn a b then false
  else if expGt b.exp a.exp then false
  else if Bnd.lt b.pos a.pos then false
  else if Bnd.gt b.neg a.neg then false
  else match b.prec with
    | some pb => precFits a pb
    | none => true

/-- `with_prec_offset(delta)` (drops `has_neg_zero`, as the code does) -/
def withPrecOffset (a : AbsFmt) (delta : Int) : Except Err AbsFmt :=
  match a.prec with
  | none => .ok { prec := none, exp := a.exp, pos := a.pos, neg := a.neg,
                  posInf := a.posInf, negInf := a.negInf, nan := a.nan }
  | some p =>
    if (p : Int) + delta < 1 then .error .valueError
    else .ok { prec := some ((p : Int) + delta).toNat, exp := a.exp, pos := a.pos, neg := a.neg,
               posInf := a.posInf, negInf := a.negInf, nan := a.nan }

/-- `with_exp_offset(delta)` (drops `has_neg_zero`) -/
def withExpOffset (a : AbsFmt) (delta : Int) : AbsFmt :=
  { prec := a.prec, exp := a.exp.map (· + delta), pos := a.pos, neg := a.neg,
    posInf := a.posInf, negInf := a.negInf, nan := a.nan }

/-- `with_bounds_scale(factor)` for a `RealFloat` factor (drops `has_neg_zero`) -/
def withBoundsScale (a : AbsFmt) (f : RF) : Except Err AbsFmt :=
  if f.le (RF.ofInt 0) then .error .valueError
  else .ok { prec := a.prec, exp := a.exp, pos := a.pos.mulRaw (.fin f), neg := a.neg.mulRaw (.fin f),
             posInf := a.posInf, negInf := a.negInf, nan := a.nan }

/-- The finite-value part of `from_format`: which class of `Format` and which of its
attributes end up in which field.  (The four special flags are probed with
`fmt.representable_in` and passed in.) -/
inductive FmtShape
  | real
  | fixedUnsigned (expmin : Int) (posMax : RF)                 -- `FixedFormat`, `signed=False`
  | mpbFixed (expmin : Int) (posMax negMax : RF)               -- `MPBFixedFormat` (incl. signed `FixedFormat`)
  | mpFixed (expmin : Int)
  | expFmt (expmin : Int) (posMax : RF)                        -- `ExpFormat`
  | mpbFloat (pmax : Nat) (expmin : Int) (posMax negMax : RF)  -- `EFloatFormat`, `MPBFloatFormat`
  | mpsFloat (pmax : Nat) (expmin : Int)
  | mpFloat (pmax : Nat)
deriving DecidableEq, Repr

/-- `AbstractFormat.from_format` -/
def ofFormat (sh : FmtShape) (posInf negInf nan negZero : Bool) : AbsFmt :=
  let base : AbsFmt :=
    match sh with
    | .real => { prec := none, exp := none, pos := .inf false, neg := .inf true }
    | .fixedUnsigned e p => { prec := none, exp := some e, pos := .fin p, neg := .fin (RF.ofInt 0) }
    | .mpbFixed e p n => { prec := none, exp := some e, pos := .fin p, neg := .fin n }
    | .mpFixed e => sym none (some e) (.inf false)
    | .expFmt e p => { prec := some 1, exp := some e, pos := .fin p, neg := .fin (RF.ofInt 0) }
    | .mpbFloat pm e p n => { prec := some pm, exp := some e, pos := .fin p, neg := .fin n }
    | .mpsFloat pm e => sym (some pm) (some e) (.inf false)
    | .mpFloat pm => sym (some pm) none (.inf false)
  { base with posInf := posInf, negInf := negInf, nan := nan, negZero := negZero }

end AbsFmt
end Fpy
